//! C08: diagonal update (Metropolis and heat bath) — tape replays of whole sweeps, exact
//! threshold probes of every decision, and a model-independent detailed-balance oracle.
use crate::coqfmt as cq;
use crate::model::*;
use crate::tape::{SplitMix64, TapeRng, Word};
use crate::Args;
use qmc::sse::fast_ops::FastOps;
use qmc::sse::*;
use serde_json::json;
use std::panic::{catch_unwind, AssertUnwindSafe};

pub struct Config {
    pub h: TableHam,
    pub nvars: usize,
    pub l: usize,
    pub beta: f64,
    pub st0: Vec<bool>,
    pub sl0: Slots,
    pub hb: bool,
}

impl Config {
    pub fn coq(&self) -> String {
        format!(
            "{} {}%nat {} {} {} {}",
            self.h.coq(),
            self.l,
            cq::q(self.beta),
            cq::bools(&self.st0),
            slots_coq(&self.sl0),
            cq::b(self.hb)
        )
    }
}

pub fn bond_weights(h: &TableHam) -> BondWeights {
    let hh = h.clone();
    let hh2 = h.clone();
    FastOps::make_bond_weights(
        move |_vars: &[usize], b: usize, i: &[bool], o: &[bool]| hh.weight(b, i, o),
        h.nbonds(),
        |b| &hh2.vars[b][..],
    )
}

/// Run one diagonal update of the real code; returns (slots, state, n, log) or None on panic.
pub fn run_update(c: &Config, rng: &mut TapeRng) -> Option<(Slots, Vec<bool>, usize)> {
    let r = catch_unwind(AssertUnwindSafe(|| {
        let mut m = build_fastops(c.nvars, &c.sl0, None);
        let mut st = c.st0.clone();
        let ham = HamRef(&c.h);
        if c.hb {
            let bw = bond_weights(&c.h);
            m.make_heatbath_diagonal_update_with_rng_and_state_ref(c.l, c.beta, &mut st, &ham, &bw, rng);
        } else {
            m.make_diagonal_update_with_rng_and_state_ref(c.l, c.beta, &mut st, &ham, rng);
        }
        (read_slots(&m), st, m.get_n())
    }));
    r.ok()
}

fn random_config(rng: &mut SplitMix64, thorough: bool, hb: bool) -> Config {
    let nvars = 1 + rng.below(5) as usize;
    let nbonds = 1 + rng.below(6) as usize;
    let h = random_table(rng, nvars, nbonds, 3);
    let lmax = if thorough { 40 } else { 12 };
    let l = 1 + rng.below(lmax) as usize;
    let beta = [0.125, 0.25, 0.5, 1.0, 2.0, 4.0][rng.below(6) as usize];
    // containers shorter than, equal to and (rarely) longer than the cutoff
    // (longer: the allocated container exceeds the cutoff handed to the update, as after a lowered
    //  cutoff or a manager swap; the operators sit in the first l slots, so count < cutoff can hold)
    let (len, extra) = match rng.below(10) {
        0 => (rng.below(l as u64 + 1) as usize, 0),
        1 | 2 => (l, 1 + rng.below(4) as usize),
        _ => (l, 0),
    };
    let (fa, fb) = [(1, 4), (1, 2), (3, 4), (9, 10)][rng.below(4) as usize];
    let (st0, mut sl0) = random_string(rng, &h, nvars, len, fa, fb);
    for _ in 0..extra {
        sl0.push(None);
    }
    Config { h, nvars, l, beta, st0, sl0, hb }
}

// ---------------------------------------------------------------------------------------------
// threshold probes on slot 0
fn bisect<F: Fn(u64) -> bool>(accept: F) -> u128 {
    // accept is monotone: true for v < t. Returns t in 0..=2^64.
    if !accept(0) {
        return 0;
    }
    if accept(u64::MAX) {
        return 1u128 << 64;
    }
    let (mut lo, mut hi) = (0u64, u64::MAX); // accept(lo) && !accept(hi)
    while hi - lo > 1 {
        let mid = lo + (hi - lo) / 2;
        if accept(mid) {
            lo = mid
        } else {
            hi = mid
        }
    }
    hi as u128
}

fn unif_word(b: usize, nb: usize) -> u64 {
    // a word for which gen_range(0..nb) returns b and is not in the rejection zone
    ((((b as u128) << 64) + (1u128 << 62)) / nb as u128) as u64
}

fn slot_at(c: &Config, script: Vec<u64>, p: usize) -> Option<Option<MOp>> {
    let mut rng = TapeRng::scripted(script, 7);
    rng.logging = false;
    run_update(c, &mut rng).map(|(sl, _, _)| sl[p].clone())
}

fn slot0(c: &Config, script: Vec<u64>) -> Option<Option<MOp>> {
    slot_at(c, script, 0)
}

/// Second-slot oracle (model independent): slot 0 holds a diagonal op that the scripted words remove,
/// so the count current at slot 1 is n0 - 1; measure insertion (slot 1 empty) and removal (slot 1 = op b)
/// there and compare their ratio with beta w / (L - n_live).
pub fn live_count_oracle(c: &Config) -> Vec<serde_json::Value> {
    let two64 = 18446744073709551616.0f64;
    let mut fails = vec![];
    let nb = c.h.nbonds();
    if c.l < 2 || c.sl0.len() < c.l {
        return fails;
    }
    let o0 = match &c.sl0[0] {
        Some(o) if o.is_diag() => o.clone(),
        _ => return fails,
    };
    if c.sl0[1].is_some() {
        return fails;
    }
    let n0 = c.sl0.iter().flatten().count();
    // words that make slot 0's removal certain, from the documented acceptance rule
    let w0 = c.h.weight(o0.bond, &o0.ins, &o0.ins);
    let prefix: Vec<u64> = if c.hb {
        vec![0]
    } else if ((c.l - n0 + 1) as f64) >= c.beta * nb as f64 * w0 {
        vec![]
    } else {
        vec![0]
    };
    // sanity: the prefix really empties slot 0
    let mut chk = prefix.clone();
    chk.extend_from_slice(&[u64::MAX, u64::MAX, u64::MAX]);
    if !matches!(slot_at(c, chk, 0), Some(None)) {
        return fails;
    }
    let n_live = n0 - 1;
    for b in 0..nb {
        let sub: Vec<bool> = c.h.vars[b].iter().map(|v| c.st0[*v]).collect();
        let w = c.h.weight(b, &sub, &sub);
        if w <= 0.0 {
            continue;
        }
        let with = |tail: Vec<u64>| {
            let mut s = prefix.clone();
            s.extend(tail);
            s
        };
        let p_ins = if !c.hb {
            let t = bisect(|v| matches!(slot_at(c, with(vec![unif_word(b, nb), v]), 1), Some(Some(_))));
            (t as f64 / two64) / nb as f64
        } else {
            let cw = match choose_word(&c.h, b) {
                Some(x) => x,
                None => continue,
            };
            let t_ins = bisect(|v| matches!(slot_at(c, with(vec![v, 0, cw]), 1), Some(Some(_))));
            let t_acc = bisect(|v| matches!(slot_at(c, with(vec![0, v, cw]), 1), Some(Some(_))));
            // P(choose b) = maxweight_b / sum of maxweights, from the table itself
            let mw: Vec<f64> = (0..nb).map(|i| c.h.diag[i].iter().cloned().fold(0.0, f64::max)).collect();
            (t_ins as f64 / two64) * (mw[b] / mw.iter().sum::<f64>()) * (t_acc as f64 / two64)
        };
        let mut c2 = Config { h: c.h.clone(), nvars: c.nvars, l: c.l, beta: c.beta, st0: c.st0.clone(), sl0: c.sl0.clone(), hb: c.hb };
        c2.sl0[1] = Some(MOp { vars: c.h.vars[b].clone(), bond: b, ins: sub.clone(), outs: sub.clone(), constant: c.h.consts[b] });
        // removal of slot 0 in c2: count is n0 + 1 there
        let prefix2: Vec<u64> = if c.hb {
            vec![0]
        } else if ((c.l - (n0 + 1) + 1) as f64) >= c.beta * nb as f64 * w0 {
            vec![]
        } else {
            vec![0]
        };
        let t_rem = bisect(|v| {
            let mut s = prefix2.clone();
            s.push(v);
            matches!(slot_at(&c2, s, 1), Some(None))
        });
        let p_rem = t_rem as f64 / two64;
        let want = c.beta * w / (c.l - n_live) as f64;
        let got = p_ins / p_rem;
        if p_rem <= 0.0 || (got - want).abs() > 1e-9 * (1.0 + want) {
            fails.push(json!({"what": format!("at the second slot, after slot 0 was emptied in the same sweep: P_ins/P_rem = {} but beta*w/(L-n) = {} with the live count n = {}", got, want, n_live),
                "variant": if c.hb {"heatbath"} else {"metropolis"}, "L": c.l, "n_at_sweep_start": n0, "beta": c.beta, "bond": b, "w": w,
                "table": {"vars": c.h.vars, "diag": c.h.diag}, "state": c.st0}));
        }
    }
    fails
}

pub struct Probe {
    pub kind: usize,
    pub b: usize,
    pub t: u128,
}

fn choose_word(h: &TableHam, b: usize) -> Option<u64> {
    // a word that makes the weighted bond choice (over max weights) return b
    let mw: Vec<f64> = (0..h.nbonds()).map(|i| h.diag[i].iter().cloned().fold(0.0, f64::max)).collect();
    let total: f64 = mw.iter().sum();
    if mw[b] <= 0.0 {
        return None;
    }
    let x = mw[..b].iter().sum::<f64>() + 0.25 * mw[b];
    Some(((x / total) * 18446744073709551616.0) as u64)
}

/// All probes for configuration `c` whose slot 0 is empty (insert side) or holds a diagonal op (remove side).
pub fn probes(c: &Config) -> Vec<Probe> {
    let mut out = vec![];
    let nb = c.h.nbonds();
    match &c.sl0[0] {
        None => {
            if !c.hb {
                for b in 0..nb {
                    let t = bisect(|v| matches!(slot0(c, vec![unif_word(b, nb), v]), Some(Some(_))));
                    out.push(Probe { kind: 0, b, t });
                }
            } else {
                let sub_w = |b: usize| {
                    let sub: Vec<bool> = c.h.vars[b].iter().map(|v| c.st0[*v]).collect();
                    c.h.weight(b, &sub, &sub)
                };
                if let Some(b0) = (0..nb).find(|b| sub_w(*b) > 0.0) {
                    if let Some(w) = choose_word(&c.h, b0) {
                        let t = bisect(|v| matches!(slot0(c, vec![v, 0, w]), Some(Some(_))));
                        out.push(Probe { kind: 2, b: b0, t });
                    }
                }
                for b in 0..nb {
                    if let Some(w) = choose_word(&c.h, b) {
                        let t = bisect(|v| matches!(slot0(c, vec![0, v, w]), Some(Some(_))));
                        out.push(Probe { kind: 3, b, t });
                    }
                }
                if (0..nb).all(|b| sub_w(b) > 0.0) {
                    for b in 0..nb {
                        let t = bisect(|v| match slot0(c, vec![0, 0, v]) {
                            Some(Some(o)) => o.bond <= b,
                            _ => false,
                        });
                        out.push(Probe { kind: 5, b, t });
                    }
                }
            }
        }
        Some(o) if o.is_diag() => {
            let t = bisect(|v| matches!(slot0(c, vec![v]), Some(None)));
            out.push(Probe { kind: if c.hb { 4 } else { 1 }, b: o.bond, t });
        }
        _ => {}
    }
    out
}

/// Model-independent detailed-balance oracle: P_ins(b; n) / P_rem(b; n+1) == beta w_b / (L - n).
pub fn balance_oracle(c_empty: &Config, pr_empty: &[Probe]) -> Vec<serde_json::Value> {
    let two64 = 18446744073709551616.0f64;
    let mut fails = vec![];
    let nb = c_empty.h.nbonds();
    let n = c_empty.sl0.iter().filter(|o| o.is_some()).count();
    if c_empty.l <= n {
        return fails;
    }
    for b in 0..nb {
        let sub: Vec<bool> = c_empty.h.vars[b].iter().map(|v| c_empty.st0[*v]).collect();
        let w = c_empty.h.weight(b, &sub, &sub);
        if w <= 0.0 {
            continue;
        }
        // insertion probability measured on the implementation
        let get = |kind: usize, bb: usize| pr_empty.iter().find(|p| p.kind == kind && p.b == bb).map(|p| p.t as f64 / two64);
        let p_ins = if !c_empty.hb {
            // gen_range(0..nb) is uniform by rand's contract; unif_word(b, nb) selecting bond b in
            // probe kind 0 confirms that this is the call the implementation makes
            get(0, b).unwrap() / nb as f64
        } else {
            let hi = match get(5, b) {
                Some(x) => x,
                None => continue,
            };
            let lo = if b == 0 { 0.0 } else { get(5, b - 1).unwrap() };
            let ins = match get(2, pr_empty.iter().find(|p| p.kind == 2).map(|p| p.b).unwrap_or(0)) {
                Some(x) => x,
                None => continue,
            };
            ins * (hi - lo) * get(3, b).unwrap_or(0.0)
        };
        // removal probability: same configuration with the op placed in slot 0
        let mut c2 = Config { h: c_empty.h.clone(), nvars: c_empty.nvars, l: c_empty.l, beta: c_empty.beta,
            st0: c_empty.st0.clone(), sl0: c_empty.sl0.clone(), hb: c_empty.hb };
        c2.sl0[0] = Some(MOp { vars: c_empty.h.vars[b].clone(), bond: b, ins: sub.clone(), outs: sub.clone(), constant: c_empty.h.consts[b] });
        let pr2 = probes(&c2);
        let p_rem = pr2[0].t as f64 / two64;
        let want = c_empty.beta * w / (c_empty.l - n) as f64;
        let got = p_ins / p_rem;
        if p_rem <= 0.0 || ((got - want).abs() > 1e-9 * (1.0 + want)) {
            fails.push(json!({"what": format!("P_ins/P_rem = {} but beta*w/(L-n) = {}", got, want),
                "variant": if c_empty.hb {"heatbath"} else {"metropolis"},
                "L": c_empty.l, "n": n, "beta": c_empty.beta, "bond": b, "w": w, "p_ins": p_ins, "p_rem": p_rem,
                "table": {"vars": c_empty.h.vars, "diag": c_empty.h.diag}, "state": c_empty.st0}));
        }
    }
    fails
}

fn words_of(log: &[Word]) -> String {
    cq::words(log)
}

pub fn run(args: &Args) -> serde_json::Value {
    let mut rng = SplitMix64::new(args.seed ^ 0xC08);
    let n_sweeps = if args.thorough { 20000 } else { 1200 };
    let n_probe_cfg = if args.thorough { 1500 } else { 150 };
    let mut coq = vec![];
    let mut samples = vec![];
    let mut oracle_failures = vec![];
    let mut hist_l = std::collections::BTreeMap::new();
    let mut n_hb = 0;
    let mut n_offdiag_cases = 0;
    let mut n_clipped = 0;
    let mut distinct = std::collections::HashSet::new();
    let mut total_words = 0usize;
    for i in 0..n_sweeps {
        let hb = i % 2 == 1;
        let c = random_config(&mut rng, args.thorough, hb);
        let mut trng = TapeRng::new(rng.next());
        let res = run_update(&c, &mut trng);
        *hist_l.entry(c.l).or_insert(0usize) += 1;
        if hb {
            n_hb += 1
        }
        if c.sl0.iter().flatten().any(|o| !o.is_diag()) {
            n_offdiag_cases += 1
        }
        total_words += trng.log.len();
        distinct.insert(format!("{:?}{:?}{:?}{}{}", c.h.diag, c.sl0, c.st0, c.l, c.beta));
        let case = match &res {
            Some((sl, st, n)) => {
                // model-independent checks on the result: off-diagonal ops untouched, world line intact
                let off_ok = c.sl0.iter().enumerate().all(|(p, o)| match o {
                    Some(o) if !o.is_diag() => sl.get(p).map(|x| x.as_ref() == Some(o)).unwrap_or(false),
                    _ => true,
                });
                if !off_ok {
                    oracle_failures.push(json!({"what": "an off-diagonal operator was altered by the diagonal update", "index": i}));
                }
                if st != &c.st0 || !naive_wf(st, sl) {
                    // the state handed back is the propagated state at the end of the sweep == state at p=0
                    oracle_failures.push(json!({"what": "world line broken by the diagonal update", "index": i}));
                }
                if *n != sl.iter().filter(|o| o.is_some()).count() {
                    oracle_failures.push(json!({"what": "reported n differs from number of stored ops", "index": i}));
                }
                format!("C08.Sweep {} {} {} {} {}%nat false", c.coq(), words_of(&trng.log), slots_coq(sl), cq::bools(st), n)
            }
            None => {
                oracle_failures.push(json!({"what": "diagonal update panicked", "index": i, "L": c.l, "beta": c.beta,
                    "table": {"vars": c.h.vars, "diag": c.h.diag}}));
                format!("C08.Sweep {} {} [] [] 0%nat true", c.coq(), words_of(&trng.log))
            }
        };
        if i % 401 == 0 {
            samples.push(json!({"kind": "sweep", "heatbath": hb, "L": c.l, "beta": c.beta, "nvars": c.nvars,
                "nbonds": c.h.nbonds(), "n_before": c.sl0.iter().flatten().count(), "words": trng.log.len()}));
        }
        coq.push(case);
    }
    // probes
    let mut n_probes = 0;
    let mut n_live_oracle = 0;
    for i in 0..n_probe_cfg {
        let hb = i % 2 == 1;
        let mut c = random_config(&mut rng, false, hb);
        if c.sl0.is_empty() || c.sl0.len() < c.l {
            continue;
        }
        // free slot 0 (keeping the world line valid: only drop it if it is empty or diagonal)
        if let Some(o) = &c.sl0[0] {
            if !o.is_diag() {
                continue;
            }
        }
        c.sl0[0] = None;
        let n = c.sl0.iter().flatten().count();
        if n >= c.l {
            continue;
        }
        let pr = probes(&c);
        for p in &pr {
            if p.t == (1u128 << 64) {
                n_clipped += 1
            }
            coq.push(format!("C08.Probe {} {}%nat {}%nat {}%N", c.coq(), p.kind, p.b, p.t));
            n_probes += 1;
        }
        oracle_failures.extend(balance_oracle(&c, &pr).into_iter().take(3));
        // live-count oracle on the same configuration with a diagonal op placed in slot 0 and slot 1 freed
        if c.l >= 2 {
            if let Some(b0) = (0..c.h.nbonds()).find(|b| { let sub: Vec<bool> = c.h.vars[*b].iter().map(|v| c.st0[*v]).collect(); c.h.weight(*b, &sub, &sub) > 0.0 }) {
                let ok1 = match &c.sl0[1] { None => true, Some(o) => o.is_diag() };
                if ok1 {
                    let sub: Vec<bool> = c.h.vars[b0].iter().map(|v| c.st0[*v]).collect();
                    let mut c3 = Config { h: c.h.clone(), nvars: c.nvars, l: c.l, beta: c.beta, st0: c.st0.clone(), sl0: c.sl0.clone(), hb };
                    c3.sl0[0] = Some(MOp { vars: c.h.vars[b0].clone(), bond: b0, ins: sub.clone(), outs: sub, constant: c.h.consts[b0] });
                    c3.sl0[1] = None;
                    if c3.sl0.iter().flatten().count() < c3.l {
                        n_live_oracle += 1;
                        oracle_failures.extend(live_count_oracle(&c3).into_iter().take(2));
                    }
                }
            }
        }
        // removal side probes as cases as well
        for b in 0..c.h.nbonds() {
            let sub: Vec<bool> = c.h.vars[b].iter().map(|v| c.st0[*v]).collect();
            if c.h.weight(b, &sub, &sub) > 0.0 {
                let mut c2 = Config { h: c.h.clone(), nvars: c.nvars, l: c.l, beta: c.beta, st0: c.st0.clone(), sl0: c.sl0.clone(), hb };
                c2.sl0[0] = Some(MOp { vars: c.h.vars[b].clone(), bond: b, ins: sub.clone(), outs: sub, constant: c.h.consts[b] });
                for p in probes(&c2) {
                    if p.t == (1u128 << 64) {
                        n_clipped += 1
                    }
                    coq.push(format!("C08.Probe {} {}%nat {}%nat {}%N", c2.coq(), p.kind, p.b, p.t));
                    n_probes += 1;
                }
            }
        }
        if i % 50 == 0 {
            samples.push(json!({"kind": "probe-config", "heatbath": hb, "L": c.l, "n": n, "beta": c.beta,
                "thresholds": pr.iter().map(|p| json!([p.kind, p.b, p.t.to_string()])).collect::<Vec<_>>()}));
        }
    }
    oracle_failures.truncate(50);
    // a slot-level balance failure of the Metropolis program is also a concrete failing input for the
    // default samplers' convergence (C01, C04), one of the heat-bath program for C02
    for f in oracle_failures.iter_mut() {
        let prop = match f.get("variant").and_then(|v| v.as_str()) {
            Some("metropolis") => "C08,C01,C04",
            Some("heatbath") => "C08,C02",
            _ => "C08,C01,C02,C04",
        };
        f["prop"] = json!(prop);
    }
    let files = crate::write_shards(&args.out, "C08", "C08", &coq, if args.thorough { 700 } else { 120 });
    json!({"files": files, "evaluations": coq.len(), "distinct_nontrivial": distinct.len() + n_probes,
        "sweeps": n_sweeps, "heatbath_sweeps": n_hb, "sweeps_with_offdiagonal_ops": n_offdiag_cases,
        "threshold_probes": n_probes, "live_count_oracle_configs": n_live_oracle, "probes_in_clipped_regime": n_clipped, "raw_words_replayed": total_words,
        "cutoff_histogram": hist_l, "oracle_failures": oracle_failures, "samples": samples,
        "rule": "random table Hamiltonians (1-5 vars, 1-6 bonds of arity 1-3, dyadic weights incl. zero), random valid operator strings with off-diagonal ops, cutoff 1..12 (40 thorough), beta in {1/8..4}; whole sweeps replayed on the raw RNG tape; per-decision thresholds bisected to the exact word; distinct = distinct (table, string, state, L, beta) + number of probes"})
}

pub fn debug(_args: &Args) -> serde_json::Value {
    let h = TableHam { vars: vec![vec![0], vec![0]], consts: vec![false, false], diag: vec![vec![0.25, 0.25], vec![6.0, 6.0]], offw: 1.0 };
    let op0 = MOp { vars: vec![0], bond: 0, ins: vec![false], outs: vec![false], constant: false };
    let c = Config { h, nvars: 1, l: 2, beta: 2.0, st0: vec![false], sl0: vec![Some(op0.clone()), None], hb: true };
    let two64 = 18446744073709551616.0f64;
    let cw = choose_word(&c.h, 0).unwrap();
    let t_ins = bisect(|v| matches!(slot_at(&c, vec![0, v, 0, cw], 1), Some(Some(_))));
    let t_acc = bisect(|v| matches!(slot_at(&c, vec![0, 0, v, cw], 1), Some(Some(_))));
    eprintln!("t_ins {} t_acc {} cw {}", t_ins as f64 / two64, t_acc as f64 / two64, cw);
    let mut c2 = Config { h: c.h.clone(), nvars: 1, l: 2, beta: 2.0, st0: vec![false], sl0: vec![Some(op0.clone()), Some(op0.clone())], hb: true };
    let t_rem = bisect(|v| matches!(slot_at(&c2, vec![0, v], 1), Some(None)));
    eprintln!("t_rem {}", t_rem as f64 / two64);
    c2.sl0[0] = None;
    let t_rem1 = bisect(|v| matches!(slot_at(&c2, vec![v], 1), Some(None)));
    eprintln!("t_rem single {}", t_rem1 as f64 / two64);
    for v in [0u64, 1 << 60, 1 << 62, 1 << 63] {
        let mut rng = TapeRng::scripted(vec![0, v], 7);
        c2.sl0[0] = Some(op0.clone());
        let r = run_update(&c2, &mut rng);
        eprintln!("v={} -> {:?} log {:?}", v, r.map(|x| (x.0, x.2)), rng.log);
    }
    json!({})
}
