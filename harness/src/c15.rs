//! C15: Ising -> generic conversion: carried-over state, Hamiltonian elements, offsets, lock-step trajectory.
use crate::coqfmt as cq;
use crate::ising::*;
use crate::model::*;
use crate::tape::{SplitMix64, TapeRng};
use crate::Args;
use qmc::sse::*;
use serde_json::json;
use std::panic::{catch_unwind, AssertUnwindSafe};

fn bits(idx: usize, n: usize) -> Vec<bool> {
    (0..n).map(|k| (idx >> (n - 1 - k)) & 1 == 1).collect()
}

pub fn run(args: &Args) -> serde_json::Value {
    let mut rng = SplitMix64::new(args.seed ^ 0xC15);
    let n_cases = if args.thorough { 3000 } else { 260 };
    let mut coq = vec![];
    let mut samples = vec![];
    let mut oracle_failures: Vec<serde_json::Value> = vec![];
    let mut distinct = std::collections::HashSet::new();
    let mut n_h = 0;
    let mut n_after_steps = 0;
    let mut n_lockstep = 0usize;
    let mut n_cut_below_nvars = 0;
    let mut n_shrunk = 0usize;
    let mut n_wf_checks = 0usize;
    let mut n_extended = 0usize;
    for ci in 0..n_cases {
        let mut spec = random_ising(&mut rng, 5, true);
        spec.hb = false; // the trajectory clause is for the default update pipeline
        if ci % 6 == 5 {
            spec.gamma = 0.0; // the classical limit is a legal input too
        }
        if spec.h != 0.0 {
            n_h += 1
        }
        let k = if ci % 3 == 0 { 0 } else { 1 + rng.below(8) as usize };
        let beta = [0.5, 1.0, 2.0, 4.0][rng.below(4) as usize];
        let mut g = spec.build(TapeRng::new(rng.next()));
        for _ in 0..k {
            g.timestep(beta);
        }
        // half of the stepped samplers are cooled-then-heated: the operator count at conversion time lies well
        // below the count that fixed the cutoff, so occupied slots exist far beyond n + n/2
        let shrunk = k > 0 && ci % 2 == 1;
        if shrunk {
            for _ in 0..(2 + rng.below(4)) {
                g.timestep(8.0);
            }
            for _ in 0..(1 + rng.below(2)) {
                g.timestep(0.25);
            }
            n_shrunk += 1;
        }
        if k > 0 {
            n_after_steps += 1
        }
        let (sl0, st0, c0) = snapshot_ising(&g);
        if c0 < spec.nvars {
            n_cut_below_nvars += 1
        }
        let g2 = g.clone();
        let ctx = json!({"edges": spec.edges, "gamma": spec.gamma, "h": spec.h, "initial_cutoff": spec.cutoff, "steps_before": k, "beta": beta});
        let r = catch_unwind(AssertUnwindSafe(|| g2.into_qmc()));
        let mut q = match r {
            Ok(q) => q,
            Err(_) => {
                oracle_failures.push(json!({"what": "into_qmc panicked for a sampler the library constructed", "context": ctx}));
                coq.push(format!("C15.Conv {} {}%nat {} {} true 0%nat [] [] (Qmake 0 1) [] false false", spec.coq(), c0, cq::bools(&st0), slots_coq(&sl0)));
                continue;
            }
        };
        let (sl1, st1, c1) = snapshot_qmc(&q);
        // carried over: state, operator string, cutoff
        if st1 != st0 || sl1 != sl0 || c1 != c0 {
            oracle_failures.push(json!({"what": format!("conversion did not carry over state / operator string / cutoff (cutoff {} -> {})", c0, c1), "context": ctx}));
        }
        // every carried-over operator must be a term of the CONVERTED Hamiltonian: its bond index must name an
        // interaction on exactly its variables, with its constant flag, and a positive matrix element (computed here
        // from J, Gamma, h of the Ising model, not through the library)
        for (p, o) in sl1.iter().enumerate() {
            if let Some(o) = o {
                let inter = q.get_bonds().get(o.bond);
                // the interaction's variable list is private: read it through its serde form
                let vars_ok = inter.map_or(false, |it| serde_json::to_value(it).ok().and_then(|v| serde_json::from_value::<Vec<usize>>(v["vars"].clone()).ok()) == Some(o.vars.clone()));
                let const_ok = inter.map_or(false, |it| it.is_constant() == o.constant);
                let w = if o.bond < spec.nbonds() && spec.bond_vars(o.bond) == o.vars { spec.weight(o.bond, &o.ins, &o.outs) } else { -1.0 };
                if !vars_ok || !const_ok || !(w > 0.0) {
                    oracle_failures.push(json!({"prop": "C07,C15", "what": format!("after conversion the operator at slot {} ({:?}) is not a legal term of the converted sampler's interaction {}: variables match {}, constant flag matches {}, matrix element {}", p, o, o.bond, vars_ok, const_ok, w), "context": ctx}));
                    break;
                }
            }
        }
        // Hamiltonian: every matrix element of every converted bond
        let mut elements: Vec<Vec<Option<f64>>> = vec![];
        for (b, it) in q.get_bonds().iter().enumerate() {
            let n = spec.bond_vars(b).len();
            let mut row = vec![];
            for outs in 0..(1usize << n) {
                for ins in 0..(1usize << n) {
                    let (i, o) = (bits(ins, n), bits(outs, n));
                    let w = it.at(&i, &o).ok();
                    // same Hamiltonian up to a constant: elements equal those of the Ising sampler (diagonal field terms)
                    let want = if b >= spec.edges.len() + spec.nvars && i != o { 0.0 } else { spec.weight(b, &i, &o) };
                    if w != Some(want) {
                        oracle_failures.push(json!({"what": format!("bond {} element (ins {}, outs {}) is {:?}, Ising sampler has {}", b, ins, outs, w, want), "context": ctx}));
                    }
                    row.push(w);
                }
            }
            elements.push(row);
        }
        if q.get_bonds().len() != spec.nbonds() {
            oracle_failures.push(json!({"what": "number of converted bonds differs", "context": ctx}));
        }
        // energies differ by one run-independent constant: N * Gamma
        let de: Vec<f64> = [0.0, 1.5, 7.25].iter().map(|x| g.get_energy_for_average_n(*x, beta) - q.get_energy_for_average_n(*x, beta)).collect();
        if de.iter().any(|d| (d - spec.nvars as f64 * spec.gamma).abs() > 1e-9) {
            oracle_failures.push(json!({"what": format!("energy difference {:?} is not the constant N*Gamma = {}", de, spec.nvars as f64 * spec.gamma), "context": ctx}));
        }
        // lock-step trajectory from the same RNG state
        let m = 6 + rng.below(8) as usize;
        let mut diverged_at: Option<usize> = None;
        // the converted sampler must hold a consistent periodic world line right after conversion and after every call
        let (slq, stq, _) = snapshot_qmc(&q);
        n_wf_checks += 1;
        if !naive_wf(&stq, &slq) {
            oracle_failures.push(json!({"prop": "C06,C15", "what": "world line inconsistent right after conversion", "context": ctx}));
        }
        let lock_beta = if shrunk { 0.25 } else { beta };
        let mut broken_at: Option<usize> = None;
        let lock = catch_unwind(AssertUnwindSafe(|| {
            let mut d = None;
            let mut w = None;
            for s in 0..m {
                let a = g.timestep(lock_beta).to_vec();
                let b = q.timestep(lock_beta).to_vec();
                if a != b && d.is_none() {
                    d = Some(s);
                }
                let (slq, stq, _) = snapshot_qmc(&q);
                if w.is_none() && !naive_wf(&stq, &slq) {
                    w = Some(s);
                }
            }
            (d, w)
        }));
        n_wf_checks += m;
        match lock {
            Ok((d, w)) => {
                diverged_at = d;
                broken_at = w;
            }
            Err(_) => oracle_failures.push(json!({"prop": "C06,C15", "what": "a sampler panicked during lock-step after conversion (debug integrity / arithmetic check)", "context": ctx})),
        }
        if let Some(s) = broken_at {
            oracle_failures.push(json!({"prop": "C06,C15", "what": format!("world line of the converted sampler inconsistent after its time step {} following the conversion", s), "context": ctx}));
        }
        n_lockstep += m;
        if let Some(s) = diverged_at {
            if spec.h != 0.0 {
                oracle_failures.push(json!({"key": "h-nonzero-trajectory", "what": format!("trajectory diverges at step {} after conversion (h != 0)", s), "context": ctx}));
            } else {
                oracle_failures.push(json!({"what": format!("spin-state trajectory diverges at step {} after conversion (h = 0)", s), "context": ctx}));
            }
        }
        distinct.insert(format!("{:?}{:?}{}", sl0, st0, c0));
        coq.push(format!("C15.Conv {} {}%nat {} {} false {}%nat {} {} {} {} {} {}", spec.coq(), c0, cq::bools(&st0), slots_coq(&sl0),
            c1, cq::bools(&st1), slots_coq(&sl1), cq::q(q.get_offset()),
            cq::list(&elements, |row| cq::list(row, |x| cq::opt(x, |v| cq::q(*v)))),
            cq::b(q.should_do_cluster_update()), cq::b(q.should_do_loop_update())));
        // The converted sampler is an ordinary generic sampler: further interactions may be added to it. The container
        // it inherited was sized for the Ising bonds; the per-bond counts must keep agreeing with a scan (C11) and no
        // update may panic (C15: the converted sampler is usable like any other).
        if ci % 4 == 1 && lock.is_ok() {
            let nb_before = 2 * spec.nvars + spec.edges.len() + 1; // generous upper bound on the bond indices in use
            let ext = catch_unwind(AssertUnwindSafe(|| {
                let v0 = rng.below(spec.nvars as u64) as usize;
                q.make_diagonal_interaction(vec![1.5, 0.75], vec![v0]).unwrap();
                let mut bad = None;
                for s in 0..6 {
                    q.timestep(lock_beta.max(1.0));
                    let (slq, _, _) = snapshot_qmc(&q);
                    for b in 0..=nb_before {
                        let scan = slq.iter().flatten().filter(|o| o.bond == b).count();
                        let got = q.get_bond_count(b);
                        if got != scan && bad.is_none() {
                            bad = Some(format!("after adding an interaction to the converted sampler and {} time steps: get_bond_count({}) = {} but a scan finds {}", s + 1, b, got, scan));
                        }
                    }
                }
                bad
            }));
            n_extended += 1;
            match ext {
                Ok(None) => {}
                Ok(Some(w)) => oracle_failures.push(json!({"prop": "C11,C15", "what": w, "context": ctx})),
                Err(_) => oracle_failures.push(json!({"prop": "C11,C15", "what": "the converted sampler panicked after one more interaction was added to it (make_diagonal_interaction on an existing spin, then time steps)", "context": ctx})),
            }
        }
        if ci % 37 == 0 {
            samples.push(json!({"nvars": spec.nvars, "edges": spec.edges.len(), "h": spec.h, "steps_before": k, "cutoff": c0, "n": sl0.iter().flatten().count(),
                "lockstep_steps": m, "diverged_at": diverged_at}));
        }
    }
    for f in oracle_failures.iter_mut() {
        if f.get("prop").is_none() {
            f["prop"] = json!("C15");
        }
    }
    // world-line failures first, so that a truncated list still shows them
    oracle_failures.sort_by_key(|f| match f["prop"].as_str() { Some("C15") => 2, Some("C07,C15") | Some("C11,C15") => 1, _ => 0 });
    crate::cap_failures(&mut oracle_failures, 25);
    let files = crate::write_shards(&args.out, "C15", "C15", &coq, 100);
    json!({"files": files, "evaluations": coq.len(), "distinct_nontrivial": distinct.len(), "with_longitudinal_field": n_h,
        "converted_after_steps": n_after_steps, "converted_after_count_shrank": n_shrunk, "world_line_checks_after_conversion": n_wf_checks, "converted_with_cutoff_below_nvars": n_cut_below_nvars, "lockstep_steps": n_lockstep, "converted_then_extended_by_an_interaction": n_extended,
        "oracle_failures": oracle_failures, "samples": samples,
        "rule": "random Ising samplers (2-5 spins, multi-edges, both signs, h = 0 / +-, initial cutoffs 1..8), converted before any step or after 1..8 steps; every matrix element of every converted bond, offset, flags, carried-over state/string/cutoff compared with the model; both samplers then advanced in lock-step from the same RNG state"})
}
