//! C10: replica exchange — tempering_step on real Ising ladders, replayed on the container's raw
//! words; swap thresholds bisected; model-independent oracle recomputes the weight ratio op by op.
use crate::coqfmt as cq;
use crate::ising::*;
use crate::model::*;
use crate::tape::{SplitMix64, TapeRng, Word};
use crate::Args;
use qmc::sse::rayon_tempering::ParallelQmcTimeSteps;
use qmc::sse::*;
use serde_json::json;
use std::panic::{catch_unwind, AssertUnwindSafe};

pub type TC = TemperingContainer<TapeRng, IG>;

pub struct Ladder {
    pub specs: Vec<IsingSpec>,
    pub betas: Vec<f64>,
}

pub fn random_ladder(rng: &mut SplitMix64, nrep: usize) -> Ladder {
    let base = random_ising(rng, 4, true);
    let kind = rng.below(3); // 0 beta ladder, 1 hamiltonian ladder, 2 both
    let mut specs = vec![];
    let mut betas = vec![];
    let scales = [0.5, 1.0, 1.5, 2.0];
    for i in 0..nrep {
        let mut s = base.clone();
        if kind >= 1 {
            let sc = scales[rng.below(4) as usize];
            for e in s.edges.iter_mut() {
                e.1 *= if rng.chance(1, 2) { sc } else { 1.0 };
            }
            s.gamma = [0.5, 1.0, 1.5][rng.below(3) as usize];
            if s.h != 0.0 {
                s.h *= scales[rng.below(4) as usize];
            }
        }
        s.cutoff = 1 + rng.below(6) as usize;
        s.state = (0..s.nvars).map(|_| rng.chance(1, 2)).collect();
        s.hb = rng.chance(1, 4);
        specs.push(s);
        betas.push(if kind == 1 { 1.0 } else { [0.25, 0.5, 1.0, 2.0][(i + rng.below(2) as usize) % 4] });
    }
    // a rung with the longitudinal field switched off next to rungs with a positive field: the container accepts it
    // (0.0 has the sign of +h); a configuration holding field operators has weight zero on that rung
    if base.h > 0.0 && nrep >= 2 && rng.chance(1, 3) {
        let i = rng.below(nrep as u64) as usize;
        specs[i].h = 0.0;
    }
    Ladder { specs, betas }
}

pub fn build(l: &Ladder, rng: &mut SplitMix64) -> TC {
    let mut tc: TC = TemperingContainer::new(TapeRng::new(rng.next()));
    for (s, b) in l.specs.iter().zip(l.betas.iter()) {
        tc.add_qmc_stepper(s.build(TapeRng::new(rng.next())), *b).unwrap();
    }
    tc
}

pub fn snapshot(tc: &TC) -> Vec<(Slots, Vec<bool>, usize)> {
    tc.graph_ref().iter().map(|(g, _)| snapshot_ising(g)).collect()
}

fn replica_coq(s: &IsingSpec, beta: f64, snap: &(Slots, Vec<bool>, usize)) -> String {
    format!("(mkReplica {} {} {}%nat {} {})", s.coq(), cq::q(beta), snap.2, cq::bools(&snap.1), slots_coq(&snap.0))
}

/// exact-ish weight of a configuration under a Hamiltonian, op by op (oracle side, f64)
fn log_weight_ratio(sa: &IsingSpec, ba: f64, ca: &Slots, sb: &IsingSpec, bb: f64, cb: &Slots) -> f64 {
    // W_a(C_b) W_b(C_a) / (W_a(C_a) W_b(C_b)), with equal cutoffs the (L-n)!/L! factors cancel pairwise
    let prod = |s: &IsingSpec, c: &Slots| -> f64 { c.iter().flatten().map(|o| s.weight(o.bond, &o.ins, &o.outs)).product() };
    let na = ca.iter().flatten().count() as i32;
    let nb = cb.iter().flatten().count() as i32;
    let num = ba.powi(nb) * prod(sa, cb) * bb.powi(na) * prod(sb, ca);
    let den = ba.powi(na) * prod(sa, ca) * bb.powi(nb) * prod(sb, cb);
    num / den
}

fn bisect<F: Fn(u64) -> bool>(accept: F) -> u128 {
    if !accept(0) {
        return 0;
    }
    if accept(u64::MAX) {
        return 1u128 << 64;
    }
    let (mut lo, mut hi) = (0u64, u64::MAX);
    while hi - lo > 1 {
        let mid = lo + (hi - lo) / 2;
        if accept(mid) {
            lo = mid
        } else {
            hi = mid
        }
    }
    hi as u128
}

pub fn run(args: &Args) -> serde_json::Value {
    let mut rng = SplitMix64::new(args.seed ^ 0xC10);
    let n_lad = if args.thorough { 1500 } else { 140 };
    let mut coq = vec![];
    let mut samples = vec![];
    let mut oracle_failures = vec![];
    let mut distinct = std::collections::HashSet::new();
    let mut n_steps = 0;
    let mut n_swaps = 0u64;
    let mut n_probes = 0;
    let mut n_unequal_cutoffs = 0;
    let mut n_indep = 0usize;
    let mut n_indep_nontrivial = 0usize;
    let mut hist_rep = std::collections::BTreeMap::new();
    for li in 0..n_lad {
        let nrep = 2 + rng.below(7) as usize;
        *hist_rep.entry(nrep).or_insert(0usize) += 1;
        let lad = random_ladder(&mut rng, nrep);
        let mut tc = build(&lad, &mut rng);
        let par = li % 3 == 2;
        // every fourth ladder runs many rounds: cutoffs keep growing by different amounts between tempering steps
        let rounds = if li % 4 == 1 { 8 + rng.below(6) as usize } else { 2 + rng.below(4) as usize };
        let mut last_cutoffs: Vec<usize> = vec![];
        let mut dead = false;
        for _ in 0..rounds {
            let nts = 1 + rng.below(5) as usize;
            let rts = catch_unwind(AssertUnwindSafe(|| tc.timesteps(nts)));
            if rts.is_err() {
                oracle_failures.push(json!({"prop": "C06", "what": "a replica's timestep panicked (debug integrity check) in a tempering run", "ladder": li,
                    "betas": lad.betas, "initial_cutoffs": lad.specs.iter().map(|s| s.cutoff).collect::<Vec<_>>()}));
                dead = true; // a sampler that panicked mid-update is not observable any more
                break;
            }
            let before = snapshot(&tc);
            for (i, s) in before.iter().enumerate() {
                if !naive_wf(&s.1, &s.0) {
                    oracle_failures.push(json!({"prop": "C06", "what": "world line inconsistent after time steps in a tempering run", "ladder": li, "position": i,
                        "betas": lad.betas, "initial_cutoffs": lad.specs.iter().map(|s| s.cutoff).collect::<Vec<_>>()}));
                }
            }
            if before.iter().any(|s| s.2 != before[0].2) {
                n_unequal_cutoffs += 1
            }
            let swaps0 = tc.get_total_swaps();
            tc.rng_mut().take_log();
            let r = catch_unwind(AssertUnwindSafe(|| {
                if par {
                    tc.parallel_tempering_step()
                } else {
                    tc.tempering_step()
                }
            }));
            n_steps += 1;
            let head = format!("{} {}", cq::b(par),
                cq::list(&(0..nrep).collect::<Vec<_>>(), |i| replica_coq(&lad.specs[*i], lad.betas[*i], &before[*i])));
            if r.is_err() {
                oracle_failures.push(json!({"what": "tempering_step panicked", "ladder": li}));
                coq.push(format!("C10.Step {} [] [] 0%nat true", head));
                dead = true;
                break;
            }
            let words = tc.rng_mut().take_log();
            let after = snapshot(&tc);
            let dswaps = tc.get_total_swaps() - swaps0;
            n_swaps += dswaps;
            distinct.insert(format!("{:?}", before));
            // C12 inside tempering runs: a position's reported cutoff never shrinks and never lies below its operator count
            for i in 0..nrep {
                let (nb, na) = (before[i].0.iter().flatten().count(), after[i].0.iter().flatten().count());
                if before[i].2 < nb || after[i].2 < na {
                    oracle_failures.push(json!({"prop": "C12,C10", "what": format!("position {} reports cutoff {} -> {} with operator count {} -> {} around a tempering step: cutoff below the operator count", i, before[i].2, after[i].2, nb, na),
                        "ladder": li, "replicas": nrep, "parallel": par, "betas": lad.betas, "initial_cutoffs": lad.specs.iter().map(|s| s.cutoff).collect::<Vec<_>>(),
                        "edges": lad.specs.iter().map(|s| s.edges.clone()).collect::<Vec<_>>(), "gammas": lad.specs.iter().map(|s| s.gamma).collect::<Vec<_>>(), "hs": lad.specs.iter().map(|s| s.h).collect::<Vec<_>>()}));
                }
                if after[i].2 < before[i].2 {
                    oracle_failures.push(json!({"prop": "C12,C10", "what": format!("position {} cutoff shrank {} -> {} in a tempering step", i, before[i].2, after[i].2), "ladder": li}));
                }
                if let Some(prev) = last_cutoffs.get(i) {
                    if before[i].2 < *prev {
                        oracle_failures.push(json!({"prop": "C12", "what": format!("position {} cutoff shrank {} -> {} during time steps of a tempering run", i, prev, before[i].2), "ladder": li}));
                    }
                }
            }
            last_cutoffs = after.iter().map(|s| s.2).collect();
            // --- oracle from the property text
            let maxc = before.iter().map(|s| s.2).max().unwrap();
            if after.iter().any(|s| s.2 != maxc) {
                oracle_failures.push(json!({"what": "replicas do not share the maximum cutoff after the step", "ladder": li}));
            }
            // each position keeps hamiltonian / beta / offset: check through the public getters
            for (i, (g, b)) in tc.graph_ref().iter().enumerate() {
                let s = &lad.specs[i];
                let edges_ok = g.get_edges().iter().zip(s.edges.iter()).all(|((v, j), ((a, bb), jj))| v[0] == *a && v[1] == *bb && j == jj);
                if !edges_ok || g.get_transverse_field() != s.gamma || g.get_longitudinal_field() != s.h || *b != lad.betas[i]
                    || (g.get_offset() - s.offset()).abs() > 1e-12 {
                    oracle_failures.push(json!({"what": "a ladder position lost its Hamiltonian / beta / offset", "ladder": li, "position": i}));
                }
                if !g.verify() {
                    oracle_failures.push(json!({"what": "verify() false after tempering step", "ladder": li, "position": i}));
                }
            }
            // configurations after are a permutation of configurations before; accepted exchanges are counted
            let mut moved = 0u64;
            for i in 0..nrep {
                if (after[i].0.iter().flatten().collect::<Vec<_>>(), &after[i].1) != (before[i].0.iter().flatten().collect::<Vec<_>>(), &before[i].1) {
                    moved += 1;
                }
            }
            let mut multiset_b: Vec<String> = before.iter().map(|s| format!("{:?}{:?}", s.0.iter().flatten().collect::<Vec<_>>(), s.1)).collect();
            let mut multiset_a: Vec<String> = after.iter().map(|s| format!("{:?}{:?}", s.0.iter().flatten().collect::<Vec<_>>(), s.1)).collect();
            multiset_b.sort();
            multiset_a.sort();
            if multiset_a != multiset_b {
                oracle_failures.push(json!({"what": "a swap changed a configuration instead of exchanging it", "ladder": li}));
            }
            if moved > 2 * dswaps {
                oracle_failures.push(json!({"what": "more configurations moved than exchanges counted", "ladder": li, "moved": moved, "counted": dswaps}));
            }
            // exact Metropolis rule replayed with the same uniforms (model-independent): order bit, then one
            // uniform per pair; accept iff W_a(C_b)W_b(C_a)/(W_a(C_a)W_b(C_b)) > u
            {
                let w64 = |w: &Word| match w { Word::W64(v) => *v, Word::W32(v) => (*v as u64) << 32 };
                let mut cur: Vec<(Slots, Vec<bool>)> = before.iter().map(|s| (s.0.clone(), s.1.clone())).collect();
                let a_first = w64(&words[0]) < (1u64 << 63);
                let pa: Vec<(usize, usize)> = (0..nrep / 2).map(|k| (2 * k, 2 * k + 1)).collect();
                let pb: Vec<(usize, usize)> = (0..(nrep - 1) / 2).map(|k| (2 * k + 1, 2 * k + 2)).collect();
                let seq: Vec<(usize, usize)> = if a_first { pa.iter().chain(pb.iter()).cloned().collect() } else { pb.iter().chain(pa.iter()).cloned().collect() };
                let mut undecided = false;
                let mut expect_swaps = 0u64;
                if words.len() == 1 + seq.len() {
                    for (k, (i, j)) in seq.iter().enumerate() {
                        let u = (w64(&words[1 + k]) >> 12) as f64 / 4503599627370496.0;
                        let ratio = log_weight_ratio(&lad.specs[*i], lad.betas[*i], &cur[*i].0, &lad.specs[*j], lad.betas[*j], &cur[*j].0);
                        let ratio = if ratio.is_nan() { 0.0 } else { ratio };
                        if (ratio - u).abs() < 1e-7 {
                            undecided = true;
                            break;
                        }
                        if ratio > u {
                            cur.swap(*i, *j);
                            expect_swaps += 1;
                        }
                    }
                    if !undecided {
                        let same = (0..nrep).all(|i| cur[i].0.iter().flatten().collect::<Vec<_>>() == after[i].0.iter().flatten().collect::<Vec<_>>() && cur[i].1 == after[i].1);
                        if !same || expect_swaps != dswaps {
                            oracle_failures.push(json!({"prop": "C05,C10", "what": "exchange decisions differ from the exact Metropolis rule min(1, W_a(C_b)W_b(C_a)/(W_a(C_a)W_b(C_b))) applied with the same uniforms",
                                "ladder": li, "replicas": nrep, "parallel": par, "betas": lad.betas, "gammas": lad.specs.iter().map(|s| s.gamma).collect::<Vec<_>>(),
                                "hs": lad.specs.iter().map(|s| s.h).collect::<Vec<_>>(), "edges": lad.specs.iter().map(|s| s.edges.clone()).collect::<Vec<_>>(),
                                "expected_exchanges": expect_swaps, "counted_exchanges": dswaps,
                                "n_before": before.iter().map(|s| s.0.iter().flatten().count()).collect::<Vec<_>>(),
                                "container_words": words.iter().map(|w| w64(w).to_string()).collect::<Vec<_>>()}));
                        }
                    }
                } else {
                    oracle_failures.push(json!({"what": "tempering step consumed an unexpected number of container RNG words", "ladder": li,
                        "words": words.len(), "expected": 1 + seq.len()}));
                }
            }
            coq.push(format!("C10.Step {} {} {} {}%nat false", head, cq::words(&words),
                cq::list(&after, |s| format!("({}%nat, {}, {})", s.2, cq::bools(&s.1), slots_coq(&s.0))), dswaps));
            if li % 29 == 0 {
                samples.push(json!({"replicas": nrep, "parallel": par, "betas": lad.betas, "cutoffs_before": before.iter().map(|s| s.2).collect::<Vec<_>>(),
                    "n_before": before.iter().map(|s| s.0.iter().flatten().count()).collect::<Vec<_>>(), "accepted": dswaps}));
            }
        }
        // --- independence probe (C05 / C10): the exchanges attempted in one pairing phase are separate Metropolis
        // tests, each with a uniform of its own.  The step is re-run from the present configurations on a scripted
        // container tape: pairing order word 0, then uniforms alternating between 2^-52 ("accept unless the ratio is
        // zero") and 1 - 2^-52 ("reject unless the ratio is >= 1").  Whatever way the implementation hands the drawn
        // uniforms to the pairs of a phase, SOME assignment of distinct uniforms to pairs must reproduce its decisions.
        if nrep >= 4 && !dead {
            let before = snapshot(&tc);
            let na = nrep / 2;
            let nb = (nrep - 1) / 2;
            let lo = 1u64 << 12;
            let hi = u64::MAX;
            let script: Vec<u64> = std::iter::once(0u64).chain((0..na + nb).map(|k| if k % 2 == 0 { lo } else { hi })).collect();
            let to_u = |w: u64| (w >> 12) as f64 / 4503599627370496.0;
            let mut c = tc.clone();
            *c.rng_mut() = TapeRng::scripted(script.clone(), 7);
            let r = catch_unwind(AssertUnwindSafe(|| if par { c.parallel_tempering_step() } else { c.tempering_step() }));
            if r.is_ok() {
                let after = snapshot(&c);
                let perms = |n: usize| -> Vec<Vec<usize>> {
                    let mut out = vec![vec![]];
                    for _ in 0..n {
                        let mut next = vec![];
                        for p in out.iter() {
                            for x in 0..n {
                                if !p.contains(&x) {
                                    let mut q = p.clone();
                                    q.push(x);
                                    next.push(q);
                                }
                            }
                        }
                        out = next;
                    }
                    out
                };
                let ua: Vec<f64> = script[1..1 + na].iter().map(|w| to_u(*w)).collect();
                let ub: Vec<f64> = script[1 + na..].iter().map(|w| to_u(*w)).collect();
                let mut explained = false;
                let mut outcomes = std::collections::HashSet::new();
                for pa in perms(na) {
                    for pb in perms(nb) {
                        let mut cur: Vec<(Slots, Vec<bool>)> = before.iter().map(|s| (s.0.clone(), s.1.clone())).collect();
                        let mut undecided = false;
                        for (k, ui) in pa.iter().enumerate() {
                            let (i, j) = (2 * k, 2 * k + 1);
                            let ratio = log_weight_ratio(&lad.specs[i], lad.betas[i], &cur[i].0, &lad.specs[j], lad.betas[j], &cur[j].0);
                            let ratio = if ratio.is_nan() { 0.0 } else { ratio };
                            undecided |= (ratio - ua[*ui]).abs() < 1e-7;
                            if ratio > ua[*ui] {
                                cur.swap(i, j);
                            }
                        }
                        for (k, ui) in pb.iter().enumerate() {
                            let (i, j) = (2 * k + 1, 2 * k + 2);
                            let ratio = log_weight_ratio(&lad.specs[i], lad.betas[i], &cur[i].0, &lad.specs[j], lad.betas[j], &cur[j].0);
                            let ratio = if ratio.is_nan() { 0.0 } else { ratio };
                            undecided |= (ratio - ub[*ui]).abs() < 1e-7;
                            if ratio > ub[*ui] {
                                cur.swap(i, j);
                            }
                        }
                        outcomes.insert(format!("{:?}", cur.iter().map(|c| (c.0.iter().flatten().collect::<Vec<_>>(), c.1.clone())).collect::<Vec<_>>()));
                        let same = (0..nrep).all(|i| cur[i].0.iter().flatten().collect::<Vec<_>>() == after[i].0.iter().flatten().collect::<Vec<_>>() && cur[i].1 == after[i].1);
                        if same || undecided {
                            explained = true;
                        }
                    }
                }
                n_indep += 1;
                if outcomes.len() > 1 {
                    n_indep_nontrivial += 1;
                }
                if !explained {
                    oracle_failures.push(json!({"prop": "C05,C10", "what": "the exchanges of one pairing phase are not separate Metropolis tests: with the container uniforms scripted to alternate between 2^-52 and 1-2^-52 no assignment of one drawn uniform per pair reproduces the decisions taken",
                        "ladder": li, "replicas": nrep, "parallel": par, "betas": lad.betas, "gammas": lad.specs.iter().map(|s| s.gamma).collect::<Vec<_>>(),
                        "hs": lad.specs.iter().map(|s| s.h).collect::<Vec<_>>(), "edges": lad.specs.iter().map(|s| s.edges.clone()).collect::<Vec<_>>(),
                        "n_before": before.iter().map(|s| s.0.iter().flatten().count()).collect::<Vec<_>>(),
                        "scripted_container_words": script.iter().map(|w| w.to_string()).collect::<Vec<_>>(),
                        "n_after": after.iter().map(|s| s.0.iter().flatten().count()).collect::<Vec<_>>()}));
                }
            }
        }
        // --- threshold probe on the first pair of a fresh 2- or 3-replica prefix of this ladder
        if nrep >= 2 && li % 2 == 0 {
            let sub = Ladder { specs: lad.specs[..2].to_vec(), betas: lad.betas[..2].to_vec() };
            let mut t2 = build(&sub, &mut rng);
            t2.timesteps(2 + rng.below(6) as usize);
            let before = snapshot(&t2);
            let probe = |v: u64| -> bool {
                let mut c = t2.clone();
                *c.rng_mut() = TapeRng::scripted(vec![0, v], 5);
                let s0 = c.get_total_swaps();
                c.tempering_step();
                c.get_total_swaps() > s0
            };
            let t = bisect(probe);
            n_probes += 1;
            // oracle: exact Metropolis probability from op-by-op weights
            let maxc = before.iter().map(|s| s.2).max().unwrap();
            let _ = maxc;
            let ratio = log_weight_ratio(&sub.specs[0], sub.betas[0], &before[0].0, &sub.specs[1], sub.betas[1], &before[1].0);
            let want = if ratio.is_nan() { 0.0 } else { ratio.min(1.0) };
            let got = t as f64 / 18446744073709551616.0;
            if (got - want).abs() > 1e-9 {
                oracle_failures.push(json!({"prop": "C05,C10", "what": format!("swap probability {} but min(1, W_a(C_b)W_b(C_a)/(W_a(C_a)W_b(C_b))) = {}", got, want),
                    "edges_a": sub.specs[0].edges, "edges_b": sub.specs[1].edges, "gamma": [sub.specs[0].gamma, sub.specs[1].gamma],
                    "h": [sub.specs[0].h, sub.specs[1].h], "betas": sub.betas,
                    "n": [before[0].0.iter().flatten().count(), before[1].0.iter().flatten().count()]}));
            }
            coq.push(format!("C10.Probe {} {} {}%N", replica_coq(&sub.specs[0], sub.betas[0], &before[0]),
                replica_coq(&sub.specs[1], sub.betas[1], &before[1]), t));
        }
    }
    // ---- ladders of GENERIC samplers (same interactions, different beta): the exchange rule is
    // (beta_a/beta_b)^(n_b - n_a); replayed with the container's own uniforms (model-independent)
    let n_glad = if args.thorough { 400 } else { 40 };
    let mut n_gsteps = 0usize;
    let mut n_gswaps = 0u64;
    for li in 0..n_glad {
        let spec = random_qmc(&mut rng);
        let nrep = 2 + rng.below(4) as usize;
        let betas: Vec<f64> = (0..nrep).map(|i| [0.25, 0.5, 1.0, 2.0][(i + rng.below(2) as usize) % 4]).collect();
        let mut tc: TemperingContainer<TapeRng, GQ> = TemperingContainer::new(TapeRng::new(rng.next()));
        let mut ok = true;
        for b in betas.iter() {
            let mut sp = spec.clone();
            sp.state = (0..sp.nvars).map(|_| rng.chance(1, 2)).collect();
            match sp.build(TapeRng::new(rng.next())) {
                Some(q) => ok &= tc.add_qmc_stepper(q, *b).is_ok(),
                None => ok = false,
            }
        }
        if !ok {
            oracle_failures.push(json!({"what": "a ladder of generic samplers with identical interactions was rejected", "generic_ladder": li}));
            continue;
        }
        let par = li % 3 == 2;
        for _ in 0..(2 + rng.below(3)) {
            let rts = catch_unwind(AssertUnwindSafe(|| tc.timesteps(1 + rng.below(4) as usize)));
            if rts.is_err() {
                oracle_failures.push(json!({"prop": "C06", "what": "a generic replica's timestep panicked in a tempering run", "generic_ladder": li}));
                break;
            }
            let before: Vec<(Slots, Vec<bool>, usize)> = tc.graph_ref().iter().map(|(g, _)| snapshot_qmc(g)).collect();
            let offs: Vec<f64> = tc.graph_ref().iter().map(|(g, _)| g.get_offset()).collect();
            let swaps0 = tc.get_total_swaps();
            tc.rng_mut().take_log();
            let r = catch_unwind(AssertUnwindSafe(|| if par { tc.parallel_tempering_step() } else { tc.tempering_step() }));
            n_gsteps += 1;
            let ctx = json!({"generic_ladder": li, "parallel": par, "betas": betas, "bonds": spec.bonds.iter().map(|b| json!([b.kind, b.mat, b.vars])).collect::<Vec<_>>(),
                "n_before": before.iter().map(|s| s.0.iter().flatten().count()).collect::<Vec<_>>()});
            if r.is_err() {
                oracle_failures.push(json!({"what": "tempering_step of generic samplers panicked", "context": ctx}));
                break;
            }
            let words = tc.rng_mut().take_log();
            let after: Vec<(Slots, Vec<bool>, usize)> = tc.graph_ref().iter().map(|(g, _)| snapshot_qmc(g)).collect();
            let dswaps = tc.get_total_swaps() - swaps0;
            n_gswaps += dswaps;
            let maxc = before.iter().map(|s| s.2).max().unwrap();
            if after.iter().any(|s| s.2 != maxc) {
                oracle_failures.push(json!({"what": "generic replicas do not share the maximum cutoff after the step", "context": ctx}));
            }
            for (i, (g, b)) in tc.graph_ref().iter().enumerate() {
                if *b != betas[i] || g.get_bonds().len() != spec.bonds.len() || (g.get_offset() - offs[i]).abs() > 1e-12 {
                    oracle_failures.push(json!({"what": "a generic ladder position lost its interactions / beta / offset", "context": ctx, "position": i}));
                }
                let (sl, st, _) = &after[i];
                if !naive_wf(st, sl) {
                    oracle_failures.push(json!({"prop": "C06,C10", "what": "world line inconsistent after a generic tempering step", "context": ctx, "position": i}));
                }
            }
            let w64 = |w: &Word| match w { Word::W64(v) => *v, Word::W32(v) => (*v as u64) << 32 };
            let key = |s: &(Slots, Vec<bool>, usize)| format!("{:?}{:?}", s.0.iter().flatten().collect::<Vec<_>>(), s.1);
            let mut cur: Vec<String> = before.iter().map(key).collect();
            let mut ns: Vec<i32> = before.iter().map(|s| s.0.iter().flatten().count() as i32).collect();
            let a_first = !words.is_empty() && w64(&words[0]) < (1u64 << 63);
            let pa: Vec<(usize, usize)> = (0..nrep / 2).map(|k| (2 * k, 2 * k + 1)).collect();
            let pb: Vec<(usize, usize)> = (0..(nrep - 1) / 2).map(|k| (2 * k + 1, 2 * k + 2)).collect();
            let seq: Vec<(usize, usize)> = if a_first { pa.iter().chain(pb.iter()).cloned().collect() } else { pb.iter().chain(pa.iter()).cloned().collect() };
            if words.len() == 1 + seq.len() {
                let mut undecided = false;
                let mut expect = 0u64;
                for (k, (i, j)) in seq.iter().enumerate() {
                    let u = (w64(&words[1 + k]) >> 12) as f64 / 4503599627370496.0;
                    let ratio = (betas[*i] / betas[*j]).powi(ns[*j] - ns[*i]);
                    if (ratio - u).abs() < 1e-7 {
                        undecided = true;
                        break;
                    }
                    if ratio > u {
                        cur.swap(*i, *j);
                        ns.swap(*i, *j);
                        expect += 1;
                    }
                }
                if !undecided && (expect != dswaps || cur != after.iter().map(key).collect::<Vec<_>>()) {
                    oracle_failures.push(json!({"what": "generic samplers: exchange decisions differ from min(1, (beta_a/beta_b)^(n_b-n_a)) applied with the same uniforms",
                        "context": ctx, "expected_exchanges": expect, "counted_exchanges": dswaps}));
                }
            } else {
                oracle_failures.push(json!({"what": "generic tempering step consumed an unexpected number of container RNG words", "context": ctx, "words": words.len()}));
            }
        }
    }
    for f in oracle_failures.iter_mut() {
        if f.get("prop").is_none() {
            f["prop"] = json!("C10");
        }
    }
    oracle_failures.sort_by_key(|f| f["prop"].as_str().unwrap_or("").to_string());
    crate::cap_failures(&mut oracle_failures, 20);
    let files = crate::write_shards(&args.out, "C10", "C10", &coq, if args.thorough { 300 } else { 40 });
    json!({"files": files, "evaluations": coq.len(), "distinct_nontrivial": distinct.len() + n_probes, "tempering_steps": n_steps,
        "accepted_exchanges": n_swaps, "generic_sampler_tempering_steps": n_gsteps, "generic_sampler_accepted_exchanges": n_gswaps, "threshold_probes": n_probes, "steps_with_unequal_cutoffs_before": n_unequal_cutoffs, "independence_probes": n_indep, "independence_probes_where_assignments_differ": n_indep_nontrivial,
        "ladder_sizes": hist_rep, "oracle_failures": oracle_failures, "samples": samples,
        "rule": "ladders of 2..8 Ising replicas on a shared random graph (beta ladders, Hamiltonian ladders |J|, Gamma, |h| scaled, both), unequal initial cutoffs, some with heat bath; after random numbers of time steps one serial or rayon tempering step is replayed on the container's raw words; on 2-replica ladders the uniform at which the exchange flips is bisected to the exact word; beta ladders of 2..5 GENERIC samplers (identical interactions) are stepped and their exchange decisions replayed with the same uniforms (oracle only)"})
}
