//! C17: measurement helpers and tempering drivers on a scripted stepper.
use crate::coqfmt as cq;
use crate::tape::{SplitMix64, TapeRng};
use crate::Args;
use qmc::sse::rayon_tempering::ParallelQmcTimeSteps;
use qmc::sse::*;
use serde_json::json;
use std::cell::Cell;
use std::sync::{Arc, Mutex};

/// deterministic "operator count" of configuration `cfg` after `k` steps (mirrored in Check/C17.v)
pub fn nfun(cfg: usize, k: usize) -> usize {
    (cfg * 7 + k * 3 + cfg * k) % 11
}

#[derive(Clone, Debug, PartialEq)]
pub enum Ev {
    Step(usize, usize, usize),
    Temper,
}

#[derive(Debug, Clone)]
pub struct Scripted {
    pub pos: usize,
    pub cfg: usize,
    pub steps: usize,
    pub offset: f64,
    pub state: Vec<bool>,
    pub log: Arc<Mutex<Vec<Ev>>>,
    pub cutoff: usize,
    pub fold_calls: Cell<usize>,
}

unsafe impl Sync for Scripted {}

impl Scripted {
    pub fn new(pos: usize, log: Arc<Mutex<Vec<Ev>>>) -> Self {
        let mut s = Scripted { pos, cfg: pos, steps: 0, offset: pos as f64 * 0.25, state: vec![], log, cutoff: 1 + pos, fold_calls: Cell::new(0) };
        s.encode();
        s
    }
    fn encode(&mut self) {
        // 4 bits of cfg, 12 bits of step count
        let v = (self.cfg << 12) | self.steps;
        self.state = (0..16).map(|i| (v >> i) & 1 == 1).collect();
    }
}

pub fn decode(s: &[bool]) -> (usize, usize) {
    let v = s.iter().enumerate().fold(0usize, |a, (i, b)| a | ((*b as usize) << i));
    (v >> 12, v & 0xfff)
}

impl QmcStepper for Scripted {
    fn timestep(&mut self, _beta: f64) -> &[bool] {
        self.steps += 1;
        self.encode();
        self.log.lock().unwrap().push(Ev::Step(self.pos, self.cfg, self.steps));
        &self.state
    }
    fn get_n(&self) -> usize {
        nfun(self.cfg, self.steps)
    }
    fn get_energy_for_average_n(&self, average_n: f64, beta: f64) -> f64 {
        -(average_n / beta) + self.offset
    }
    fn state_ref(&self) -> &[bool] {
        &self.state
    }
    fn get_bond_count(&self, _bond: usize) -> usize {
        0
    }
    fn imaginary_time_fold<F, T>(&self, _fold_fn: F, init: T) -> T
    where
        F: Fn(T, &[bool]) -> T,
    {
        init
    }
}

impl GraphWeights for Scripted {
    fn ham_eq(&self, _other: &Self) -> bool {
        true
    }
    fn relative_weight(&self, _h: &Self) -> f64 {
        1.0
    }
}

impl SwapManagers for Scripted {
    fn can_swap_graphs(&self, _other: &Self) -> Result<(), String> {
        Ok(())
    }
    fn swap_graphs(&mut self, other: &mut Self) {
        // a swap exchanges the configuration (here: its identity and its age), nothing else
        std::mem::swap(&mut self.cfg, &mut other.cfg);
        self.encode();
        other.encode();
    }
    fn get_op_cutoff(&self) -> usize {
        self.cutoff
    }
    fn set_op_cutoff(&mut self, cutoff: usize) {
        if self.pos == 0 {
            self.log.lock().unwrap().push(Ev::Temper);
        }
        self.cutoff = cutoff;
    }
}

fn optn(x: Option<usize>) -> String {
    match x {
        None => "None".into(),
        Some(v) => format!("(Some {}%nat)", v),
    }
}

pub fn run(args: &Args) -> serde_json::Value {
    let mut rng = SplitMix64::new(args.seed ^ 0xC17);
    let mut coq = vec![];
    let mut samples = vec![];
    let mut oracle_failures = vec![];
    let mut distinct = std::collections::HashSet::new();
    let mut nondiv = 0;
    let beta = 0.5f64;
    // ---- single-stepper helpers: exhaustive small grid + random larger ones
    let mut grid: Vec<(usize, Option<usize>)> = vec![];
    for t in 0..=14usize {
        for f in 0..=8usize {
            grid.push((t, if f == 0 { None } else { Some(f) }));
        }
    }
    let nrand = if args.thorough { 3000 } else { 200 };
    for _ in 0..nrand {
        grid.push((rng.below(120) as usize, Some(1 + rng.below(40) as usize)));
    }
    for (t, f) in grid {
        let fq = f.unwrap_or(1);
        if t / fq == 0 {
            continue; // the property's domain requires at least one sample
        }
        for kind in 0..4usize {
            let log = Arc::new(Mutex::new(vec![]));
            let mut s = Scripted::new(3, log.clone());
            let zipn = rng.below(6) as usize;
            let (calls, states, energy): (usize, Vec<usize>, f64) = match kind {
                0 => {
                    let (acc, e) = s.timesteps_measure(t, beta, vec![], |mut acc: Vec<usize>, st| { acc.push(decode(st).1); acc }, f);
                    (acc.len(), acc, e)
                }
                1 => {
                    let (sts, e) = s.timesteps_sample(t, beta, f);
                    (sts.len(), sts.iter().map(|x| decode(x).1).collect(), e)
                }
                2 => {
                    let seen = std::cell::RefCell::new(vec![]);
                    let e = s.timesteps_sample_iter(t, beta, f, |st| seen.borrow_mut().push(decode(st).1));
                    let v = seen.into_inner();
                    (v.len(), v, e)
                }
                _ => {
                    let seen = std::cell::RefCell::new(vec![]);
                    let e = s.timesteps_sample_iter_zip(t, beta, f, 0..zipn, |_, st| seen.borrow_mut().push(decode(st).1));
                    let v = seen.into_inner();
                    (v.len(), v, e)
                }
            };
            let steps_taken = log.lock().unwrap().iter().filter(|e| matches!(e, Ev::Step(..))).count();
            // oracle from the property text
            let want: Vec<usize> = (1..=t).filter(|k| k % fq == 0).collect();
            let want_states: Vec<usize> = if kind == 3 { want.iter().cloned().take(zipn).collect() } else { want.clone() };
            let avg = want.iter().map(|k| nfun(3, *k) as f64).sum::<f64>() / want.len() as f64;
            let want_e = -(avg / beta) + 0.75;
            if states != want_states || steps_taken != t || (energy - want_e).abs() > 1e-9 {
                oracle_failures.push(json!({"what": "measurement helper cadence/average wrong", "kind": kind, "T": t, "f": f,
                    "states": states, "expected_states": want_states, "energy": energy, "expected_energy": want_e, "steps": steps_taken}));
            }
            distinct.insert(format!("m{}-{}-{:?}-{}", kind, t, f, zipn));
            if t % fq != 0 {
                nondiv += 1
            }
            coq.push(format!("C17.Measure {}%nat {} {}%nat {}%nat {}%nat {} {} {}%nat", t, optn(f), kind, zipn, calls,
                cq::nats(&states), cq::q(energy), steps_taken));
            if coq.len() % 211 == 0 {
                samples.push(json!({"helper": kind, "T": t, "f": f, "sampled_steps": states, "energy": energy}));
            }
        }
    }
    // ---- tempering drivers
    let ntemp = if args.thorough { 2500 } else { 260 };
    let mut k = 0;
    let mut all_small: Vec<(usize, usize, usize)> = vec![];
    for t in 1..=7usize {
        for s in 1..=7usize {
            for f in 1..=7usize {
                if t / f >= 1 {
                    all_small.push((t, s, f));
                }
            }
        }
    }
    while k < ntemp {
        let (t, s, f) = if k < all_small.len() && (args.thorough || k % 2 == 0) {
            all_small[k % all_small.len()]
        } else {
            let f = 1 + rng.below(9) as usize;
            (f + rng.below(50) as usize, 1 + rng.below(9) as usize, f)
        };
        k += 1;
        let nrep = 2 + rng.below(7) as usize;
        let par = k % 2 == 1;
        let log = Arc::new(Mutex::new(vec![]));
        let mut tc: TemperingContainer<TapeRng, Scripted> = TemperingContainer::new(TapeRng::new(rng.next()));
        for p in 0..nrep {
            tc.add_qmc_stepper(Scripted::new(p, log.clone()), beta).unwrap();
        }
        let res = if par {
            let pool = rayon::ThreadPoolBuilder::new().num_threads(1 + (k % 8)).build().unwrap();
            pool.install(|| tc.parallel_timesteps_sample(t, s, f))
        } else {
            tc.timesteps_sample(t, s, f)
        };
        let words = tc.rng_mut().take_log();
        let evs = log.lock().unwrap().clone();
        // tempering times: number of Step(0) events before each Temper marker
        let mut temper_times = vec![];
        let mut c0 = 0;
        let mut per_rep_steps = vec![0usize; nrep];
        let mut nsum = vec![0.0f64; nrep];
        for e in &evs {
            match e {
                Ev::Step(p, cfg, st) => {
                    per_rep_steps[*p] += 1;
                    nsum[*p] += nfun(*cfg, *st) as f64;
                    if *p == 0 {
                        c0 += 1
                    }
                }
                Ev::Temper => temper_times.push(c0),
            }
        }
        let sampled: Vec<Vec<(usize, usize)>> = res.iter().map(|(sts, _)| sts.iter().map(|x| decode(x)).collect()).collect();
        let energies: Vec<f64> = res.iter().map(|(_, e)| *e).collect();
        // oracle from the property text: steps, cadence
        let want_temper: Vec<usize> = (1..=t).filter(|x| x % s == 0).collect();
        let want_sample: Vec<usize> = (1..=t).filter(|x| x % f == 0).collect();
        let cadence_ok = temper_times == want_temper
            && per_rep_steps.iter().all(|x| *x == t)
            && sampled.iter().all(|v| v.iter().map(|x| x.1).collect::<Vec<_>>() == want_sample);
        if !cadence_ok {
            oracle_failures.push(json!({"what": "tempering driver cadence wrong", "T": t, "swap": s, "freq": f, "parallel": par,
                "temper_times": temper_times, "steps_per_replica": per_rep_steps}));
        }
        // WHICH configuration a sample shows: the one that sits at that ladder position once the exchanges due at
        // that time have been made, i.e. the one the position's NEXT time step works on (or, for the last sample,
        // the one the container holds at the end)
        let mut cfg_at: Vec<Vec<usize>> = vec![vec![]; nrep];
        for e in &evs {
            if let Ev::Step(p, cfg, _) = e {
                cfg_at[*p].push(*cfg);
            }
        }
        let final_cfg: Vec<usize> = tc.graph_ref().iter().map(|(g, _)| g.cfg).collect();
        'positions: for i in 0..nrep {
            for (cfg, tau) in sampled[i].iter() {
                let want = if *tau < cfg_at[i].len() { cfg_at[i][*tau] } else { final_cfg[i] };
                if *cfg != want {
                    oracle_failures.push(json!({"what": format!("tempering driver: the sample taken at step {} at ladder position {} shows configuration {} but that position holds configuration {} once the exchanges due at that step are made", tau, i, cfg, want),
                        "T": t, "swap": s, "freq": f, "parallel": par, "replicas": nrep}));
                    break 'positions;
                }
            }
        }
        // energy: per-step average of the operator counts actually seen at that ladder position
        for i in 0..nrep {
            let want = -((nsum[i] / t as f64) / beta) + i as f64 * 0.25;
            if (energies[i] - want).abs() > 1e-9 {
                oracle_failures.push(json!({"what": "tempering driver energy is not the per-step average", "T": t, "swap": s, "freq": f,
                    "parallel": par, "replica": i, "energy": energies[i], "expected": want}));
            }
        }
        distinct.insert(format!("t{}-{}-{}-{}-{}", t, s, f, nrep, par));
        if t % s != 0 && t % f != 0 {
            nondiv += 1
        }
        coq.push(format!("C17.Temper {}%nat {}%nat {}%nat {}%nat {} {} {} {} {}", t, s, f, nrep, cq::b(par), cq::words(&words),
            cq::nats(&temper_times),
            cq::list(&sampled, |v| cq::list(v, |(c, st)| format!("({}%nat, {}%nat)", c, st))),
            cq::qs(&energies)));
        if k % 61 == 0 {
            samples.push(json!({"driver": if par {"parallel"} else {"serial"}, "T": t, "swap": s, "freq": f, "replicas": nrep,
                "temper_times": temper_times, "energies": energies}));
        }
    }
    // ---- the real samplers: "-<n>/beta + offset" uses the sampler's own offset; it must be the constant that makes
    // every matrix element non-negative, sum|J| + N (Gamma + |h|), for either sign of h — computed here from the
    // model parameters, with <n> taken from the operator counts seen by the user's fold
    let n_real = if args.thorough { 600 } else { 90 };
    let mut n_real_neg_h = 0usize;
    let mut n_real_ladders = 0usize;
    for k in 0..n_real {
        let spec = crate::ising::random_ising(&mut rng, 4, true);
        if spec.h < 0.0 {
            n_real_neg_h += 1
        }
        let beta = [0.5, 1.0, 2.0][rng.below(3) as usize];
        let t = 1 + rng.below(12) as usize;
        let f = 1 + rng.below(t as u64) as usize;
        let ctx = json!({"edges": spec.edges, "gamma": spec.gamma, "h": spec.h, "beta": beta, "T": t, "freq": f, "initial_cutoff": spec.cutoff});
        let r = std::panic::catch_unwind(std::panic::AssertUnwindSafe(|| {
            let mut g = spec.build(TapeRng::new(rng.next()));
            let (ns, e) = g.timesteps_measure_with_self(t, beta, Vec::<usize>::new(), |mut acc, me| { acc.push(QmcStepper::get_n(me)); acc }, Some(f));
            (ns, e, g.get_offset())
        }));
        match r {
            Err(_) => oracle_failures.push(json!({"what": "timesteps_measure on a real Ising sampler panicked", "context": ctx})),
            Ok((ns, e, off)) => {
                if ns.len() != t / f {
                    oracle_failures.push(json!({"what": format!("fold invoked {} times on a real sampler, floor(T/f) = {}", ns.len(), t / f), "context": ctx}));
                } else {
                    let mean = ns.iter().sum::<usize>() as f64 / ns.len() as f64;
                    let want = -mean / beta + spec.offset();
                    if (e - want).abs() > 1e-9 || (off - spec.offset()).abs() > 1e-9 {
                        oracle_failures.push(json!({"what": format!("a real Ising sampler returned energy {} but -<n>/beta + (sum|J| + N(Gamma+|h|)) = {} (reported offset {}, required {})", e, want, off, spec.offset()), "context": ctx}));
                    }
                }
            }
        }
        // the tempering drivers on a ladder of this model: per-replica energy = -(per-step mean of n)/beta + that offset;
        // with swap period > T no exchange happens, so each position's n history is the replica's own
        if k % 3 == 0 {
            n_real_ladders += 1;
            let par = k % 2 == 0;
            let betas = [beta, beta * 0.5];
            let r = std::panic::catch_unwind(std::panic::AssertUnwindSafe(|| {
                let mut tc: crate::c10::TC = TemperingContainer::new(TapeRng::new(rng.next()));
                for b in betas.iter() {
                    tc.add_qmc_stepper(spec.build(TapeRng::new(rng.next())), *b).unwrap();
                }
                // reference: identical clones advanced step by step
                let mut refs: Vec<_> = tc.graph_ref().iter().map(|(g, _)| g.clone()).collect();
                let res = if par { tc.parallel_timesteps_sample(t, t + 1, f) } else { tc.timesteps_sample(t, t + 1, f) };
                let mut want = vec![];
                for (g, b) in refs.iter_mut().zip(betas.iter()) {
                    let mut sum = 0usize;
                    for _ in 0..t {
                        g.timestep(*b);
                        sum += QmcStepper::get_n(g);
                    }
                    want.push(-(sum as f64 / t as f64) / b + spec.offset());
                }
                (res.iter().map(|(_, e)| *e).collect::<Vec<f64>>(), want)
            }));
            match r {
                Err(_) => oracle_failures.push(json!({"what": "a tempering driver on real samplers panicked", "context": ctx, "parallel": par})),
                Ok((got, want)) => {
                    if got.iter().zip(want.iter()).any(|(a, b)| (a - b).abs() > 1e-9) {
                        oracle_failures.push(json!({"what": format!("tempering driver on real samplers returned energies {:?}, per-step averages with offset sum|J| + N(Gamma+|h|) are {:?}", got, want), "context": ctx, "parallel": par}));
                    }
                }
            }
        }
    }
    oracle_failures.truncate(40);
    let files = crate::write_shards(&args.out, "C17", "C17", &coq, if args.thorough { 600 } else { 150 });
    json!({"files": files, "evaluations": coq.len(), "distinct_nontrivial": distinct.len(), "cases_with_non_divisor_T": nondiv, "real_sampler_measuring_runs": n_real, "real_samplers_with_negative_h": n_real_neg_h, "real_sampler_ladders": n_real_ladders,
        "oracle_failures": oracle_failures, "samples": samples,
        "rule": "scripted stepper (state encodes configuration id and step count; n is a fixed function of both): all (T, f) with T<=14, f<=8 and random larger ones through timesteps_measure / _sample / _sample_iter / _sample_iter_zip; all (T, s, f) <= 7 and random larger ones through the serial and rayon tempering drivers with ladders of 2..8 replicas; distinct = distinct parameter tuples"})
}
