//! Scripted RNG: replays a list of raw words, then falls back to SplitMix64; logs every word.
use rand::{Error, RngCore};
use serde::{Deserialize, Serialize};

#[derive(Clone, Debug, Serialize, Deserialize, PartialEq, Eq)]
pub struct SplitMix64 {
    pub s: u64,
}
impl SplitMix64 {
    pub fn new(seed: u64) -> Self {
        Self { s: seed }
    }
    pub fn next(&mut self) -> u64 {
        self.s = self.s.wrapping_add(0x9E3779B97F4A7C15);
        let mut z = self.s;
        z = (z ^ (z >> 30)).wrapping_mul(0xBF58476D1CE4E5B9);
        z = (z ^ (z >> 27)).wrapping_mul(0x94D049BB133111EB);
        z ^ (z >> 31)
    }
    pub fn below(&mut self, k: u64) -> u64 {
        // not used by the library under test; harness-side choice only
        ((self.next() as u128 * k as u128) >> 64) as u64
    }
    pub fn chance(&mut self, num: u64, den: u64) -> bool {
        self.below(den) < num
    }
}
impl RngCore for SplitMix64 {
    fn next_u32(&mut self) -> u32 {
        (self.next() >> 32) as u32
    }
    fn next_u64(&mut self) -> u64 {
        self.next()
    }
    fn fill_bytes(&mut self, dest: &mut [u8]) {
        for b in dest.iter_mut() {
            *b = self.next() as u8
        }
    }
    fn try_fill_bytes(&mut self, dest: &mut [u8]) -> Result<(), Error> {
        self.fill_bytes(dest);
        Ok(())
    }
}

#[derive(Clone, Copy, Debug, Serialize, Deserialize, PartialEq, Eq)]
pub enum Word {
    W64(u64),
    W32(u32),
}

#[derive(Clone, Debug, Serialize, Deserialize)]
pub struct TapeRng {
    pub script: Vec<u64>,
    pub pos: usize,
    pub fallback: SplitMix64,
    pub log: Vec<Word>,
    pub logging: bool,
    pub fill_bytes_calls: usize,
    #[serde(skip)]
    pub shared: Option<std::sync::Arc<std::sync::Mutex<Vec<Word>>>>,
}

impl TapeRng {
    pub fn new(seed: u64) -> Self {
        Self {
            script: vec![],
            pos: 0,
            fallback: SplitMix64::new(seed),
            log: vec![],
            logging: true,
            fill_bytes_calls: 0,
            shared: None,
        }
    }
    pub fn scripted(script: Vec<u64>, seed: u64) -> Self {
        let mut s = Self::new(seed);
        s.script = script;
        s
    }
    fn raw(&mut self) -> u64 {
        if self.pos < self.script.len() {
            let v = self.script[self.pos];
            self.pos += 1;
            v
        } else {
            self.fallback.next()
        }
    }
    pub fn shared(mut self) -> (Self, std::sync::Arc<std::sync::Mutex<Vec<Word>>>) {
        let h = std::sync::Arc::new(std::sync::Mutex::new(vec![]));
        self.shared = Some(h.clone());
        (self, h)
    }
    pub fn take_log(&mut self) -> Vec<Word> {
        std::mem::take(&mut self.log)
    }
}

impl RngCore for TapeRng {
    fn next_u32(&mut self) -> u32 {
        let v = (self.raw() >> 32) as u32;
        if self.logging {
            self.log.push(Word::W32(v));
            if let Some(s) = &self.shared {
                s.lock().unwrap().push(Word::W32(v));
            }
        }
        v
    }
    fn next_u64(&mut self) -> u64 {
        let v = self.raw();
        if self.logging {
            self.log.push(Word::W64(v));
            if let Some(s) = &self.shared {
                s.lock().unwrap().push(Word::W64(v));
            }
        }
        v
    }
    fn fill_bytes(&mut self, dest: &mut [u8]) {
        self.fill_bytes_calls += 1;
        for b in dest.iter_mut() {
            *b = self.raw() as u8
        }
    }
    fn try_fill_bytes(&mut self, dest: &mut [u8]) -> Result<(), Error> {
        self.fill_bytes(dest);
        Ok(())
    }
}
