//! C20: autocorrelation helpers on a scripted stepper (known sample values) and on real samplers.
use crate::c17::{decode, Scripted};
use crate::coqfmt as cq;
use crate::ising::*;
use crate::tape::{SplitMix64, TapeRng};
use crate::Args;
use qmc::sse::rayon_tempering::autocorrelations::ParallelTemperingAutocorrelations;
use qmc::sse::*;
use serde_json::json;
use std::panic::{catch_unwind, AssertUnwindSafe};
use std::sync::{Arc, Mutex};

/// value of observable j at step k (mirrored in Check/C20.v); dyadic, never constant in k
pub fn obs(pattern: usize, j: usize, k: usize) -> f64 {
    let v = match pattern % 3 {
        0 => (k * (3 + j) + j * j) % 13,
        1 => (k * k + j * 5 + k * j) % 11,
        _ => ((k / (1 + j % 2)) * 7 + j) % 9,
    };
    v as f64 / 4.0 - 1.0
}

/// direct O(T^2) evaluation of the documented formula (oracle, f64)
pub fn direct(samples: &[Vec<f64>]) -> Vec<f64> {
    let t = samples.len();
    let n = samples[0].len();
    let mut out = vec![0.0; t];
    for i in 0..n {
        let mean: f64 = samples.iter().map(|r| r[i]).sum::<f64>() / t as f64;
        let v: Vec<f64> = samples.iter().map(|r| r[i] - mean).collect();
        let c0: f64 = v.iter().map(|x| x * x).sum();
        for lag in 0..t {
            let c: f64 = (0..t).map(|s| v[s] * v[(s + lag) % t]).sum();
            out[lag] += c / c0 / n as f64;
        }
    }
    out
}

pub fn run(args: &Args) -> serde_json::Value {
    let mut rng = SplitMix64::new(args.seed ^ 0xC20);
    let mut coq = vec![];
    let mut samples_ev = vec![];
    let mut oracle_failures: Vec<serde_json::Value> = vec![];
    let mut distinct = std::collections::HashSet::new();
    let mut lens = std::collections::BTreeMap::new();
    // ---- scripted stepper: lengths even / odd / prime / power of two
    let mut cases: Vec<(usize, usize, usize, usize)> = vec![]; // (samples, period, observables, pattern)
    for t in [2usize, 3, 4, 5, 7, 8, 9, 11, 12, 13, 16, 17, 31] {
        for f in 1..=3usize {
            cases.push((t, f, 1 + (t + f) % 4, t + f));
        }
    }
    let extra = if args.thorough { 600 } else { 40 };
    for _ in 0..extra {
        let t = 2 + rng.below(if args.thorough { 256 } else { 40 }) as usize;
        cases.push((t, 1 + rng.below(3) as usize, 1 + rng.below(4) as usize, rng.below(3) as usize));
    }
    for (nsamp, f, nobs, pattern) in cases {
        let timesteps = nsamp * f + (pattern % f.max(1)); // not necessarily a multiple of the period
        let log = Arc::new(Mutex::new(vec![]));
        let mut s = Scripted::new(2, log);
        let r = catch_unwind(AssertUnwindSafe(|| {
            s.calculate_autocorrelation(timesteps, 0.5, Some(f), |_, st| {
                let k = decode(&st).1;
                (0..nobs).map(|j| obs(pattern, j, k)).collect()
            })
        }));
        *lens.entry(nsamp).or_insert(0usize) += 1;
        let ctx = json!({"helper": "QmcAutoCorrelations::calculate_autocorrelation", "timesteps": timesteps, "period": f, "observables": nobs, "pattern": pattern});
        match r {
            Err(_) => {
                oracle_failures.push(json!({"what": "autocorrelation helper panicked", "context": ctx}));
                coq.push(format!("C20.Scripted {}%nat {}%nat {}%nat {}%nat [] true", timesteps, f, nobs, pattern));
            }
            Ok(res) => {
                let want_steps: Vec<usize> = (1..=timesteps).filter(|k| k % f == 0).collect();
                let smp: Vec<Vec<f64>> = want_steps.iter().map(|k| (0..nobs).map(|j| obs(pattern, j, *k)).collect()).collect();
                let want = direct(&smp);
                if res.len() != want.len() || res.iter().zip(want.iter()).any(|(a, b)| (a - b).abs() > 1e-9) {
                    oracle_failures.push(json!({"what": "result differs from the documented normalised circular autocorrelation of the states sampled at the requested period",
                        "context": ctx, "got": res, "expected": want}));
                }
                distinct.insert(format!("{}-{}-{}-{}", timesteps, f, nobs, pattern));
                if res.iter().all(|x| x.is_finite()) {
                    coq.push(format!("C20.Scripted {}%nat {}%nat {}%nat {}%nat {} false", timesteps, f, nobs, pattern, cq::qs(&res)));
                } else {
                    oracle_failures.push(json!({"what": "autocorrelation helper returned a non-finite value", "context": ctx}));
                }
                if samples_ev.len() < 6 {
                    samples_ev.push(json!({"timesteps": timesteps, "period": f, "observables": nobs, "result_head": res.iter().take(4).collect::<Vec<_>>()}));
                }
            }
        }
    }
    // ---- real samplers: variable / spin-product / bond autocorrelations vs the formula applied to the sampled states
    let nreal = if args.thorough { 400 } else { 40 };
    for ri in 0..nreal {
        let mut spec = random_ising(&mut rng, 4, ri % 2 == 0);
        spec.cutoff = 4;
        let seed = rng.next();
        let timesteps = 8 + rng.below(24) as usize;
        let f = 1 + rng.below(3) as usize;
        let beta = 1.0;
        let mut g = spec.build(TapeRng::new(seed));
        let mut twin = spec.build(TapeRng::new(seed));
        let which = ri % 3;
        let prods: Vec<Vec<usize>> = vec![vec![0], vec![0, spec.nvars - 1]];
        let prod_refs: Vec<&[usize]> = prods.iter().map(|v| &v[..]).collect();
        let r = catch_unwind(AssertUnwindSafe(|| match which {
            0 => g.calculate_variable_autocorrelation(timesteps, beta, Some(f)),
            1 => g.calculate_spin_product_autocorrelation(timesteps, beta, &prod_refs, Some(f)),
            _ => g.calculate_bond_autocorrelation(timesteps, beta, Some(f)),
        }));
        let (states, _) = twin.timesteps_sample(timesteps, beta, Some(f));
        let sp = |b: bool| if b { 1.0 } else { -1.0 };
        let smp: Vec<Vec<f64>> = states.iter().map(|s| match which {
            0 => s.iter().map(|b| sp(*b)).collect(),
            1 => prods.iter().map(|vs| vs.iter().map(|v| sp(s[*v])).product()).collect(),
            _ => spec.edges.iter().map(|((a, b), j)| { let even = (s[*a] as usize + s[*b] as usize) % 2 == 0; if (*j < 0.0) == even { 1.0 } else { -1.0 } }).collect(),
        }).collect();
        // skip series with a constant column (outside the property's domain)
        let ncol = smp[0].len();
        if (0..ncol).any(|i| smp.iter().all(|r| r[i] == smp[0][i])) {
            continue;
        }
        let hname = ["variable", "spin_product", "bond"][which];
        let ctx = json!({"helper": hname, "edges": spec.edges, "h": spec.h, "timesteps": timesteps, "period": f});
        match r {
            Err(_) => oracle_failures.push(json!({"what": "autocorrelation helper panicked on a real sampler", "context": ctx})),
            Ok(res) => {
                let want = direct(&smp);
                if res.len() != states.len() || res.iter().zip(want.iter()).any(|(a, b)| (a - b).abs() > 1e-9) {
                    oracle_failures.push(json!({"what": "result differs from the formula applied to the states sampled at the requested period", "context": ctx}));
                }
                *lens.entry(states.len()).or_insert(0usize) += 1;
                distinct.insert(format!("real{}", ri));
                if res.iter().all(|x| x.is_finite()) {
                    coq.push(format!("C20.Series {} {}", cq::list(&smp, |r| cq::qs(r)), cq::qs(&res)));
                } else {
                    oracle_failures.push(json!({"what": "autocorrelation helper returned a non-finite value on a real sampler", "context": ctx}));
                }
            }
        }
    }
    // ---- tempering variant on a scripted ladder
    let ntemp = if args.thorough { 120 } else { 16 };
    for ti in 0..ntemp {
        let nrep = 2 + rng.below(3) as usize;
        let timesteps = 6 + rng.below(20) as usize;
        let f = 1 + rng.below(3) as usize;
        let sw = 1 + rng.below(4) as usize;
        let log = Arc::new(Mutex::new(vec![]));
        let mut tc: TemperingContainer<TapeRng, Scripted> = TemperingContainer::new(TapeRng::new(rng.next()));
        for p in 0..nrep {
            tc.add_qmc_stepper(Scripted::new(p, log.clone()), 0.5).unwrap();
        }
        let mut twin: TemperingContainer<TapeRng, Scripted> = TemperingContainer::new(tc.rng_mut().clone());
        let log2 = Arc::new(Mutex::new(vec![]));
        for p in 0..nrep {
            twin.add_qmc_stepper(Scripted::new(p, log2.clone()), 0.5).unwrap();
        }
        let pattern = ti;
        let mapper = move |st: &[bool], _q: &Scripted| -> Vec<f64> {
            let (cfg, k) = decode(st);
            (0..2).map(|j| obs(pattern, j + cfg, k)).collect()
        };
        let r = catch_unwind(AssertUnwindSafe(|| tc.calculate_autocorrelation(timesteps, Some(sw), Some(f), mapper)));
        use qmc::sse::rayon_tempering::ParallelQmcTimeSteps;
        let st = twin.parallel_timesteps_sample(timesteps, sw, f);
        let ctx = json!({"helper": "ParallelTemperingAutocorrelations::calculate_autocorrelation", "replicas": nrep, "timesteps": timesteps, "swap": sw, "period": f});
        match r {
            Err(_) => oracle_failures.push(json!({"what": "tempering autocorrelation helper panicked", "context": ctx})),
            Ok(res) => {
                for (i, (states, _)) in st.iter().enumerate() {
                    let smp: Vec<Vec<f64>> = states.iter().map(|s| { let (cfg, k) = decode(s); (0..2).map(|j| obs(pattern, j + cfg, k)).collect() }).collect();
                    if smp.is_empty() || (0..2).any(|c| smp.iter().all(|r| r[c] == smp[0][c])) {
                        continue;
                    }
                    let want = direct(&smp);
                    if res[i].iter().any(|x| !x.is_finite()) {
                        // (a non-finite entry cannot be written as a rational for the Coq side either)
                        oracle_failures.push(json!({"what": format!("tempering autocorrelation helper returned a non-finite value ({} entries for {} sampled states)", res[i].len(), smp.len()), "context": ctx, "replica": i}));
                        continue;
                    }
                    if res[i].len() != want.len() || res[i].iter().zip(want.iter()).any(|(a, b)| (a - b).abs() > 1e-9) {
                        oracle_failures.push(json!({"what": format!("tempering autocorrelation differs from the formula applied to the states the driver samples ({} entries for {} sampled states)", res[i].len(), smp.len()), "context": ctx, "replica": i}));
                    }
                    coq.push(format!("C20.Series {} {}", cq::list(&smp, |r| cq::qs(r)), cq::qs(&res[i])));
                    distinct.insert(format!("temper{}-{}", ti, i));
                }
            }
        }
    }
    oracle_failures.truncate(40);
    let files = crate::write_shards(&args.out, "C20", "C20", &coq, if args.thorough { 60 } else { 12 });
    json!({"files": files, "evaluations": coq.len(), "distinct_nontrivial": distinct.len(), "series_length_histogram": lens,
        "oracle_failures": oracle_failures, "samples": samples_ev,
        "rule": "scripted stepper with known observable values: series lengths 2..31 (even, odd, prime, powers of two; up to 257 thorough), periods 1-3, 1-4 observables, run lengths that are not multiples of the period; real Ising samplers through the variable / spin-product / bond helpers; the rayon tempering helper on a scripted ladder; results compared with the rational specification to 2^-30"})
}
