//! Model-independent thermal oracle: long runs of the real samplers on tiny models against exact
//! diagonalisation (dense exp(-beta H) by scaling and squaring).  Serves C01-C05 (tagged failures).
use crate::ising::*;
use crate::tape::{SplitMix64, TapeRng};
use crate::Args;
use qmc::sse::rayon_tempering::ParallelQmcTimeSteps;
use qmc::sse::*;
use serde_json::{json, Value};
use std::panic::{catch_unwind, AssertUnwindSafe};

type Mat = Vec<Vec<f64>>;

fn matmul(a: &Mat, b: &Mat) -> Mat {
    let n = a.len();
    let mut c = vec![vec![0.0; n]; n];
    for i in 0..n {
        for k in 0..n {
            let x = a[i][k];
            if x != 0.0 {
                for j in 0..n {
                    c[i][j] += x * b[k][j];
                }
            }
        }
    }
    c
}

/// exp(A) by scaling and squaring with a degree-24 Taylor polynomial
fn expm(a: &Mat) -> Mat {
    let n = a.len();
    let norm = a.iter().map(|r| r.iter().map(|x| x.abs()).sum::<f64>()).fold(0.0, f64::max);
    let mut k = 0;
    while norm / (1u64 << k) as f64 > 0.25 {
        k += 1;
    }
    let s = 1.0 / (1u64 << k) as f64;
    let b: Mat = a.iter().map(|r| r.iter().map(|x| x * s).collect()).collect();
    let mut res = vec![vec![0.0; n]; n];
    let mut term = vec![vec![0.0; n]; n];
    for i in 0..n {
        res[i][i] = 1.0;
        term[i][i] = 1.0;
    }
    for d in 1..=24 {
        term = matmul(&term, &b);
        for r in term.iter_mut() {
            for x in r.iter_mut() {
                *x /= d as f64;
            }
        }
        for i in 0..n {
            for j in 0..n {
                res[i][j] += term[i][j];
            }
        }
    }
    for _ in 0..k {
        res = matmul(&res, &res);
    }
    res
}

pub struct Exact {
    pub energy: f64,
    pub mag: Vec<f64>,
    pub zz: Vec<Vec<f64>>,
    pub sx: Vec<f64>,
}

fn bit(s: usize, i: usize) -> bool {
    (s >> i) & 1 == 1
}

/// thermal expectation values for a dense Hamiltonian over n spins (basis index bit i = spin i up)
pub fn exact_from_h(h: &Mat, n: usize, beta: f64) -> Exact {
    let dim = 1usize << n;
    let a: Mat = h.iter().map(|r| r.iter().map(|x| -beta * x).collect()).collect();
    let e = expm(&a);
    let z: f64 = (0..dim).map(|s| e[s][s]).sum();
    let he = matmul(h, &e);
    let energy = (0..dim).map(|s| he[s][s]).sum::<f64>() / z;
    let sp = |s: usize, i: usize| if bit(s, i) { 1.0 } else { -1.0 };
    let mag = (0..n).map(|i| (0..dim).map(|s| sp(s, i) * e[s][s]).sum::<f64>() / z).collect();
    let zz = (0..n).map(|i| (0..n).map(|j| (0..dim).map(|s| sp(s, i) * sp(s, j) * e[s][s]).sum::<f64>() / z).collect()).collect();
    let sx = (0..n).map(|i| (0..dim).map(|s| e[s ^ (1 << i)][s]).sum::<f64>() / z).collect();
    Exact { energy, mag, zz, sx }
}

pub fn ising_h(spec: &IsingSpec) -> Mat {
    let n = spec.nvars;
    let dim = 1usize << n;
    let mut h = vec![vec![0.0; dim]; dim];
    let sp = |s: usize, i: usize| if bit(s, i) { 1.0 } else { -1.0 };
    for s in 0..dim {
        for ((a, b), j) in &spec.edges {
            h[s][s] += j * sp(s, *a) * sp(s, *b);
        }
        for i in 0..n {
            h[s][s] -= spec.h * sp(s, i);
            h[s ^ (1 << i)][s] -= spec.gamma;
        }
    }
    h
}

/// H = - sum of the given interaction matrices (entry (outs << k | ins), first variable most significant)
pub fn generic_h(spec: &QmcSpec) -> Mat {
    let n = spec.nvars;
    let dim = 1usize << n;
    let mut h = vec![vec![0.0; dim]; dim];
    for b in &spec.bonds {
        let k = b.vars.len();
        let sub = |s: usize| -> usize { b.vars.iter().fold(0usize, |acc, v| (acc << 1) | (bit(s, *v) as usize)) };
        for s_in in 0..dim {
            for sub_out in 0..(1usize << k) {
                // s_out: s_in with the bond's variables replaced by sub_out
                let mut s_out = s_in;
                for (pos, v) in b.vars.iter().enumerate() {
                    let val = (sub_out >> (k - 1 - pos)) & 1;
                    s_out = (s_out & !(1 << v)) | (val << v);
                }
                let w = if b.kind < 2 {
                    b.mat[(sub_out << k) | sub(s_in)]
                } else if sub_out == sub(s_in) {
                    b.mat[sub_out]
                } else {
                    0.0
                };
                h[s_out][s_in] -= w;
            }
        }
    }
    h
}

struct Stats {
    sum: Vec<f64>,
    bins: Vec<Vec<f64>>,
    nbin: usize,
    per_bin: usize,
    cur: Vec<f64>,
    cnt: usize,
}

impl Stats {
    fn new(k: usize, total: usize) -> Self {
        let nbin = 20;
        Stats { sum: vec![0.0; k], bins: vec![], nbin, per_bin: (total / nbin).max(1), cur: vec![0.0; k], cnt: 0 }
    }
    fn add(&mut self, x: &[f64]) {
        for (i, v) in x.iter().enumerate() {
            self.sum[i] += v;
            self.cur[i] += v;
        }
        self.cnt += 1;
        if self.cnt % self.per_bin == 0 && self.bins.len() < self.nbin {
            self.bins.push(self.cur.iter().map(|v| v / self.per_bin as f64).collect());
            self.cur.iter_mut().for_each(|v| *v = 0.0);
        }
    }
    fn mean_err(&self) -> Vec<(f64, f64)> {
        let nb = self.bins.len() as f64;
        (0..self.sum.len())
            .map(|i| {
                let m = self.bins.iter().map(|b| b[i]).sum::<f64>() / nb;
                let var = self.bins.iter().map(|b| (b[i] - m) * (b[i] - m)).sum::<f64>() / (nb * (nb - 1.0));
                (m, var.sqrt())
            })
            .collect()
    }
}

fn judge(name: &str, got: f64, err: f64, want: f64, slack: f64) -> Option<String> {
    let tol = 6.0 * err + slack;
    if (got - want).abs() > tol {
        Some(format!("{}: sampled {:.4} +- {:.4}, exact {:.4}", name, got, err, want))
    } else {
        None
    }
}

fn tiny_ising(rng: &mut SplitMix64, idx: usize, hsign: f64) -> IsingSpec {
    // frustrated / unfrustrated small graphs with unequal |J|
    let (edges, n): (Vec<((usize, usize), f64)>, usize) = match idx % 4 {
        0 => (vec![((0, 1), 1.0), ((1, 2), -0.5)], 3),
        1 => (vec![((0, 1), 1.0), ((1, 2), 0.75), ((2, 0), 1.25)], 3),
        2 => (vec![((0, 1), -1.0), ((0, 1), 0.5)], 2),
        _ => (vec![((0, 1), 0.5), ((1, 2), -1.0), ((0, 2), -0.75)], 3),
    };
    let gamma = [0.5, 1.0, 0.75][rng.below(3) as usize];
    let state = (0..n).map(|_| rng.chance(1, 2)).collect();
    IsingSpec { edges, gamma, h: hsign * [0.5, 0.75][rng.below(2) as usize], nvars: n, cutoff: [1, 2, 6][rng.below(3) as usize], state, hb: false }
}

pub fn run(args: &Args) -> Value {
    let mut rng = SplitMix64::new(args.seed ^ 0x7E41);
    let nsteps = if args.thorough { 400_000 } else { 40_000 };
    let warm = nsteps / 10;
    let mut oracle_failures: Vec<Value> = vec![];
    let mut samples = vec![];
    let mut n_runs = 0usize;
    let mut fail = |prop: &str, key: Option<&str>, what: String, ctx: Value, v: &mut Vec<Value>| {
        let mut f = json!({"prop": prop, "what": what, "context": ctx});
        if let Some(k) = key {
            f["key"] = json!(k);
        }
        v.push(f);
    };
    // ---------------- Ising sampler: default pipeline (C01), heat bath (C02), RVB (C03)
    let variants: Vec<(&str, bool, u8)> = vec![("C01", false, 0), ("C02", true, 0), ("C02", true, 1), ("C03", false, 1), ("C03", false, 2), ("C03", true, 2)];
    for (vi, (prop, hb, rvb)) in variants.iter().enumerate() {
        for (ii, hsign) in [0.0, 1.0, -1.0].iter().enumerate() {
            let mut spec = tiny_ising(&mut rng, vi + ii, *hsign);
            spec.hb = *hb;
            let beta = [0.5, 1.0][rng.below(2) as usize];
            let ex = exact_from_h(&ising_h(&spec), spec.nvars, beta);
            let ctx = json!({"edges": spec.edges, "gamma": spec.gamma, "h": spec.h, "beta": beta, "initial_cutoff": spec.cutoff,
                "heatbath": hb, "rvb": match rvb { 0 => "off", 1 => "set_run_rvb", _ => "explicit single_rvb_sweep between steps" }});
            let n = spec.nvars;
            let nb = spec.nbonds();
            let r = catch_unwind(AssertUnwindSafe(|| {
                let mut g = spec.build(TapeRng::new(rng.next()));
                g.rng_logging_off();
                if *rvb == 1 {
                    g.set_run_rvb(true);
                }
                let mut st = Stats::new(1 + n + n * n + nb, nsteps);
                for t in 0..(warm + nsteps) {
                    g.timestep(beta);
                    if *rvb == 2 {
                        g.single_rvb_sweep(Some(2));
                    }
                    if t >= warm {
                        let s = g.clone_state();
                        let sp = |i: usize| if s[i] { 1.0 } else { -1.0 };
                        let mut x = vec![g.get_energy_for_average_n(g.get_n() as f64, beta)];
                        for i in 0..n {
                            x.push(sp(i));
                        }
                        for i in 0..n {
                            for j in 0..n {
                                x.push(sp(i) * sp(j));
                            }
                        }
                        for b in 0..nb {
                            x.push(g.get_bond_count(b) as f64);
                        }
                        st.add(&x);
                    }
                }
                st.mean_err()
            }));
            n_runs += 1;
            match r {
                Err(_) => fail(prop, None, "sampler panicked during a long run".into(), ctx.clone(), &mut oracle_failures),
                Ok(me) => {
                    let mut bad = vec![];
                    if let Some(m) = judge("energy", me[0].0, me[0].1, ex.energy, 0.02) {
                        bad.push(m);
                    }
                    for i in 0..n {
                        if let Some(m) = judge(&format!("<s_{}>", i), me[1 + i].0, me[1 + i].1, ex.mag[i], 0.02) {
                            bad.push(m);
                        }
                    }
                    for i in 0..n {
                        for j in (i + 1)..n {
                            if let Some(m) = judge(&format!("<s_{} s_{}>", i, j), me[1 + n + i * n + j].0, me[1 + n + i * n + j].1, ex.zz[i][j], 0.02) {
                                bad.push(m);
                            }
                        }
                    }
                    // mean operator count per bond = beta * <offset_b - H_b>
                    for b in 0..nb {
                        let ne = spec.edges.len();
                        let want = if b < ne {
                            let ((x, y), j) = spec.edges[b];
                            beta * (j.abs() - j * ex.zz[x][y])
                        } else if b < ne + n {
                            beta * (spec.gamma + spec.gamma * ex.sx[b - ne])
                        } else {
                            beta * (spec.h.abs() + spec.h * ex.mag[b - ne - n])
                        };
                        if let Some(m) = judge(&format!("<n_bond{}>", b), me[1 + n + n * n + b].0, me[1 + n + n * n + b].1, want, 0.03) {
                            bad.push(m);
                        }
                    }
                    if !bad.is_empty() {
                        fail(prop, None, format!("does not converge to the exact thermal values: {}", bad.join("; ")), ctx.clone(), &mut oracle_failures);
                    }
                    if samples.len() < 8 {
                        samples.push(json!({"property": prop, "context": ctx, "energy": [me[0].0, me[0].1, ex.energy]}));
                    }
                }
            }
        }
    }
    // ---------------- generic sampler (C04; with heat bath also C02)
    let d = 0.25;
    let exch = |vs: Vec<usize>, a: f64, b: f64, x: f64| {
        let mut m = vec![0.0; 16];
        m[0] = a;
        m[5] = b;
        m[10] = b;
        m[15] = a;
        m[6] = x;
        m[9] = x;
        BondSpec { kind: 1, mat: m, vars: vs }
    };
    let generic: Vec<(&str, Option<&str>, QmcSpec)> = vec![
        ("C04", None, QmcSpec { nvars: 2, bonds: vec![exch(vec![0, 1], 1.0, 0.5, 0.75)], state: vec![true, false], loops: true, hb: false }),
        ("C04", None, QmcSpec { nvars: 3, bonds: vec![exch(vec![0, 1], 0.5, 1.0, 0.5), exch(vec![1, 2], 1.0, 0.25, 1.0),
            BondSpec { kind: 3, mat: vec![0.5, 1.5], vars: vec![2] }], state: vec![true, false, true], loops: true, hb: false }),
        ("C04", None, QmcSpec { nvars: 3, bonds: vec![BondSpec { kind: 0, mat: vec![1.0; 4], vars: vec![0] }, BondSpec { kind: 0, mat: vec![0.5; 4], vars: vec![1] },
            BondSpec { kind: 0, mat: vec![0.75; 4], vars: vec![2] }, BondSpec { kind: 3, mat: vec![1.0, 0.25, 0.25, 1.0], vars: vec![0, 1] },
            BondSpec { kind: 2, mat: vec![0.5, 1.5, 1.0, 2.0, 2.0, 1.0, 1.5, 0.5], vars: vec![0, 1, 2] }], state: vec![false, false, true], loops: false, hb: false }),
        ("C02", None, QmcSpec { nvars: 3, bonds: vec![exch(vec![0, 1], 0.5, 1.0, 0.5), exch(vec![1, 2], 1.0, 0.25, 1.0), exch(vec![0, 2], 0.25, 0.5, 0.75),
            BondSpec { kind: 2, mat: vec![0.25, 0.5, 0.5, 0.75, 0.5, 0.25, 1.0, 2.5], vars: vec![0, 1, 2] }], state: vec![true, true, false], loops: true, hb: true }),
        ("C04", Some("odd-parity"), QmcSpec { nvars: 2, bonds: vec![BondSpec { kind: 0, mat: vec![2.0, 1.0, 1.0, 0.5], vars: vec![0] },
            BondSpec { kind: 0, mat: vec![2.0, 1.0, 1.0, 0.5], vars: vec![1] }, BondSpec { kind: 3, mat: vec![1.0, 0.0, 0.0, 1.0], vars: vec![0, 1] }],
            state: vec![true, false], loops: true, hb: false }),
    ];
    let _ = d;
    for (prop, key, spec) in generic {
        let beta = 1.0;
        let ex = exact_from_h(&generic_h(&spec), spec.nvars, beta);
        let n = spec.nvars;
        let ctx = json!({"sampler": "generic", "bonds": spec.bonds.iter().map(|b| json!([b.kind, b.mat, b.vars])).collect::<Vec<_>>(),
            "loops": spec.loops, "heatbath": spec.hb, "beta": beta});
        let r = catch_unwind(AssertUnwindSafe(|| {
            let mut q = spec.build(TapeRng::new(rng.next())).unwrap();
            let mut st = Stats::new(1 + n, nsteps);
            for t in 0..(warm + nsteps) {
                q.timestep(beta);
                if t >= warm {
                    let s = q.clone_state();
                    let mut x = vec![q.get_energy_for_average_n(QmcStepper::get_n(&q) as f64, beta)];
                    for i in 0..n {
                        x.push(if s[i] { 1.0 } else { -1.0 });
                    }
                    st.add(&x);
                }
            }
            st.mean_err()
        }));
        n_runs += 1;
        match r {
            Err(_) => fail(prop, key, "generic sampler panicked during a long run".into(), ctx, &mut oracle_failures),
            Ok(me) => {
                let mut bad = vec![];
                if let Some(m) = judge("energy", me[0].0, me[0].1, ex.energy, 0.02) {
                    bad.push(m);
                }
                for i in 0..n {
                    if let Some(m) = judge(&format!("<s_{}>", i), me[1 + i].0, me[1 + i].1, ex.mag[i], 0.02) {
                        bad.push(m);
                    }
                }
                if !bad.is_empty() {
                    fail(prop, key, format!("generic sampler does not converge to the thermal state of its matrices: {}", bad.join("; ")), ctx, &mut oracle_failures);
                }
            }
        }
    }
    // ---------------- tempering (C05): every rung at its own thermal distribution, serial and rayon drivers
    for (li, par) in [(0usize, false), (1, true), (2, false), (3, true)] {
        let base = tiny_ising(&mut rng, 1 + li, if li >= 2 { 1.0 } else { 0.0 });
        let mut specs = vec![];
        let mut betas = vec![];
        for (k, (bscale, jscale)) in [(0.5, 1.0), (1.0, 1.0), (1.0, 0.5), (1.0, 0.25)].iter().enumerate() {
            let mut s = base.clone();
            for e in s.edges.iter_mut() {
                e.1 *= jscale;
            }
            s.cutoff = 1 + k;
            s.hb = false;
            specs.push(s);
            betas.push(*bscale);
        }
        if li % 2 == 1 {
            specs.truncate(3);
            betas.truncate(3);
        }
        let ctx = json!({"driver": if par {"rayon"} else {"serial"}, "betas": betas, "edges": specs.iter().map(|s| s.edges.clone()).collect::<Vec<_>>(),
            "gamma": base.gamma, "h": base.h, "swap_period": 1 + li, "sampling_period": 1 + (li % 2)});
        let nrep = specs.len();
        let n = base.nvars;
        let r = catch_unwind(AssertUnwindSafe(|| {
            let mut tc: crate::c10::TC = TemperingContainer::new(TapeRng::new(rng.next()));
            for (s, b) in specs.iter().zip(betas.iter()) {
                let mut g = s.build(TapeRng::new(rng.next()));
                g.rng_logging_off();
                tc.add_qmc_stepper(g, *b).unwrap();
            }
            tc.rng_mut().logging = false;
            tc.timesteps(warm);
            let mut stats: Vec<Stats> = (0..nrep).map(|_| Stats::new(1 + n * n, nsteps / 10)).collect();
            // chunks of 10 steps through the measuring driver
            let mut t = 0;
            while t < nsteps {
                let res = if par { tc.parallel_timesteps_sample(10, 1 + li, 1 + (li % 2)) } else { tc.timesteps_sample(10, 1 + li, 1 + (li % 2)) };
                for (i, (states, e)) in res.iter().enumerate() {
                    let mut x = vec![*e];
                    let mut zz = vec![0.0; n * n];
                    for s in states {
                        for a in 0..n {
                            for b in 0..n {
                                zz[a * n + b] += if s[a] == s[b] { 1.0 } else { -1.0 };
                            }
                        }
                    }
                    x.extend(zz.iter().map(|v| v / states.len() as f64));
                    stats[i].add(&x);
                }
                t += 10;
            }
            stats.iter().map(|s| s.mean_err()).collect::<Vec<_>>()
        }));
        n_runs += 1;
        match r {
            Err(_) => fail("C05", None, "tempering run panicked".into(), ctx, &mut oracle_failures),
            Ok(all) => {
                let mut bad = vec![];
                for (i, me) in all.iter().enumerate() {
                    let ex = exact_from_h(&ising_h(&specs[i]), n, betas[i]);
                    if let Some(m) = judge(&format!("rung {} energy", i), me[0].0, me[0].1, ex.energy, 0.03) {
                        bad.push(m);
                    }
                    for a in 0..n {
                        for b in (a + 1)..n {
                            if let Some(m) = judge(&format!("rung {} <s_{} s_{}>", i, a, b), me[1 + a * n + b].0, me[1 + a * n + b].1, ex.zz[a][b], 0.03) {
                                bad.push(m);
                            }
                        }
                    }
                }
                if !bad.is_empty() {
                    fail("C05", None, format!("a ladder position does not sample its own thermal distribution: {}", bad.join("; ")), ctx, &mut oracle_failures);
                }
            }
        }
    }
    json!({"files": [], "evaluations": n_runs, "distinct_nontrivial": n_runs, "steps_per_run": nsteps,
        "oracle_failures": oracle_failures, "samples": samples,
        "rule": "long runs (40k steps quick, 400k thorough, 10% warm-up, 20 bins) of the real samplers on 2-3 spin models (frustrated triangle, multi-edge, unequal |J|, h = 0 / + / -, initial cutoffs 1..6) with the default pipeline, heat bath, automatic and explicit RVB, generic interaction sets (exchange + loops, symmetric diagonal + constant terms, a 3-variable diagonal term with heat bath) and tempering ladders (serial and rayon), compared with dense exact diagonalisation: energy, magnetisations, correlations, mean operator count per bond; tolerance 6 sigma + 0.02"})
}
