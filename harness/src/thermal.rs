//! Model-independent thermal oracle: long runs of the real samplers on tiny models against exact
//! diagonalisation (dense exp(-beta H) by scaling and squaring).  Serves C01-C05 (tagged failures).
use crate::ising::*;
use crate::tape::{SplitMix64, TapeRng};
use crate::Args;
use qmc::sse::rayon_tempering::ParallelQmcTimeSteps;
use qmc::sse::*;
use serde_json::{json, Value};
use std::panic::{catch_unwind, AssertUnwindSafe};

type Mat = Vec<Vec<f64>>;

fn matmul(a: &Mat, b: &Mat) -> Mat {
    let n = a.len();
    let mut c = vec![vec![0.0; n]; n];
    for i in 0..n {
        for k in 0..n {
            let x = a[i][k];
            if x != 0.0 {
                for j in 0..n {
                    c[i][j] += x * b[k][j];
                }
            }
        }
    }
    c
}

/// exp(A) by scaling and squaring with a degree-24 Taylor polynomial
fn expm(a: &Mat) -> Mat {
    let n = a.len();
    let norm = a.iter().map(|r| r.iter().map(|x| x.abs()).sum::<f64>()).fold(0.0, f64::max);
    let mut k = 0;
    while norm / (1u64 << k) as f64 > 0.25 {
        k += 1;
    }
    let s = 1.0 / (1u64 << k) as f64;
    let b: Mat = a.iter().map(|r| r.iter().map(|x| x * s).collect()).collect();
    let mut res = vec![vec![0.0; n]; n];
    let mut term = vec![vec![0.0; n]; n];
    for i in 0..n {
        res[i][i] = 1.0;
        term[i][i] = 1.0;
    }
    for d in 1..=24 {
        term = matmul(&term, &b);
        for r in term.iter_mut() {
            for x in r.iter_mut() {
                *x /= d as f64;
            }
        }
        for i in 0..n {
            for j in 0..n {
                res[i][j] += term[i][j];
            }
        }
    }
    for _ in 0..k {
        res = matmul(&res, &res);
    }
    res
}

pub struct Exact {
    pub energy: f64,
    pub mag: Vec<f64>,
    pub zz: Vec<Vec<f64>>,
    pub sx: Vec<f64>,
}

fn bit(s: usize, i: usize) -> bool {
    (s >> i) & 1 == 1
}

/// thermal expectation values for a dense Hamiltonian over n spins (basis index bit i = spin i up)
pub fn exact_from_h(h: &Mat, n: usize, beta: f64) -> Exact {
    let dim = 1usize << n;
    let a: Mat = h.iter().map(|r| r.iter().map(|x| -beta * x).collect()).collect();
    let e = expm(&a);
    let z: f64 = (0..dim).map(|s| e[s][s]).sum();
    let he = matmul(h, &e);
    let energy = (0..dim).map(|s| he[s][s]).sum::<f64>() / z;
    let sp = |s: usize, i: usize| if bit(s, i) { 1.0 } else { -1.0 };
    let mag = (0..n).map(|i| (0..dim).map(|s| sp(s, i) * e[s][s]).sum::<f64>() / z).collect();
    let zz = (0..n).map(|i| (0..n).map(|j| (0..dim).map(|s| sp(s, i) * sp(s, j) * e[s][s]).sum::<f64>() / z).collect()).collect();
    let sx = (0..n).map(|i| (0..dim).map(|s| e[s ^ (1 << i)][s]).sum::<f64>() / z).collect();
    Exact { energy, mag, zz, sx }
}

pub fn ising_h(spec: &IsingSpec) -> Mat {
    let n = spec.nvars;
    let dim = 1usize << n;
    let mut h = vec![vec![0.0; dim]; dim];
    let sp = |s: usize, i: usize| if bit(s, i) { 1.0 } else { -1.0 };
    for s in 0..dim {
        for ((a, b), j) in &spec.edges {
            h[s][s] += j * sp(s, *a) * sp(s, *b);
        }
        for i in 0..n {
            h[s][s] -= spec.h * sp(s, i);
            h[s ^ (1 << i)][s] -= spec.gamma;
        }
    }
    h
}

/// H = - sum of the given interaction matrices (entry (outs << k | ins), first variable most significant)
pub fn generic_h(spec: &QmcSpec) -> Mat {
    let n = spec.nvars;
    let dim = 1usize << n;
    let mut h = vec![vec![0.0; dim]; dim];
    for b in &spec.bonds {
        let k = b.vars.len();
        let sub = |s: usize| -> usize { b.vars.iter().fold(0usize, |acc, v| (acc << 1) | (bit(s, *v) as usize)) };
        for s_in in 0..dim {
            for sub_out in 0..(1usize << k) {
                // s_out: s_in with the bond's variables replaced by sub_out
                let mut s_out = s_in;
                for (pos, v) in b.vars.iter().enumerate() {
                    let val = (sub_out >> (k - 1 - pos)) & 1;
                    s_out = (s_out & !(1 << v)) | (val << v);
                }
                let w = if b.kind < 2 {
                    b.mat[(sub_out << k) | sub(s_in)]
                } else if sub_out == sub(s_in) {
                    b.mat[sub_out]
                } else {
                    0.0
                };
                h[s_out][s_in] -= w;
            }
        }
    }
    h
}

struct Stats {
    sum: Vec<f64>,
    bins: Vec<Vec<f64>>,
    nbin: usize,
    per_bin: usize,
    cur: Vec<f64>,
    cnt: usize,
}

impl Stats {
    fn new(k: usize, total: usize) -> Self {
        let nbin = 20;
        Stats { sum: vec![0.0; k], bins: vec![], nbin, per_bin: (total / nbin).max(1), cur: vec![0.0; k], cnt: 0 }
    }
    fn add(&mut self, x: &[f64]) {
        for (i, v) in x.iter().enumerate() {
            self.sum[i] += v;
            self.cur[i] += v;
        }
        self.cnt += 1;
        if self.cnt % self.per_bin == 0 && self.bins.len() < self.nbin {
            self.bins.push(self.cur.iter().map(|v| v / self.per_bin as f64).collect());
            self.cur.iter_mut().for_each(|v| *v = 0.0);
        }
    }
    fn mean_err(&self) -> Vec<(f64, f64)> {
        let nb = self.bins.len() as f64;
        (0..self.sum.len())
            .map(|i| {
                let m = self.bins.iter().map(|b| b[i]).sum::<f64>() / nb;
                let var = self.bins.iter().map(|b| (b[i] - m) * (b[i] - m)).sum::<f64>() / (nb * (nb - 1.0));
                (m, var.sqrt())
            })
            .collect()
    }
}

fn judge(name: &str, got: f64, err: f64, want: f64, slack: f64) -> Option<String> {
    let tol = 6.0 * err + slack;
    if (got - want).abs() > tol {
        Some(format!("{}: sampled {:.4} +- {:.4}, exact {:.4}", name, got, err, want))
    } else {
        None
    }
}

fn tiny_ising(rng: &mut SplitMix64, idx: usize, hsign: f64) -> IsingSpec {
    // frustrated / unfrustrated small graphs with unequal |J|
    let (edges, n): (Vec<((usize, usize), f64)>, usize) = match idx % 4 {
        0 => (vec![((0, 1), 1.0), ((1, 2), -0.5)], 3),
        1 => (vec![((0, 1), 1.0), ((1, 2), 0.75), ((2, 0), 1.25)], 3),
        2 => (vec![((0, 1), -1.0), ((0, 1), 0.5)], 2),
        _ => (vec![((0, 1), 0.5), ((1, 2), -1.0), ((0, 2), -0.75)], 3),
    };
    let gamma = [0.5, 1.0, 0.75][rng.below(3) as usize];
    let state = (0..n).map(|_| rng.chance(1, 2)).collect();
    IsingSpec { edges, gamma, h: hsign * [0.5, 0.75][rng.below(2) as usize], nvars: n, cutoff: [1, 2, 6][rng.below(3) as usize], state, hb: false }
}

struct Outcome {
    failures: Vec<Value>,
    sample: Option<Value>,
    /// a panic or a bookkeeping failure: not statistical, reported without a confirmation run
    hard: bool,
}

/// A statistical failure is reported only if a second, four times longer run from another RNG seed
/// fails as well (the binned error estimate has heavy tails; this keeps the false-alarm rate negligible).
fn confirmed<F: Fn(usize, u64) -> Outcome>(f: F, nsteps: usize) -> Outcome {
    let o = f(nsteps, 0);
    if o.failures.is_empty() || o.hard {
        return o;
    }
    let o2 = f(4 * nsteps, 0x5EED_5EED);
    if o2.failures.is_empty() {
        Outcome { failures: vec![], sample: o2.sample, hard: false }
    } else {
        o2
    }
}

fn mk_fail(prop: &str, key: Option<&str>, what: String, ctx: Value) -> Value {
    let mut f = json!({"prop": prop, "what": what, "context": ctx});
    if let Some(k) = key {
        f["key"] = json!(k);
    }
    f
}

struct IsingJob {
    prop: &'static str,
    spec: IsingSpec,
    beta: f64,
    rvb: u8,
    seed: u64,
}

fn run_ising_job(j: &IsingJob, nsteps: usize, seed_xor: u64) -> Outcome {
    let warm = nsteps / 10;
    let seed = j.seed ^ seed_xor;
    let mut hard = false;
    let spec = &j.spec;
    let (prop, beta, rvb) = (j.prop, j.beta, j.rvb);
    let mut failures = vec![];
    let ex = exact_from_h(&ising_h(spec), spec.nvars, beta);
    let ctx = json!({"edges": spec.edges, "gamma": spec.gamma, "h": spec.h, "beta": beta, "initial_cutoff": spec.cutoff, "initial_state": spec.state,
        "heatbath": spec.hb, "rng_seed": seed, "steps": nsteps,
        "rvb": match rvb { 0 => "off", 1 => "set_run_rvb", _ => "explicit single_rvb_sweep(2) after every step" }});
    let n = spec.nvars;
    let nb = spec.nbonds();
    let mut drift: Option<String> = None;
    let r = catch_unwind(AssertUnwindSafe(|| {
        let mut g = spec.build(TapeRng::new(seed));
        g.rng_logging_off();
        if rvb == 1 {
            g.set_run_rvb(true);
        }
        let mut st = Stats::new(1 + n + n * n + nb, nsteps);
        let mut drift_seen = false;
        for t in 0..(warm + nsteps) {
            g.timestep(beta);
            if rvb == 2 {
                g.single_rvb_sweep(Some(2));
            }
            if !drift_seen && t % 16 == 0 {
                let (sl, _, _) = snapshot_ising(&g);
                for b in 0..nb {
                    let cnt = sl.iter().flatten().filter(|o| o.bond == b).count();
                    if g.get_bond_count(b) != cnt {
                        drift_seen = true;
                        drift = Some(format!("step {}: get_bond_count({}) = {} but {} operators of that bond are stored", t, b, g.get_bond_count(b), cnt));
                        break;
                    }
                }
            }
            if t >= warm {
                let s = g.clone_state();
                let sp = |i: usize| if s[i] { 1.0 } else { -1.0 };
                let mut x = vec![g.get_energy_for_average_n(g.get_n() as f64, beta)];
                for i in 0..n {
                    x.push(sp(i));
                }
                for i in 0..n {
                    for j in 0..n {
                        x.push(sp(i) * sp(j));
                    }
                }
                for b in 0..nb {
                    x.push(g.get_bond_count(b) as f64);
                }
                st.add(&x);
            }
        }
        let mut me = st.mean_err();
        // the energy REPORTED by the public measuring helper with a sampling period > 1 (the value a
        // user sees): 20 further chunks through timesteps_measure(.., Some(3)), binned
        if prop.contains("C01") && rvb == 0 {
            let chunk = (nsteps / 40).max(30);
            let vals: Vec<f64> = (0..20).map(|_| g.timesteps_measure(chunk, beta, (), |_, _| (), Some(3)).1).collect();
            let mean = vals.iter().sum::<f64>() / 20.0;
            let var = vals.iter().map(|v| (v - mean) * (v - mean)).sum::<f64>() / 19.0;
            me.push((mean, (var / 20.0).sqrt()));
        }
        me
    }));
    if let Some(dmsg) = &drift {
        hard = true;
        failures.push(mk_fail("C11", None, format!("per-bond operator count disagrees with the contents during a run: {}", dmsg), ctx.clone()));
    }
    let mut sample = None;
    match r {
        Err(_) => {
            hard = true;
            failures.push(mk_fail(prop, None, format!("sampler panicked during a long run ({})", drift.clone().unwrap_or_default()), ctx.clone()))
        }
        Ok(me) => {
            let mut bad = vec![];
            if let Some(m) = judge("energy", me[0].0, me[0].1, ex.energy, 0.02) {
                bad.push(m);
            }
            for i in 0..n {
                if let Some(m) = judge(&format!("<s_{}>", i), me[1 + i].0, me[1 + i].1, ex.mag[i], 0.02) {
                    bad.push(m);
                }
            }
            for i in 0..n {
                for j in (i + 1)..n {
                    if let Some(m) = judge(&format!("<s_{} s_{}>", i, j), me[1 + n + i * n + j].0, me[1 + n + i * n + j].1, ex.zz[i][j], 0.02) {
                        bad.push(m);
                    }
                }
            }
            // mean operator count per bond = beta * <offset_b - H_b>
            for b in 0..nb {
                let ne = spec.edges.len();
                let want = if b < ne {
                    let ((x, y), jj) = spec.edges[b];
                    beta * (jj.abs() - jj * ex.zz[x][y])
                } else if b < ne + n {
                    beta * (spec.gamma + spec.gamma * ex.sx[b - ne])
                } else {
                    beta * (spec.h.abs() + spec.h * ex.mag[b - ne - n])
                };
                if let Some(m) = judge(&format!("<n_bond{}>", b), me[1 + n + n * n + b].0, me[1 + n + n * n + b].1, want, 0.03) {
                    bad.push(m);
                }
            }
            if me.len() > 1 + n + n * n + nb {
                let (m, e) = me[1 + n + n * n + nb];
                if let Some(msg) = judge("energy returned by timesteps_measure(sampling period 3)", m, e, ex.energy, 0.03) {
                    bad.push(msg);
                }
            }
            if !bad.is_empty() {
                failures.push(mk_fail(prop, None, format!("does not converge to the exact thermal values: {}", bad.join("; ")), ctx.clone()));
            }
            sample = Some(json!({"property": prop, "context": ctx, "energy": [me[0].0, me[0].1, ex.energy]}));
        }
    }
    Outcome { failures, sample, hard }
}

struct GenericJob {
    prop: &'static str,
    key: Option<&'static str>,
    spec: QmcSpec,
    beta: f64,
    seed: u64,
    /// > 0: the first `staged` interactions are given first (heat bath on, a few steps), the rest after the
    /// heat bath was switched off; then the option is switched on again
    staged: usize,
    /// precision job: run `scale` times longer and judge with this absolute slack instead of 0.02
    scale: usize,
    slack: f64,
}

fn run_generic_job(j: &GenericJob, nsteps: usize, seed_xor: u64) -> Outcome {
    let nsteps = nsteps * j.scale;
    let warm = (nsteps / 10).min(100_000);
    let seed = j.seed ^ seed_xor;
    let mut hard = false;
    let spec = &j.spec;
    let beta = j.beta;
    let ex = exact_from_h(&generic_h(spec), spec.nvars, beta);
    let n = spec.nvars;
    let ctx = json!({"sampler": "generic", "bonds": spec.bonds.iter().map(|b| json!([b.kind, b.mat, b.vars])).collect::<Vec<_>>(),
        "loops": spec.loops, "heatbath": spec.hb, "beta": beta, "initial_state": spec.state, "rng_seed": seed, "steps": nsteps,
        "interactions_given_first": if j.staged > 0 { json!(j.staged) } else { json!("all") }});
    let mut failures = vec![];
    let r = catch_unwind(AssertUnwindSafe(|| {
        // (a non-logging generator: long statistical runs must not accumulate the word log)
        let mut tape = TapeRng::new(seed);
        tape.logging = false;
        let mut q = if j.staged > 0 { spec.build_staged(tape, j.staged, 20, beta).unwrap() } else { spec.build(tape).unwrap() };
        let mut st = Stats::new(1 + n, nsteps);
        for t in 0..(warm + nsteps) {
            q.timestep(beta);
            if t >= warm {
                let s = q.clone_state();
                let mut x = vec![q.get_energy_for_average_n(QmcStepper::get_n(&q) as f64, beta)];
                for i in 0..n {
                    x.push(if s[i] { 1.0 } else { -1.0 });
                }
                st.add(&x);
            }
        }
        st.mean_err()
    }));
    let mut sample = None;
    match r {
        Err(_) => {
            hard = true;
            failures.push(mk_fail(j.prop, j.key, "generic sampler panicked during a long run".into(), ctx))
        }
        Ok(me) => {
            let mut bad = vec![];
            if let Some(m) = judge("energy", me[0].0, me[0].1, ex.energy, j.slack) {
                bad.push(m);
            }
            for i in 0..n {
                if let Some(m) = judge(&format!("<s_{}>", i), me[1 + i].0, me[1 + i].1, ex.mag[i], j.slack) {
                    bad.push(m);
                }
            }
            if !bad.is_empty() {
                failures.push(mk_fail(j.prop, j.key, format!("generic sampler does not converge to the thermal state of its matrices: {}", bad.join("; ")), ctx));
            } else {
                sample = Some(json!({"property": j.prop, "context": ctx, "energy": [me[0].0, me[0].1, ex.energy]}));
            }
        }
    }
    Outcome { failures, sample, hard }
}

struct LadderJob {
    li: usize,
    par: bool,
    specs: Vec<IsingSpec>,
    betas: Vec<f64>,
    seeds: Vec<u64>,
}

fn run_ladder_job(j: &LadderJob, nsteps: usize, seed_xor: u64) -> Outcome {
    let warm = nsteps / 10;
    let mut hard = false;
    let seeds: Vec<u64> = j.seeds.iter().map(|s| s ^ seed_xor).collect();
    let (li, par, specs, betas) = (j.li, j.par, &j.specs, &j.betas);
    let base = &specs[0];
    let ctx = json!({"driver": if par {"rayon"} else {"serial"}, "betas": betas, "edges": specs.iter().map(|s| s.edges.clone()).collect::<Vec<_>>(),
        "gamma": base.gamma, "h": specs.iter().map(|s| s.h).collect::<Vec<_>>(), "swap_period": 1 + li % 3, "sampling_period": 1 + (li % 2), "rng_seeds": seeds, "steps": nsteps});
    let nrep = specs.len();
    let n = base.nvars;
    let (sw, sa) = (1 + li % 3, 1 + (li % 2));
    let mut failures = vec![];
    let r = catch_unwind(AssertUnwindSafe(|| {
        let mut tc: crate::c10::TC = TemperingContainer::new(TapeRng::new(seeds[0]));
        for (k, (s, b)) in specs.iter().zip(betas.iter()).enumerate() {
            let mut g = s.build(TapeRng::new(seeds[1 + k]));
            g.rng_logging_off();
            tc.add_qmc_stepper(g, *b).unwrap();
        }
        tc.rng_mut().logging = false;
        tc.timesteps(warm);
        let mut stats: Vec<Stats> = (0..nrep).map(|_| Stats::new(1 + n * n, nsteps / 12)).collect();
        // chunks of 12 steps through the measuring driver
        let mut t = 0;
        while t < nsteps {
            let res = if par { tc.parallel_timesteps_sample(12, sw, sa) } else { tc.timesteps_sample(12, sw, sa) };
            for (i, (states, e)) in res.iter().enumerate() {
                let mut x = vec![*e];
                let mut zz = vec![0.0; n * n];
                for s in states {
                    for a in 0..n {
                        for b in 0..n {
                            zz[a * n + b] += if s[a] == s[b] { 1.0 } else { -1.0 };
                        }
                    }
                }
                x.extend(zz.iter().map(|v| v / states.len() as f64));
                stats[i].add(&x);
            }
            t += 12;
        }
        stats.iter().map(|s| s.mean_err()).collect::<Vec<_>>()
    }));
    let mut sample = None;
    match r {
        Err(_) => {
            hard = true;
            failures.push(mk_fail("C05", None, "tempering run panicked".into(), ctx))
        }
        Ok(all) => {
            let mut bad = vec![];
            for (i, me) in all.iter().enumerate() {
                let ex = exact_from_h(&ising_h(&specs[i]), n, betas[i]);
                if let Some(m) = judge(&format!("rung {} energy", i), me[0].0, me[0].1, ex.energy, 0.03) {
                    bad.push(m);
                }
                for a in 0..n {
                    for b in (a + 1)..n {
                        if let Some(m) = judge(&format!("rung {} <s_{} s_{}>", i, a, b), me[1 + a * n + b].0, me[1 + a * n + b].1, ex.zz[a][b], 0.03) {
                            bad.push(m);
                        }
                    }
                }
            }
            if !bad.is_empty() {
                let tag = if j.specs.iter().any(|s| s.hb) { "C02,C05" } else { "C05" };
                failures.push(mk_fail(tag, None, format!("a ladder position does not sample its own thermal distribution: {}", bad.join("; ")), ctx));
            } else {
                sample = Some(json!({"property": "C05", "context": ctx, "rung0_energy": [all[0][0].0, all[0][0].1]}));
            }
        }
    }
    Outcome { failures, sample, hard }
}

pub fn run(args: &Args) -> Value {
    use rayon::prelude::*;
    let mut rng = SplitMix64::new(args.seed ^ 0x7E41);
    let nsteps = if args.thorough { 480_000 } else { 48_000 };
    // `--only Cxx` restricts the runs to those tagged with that property
    let only: Option<String> = args.extra.iter().position(|a| a == "--only").and_then(|i| args.extra.get(i + 1).cloned());
    let wanted = |tags: &str| only.as_ref().map_or(true, |o| tags.split(',').any(|t| t == o));
    // ---------------- Ising sampler: default pipeline (C01), heat bath (C02), RVB (C03)
    let variants: Vec<(&'static str, bool, u8)> = vec![("C01", false, 0), ("C02", true, 0), ("C02", true, 1), ("C03", false, 1), ("C03", false, 2), ("C03", true, 2),
        // C12: started from the tiniest cutoffs (1 and 2) the default pipeline must reach the same averages
        ("C12", false, 0)];
    let mut ising_jobs = vec![];
    for (prop, hb, rvb) in variants.iter() {
        for gi in 0..4usize {
            for hsign in [0.0, 1.0, -1.0] {
                let mut spec = tiny_ising(&mut rng, gi, hsign);
                spec.hb = *hb;
                if *prop == "C12" {
                    spec.cutoff = 1 + gi % 2;
                }
                let beta = [0.5, 1.0][rng.below(2) as usize];
                let seed = rng.next();
                if wanted(prop) {
                    ising_jobs.push(IsingJob { prop, spec, beta, rvb: *rvb, seed });
                }
            }
        }
    }
    // ---------------- generic sampler (C04; with heat bath also C02)
    let exch = |vs: Vec<usize>, a: f64, b: f64, x: f64| {
        let mut m = vec![0.0; 16];
        m[0] = a;
        m[5] = b;
        m[10] = b;
        m[15] = a;
        m[6] = x;
        m[9] = x;
        BondSpec { kind: 1, mat: m, vars: vs }
    };
    let cst = |v: usize, g: f64| BondSpec { kind: 0, mat: vec![g; 4], vars: vec![v] };
    let generic: Vec<(&'static str, Option<&'static str>, QmcSpec)> = vec![
        ("C04", None, QmcSpec { nvars: 2, bonds: vec![exch(vec![0, 1], 1.0, 0.5, 0.75)], state: vec![true, false], loops: true, hb: false }),
        ("C04", None, QmcSpec { nvars: 3, bonds: vec![exch(vec![0, 1], 0.5, 1.0, 0.5), exch(vec![1, 2], 1.0, 0.25, 1.0),
            BondSpec { kind: 3, mat: vec![0.5, 1.5], vars: vec![2] }], state: vec![true, false, true], loops: true, hb: false }),
        ("C04", None, QmcSpec { nvars: 3, bonds: vec![cst(0, 1.0), cst(1, 0.5), cst(2, 0.75), BondSpec { kind: 3, mat: vec![1.0, 0.25, 0.25, 1.0], vars: vec![0, 1] },
            BondSpec { kind: 2, mat: vec![0.5, 1.5, 1.0, 2.0, 2.0, 1.0, 1.5, 0.5], vars: vec![0, 1, 2] }], state: vec![false, false, true], loops: false, hb: false }),
        // the same symmetric set with heat bath (cluster updates + weighted bond choice)
        ("C02,C04", None, QmcSpec { nvars: 3, bonds: vec![cst(0, 1.0), cst(1, 0.5), cst(2, 0.75), BondSpec { kind: 3, mat: vec![1.0, 0.25, 0.25, 1.0], vars: vec![0, 1] },
            BondSpec { kind: 2, mat: vec![0.5, 1.5, 1.0, 2.0, 2.0, 1.0, 1.5, 0.5], vars: vec![0, 1, 2] }], state: vec![true, false, true], loops: false, hb: true }),
        ("C02,C04", None, QmcSpec { nvars: 3, bonds: vec![exch(vec![0, 1], 0.5, 1.0, 0.5), exch(vec![1, 2], 1.0, 0.25, 1.0), exch(vec![0, 2], 0.25, 0.5, 0.75),
            BondSpec { kind: 2, mat: vec![0.25, 0.5, 0.5, 0.75, 0.5, 0.25, 1.0, 2.5], vars: vec![0, 1, 2] }], state: vec![true, true, false], loops: true, hb: true }),
        // mixed arities 1 + 2 + 3 with loops, Metropolis
        ("C04", None, QmcSpec { nvars: 3, bonds: vec![exch(vec![0, 1], 0.5, 1.0, 0.5), exch(vec![1, 2], 1.0, 0.25, 1.0), exch(vec![0, 2], 0.25, 0.5, 0.75),
            BondSpec { kind: 3, mat: vec![0.75, 0.25], vars: vec![0] },
            BondSpec { kind: 2, mat: vec![0.25, 0.5, 0.5, 0.75, 0.5, 0.25, 1.0, 2.5], vars: vec![0, 1, 2] }], state: vec![false, true, false], loops: true, hb: false }),
        // a table whose diagonal becomes all zero through the offset constructor, listed BEFORE the other terms, with heat bath
        ("C02,C04", None, QmcSpec { nvars: 2, bonds: vec![BondSpec { kind: 3, mat: vec![1.25, 1.25], vars: vec![0] }, cst(0, 0.75), cst(1, 0.5),
            BondSpec { kind: 2, mat: vec![2.0, 0.5, 0.5, 2.0], vars: vec![0, 1] }], state: vec![true, true], loops: false, hb: true }),
        // a term on no variables (pure energy shift; its operators form clusters by themselves, fix 2af70d2)
        ("C04", None, QmcSpec { nvars: 2, bonds: vec![cst(0, 1.0), cst(1, 0.5), BondSpec { kind: 2, mat: vec![2.0, 1.0, 1.0, 2.0], vars: vec![0, 1] },
            BondSpec { kind: 2, mat: vec![1.5], vars: vec![] }], state: vec![false, true], loops: false, hb: false }),
        // a single-site diagonal table with equal entries is only an energy shift: it must not act as a
        // cluster boundary (cluster updates are on here through the constant full matrix on site 0)
        ("C04", None, QmcSpec { nvars: 2, bonds: vec![BondSpec { kind: 2, mat: vec![2.0, 0.5, 0.5, 2.0], vars: vec![0, 1] }, cst(0, 0.75),
            BondSpec { kind: 2, mat: vec![1.5, 1.5], vars: vec![1] }], state: vec![true, false], loops: false, hb: false }),
        ("C02,C04", None, QmcSpec { nvars: 2, bonds: vec![BondSpec { kind: 2, mat: vec![2.0, 0.5, 0.5, 2.0], vars: vec![0, 1] }, cst(0, 0.75),
            BondSpec { kind: 2, mat: vec![1.5, 1.5], vars: vec![1] }], state: vec![false, false], loops: false, hb: true }),
        // energy shifts on two and three variables (diagonal tables with equal entries) next to exchange
        // terms, loop updates on: a loop through a shift vertex may only bounce or go straight
        ("C04", None, QmcSpec { nvars: 2, bonds: vec![exch(vec![0, 1], 1.0, 0.5, 0.75), BondSpec { kind: 2, mat: vec![0.75; 4], vars: vec![0, 1] }],
            state: vec![true, false], loops: true, hb: false }),
        ("C04", None, QmcSpec { nvars: 3, bonds: vec![exch(vec![0, 1], 0.5, 1.0, 0.5), exch(vec![1, 2], 1.0, 0.25, 1.0),
            BondSpec { kind: 2, mat: vec![0.5; 8], vars: vec![2, 0, 1] }], state: vec![true, false, true], loops: true, hb: false }),
        ("C04", Some("odd-parity"), QmcSpec { nvars: 2, bonds: vec![BondSpec { kind: 0, mat: vec![2.0, 1.0, 1.0, 0.5], vars: vec![0] },
            BondSpec { kind: 0, mat: vec![2.0, 1.0, 1.0, 0.5], vars: vec![1] }, BondSpec { kind: 3, mat: vec![1.0, 0.0, 0.0, 1.0], vars: vec![0, 1] }],
            state: vec![true, false], loops: true, hb: false }),
        // candidate finding reported by a round-6 seeding agent: an exchange bond next to constant single-site terms
        // (loops and cluster updates both on) - the parity of the number of off-diagonal exchange operators would be conserved
        ("C04", Some("exchange-plus-constant"), QmcSpec { nvars: 2, bonds: vec![exch(vec![0, 1], 1.0, 2.0, 1.0),
            BondSpec { kind: 0, mat: vec![1.0; 4], vars: vec![0] }, BondSpec { kind: 0, mat: vec![1.0; 4], vars: vec![1] }],
            state: vec![true, false], loops: true, hb: false }),
    ];
    let mut generic_jobs = vec![];
    for (prop, key, spec) in generic {
        for beta in [1.0, 0.5] {
            let seed = rng.next();
            if wanted(prop) {
                generic_jobs.push(GenericJob { prop, key, spec: spec.clone(), beta, seed, staged: 0, scale: 1, slack: 0.02 });
            }
        }
    }
    // interactions added after the heat bath had been on and was switched off: the cached table must not survive
    for (m, beta) in [(2usize, 1.0), (2, 1.5), (1, 1.0)] {
        let spec = QmcSpec { nvars: 2, bonds: vec![cst(0, 0.75), cst(1, 1.25), BondSpec { kind: 2, mat: vec![2.0, 0.0, 0.0, 2.0], vars: vec![0, 1] }],
            state: vec![true, false], loops: false, hb: true };
        let seed = rng.next();
        if wanted("C02") || wanted("C04") {
            generic_jobs.push(GenericJob { prop: "C02,C04", key: None, spec, beta, seed, staged: m, scale: 1, slack: 0.02 });
        }
    }
    // ---------------- tempering (C05): every rung at its own thermal distribution, serial and rayon drivers
    let mut ladder_jobs = vec![];
    for li in 0..8usize {
        let par = li % 2 == 1;
        let base = tiny_ising(&mut rng, 1 + li, if li % 4 >= 2 { if li >= 4 { -1.0 } else { 1.0 } } else { 0.0 });
        let mut specs = vec![];
        let mut betas = vec![];
        for (k, (bscale, jscale, hscale)) in [(0.5, 1.0, 1.0), (1.0, 1.0, 1.0), (1.0, 0.5, 1.0), (1.0, 0.25, 0.5), (0.75, 0.25, 0.5)].iter().enumerate() {
            let mut s = base.clone();
            for e in s.edges.iter_mut() {
                e.1 *= jscale;
            }
            s.h *= hscale;
            // ladders 2.. also vary the transverse field between neighbours (with and without a longitudinal field)
            if li >= 2 {
                s.gamma *= [1.0, 2.0, 0.5, 1.0, 1.5][k];
            }
            s.cutoff = 1 + k;
            s.hb = li >= 6;
            specs.push(s);
            betas.push(*bscale);
        }
        let keep = [4, 3, 5, 2, 3, 5, 4, 3][li];
        specs.truncate(keep);
        betas.truncate(keep);
        let seeds: Vec<u64> = (0..=keep).map(|_| rng.next()).collect();
        // the two heat-bath ladders also decide C02: an exchange must leave every position with ITS OWN heat-bath table
        if wanted("C05") || (li >= 6 && wanted("C02")) {
            ladder_jobs.push(LadderJob { li, par, specs, betas, seeds });
        }
    }
    let mut outcomes: Vec<Outcome> = ising_jobs.par_iter().map(|j| confirmed(|n, x| run_ising_job(j, n, x), nsteps)).collect();
    // precision job (thorough tier): interactions of MIXED ARITY with loop updates - a loop start that is not uniform over
    // all legs biases the probabilities by a few 10^-3 (defect repaired by 88da00a); 60 times the usual run length, slack 0.001
    if args.thorough && wanted("C04") {
        let spec = QmcSpec { nvars: 2, bonds: vec![BondSpec { kind: 0, mat: vec![0.5, 0.0, 0.0, 0.0, 0.0, 1.0, 1.5, 0.0, 0.0, 1.5, 1.0, 0.0, 0.0, 0.0, 0.0, 0.5], vars: vec![0, 1] },
            BondSpec { kind: 0, mat: vec![3.0, 0.0, 0.0, 0.25], vars: vec![0] }], state: vec![true, false], loops: true, hb: false };
        let seed = rng.next();
        generic_jobs.push(GenericJob { prop: "C04", key: None, spec, beta: 1.0, seed, staged: 0, scale: 60, slack: 0.001 });
    }
    outcomes.extend(generic_jobs.par_iter().map(|j| confirmed(|n, x| run_generic_job(j, n, x), nsteps)).collect::<Vec<_>>());
    outcomes.extend(ladder_jobs.par_iter().map(|j| confirmed(|n, x| run_ladder_job(j, n, x), nsteps)).collect::<Vec<_>>());
    let n_runs = outcomes.len();
    let mut oracle_failures = vec![];
    let mut samples = vec![];
    for o in outcomes {
        oracle_failures.extend(o.failures);
        if let Some(s) = o.sample {
            if samples.len() < 12 {
                samples.push(s);
            }
        }
    }
    json!({"files": [], "evaluations": n_runs, "distinct_nontrivial": n_runs, "steps_per_run": nsteps,
        "ising_runs": ising_jobs.len(), "generic_runs": generic_jobs.len(), "tempering_ladders": ladder_jobs.len(),
        "oracle_failures": oracle_failures, "samples": samples,
        "rule": "long runs (48k steps quick, 480k thorough, 10% warm-up, 20 bins) of the real samplers on 2-3 spin models (chain with mixed signs, frustrated triangles, multi-edge, unequal |J|; each with h = 0 / + / -; initial cutoffs 1..6; beta 0.5 / 1) with the default pipeline, heat bath, automatic and explicit RVB; generic interaction sets (exchange + loops, symmetric diagonal + constant terms with clusters, constant single-site diagonal tables, 3-variable diagonal terms, mixed arities, heat bath on/off; beta 0.5 / 1); tempering ladders of 2-5 replicas (beta, coupling, transverse- and longitudinal-field ladders, serial and rayon, swap periods 1-3, heat bath on two ladders); compared with dense exact diagonalisation: energy, magnetisations, correlations, mean operator count per bond; tolerance 6 sigma + 0.02; a statistical failure is reported only when a second, 4x longer run from another seed fails too"})
}
