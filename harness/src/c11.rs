//! C11: container bookkeeping vs contents after every mutation, through the public mutation and
//! navigation interfaces; the private link fields are read through the serde snapshot.
use crate::coqfmt as cq;
use crate::model::*;
use crate::tape::SplitMix64;
use crate::Args;
use qmc::sse::fast_ops::{FastOp, FastOps};
use qmc::sse::*;
use serde_json::{json, Value};
use std::cell::RefCell;
use std::panic::{catch_unwind, AssertUnwindSafe};

fn prel(v: &Value) -> Option<(usize, usize)> {
    if v.is_null() {
        None
    } else {
        Some((v["p"].as_u64().unwrap() as usize, v["relv"].as_u64().unwrap() as usize))
    }
}
fn optu(v: &Value) -> Option<usize> {
    v.as_u64().map(|x| x as usize)
}

#[derive(Debug, Clone, PartialEq)]
pub struct Links {
    pub prev_p: Option<usize>,
    pub next_p: Option<usize>,
    pub prev_v: Vec<Option<(usize, usize)>>,
    pub next_v: Vec<Option<(usize, usize)>>,
}

#[derive(Debug, Clone, PartialEq)]
pub struct Snap {
    pub slots: Slots,
    pub links: Vec<Option<Links>>,
    pub n: usize,
    pub p_ends: Option<(usize, usize)>,
    pub var_ends: Vec<Option<((usize, usize), (usize, usize))>>,
    pub counters: Option<Vec<usize>>,
}

pub fn snap(m: &FastOps) -> Snap {
    let v = serde_json::to_value(m).unwrap();
    let ops = v["ops"].as_array().unwrap();
    let links = ops
        .iter()
        .map(|o| {
            if o.is_null() {
                None
            } else {
                Some(Links {
                    prev_p: optu(&o["previous_p"]),
                    next_p: optu(&o["next_p"]),
                    prev_v: o["previous_for_vars"].as_array().unwrap().iter().map(prel).collect(),
                    next_v: o["next_for_vars"].as_array().unwrap().iter().map(prel).collect(),
                })
            }
        })
        .collect();
    Snap {
        slots: read_slots(m),
        links,
        n: v["n"].as_u64().unwrap() as usize,
        p_ends: if v["p_ends"].is_null() { None } else { Some((v["p_ends"][0].as_u64().unwrap() as usize, v["p_ends"][1].as_u64().unwrap() as usize)) },
        var_ends: v["var_ends"].as_array().unwrap().iter().map(|e| if e.is_null() { None } else { Some((prel(&e[0]).unwrap(), prel(&e[1]).unwrap())) }).collect(),
        counters: v["bond_counters"].as_array().map(|a| a.iter().map(|x| x.as_u64().unwrap() as usize).collect()),
    }
}

/// bookkeeping derived by scanning the slots (oracle, from the property text)
pub fn scan(slots: &Slots, nvars: usize, nbonds: Option<usize>) -> (Vec<Option<Links>>, usize, Option<(usize, usize)>, Vec<Option<((usize, usize), (usize, usize))>>, Option<Vec<usize>>) {
    let occ: Vec<usize> = (0..slots.len()).filter(|p| slots[*p].is_some()).collect();
    let on_var = |v: usize| -> Vec<(usize, usize)> {
        occ.iter().filter_map(|p| slots[*p].as_ref().unwrap().vars.iter().position(|x| *x == v).map(|k| (*p, k))).collect()
    };
    let links = (0..slots.len())
        .map(|p| {
            slots[p].as_ref().map(|o| Links {
                prev_p: occ.iter().cloned().filter(|q| *q < p).last(),
                next_p: occ.iter().cloned().find(|q| *q > p),
                prev_v: o.vars.iter().map(|v| on_var(*v).into_iter().filter(|(q, _)| *q < p).last()).collect(),
                next_v: o.vars.iter().map(|v| on_var(*v).into_iter().find(|(q, _)| *q > p)).collect(),
            })
        })
        .collect();
    let p_ends = if occ.is_empty() { None } else { Some((occ[0], *occ.last().unwrap())) };
    let var_ends = (0..nvars).map(|v| { let l = on_var(v); if l.is_empty() { None } else { Some((l[0], *l.last().unwrap())) } }).collect();
    let counters = nbonds.map(|nb| (0..nb).map(|b| slots.iter().flatten().filter(|o| o.bond == b).count()).collect());
    (links, occ.len(), p_ends, var_ends, counters)
}

fn pr(x: &Option<(usize, usize)>) -> String {
    cq::opt(x, |(a, b)| format!("({}%nat, {}%nat)", a, b))
}

fn snap_coq(nvars: usize, s: &Snap) -> String {
    format!("C11.Snap {}%nat {} {} {}%nat {} {} {}", nvars, slots_coq(&s.slots),
        cq::list(&s.links, |l| cq::opt(l, |l| format!("(C11.mkLinks {} {} {} {})", cq::opt(&l.prev_p, |x| format!("{}%nat", x)), cq::opt(&l.next_p, |x| format!("{}%nat", x)),
            cq::list(&l.prev_v, pr), cq::list(&l.next_v, pr)))),
        s.n, cq::opt(&s.p_ends, |(a, b)| format!("({}%nat, {}%nat)", a, b)),
        cq::list(&s.var_ends, |e| cq::opt(e, |((a, b), (c, d))| format!("(({}%nat, {}%nat), ({}%nat, {}%nat))", a, b, c, d))),
        cq::opt(&s.counters, |c| cq::nats(c)))
}

fn random_op(rng: &mut SplitMix64, nvars: usize, nbonds: usize, same_vars: Option<&Vec<usize>>) -> MOp {
    let vars = match same_vars {
        Some(v) => v.clone(),
        None => {
            // one operator in ten covers NO variables (a constant term): sweeps must walk past it like past any other
            let k = if rng.chance(1, 10) { 0 } else { 1 + rng.below(nvars.min(3) as u64) as usize };
            pick_distinct(rng, nvars, k)
        }
    };
    let ins: Vec<bool> = vars.iter().map(|_| rng.chance(1, 2)).collect();
    let outs: Vec<bool> = if rng.chance(1, 2) { ins.clone() } else { vars.iter().map(|_| rng.chance(1, 2)).collect() };
    MOp { vars, bond: rng.below(nbonds as u64) as usize, ins, outs, constant: rng.chance(1, 3) }
}

pub fn run(args: &Args) -> Value {
    let mut rng = SplitMix64::new(args.seed ^ 0xC11);
    let n_seq = if args.thorough { 2500 } else { 220 };
    let max_mut = if args.thorough { 60 } else { 24 };
    let mut coq = vec![];
    let mut samples = vec![];
    let mut oracle_failures: Vec<Value> = vec![];
    let mut distinct = std::collections::HashSet::new();
    let mut hist = std::collections::BTreeMap::new();
    let mut total_mut = 0usize;
    let mut n_inst = 0usize;
    let mut n_l1 = 0usize;
    for si in 0..n_seq {
        let nvars = 1 + rng.below(5) as usize;
        let nbonds = 1 + rng.below(5) as usize;
        let with_counters = rng.chance(1, 2);
        let l0 = 1 + rng.below(16) as usize;
        let mut m = if with_counters { FastOps::new_from_nvars_and_nbonds(nvars, Some(nbonds)) } else { FastOps::new_from_nvars(nvars) };
        m.set_cutoff(l0);
        let mut nb_opt = if with_counters { Some(nbonds) } else { None };
        let nmut = 1 + rng.below(max_mut) as usize;
        let mut broken = false;
        for mi in 0..nmut {
            if broken {
                break;
            }
            let before = read_slots(&m);
            let len = before.len();
            let kind = rng.below(12);
            *hist.entry(kind).or_insert(0usize) += 1;
            total_mut += 1;
            // expected contents are built from the decisions the callback makes
            let expected: RefCell<Slots> = RefCell::new(before.clone());
            let declog: RefCell<Vec<(usize, Option<Option<MOp>>)>> = RefCell::new(vec![]);
            let seeds: Vec<u64> = (0..len + 40).map(|_| rng.next()).collect();
            let decide = |p: usize, cur: Option<&FastOp>, allow_remove: bool, allow_new_vars: bool, subvars: Option<&[usize]>| -> Option<Option<FastOp>> {
                let mut r = SplitMix64::new(seeds[p % seeds.len()] ^ 0xABCD);
                let cur_m = cur.map(MOp::from_op);
                let choice = r.below(6);
                let res: Option<Option<MOp>> = match (&cur_m, choice) {
                    (None, 0..=2) if allow_new_vars => {
                        let mut o = random_op(&mut r, nvars, nbonds, None);
                        if let Some(sv) = subvars {
                            let k = 1 + r.below(sv.len().min(2) as u64) as usize;
                            let mut vs = sv.to_vec();
                            vs.truncate(k);
                            o = random_op(&mut r, nvars, nbonds, Some(&vs));
                        }
                        Some(Some(o))
                    }
                    (Some(_), 0) if allow_remove => Some(None),
                    (Some(c), 1) | (Some(c), 2) => Some(Some(random_op(&mut r, nvars, nbonds, Some(&c.vars)))),
                    (Some(_), 3) if allow_new_vars && subvars.is_none() => Some(Some(random_op(&mut r, nvars, nbonds, None))),
                    _ => None,
                };
                if let Some(x) = &res {
                    expected.borrow_mut()[p] = x.clone();
                }
                declog.borrow_mut().push((p, res.clone()));
                res.map(|x| x.map(|o| o.to_fast()))
            };
            let r = catch_unwind(AssertUnwindSafe(|| match kind {
                0 | 1 => {
                    m.mutate_ps(0, len, 0usize, |_, op, p| (decide(p, op, true, true, None), p + 1));
                }
                2 => {
                    // (a cursor can only be prepared at an existing slot: fill_args_at_p(len) indexes out of bounds)
                    let a = rng.below(len as u64) as usize;
                    let b = a + rng.below((len - a) as u64 + 1) as usize;
                    m.mutate_subsection(a, b, a, |_, op, p| (decide(p, op, true, true, None), p + 1), None);
                }
                3 => {
                    // (removal through mutate_ops is not supported by the container: it reads next_p from the removed node)
                    m.mutate_ops(0, len, (), |_, op, p, _| (decide(p, Some(op), false, true, None), ()));
                }
                4 => {
                    // sub-variable cursor: only same-variable replacements are allowed by the contract
                    let k = 1 + rng.below(nvars as u64) as usize;
                    let mut vs = pick_distinct(&mut rng, nvars, k);
                    vs.sort_unstable();
                    let a = rng.below(len as u64) as usize;
                    let args = m.get_empty_args(SubvarAccess::Varlist(&vs));
                    let args = m.fill_args_at_p(a, args);
                    let vs2 = vs.clone();
                    m.mutate_subsection_ops(a, len, (), |_, op, p, _| {
                        let inside = op.get_vars().iter().all(|v| vs2.contains(v));
                        (if inside { decide(p, Some(op), false, false, Some(&vs2)) } else { None }, ())
                    }, Some(args));
                }
                5 => {
                    // single slot through mutate_p with explicitly prepared cursors
                    if len > 0 {
                        let p = rng.below(len as u64) as usize;
                        let args = m.get_empty_args(SubvarAccess::All);
                        let args = m.fill_args_at_p(p, args);
                        let (_, args) = m.mutate_p(|_, op, t: ()| (decide(p, op, true, true, None), t), p, (), args);
                        m.return_args(args);
                    }
                }
                6 => {
                    let c = len + rng.below(5) as usize;
                    m.set_cutoff(c);
                    let mut e = expected.borrow_mut();
                    e.resize(c.max(len), None);
                }
                7 => {
                    // rebuild from a list of (p, op)
                    let ops: Vec<(usize, FastOp)> = before.iter().enumerate().filter_map(|(p, o)| o.as_ref().map(|o| (p, o.to_fast()))).collect();
                    if !ops.is_empty() {
                        let lastp = ops.last().unwrap().0;
                        m = FastOps::new_from_ops(nvars, ops.into_iter());
                        let mut e = expected.borrow_mut();
                        e.truncate(lastp + 1);
                    }
                }
                9 => {
                    // hinted sub-variable cursor, then ONE structural change at that position through mutate_p
                    // (insertion on the sub-variables, removal or replacement of an operator inside them):
                    // the cursor's last_p must be the nearest operator below, whatever variables it acts on
                    if len > 0 {
                        let k = 1 + rng.below(nvars as u64) as usize;
                        let mut vs = pick_distinct(&mut rng, nvars, k);
                        vs.sort_unstable();
                        let a = rng.below(len as u64) as usize;
                        let mut args = m.get_empty_args(SubvarAccess::Varlist(&vs));
                        let hints: Vec<Option<usize>> = vs.iter().map(|_| None).collect();
                        m.fill_args_at_p_with_hint(a, &mut args, &vs, hints.into_iter());
                        let vs2 = vs.clone();
                        let (_, args) = m.mutate_p(|_, op, t: ()| {
                            let inside = op.map(|o| o.get_vars().iter().all(|v| vs2.contains(v))).unwrap_or(true);
                            (if inside { decide(a, op, true, true, Some(&vs2)) } else { None }, t)
                        }, a, (), args);
                        m.return_args(args);
                    }
                }
                10 => {
                    // a sub-variable cursor (SubvarAccess::Varlist) built by the PLAIN backward walk fill_args_at_p —
                    // also on variables that carry no operators at all — followed by a structural change at that slot
                    if len > 0 {
                        let k = 1 + rng.below(nvars as u64) as usize;
                        let mut vs = pick_distinct(&mut rng, nvars, k);
                        vs.sort_unstable();
                        let a = rng.below(len as u64) as usize;
                        let args = m.get_empty_args(SubvarAccess::Varlist(&vs));
                        let args = m.fill_args_at_p(a, args);
                        let vs2 = vs.clone();
                        let (_, args) = m.mutate_p(|_, op, t: ()| {
                            let inside = op.map(|o| o.get_vars().iter().all(|v| vs2.contains(v))).unwrap_or(true);
                            (if inside { decide(a, op, true, true, Some(&vs2)) } else { None }, t)
                        }, a, (), args);
                        m.return_args(args);
                    }
                }
                11 => {
                    // a sub-variable cursor CARRIED through a sweep (mutate_subsection with prepared Varlist args): it walks
                    // past operators on other variables and then inserts / removes / replaces operators inside the sub-variables
                    if len > 0 {
                        let k = 1 + rng.below(nvars as u64) as usize;
                        let mut vs = pick_distinct(&mut rng, nvars, k);
                        vs.sort_unstable();
                        let a = rng.below(len as u64) as usize;
                        let b = a + rng.below((len - a) as u64 + 1) as usize;
                        let args = m.get_empty_args(SubvarAccess::Varlist(&vs));
                        let args = m.fill_args_at_p(a, args);
                        let vs2 = vs.clone();
                        m.mutate_subsection(a, b, a, |_, op, p| {
                            let inside = op.map(|o| !o.get_vars().is_empty() && o.get_vars().iter().all(|v| vs2.contains(v))).unwrap_or(true);
                            (if inside { decide(p, op, true, true, Some(&vs2)) } else { None }, p + 1)
                        }, Some(args));
                    }
                }
                _ => {
                    // consecutive single-slot mutations threading the cursors (what mutate_subsection does)
                    if len > 0 {
                        let a = rng.below(len as u64) as usize;
                        let b = a + rng.below((len - a) as u64 + 1) as usize;
                        let args = m.get_empty_args(SubvarAccess::All);
                        let mut args = m.fill_args_at_p(a, args);
                        for p in a..b {
                            let r = m.mutate_p(|_, op, t: ()| (decide(p, op, true, true, None), t), p, (), args);
                            args = r.1;
                        }
                        m.return_args(args);
                    }
                }
            }));
            let ctx = json!({"sequence": si, "mutation": mi, "kind": kind, "nvars": nvars, "nbonds": nbonds, "counters": with_counters,
                "before": before.iter().map(|o| o.as_ref().map(|o| json!([o.vars, o.bond]))).collect::<Vec<_>>()});
            if r.is_err() {
                oracle_failures.push(json!({"what": "mutation panicked", "context": ctx}));
                broken = true;
                continue;
            }
            if kind == 7 && !before.iter().all(|o| o.is_none()) {
                nb_opt = None;
            }
            let nb_now = nb_opt;
            let s = snap(&m);
            let exp = expected.into_inner();
            if s.slots != exp && !(kind == 7 && before.iter().all(|o| o.is_none())) {
                oracle_failures.push(json!({"what": "contents differ from what the mutation callbacks dictated", "context": ctx}));
            }
            let (links, n, p_ends, var_ends, counters) = scan(&s.slots, nvars, nb_now);
            if s.links != links || s.n != n || s.p_ends != p_ends || s.var_ends != var_ends || (nb_now.is_some() && s.counters != counters) {
                oracle_failures.push(json!({"what": "bookkeeping (links / n / ends / counters) differs from a scan of the slots", "context": ctx,
                    "n": [s.n, n], "p_ends": format!("{:?} vs {:?}", s.p_ends, p_ends), "counters": format!("{:?} vs {:?}", s.counters, counters)}));
            }
            // getters of the navigation interface vs scan
            let mut getters_ok = m.get_n() == n && m.get_first_p() == p_ends.map(|x| x.0) && m.get_last_p() == p_ends.map(|x| x.1);
            for v in 0..nvars {
                getters_ok &= m.does_var_have_ops(v) == var_ends[v].is_some();
                getters_ok &= m.get_first_p_for_var(v).map(|x| (x.p, x.relv)) == var_ends[v].map(|x| x.0);
                getters_ok &= m.get_last_p_for_var(v).map(|x| (x.p, x.relv)) == var_ends[v].map(|x| x.1);
            }
            for b in 0..nbonds {
                getters_ok &= m.get_count(b) == s.slots.iter().flatten().filter(|o| o.bond == b).count();
            }
            for (k, p) in (0..s.slots.len()).filter(|p| s.slots[*p].is_some()).enumerate() {
                getters_ok &= m.get_nth_p(k) == p;
                let node = m.get_node_ref(p).unwrap();
                getters_ok &= m.get_previous_p(node) == links[p].as_ref().unwrap().prev_p;
                getters_ok &= m.get_next_p(node) == links[p].as_ref().unwrap().next_p;
            }
            if !getters_ok {
                oracle_failures.push(json!({"what": "a navigation getter disagrees with a scan of the slots", "context": ctx}));
            }
            distinct.insert(format!("{:?}", s.slots));
            coq.push(snap_coq(nvars, &s));
            let fops_coq = |s: &Snap| format!("(mkFops {} {}%nat {} {} {})",
                        cq::list(&s.slots.iter().zip(s.links.iter()).collect::<Vec<_>>(), |(o, l)| match (o, l) {
                            (Some(o), Some(l)) => format!("(Some (mkNode {} {} {} {} {}))", o.coq(), cq::opt(&l.prev_p, |x| format!("{}%nat", x)),
                                cq::opt(&l.next_p, |x| format!("{}%nat", x)), cq::list(&l.prev_v, pr), cq::list(&l.next_v, pr)),
                            _ => "None".to_string(),
                        }),
                        s.n, cq::opt(&s.p_ends, |(a, b)| format!("({}%nat, {}%nat)", a, b)),
                        cq::list(&s.var_ends, |e| cq::opt(e, |((a, b), (c, d))| format!("(({}%nat, {}%nat), ({}%nat, {}%nat))", a, b, c, d))),
                        cq::opt(&s.counters, |c| cq::nats(c)));
            // new_from_ops: the transcribed clear_and_install_ops must rebuild exactly this structure
            if kind == 7 && !before.iter().all(|o| o.is_none()) {
                let pos = cq::list(&before.iter().enumerate().filter_map(|(p, o)| o.as_ref().map(|o| (p, o.clone()))).collect::<Vec<_>>(),
                    |(p, o)| format!("({}%nat, {})", p, o.coq()));
                coq.push(format!("C11.Inst {}%nat {} {}", nvars, pos, fops_coq(&s)));
                n_inst += 1;
            }
            // the per-slot decisions of consecutive mutate_p calls, for the linked-structure model (Model/FastOps.v)
            if matches!(kind, 0 | 1 | 2 | 5 | 8) {
                let dl = declog.into_inner();
                if !dl.is_empty() && dl.windows(2).all(|w| w[1].0 == w[0].0 + 1) {
                    let a = dl[0].0;
                    let decs = cq::list(&dl, |(_, d)| cq::opt(d, |x| cq::opt(x, |o| o.coq())));
                    let fops = fops_coq(&s);
                    coq.push(format!("C11.Mut {}%nat {} {} {}%nat {} {}", nvars, cq::opt(&nb_now, |x| format!("{}%nat", x)), slots_coq(&before), a, decs, fops));
                    n_l1 += 1;
                }
            }
            if (si * 7 + mi) % 397 == 0 {
                samples.push(json!({"kind": kind, "nvars": nvars, "slots": s.slots.len(), "n": s.n, "counters": with_counters}));
            }
        }
    }
    oracle_failures.truncate(40);
    let files = crate::write_shards(&args.out, "C11", "C11", &coq, if args.thorough { 800 } else { 250 });
    json!({"files": files, "evaluations": coq.len(), "distinct_nontrivial": distinct.len(), "mutations": total_mut, "mutate_p_sweeps_replayed_by_linked_model": n_l1, "new_from_ops_replayed_by_linked_model": n_inst, "mutation_kinds": hist,
        "oracle_failures": oracle_failures, "samples": samples,
        "rule": "random sequences of mutate_ps / mutate_subsection (sub-ranges) / mutate_ops / mutate_subsection_ops with sub-variable cursors / mutate_p with prepared and threaded cursors / set_cutoff / new_from_ops on 1-5 variables, up to 20 slots, ops of 1-3 variables, insert / remove / same-variable replace / different-variable replace / different bond; after every mutation the serde snapshot of all links, counts, ends and counters is compared with values derived by scanning the slots"})
}
