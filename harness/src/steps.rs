//! Histories of public calls on both samplers, one correspondence case per call, with
//! model-independent oracles for C06 (world line), C07 (legality), C12 (cutoff), C09 (skeleton).
use crate::coqfmt as cq;
use crate::ising::*;
use crate::model::*;
use crate::tape::{SplitMix64, TapeRng};
use crate::Args;
use qmc::sse::*;
use serde_json::json;
use std::panic::{catch_unwind, AssertUnwindSafe};

pub fn legal_ising(spec: &IsingSpec, sl: &Slots) -> Option<String> {
    for (p, o) in sl.iter().enumerate() {
        if let Some(o) = o {
            if o.bond >= spec.nbonds() {
                return Some(format!("slot {}: bond {} out of range", p, o.bond));
            }
            if o.vars != spec.bond_vars(o.bond) {
                return Some(format!("slot {}: vars {:?} are not the bond's variables", p, o.vars));
            }
            if o.constant != spec.bond_const(o.bond) {
                return Some(format!("slot {}: constant flag wrong", p));
            }
            if o.ins.len() != o.vars.len() || o.outs.len() != o.vars.len() {
                return Some(format!("slot {}: arity mismatch", p));
            }
            if !(spec.weight(o.bond, &o.ins, &o.outs) > 0.0) {
                return Some(format!("slot {}: stored operator has non-positive weight", p));
            }
            // longitudinal and two-site ops must be diagonal
            if !spec.bond_const(o.bond) && o.ins != o.outs {
                return Some(format!("slot {}: off-diagonal operator on a diagonal-only bond", p));
            }
        }
    }
    None
}

fn skeleton(sl: &Slots) -> Vec<Option<(Vec<usize>, usize, bool)>> {
    sl.iter().map(|o| o.as_ref().map(|o| (o.vars.clone(), o.bond, o.constant))).collect()
}

pub fn run(args: &Args) -> serde_json::Value {
    let mut rng = SplitMix64::new(args.seed ^ 0x57E9);
    let n_hist = if args.thorough { 1500 } else { 120 };
    let max_calls = if args.thorough { 30 } else { 18 };
    let mut coq = vec![];
    let mut oracle_failures: Vec<serde_json::Value> = vec![];
    let mut samples = vec![];
    let mut n_calls = 0usize;
    let mut n_words = 0usize;
    let mut hist_calls = std::collections::BTreeMap::new();
    let mut hist_n = std::collections::BTreeMap::new();
    let mut n_h = 0;
    let mut n_hb = 0;
    let mut n_staged = 0usize;
    let mut max_cutoff_seen = 0;
    let mut distinct = std::collections::HashSet::new();
    let mut fail = |prop: &str, what: String, ctx: serde_json::Value, v: &mut Vec<serde_json::Value>| {
        if v.iter().filter(|f| f["prop"].as_str() == Some(prop)).count() < 20 {
            v.push(json!({"prop": prop, "what": what, "context": ctx}));
        }
    };
    // ---------------- Ising sampler ----------------
    for hi in 0..n_hist {
        let spec = random_ising(&mut rng, 5, true);
        if spec.h != 0.0 {
            n_h += 1
        }
        if spec.hb {
            n_hb += 1
        }
        let mut g = spec.build(TapeRng::new(rng.next()));
        let mut seen = 0usize;
        let ncalls = 1 + rng.below(max_calls) as usize;
        let ctx = json!({"sampler": "ising", "history": hi, "edges": spec.edges, "gamma": spec.gamma, "h": spec.h,
            "cutoff0": spec.cutoff, "heatbath": spec.hb});
        for ci in 0..ncalls {
            let call = match rng.below(6) {
                0 => Call::Diag,
                1 => Call::Cluster,
                _ => Call::Timestep,
            };
            let beta = [0.25, 0.5, 1.0, 2.0, 4.0][rng.below(5) as usize];
            let mut rec = do_call(&mut g, call, beta);
            *hist_calls.entry(format!("ising-{:?}", call)).or_insert(0usize) += 1;
            n_calls += 1;
            let (sl0, st0, c0) = rec.before.clone();
            match &rec.after {
                None => {
                    fail("C06", format!("{:?} panicked", call), ctx.clone(), &mut oracle_failures);
                    coq.push(format!("Steps.Ising {} {} {} {}%nat {}%nat {} {} [] [] [] 0%nat true",
                        spec.coq(), cq::b(spec.hb), cq::q(beta), call as usize, c0, cq::bools(&st0), slots_coq(&sl0)));
                    break;
                }
                Some((sl1, st1, c1)) => {
                    rec.words = take_words(&g, &mut seen);
                    n_words += rec.words.len();
                    let n1 = sl1.iter().flatten().count();
                    *hist_n.entry(n1.min(40) / 5 * 5).or_insert(0usize) += 1;
                    max_cutoff_seen = max_cutoff_seen.max(*c1);
                    distinct.insert(format!("{:?}{:?}{:?}", sl0, st0, rec.words.len()));
                    let c = json!({"ctx": ctx, "call_index": ci, "call": format!("{:?}", call), "beta": beta});
                    // C06
                    if !naive_wf(st1, sl1) {
                        fail("C06", "world line inconsistent after call".into(), c.clone(), &mut oracle_failures);
                    }
                    // imaginary-time fold visits exactly the propagated states, one per container slot
                    let visited = g.imaginary_time_fold(|mut acc: Vec<Vec<bool>>, s| { acc.push(s.to_vec()); acc }, vec![]);
                    let mut cur = st1.clone();
                    let mut want = vec![];
                    for o in sl1.iter() {
                        want.push(cur.clone());
                        if let Some(o) = o {
                            for (k, v) in o.vars.iter().enumerate() {
                                cur[*v] = o.outs[k];
                            }
                        }
                    }
                    if visited != want {
                        fail("C06", "imaginary_time_fold visited states differ from propagation".into(), c.clone(), &mut oracle_failures);
                    }
                    if g.clone_state() != *st1 {
                        fail("C06", "imaginary_time_fold modified the sampler".into(), c.clone(), &mut oracle_failures);
                    }
                    // C07
                    if let Some(w) = legal_ising(&spec, sl1) {
                        fail("C07", w, c.clone(), &mut oracle_failures);
                    }
                    if call == Call::Cluster && skeleton(&sl0) != skeleton(sl1) {
                        fail("C07", "a spin-flip-only update changed which bonds sit where".into(), c.clone(), &mut oracle_failures);
                    }
                    // C12
                    if c1 < &c0 {
                        fail("C12", format!("cutoff shrank {} -> {}", c0, c1), c.clone(), &mut oracle_failures);
                    }
                    if n1 > *c1 {
                        fail("C12", format!("n = {} exceeds cutoff {}", n1, c1), c.clone(), &mut oracle_failures);
                    }
                    if call != Call::Cluster && sl1.len() < c0 {
                        fail("C12", format!("diagonal update ran at reported cutoff {} but the operator string only has {} slots: the free slots are not real", c0, sl1.len()), c.clone(), &mut oracle_failures);
                    }
                    if call != Call::Cluster && !(c1 > &n1 && *c1 >= n1 + n1 / 2) {
                        fail("C12", format!("no headroom after step: cutoff {} n {}", c1, n1), c.clone(), &mut oracle_failures);
                    }
                    // bond counts agree with contents
                    for b in 0..spec.nbonds() {
                        let cnt = sl1.iter().flatten().filter(|o| o.bond == b).count();
                        if g.get_bond_count(b) != cnt {
                            fail("C11", format!("get_bond_count({}) = {} but {} stored", b, g.get_bond_count(b), cnt), c.clone(), &mut oracle_failures);
                        }
                    }
                    coq.push(format!("Steps.Ising {} {} {} {}%nat {}%nat {} {} {} {} {} {}%nat false",
                        spec.coq(), cq::b(spec.hb), cq::q(beta), call as usize, c0, cq::bools(&st0), slots_coq(&sl0),
                        cq::words(&rec.words), slots_coq(sl1), cq::bools(st1), c1));
                    if (hi * 31 + ci) % 211 == 0 {
                        samples.push(json!({"sampler": "ising", "call": format!("{:?}", call), "beta": beta, "nvars": spec.nvars,
                            "edges": spec.edges.len(), "h": spec.h, "cutoff_before": c0, "cutoff_after": c1, "n_after": n1, "words": rec.words.len()}));
                    }
                }
            }
        }
    }
    // ---------------- generic sampler ----------------
    for hi in 0..n_hist {
        let spec = random_qmc(&mut rng);
        // every fourth heat-bath sampler gets its interactions in two stages, with the option toggled in between
        let staged = spec.hb && spec.bonds.len() >= 2 && rng.chance(1, 2);
        let built = if staged {
            n_staged += 1;
            let m = 1 + rng.below(spec.bonds.len() as u64 - 1) as usize;
            catch_unwind(AssertUnwindSafe(|| spec.build_staged(TapeRng::new(rng.next()), m, 2, 1.0))).unwrap_or(None)
        } else {
            spec.build(TapeRng::new(rng.next()))
        };
        let mut g = match built {
            Some(g) => g,
            None => {
                fail("C16", "generated interaction rejected (or staged construction panicked)".into(), json!({"bonds": spec.coq(), "staged": staged}), &mut oracle_failures);
                continue;
            }
        };
        let mut seen = 0usize;
        let _ = take_words_qmc(&g, &mut seen); // words drawn while staging are not part of any replayed call
        // model-independent gate oracle: if some supplied table changes under a flip of all its spins, flipping a
        // cluster that holds one of its operators changes the weight product (possibly to zero), so the plain cluster
        // update must be off for this sampler
        let asym = spec.bonds.iter().position(|b| {
            let k = b.vars.len();
            (0..(1usize << k)).any(|i| (0..(1usize << k)).any(|o| {
                let bits = |x: usize| -> Vec<bool> { (0..k).map(|j| (x >> (k - 1 - j)) & 1 == 1).collect() };
                let (ins, outs) = (bits(i), bits(o));
                let fi: Vec<bool> = ins.iter().map(|x| !x).collect();
                let fo: Vec<bool> = outs.iter().map(|x| !x).collect();
                b.weight(&ins, &outs) != b.weight(&fi, &fo)
            }))
        });
        if let Some(bi) = asym {
            if g.should_do_cluster_update() {
                fail("C04,C07,C09", format!("the plain cluster update is enabled although interaction {} (matrix {:?} on variables {:?}) changes its weight when all its spins are flipped", bi, spec.bonds[bi].mat, spec.bonds[bi].vars),
                    json!({"sampler": "qmc", "history": hi, "bonds": spec.bonds.iter().map(|b| json!([b.kind, b.mat, b.vars])).collect::<Vec<_>>()}), &mut oracle_failures);
            }
        }
        let ncalls = 1 + rng.below(max_calls) as usize;
        let ctx = json!({"sampler": "qmc", "history": hi, "bonds": spec.bonds.iter().map(|b| json!([b.kind, b.mat, b.vars])).collect::<Vec<_>>(),
            "loops": spec.loops, "heatbath": spec.hb, "interactions_added_in_two_stages": staged});
        for ci in 0..ncalls {
            let beta = [0.25, 0.5, 1.0, 2.0, 4.0][rng.below(5) as usize];
            let before = snapshot_qmc(&g);
            let r = catch_unwind(AssertUnwindSafe(|| {
                g.timestep(beta);
            }));
            n_calls += 1;
            *hist_calls.entry("qmc-Timestep".to_string()).or_insert(0usize) += 1;
            let (sl0, st0, c0) = before;
            let head = format!("Steps.Generic {} {} {} {} {}%nat {} {}", spec.coq(), cq::b(spec.hb), cq::b(spec.loops), cq::q(beta), c0, cq::bools(&st0), slots_coq(&sl0));
            if r.is_err() {
                fail("C06", "generic timestep panicked".into(), ctx.clone(), &mut oracle_failures);
                coq.push(format!("{} [] [] [] 0%nat true", head));
                break;
            }
            let (sl1, st1, c1) = snapshot_qmc(&g);
            let words = take_words_qmc(&g, &mut seen);
            n_words += words.len();
            let n1 = sl1.iter().flatten().count();
            max_cutoff_seen = max_cutoff_seen.max(c1);
            distinct.insert(format!("{:?}{:?}{:?}", sl0, st0, words.len()));
            let c = json!({"ctx": ctx, "call_index": ci, "beta": beta});
            if !naive_wf(&st1, &sl1) {
                fail("C06", "world line inconsistent after generic timestep".into(), c.clone(), &mut oracle_failures);
            }
            for (p, o) in sl1.iter().enumerate() {
                if let Some(o) = o {
                    let okb = o.bond < spec.bonds.len() && o.vars == spec.bonds[o.bond].vars;
                    // the matrix element comes from the table the user supplied, not from the library's lookup
                    let arity_ok = okb && o.ins.len() == o.vars.len() && o.outs.len() == o.vars.len();
                    let w = if arity_ok { spec.bonds[o.bond].weight(&o.ins, &o.outs) } else { -1.0 };
                    if !arity_ok || !(w > 0.0) || o.constant != spec.bonds[o.bond].is_constant() {
                        // a stored operator of weight zero makes the whole configuration weight zero: the sampler
                        // is then outside the support of the thermal distribution (C04) and stores an illegal term (C07)
                        fail("C04,C07", format!("slot {}: illegal stored operator {:?} (matrix element {} from the supplied table)", p, o, w), c.clone(), &mut oracle_failures);
                    }
                }
            }
            if sl1.len() < c0 {
                fail("C12", format!("diagonal update ran at reported cutoff {} but the operator string only has {} slots", c0, sl1.len()), c.clone(), &mut oracle_failures);
            }
            if c1 < c0 || n1 > c1 || !(c1 > n1 && c1 >= n1 + n1 / 2) {
                fail("C12", format!("cutoff {} -> {} with n = {}", c0, c1, n1), c.clone(), &mut oracle_failures);
            }
            coq.push(format!("{} {} {} {} {}%nat false", head, cq::words(&words), slots_coq(&sl1), cq::bools(&st1), c1));
            if (hi * 17 + ci) % 211 == 0 {
                samples.push(json!({"sampler": "qmc", "beta": beta, "nvars": spec.nvars, "nbonds": spec.bonds.len(), "loops": spec.loops,
                    "cutoff_before": c0, "cutoff_after": c1, "n_after": n1, "words": words.len()}));
            }
        }
    }
    // ---------------- long directed loops on a large, cold lattice ----------------
    let long = long_loops(args.thorough, args.seed);
    for f in long.failures.iter() {
        fail("C06", f.clone(), json!({"scenario": "Heisenberg antiferromagnet, periodic square lattice, directed loops only", "L": long.l, "beta": long.beta,
            "seed": long.seed}), &mut oracle_failures);
    }
    let per = if args.thorough { 500 } else { 100 };
    let files = crate::write_shards(&args.out, "Steps", "Steps", &coq, per);
    json!({"files": files, "evaluations": coq.len(), "distinct_nontrivial": distinct.len(), "histories": 2 * n_hist,
        "calls": n_calls, "calls_by_kind": hist_calls, "n_after_histogram(bucket of 5)": hist_n, "ising_with_field": n_h,
        "ising_with_heatbath": n_hb, "generic_built_in_two_stages": n_staged, "max_cutoff_seen": max_cutoff_seen, "raw_words_replayed": n_words,
        "oracle_failures": oracle_failures, "samples": samples,
        "long_loop_scenario": {"lattice": format!("{}x{} periodic Heisenberg", long.l, long.l), "beta": long.beta, "calls_checked": long.calls,
            "max_operator_count": long.max_n, "world_line_checked_after_every_call": true},
        "rule": "random Ising samplers (2-5 spins, multi-edges, J of both signs, h = 0 / +-, heat bath on/off, initial cutoff 1..8) and generic samplers (exchange terms with loops, symmetric diagonal + constant terms with clusters, mixed arities), histories of interleaved timestep / single_diagonal_step / single_cluster_step with a beta per call; every call is one case replayed by the model on the raw RNG words; distinct = distinct (configuration before, words consumed)"})
}


/// Large, cold system with directed loops only: the operator string holds several thousand operators and single
/// loops visit 10^4 - 10^5 vertices before they close (a loop that is cut short leaves an open world line).
/// The naive world-line check runs after every diagonal_update and every loop_update.
pub struct LongLoops {
    pub l: usize,
    pub beta: f64,
    pub seed: u64,
    pub calls: usize,
    pub max_n: usize,
    pub failures: Vec<String>,
}

pub fn long_loops(thorough: bool, seed: u64) -> LongLoops {
    use qmc::sse::fast_ops::FastOps;
    use rand::prelude::*;
    type Q = Qmc<SmallRng, FastOps>;
    let l = 16usize;
    let beta = 32.0;
    let (sweeps, loops_per_sweep) = if thorough { (120, 20) } else { (40, 20) };
    let seed = 20260930u64.wrapping_add(seed);
    let f = |i: usize, j: usize| (j % l) * l + (i % l);
    let mut edges = vec![];
    for j in 0..l {
        for i in 0..l {
            edges.push((f(i, j), f(i + 1, j)));
            edges.push((f(i, j), f(i, j + 1)));
        }
    }
    let neel: Vec<bool> = (0..l * l).map(|k| (k % l + k / l) % 2 == 0).collect();
    let mut out = LongLoops { l, beta, seed, calls: 0, max_n: 0, failures: vec![] };
    let r = catch_unwind(AssertUnwindSafe(|| {
        let mut q = Q::new_with_state(l * l, SmallRng::seed_from_u64(seed), neel, true);
        let mut mat = vec![0.0; 16];
        mat[0b0101] = 0.5;
        mat[0b1010] = 0.5;
        mat[0b1001] = 0.5;
        mat[0b0110] = 0.5;
        for (a, b) in edges {
            q.make_interaction(mat.clone(), vec![a, b]).unwrap();
        }
        let check = |q: &Q| -> Option<String> {
            let m = q.get_manager_ref();
            let state0 = q.state_ref().to_vec();
            let mut rolling = state0.clone();
            for p in 0..m.get_cutoff() {
                if let Some(op) = m.get_pth(p) {
                    for (relv, v) in op.get_vars().iter().cloned().enumerate() {
                        if rolling[v] != op.get_inputs()[relv] {
                            return Some(format!("operator at p={} (bond {}, vars {:?}) records input {} for variable {} but the propagated state has {}",
                                p, op.get_bond(), op.get_vars(), op.get_inputs()[relv], v, rolling[v]));
                        }
                    }
                    for (relv, v) in op.get_vars().iter().cloned().enumerate() {
                        rolling[v] = op.get_outputs()[relv];
                    }
                }
            }
            if rolling != state0 {
                return Some("propagated state does not return to the p = 0 state".into());
            }
            None
        };
        let mut calls = 0usize;
        let mut max_n = 0usize;
        let mut failures = vec![];
        'outer: for sweep in 0..sweeps {
            q.diagonal_update(beta);
            calls += 1;
            max_n = max_n.max(q.get_n());
            if let Some(m) = check(&q) {
                failures.push(format!("sweep {} (n = {}): after diagonal_update: {}", sweep, q.get_n(), m));
                break 'outer;
            }
            for k in 0..loops_per_sweep {
                q.loop_update();
                calls += 1;
                if let Some(m) = check(&q) {
                    failures.push(format!("sweep {} (n = {}): after loop_update #{}: {}", sweep, q.get_n(), k, m));
                    break 'outer;
                }
            }
        }
        (calls, max_n, failures)
    }));
    match r {
        Ok((calls, max_n, failures)) => {
            out.calls = calls;
            out.max_n = max_n;
            out.failures = failures;
        }
        Err(_) => out.failures.push("a public update call panicked in the long-loop scenario".into()),
    }
    out
}
