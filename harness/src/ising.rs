//! Random Ising / generic sampler instances and histories of public calls, logged step by step.
use crate::coqfmt as cq;
use crate::model::*;
use crate::tape::{SplitMix64, TapeRng, Word};
use qmc::sse::fast_ops::FastOps;
use qmc::sse::*;
use std::panic::{catch_unwind, AssertUnwindSafe};

pub type IG = QmcIsingGraph<TapeRng, FastOps>;
pub type GQ = Qmc<TapeRng, FastOps>;

#[derive(Clone, Debug)]
pub struct IsingSpec {
    pub edges: Vec<((usize, usize), f64)>,
    pub gamma: f64,
    pub h: f64,
    pub nvars: usize,
    pub cutoff: usize,
    pub state: Vec<bool>,
    pub hb: bool,
}

impl IsingSpec {
    pub fn coq(&self) -> String {
        format!(
            "(mkIsing {} {} {} {}%nat)",
            cq::list(&self.edges, |((a, b), j)| format!("({}%nat, {}%nat, {})", a, b, cq::q(*j))),
            cq::q(self.gamma),
            cq::q(self.h),
            self.nvars
        )
    }
    pub fn build(&self, rng: TapeRng) -> IG {
        let mut g = IG::new_with_rng(self.edges.clone(), self.gamma, self.h, self.cutoff, rng, Some(self.state.clone()));
        if self.hb {
            g.set_enable_heatbath(true);
        }
        g
    }
    /// weight of an operator under this Hamiltonian, written from the documented model (oracle side)
    pub fn weight(&self, bond: usize, ins: &[bool], outs: &[bool]) -> f64 {
        let ne = self.edges.len();
        if bond < ne {
            let j = self.edges[bond].1;
            if ins == outs {
                j.abs() + if ins[0] == ins[1] { -j } else { j }
            } else {
                0.0
            }
        } else if bond < ne + self.nvars {
            self.gamma
        } else if ins == outs {
            self.h.abs() + if ins[0] { self.h } else { -self.h }
        } else {
            0.0
        }
    }
    pub fn nbonds(&self) -> usize {
        self.edges.len() + self.nvars + if self.h != 0.0 { self.nvars } else { 0 }
    }
    pub fn bond_vars(&self, bond: usize) -> Vec<usize> {
        let ne = self.edges.len();
        if bond < ne {
            vec![self.edges[bond].0 .0, self.edges[bond].0 .1]
        } else if bond < ne + self.nvars {
            vec![bond - ne]
        } else {
            vec![bond - ne - self.nvars]
        }
    }
    pub fn bond_const(&self, bond: usize) -> bool {
        let ne = self.edges.len();
        bond >= ne && bond < ne + self.nvars
    }
    pub fn offset(&self) -> f64 {
        self.edges.iter().map(|(_, j)| j.abs()).sum::<f64>() + self.nvars as f64 * (self.gamma + self.h.abs())
    }
}

pub fn random_ising(rng: &mut SplitMix64, max_vars: usize, allow_h: bool) -> IsingSpec {
    let nvars = 2 + rng.below((max_vars - 1) as u64) as usize;
    let nedges = 1 + rng.below((nvars + 2) as u64) as usize;
    let mut edges = vec![];
    // make sure the largest variable index appears (nvars is derived from the edges)
    let a0 = rng.below((nvars - 1) as u64) as usize;
    let js = [0.25, 0.5, 0.75, 1.0, 1.5, 2.0];
    let pickj = |rng: &mut SplitMix64| js[rng.below(6) as usize] * if rng.chance(1, 2) { -1.0 } else { 1.0 };
    edges.push(((a0, nvars - 1), pickj(rng)));
    for _ in 1..nedges {
        let a = rng.below(nvars as u64) as usize;
        let mut b = rng.below(nvars as u64) as usize;
        if a == b {
            b = (a + 1) % nvars;
        }
        edges.push(((a, b), pickj(rng)));
    }
    let gamma = [0.25, 0.5, 1.0, 1.5, 2.0][rng.below(5) as usize];
    let h = if allow_h && rng.chance(1, 2) { [0.25, 0.5, 1.0][rng.below(3) as usize] * if rng.chance(1, 2) { -1.0 } else { 1.0 } } else { 0.0 };
    let cutoff = [1, 1, 2, 3, 5, 8][rng.below(6) as usize];
    let state = (0..nvars).map(|_| rng.chance(1, 2)).collect();
    IsingSpec { edges, gamma, h, nvars, cutoff, state, hb: rng.chance(1, 3) }
}

pub fn snapshot_ising(g: &IG) -> (Slots, Vec<bool>, usize) {
    (read_slots(g.get_manager_ref()), g.clone_state(), g.get_cutoff())
}

#[derive(Clone, Copy, Debug, PartialEq)]
pub enum Call {
    Timestep,
    Diag,
    Cluster,
}

pub struct StepRec {
    pub call: Call,
    pub beta: f64,
    pub before: (Slots, Vec<bool>, usize),
    pub after: Option<(Slots, Vec<bool>, usize)>,
    pub words: Vec<Word>,
    pub ret: usize,
}

/// Apply one public call to the graph, logging the consumed words; None in `after` = panicked.
pub fn do_call(g: &mut IG, call: Call, beta: f64) -> StepRec {
    let before = snapshot_ising(g);
    // the rng is private: swap the log out through a snapshot of the words consumed
    let r = catch_unwind(AssertUnwindSafe(|| match call {
        Call::Timestep => {
            g.timestep(beta);
            0
        }
        Call::Diag => {
            g.single_diagonal_step(beta);
            0
        }
        Call::Cluster => g.single_cluster_step(),
    }));
    match r {
        Ok(ret) => StepRec { call, beta, before, after: Some(snapshot_ising(g)), words: vec![], ret },
        Err(_) => StepRec { call, beta, before, after: None, words: vec![], ret: 0 },
    }
}

/// The RNG is owned by the sampler; its log is read back through serde (TapeRng is serialisable).
pub fn take_words(g: &IG, seen: &mut usize) -> Vec<Word> {
    let v = serde_json::to_value(g).unwrap();
    let log: Vec<Word> = serde_json::from_value(v["rng"]["log"].clone()).unwrap();
    let out = log[*seen..].to_vec();
    *seen = log.len();
    out
}

// ---------------------------------------------------------------------------------------------
// generic sampler
#[derive(Clone, Debug)]
pub struct BondSpec {
    pub kind: usize, // 0 full, 1 full+offset, 2 diag, 3 diag+offset
    pub mat: Vec<f64>,
    pub vars: Vec<usize>,
}

#[derive(Clone, Debug)]
pub struct QmcSpec {
    pub nvars: usize,
    pub bonds: Vec<BondSpec>,
    pub state: Vec<bool>,
    pub loops: bool,
    pub hb: bool,
}

impl BondSpec {
    /// The documented matrix element, computed from the table the user supplied and NOT through the
    /// library's own lookup: full matrices are indexed (outs << k | ins), diagonal tables give the entry
    /// for ins == outs and 0 otherwise; the offset constructors subtract the minimum entry first.
    pub fn weight(&self, ins: &[bool], outs: &[bool]) -> f64 {
        let k = self.vars.len();
        let min = self.mat.iter().cloned().fold(f64::INFINITY, f64::min);
        let off = if self.kind % 2 == 1 { min } else { 0.0 };
        if self.kind < 2 {
            self.mat[(idx_of(outs) << k) | idx_of(ins)] - off
        } else if ins == outs {
            self.mat[idx_of(ins)] - off
        } else {
            0.0
        }
    }
    /// the "constant" flag: a full matrix with all entries equal
    pub fn is_constant(&self) -> bool {
        self.kind < 2 && self.mat.iter().all(|x| *x == self.mat[0])
    }
}

impl QmcSpec {
    pub fn coq(&self) -> String {
        cq::list(&self.bonds, |b| format!("({}%nat, {}, {})", b.kind, cq::qs(&b.mat), cq::nats(&b.vars)))
    }
    pub fn build(&self, rng: TapeRng) -> Option<GQ> {
        let mut q = GQ::new_with_state(self.nvars, rng, self.state.clone(), self.loops);
        for b in &self.bonds {
            let r = match b.kind {
                0 => q.make_interaction(b.mat.clone(), b.vars.clone()),
                1 => q.make_interaction_and_offset(b.mat.clone(), b.vars.clone()),
                2 => q.make_diagonal_interaction(b.mat.clone(), b.vars.clone()),
                _ => q.make_diagonal_interaction_and_offset(b.mat.clone(), b.vars.clone()),
            };
            if r.is_err() {
                return None;
            }
        }
        q.set_do_heatbath(self.hb);
        Some(q)
    }
}

impl QmcSpec {
    /// Build the sampler in two stages: the first `m` interactions, heat bath on and `warm` time steps (so that
    /// the heat-bath table is cached); then the heat bath is switched off, the remaining interactions are added,
    /// and the option is set to its final value.  A legal sequence of public calls; the resulting sampler must
    /// behave exactly like one that was given all interactions up front.
    pub fn build_staged(&self, rng: TapeRng, m: usize, warm: usize, beta: f64) -> Option<GQ> {
        let mut q = GQ::new_with_state(self.nvars, rng, self.state.clone(), self.loops);
        let add = |q: &mut GQ, b: &BondSpec| match b.kind {
            0 => q.make_interaction(b.mat.clone(), b.vars.clone()),
            1 => q.make_interaction_and_offset(b.mat.clone(), b.vars.clone()),
            2 => q.make_diagonal_interaction(b.mat.clone(), b.vars.clone()),
            _ => q.make_diagonal_interaction_and_offset(b.mat.clone(), b.vars.clone()),
        };
        for b in &self.bonds[..m.min(self.bonds.len())] {
            if add(&mut q, b).is_err() {
                return None;
            }
        }
        q.set_do_heatbath(true);
        for _ in 0..warm {
            q.timestep(beta);
        }
        q.set_do_heatbath(false);
        for b in &self.bonds[m.min(self.bonds.len())..] {
            if add(&mut q, b).is_err() {
                return None;
            }
        }
        q.set_do_heatbath(self.hb);
        Some(q)
    }
}

pub fn snapshot_qmc(g: &GQ) -> (Slots, Vec<bool>, usize) {
    (read_slots(g.get_manager_ref()), g.clone_state(), g.get_cutoff())
}

pub fn take_words_qmc(g: &GQ, seen: &mut usize) -> Vec<Word> {
    let v = serde_json::to_value(g).unwrap();
    let log: Vec<Word> = serde_json::from_value(v["rng"]["log"].clone()).unwrap();
    let out = log[*seen..].to_vec();
    *seen = log.len();
    out
}

/// A two-site DIAGONAL term written as a FULL 4x4 matrix (zero off-diagonal entries). Half of them are symmetric
/// under a global spin flip; the others break the symmetry either in the mixed rows only (|01> vs |10>, a
/// staggered field — possibly with a zero entry) or in the aligned rows (|00> vs |11>).  A sampler holding an
/// asymmetric one must never run the plain cluster update.
fn full_two_site_diagonal(rng: &mut SplitMix64, nvars: usize) -> BondSpec {
    let d = |rng: &mut SplitMix64| (1 + rng.below(12)) as f64 * 0.25;
    let vs = pick_distinct(rng, nvars, 2);
    let (a, b) = (d(rng), d(rng));
    let (mut c, mut e) = (b, a);
    match rng.below(4) {
        0 | 1 => {}
        2 => {
            c = if rng.chance(1, 2) { 0.0 } else { b + 0.25 * (1 + rng.below(4)) as f64 };
        }
        _ => {
            e = a + 0.25 * (1 + rng.below(4)) as f64;
        }
    }
    let mut m = vec![0.0; 16];
    m[0] = a;
    m[5] = b;
    m[10] = c;
    m[15] = e;
    BondSpec { kind: 0, mat: m, vars: vs }
}

/// Random interaction sets of the classes the property names.
pub fn random_qmc(rng: &mut SplitMix64) -> QmcSpec {
    let mut nvars = 1 + rng.below(4) as usize;
    let class = rng.below(5);
    if class == 4 {
        nvars = nvars.max(3);
    }
    let mut bonds = vec![];
    let d = |rng: &mut SplitMix64| (1 + rng.below(12)) as f64 * 0.25;
    match class {
        0 => {
            // exchange-type two-site terms (even parity off-diagonals) -> loop updates
            let nb = 1 + rng.below(3) as usize;
            for _ in 0..nb {
                if nvars < 2 {
                    break;
                }
                let vs = pick_distinct(rng, nvars, 2);
                let (a, b, c, x) = (d(rng), d(rng), d(rng), d(rng));
                // basis index = outs*4 + ins, (v0 v1) big-endian; exchange couples 01 <-> 10
                let mut m = vec![0.0; 16];
                m[0] = a;
                m[5] = b;
                m[10] = c;
                m[15] = a;
                m[6] = x; // outs=01, ins=10
                m[9] = x; // outs=10, ins=01
                bonds.push(BondSpec { kind: rng.below(2) as usize, mat: m, vars: vs });
            }
            if bonds.is_empty() {
                let c = d(rng);
                bonds.push(BondSpec { kind: 0, mat: vec![c, c, c, c], vars: vec![0] });
            }
            // an accepted term on NO variables (a pure energy shift): loops may start on it
            if rng.chance(1, 4) {
                bonds.push(BondSpec { kind: 2, mat: vec![d(rng)], vars: vec![] });
            }
            // a diagonal table with equal entries on two or three variables (an energy shift): loops visit
            // its vertices and must find weight 0 for every spin-flipping exit
            if nvars >= 2 && rng.chance(1, 3) {
                let k = if nvars >= 3 && rng.chance(1, 2) { 3 } else { 2 };
                let vs = pick_distinct(rng, nvars, k);
                let c = d(rng);
                bonds.push(BondSpec { kind: 2, mat: vec![c; 1 << k], vars: vs });
            }
        }
        1 => {
            // Ising-symmetric diagonal terms + constant single-site terms -> cluster updates
            for v in 0..nvars {
                let c = d(rng);
                bonds.push(BondSpec { kind: 0, mat: vec![c, c, c, c], vars: vec![v] });
            }
            let nb = rng.below(3) as usize + if nvars >= 2 { 1 } else { 0 };
            for _ in 0..nb {
                if nvars < 2 {
                    break;
                }
                let vs = pick_distinct(rng, nvars, 2);
                let (a, b) = (d(rng), d(rng));
                bonds.push(BondSpec { kind: 2 + rng.below(2) as usize, mat: vec![a, b, b, a], vars: vs });
            }
            // a term on no variables: its operators have no legs and form clusters by themselves
            if rng.chance(1, 4) {
                bonds.push(BondSpec { kind: 2 * rng.below(2) as usize, mat: vec![d(rng)], vars: vec![] });
            }
            if nvars >= 2 && rng.chance(1, 3) {
                bonds.push(full_two_site_diagonal(rng, nvars));
            }
            // a single-site diagonal table with equal entries: an energy shift, never a cluster boundary
            if rng.chance(1, 3) {
                let c = d(rng);
                let v = rng.below(nvars as u64) as usize;
                bonds.push(BondSpec { kind: 2, mat: vec![c, c], vars: vec![v] });
            }
        }
        2 => {
            // mixed arities, diagonal only plus constant single-site terms (some not symmetric)
            for v in 0..nvars {
                if rng.chance(2, 3) {
                    let c = d(rng);
                    bonds.push(BondSpec { kind: 0, mat: vec![c, c, c, c], vars: vec![v] });
                }
            }
            let nb = 1 + rng.below(3) as usize;
            for _ in 0..nb {
                let k = 1 + rng.below(nvars.min(3) as u64) as usize;
                let vs = pick_distinct(rng, nvars, k);
                let mut m: Vec<f64> = (0..(1usize << k)).map(|_| d(rng)).collect();
                if rng.chance(1, 2) {
                    let len = m.len();
                    for i in 0..len / 2 {
                        m[len - 1 - i] = m[i];
                    }
                }
                bonds.push(BondSpec { kind: 2 + rng.below(2) as usize, mat: m, vars: vs });
            }
            if nvars >= 2 && rng.chance(1, 2) {
                bonds.push(full_two_site_diagonal(rng, nvars));
            }
        }
        4 => {
            // multi-body vertices whose matrices allow flipping only SOME of their variables
            // (constant 3-body terms): after a loop update such an operator changes a strict
            // subset of the spins it covers, which the diagonal sweep must carry through exactly
            let nb = 1 + rng.below(2) as usize;
            for _ in 0..nb {
                let vs = pick_distinct(rng, nvars, 3);
                let w = d(rng);
                bonds.push(BondSpec { kind: 0, mat: vec![w; 64], vars: vs });
            }
            if rng.chance(1, 2) {
                let vs = pick_distinct(rng, nvars, 2);
                let (a, b) = (d(rng), d(rng));
                bonds.push(BondSpec { kind: 2, mat: vec![a, b, b, a], vars: vs });
            }
            if rng.chance(1, 2) {
                let c = d(rng);
                bonds.push(BondSpec { kind: 0, mat: vec![c, c, c, c], vars: vec![0] });
            }
        }
        _ => {
            // single-site full matrices with even-parity structure only on the diagonal + constant terms
            for v in 0..nvars {
                let c = d(rng);
                bonds.push(BondSpec { kind: 0, mat: vec![c, c, c, c], vars: vec![v] });
                if rng.chance(1, 2) {
                    let (a, b) = (d(rng), d(rng));
                    bonds.push(BondSpec { kind: 1, mat: vec![a, 0.0, 0.0, b], vars: vec![v] });
                }
            }
        }
    }
    let state = (0..nvars).map(|_| rng.chance(1, 2)).collect();
    QmcSpec { nvars, bonds, state, loops: class == 0 || class == 4 || rng.chance(1, 4), hb: rng.chance(1, 3) }
}

/// switch the sampler's TapeRng log off (long statistical runs) by re-attaching a non-logging RNG through serde
pub trait LoggingOff {
    fn rng_logging_off(&mut self);
}
impl LoggingOff for IG {
    fn rng_logging_off(&mut self) {
        let mut v = serde_json::to_value(&*self).unwrap();
        v["rng"]["logging"] = serde_json::json!(false);
        v["rng"]["log"] = serde_json::json!([]);
        *self = serde_json::from_value(v).unwrap();
    }
}
