//! qh: correspondence / oracle harness driving the real qmc crate.
mod c08;
mod c09;
mod c10;
mod c11;
mod c13;
mod c14;
mod c15;
mod c16;
mod c17;
mod c18;
mod c19;
mod c20;
mod coqfmt;
mod model;
mod rvb;
mod ising;
mod steps;
mod tape;
mod thermal;

use std::io::Write;

pub struct Args {
    pub seed: u64,
    pub thorough: bool,
    pub out: String,
    pub extra: Vec<String>,
}

/// Write `cases` (Coq terms of type `<module>.case`) into shards and return the file names.
pub fn write_shards(
    out: &str,
    id: &str,
    module: &str,
    cases: &[String],
    per_shard: usize,
) -> Vec<String> {
    std::fs::create_dir_all(out).unwrap();
    let mut files = vec![];
    for (k, chunk) in cases.chunks(per_shard.max(1)).enumerate() {
        let name = format!("cases_{}_{}", id, k);
        let path = format!("{}/{}.v", out, name);
        let mut f = std::io::BufWriter::new(std::fs::File::create(&path).unwrap());
        writeln!(f, "From Coq Require Import List QArith ZArith NArith Bool.").unwrap();
        writeln!(f, "From QmcV Require Import Model.Prog Model.Sse Model.Ham Model.Diagonal Model.Nav Model.FastOps Model.Cluster Model.Tempering Model.Classical Model.Pool Model.Autocorr Model.Rvb Check.Common Check.Table Check.{}.", module).unwrap();
        writeln!(f, "Import ListNotations.").unwrap();
        writeln!(f, "Definition base : N := {}%N.", k * per_shard.max(1)).unwrap();
        writeln!(f, "Definition cases : list {}.case := [", module).unwrap();
        for (i, c) in chunk.iter().enumerate() {
            writeln!(f, "  {}{}", c, if i + 1 < chunk.len() { ";" } else { "" }).unwrap();
        }
        writeln!(f, "].").unwrap();
        writeln!(f, "Eval vm_compute in ({}.run base cases).", module).unwrap();
        files.push(path);
    }
    files
}

/// Keep at most `per_tag` failures for every distinct "prop" tag, so that a flood of failures of one kind can
/// never push the failures that contradict another property out of a truncated list.
pub fn cap_failures(v: &mut Vec<serde_json::Value>, per_tag: usize) {
    let mut seen: std::collections::HashMap<String, usize> = std::collections::HashMap::new();
    v.retain(|f| {
        let tag = f.get("prop").and_then(|p| p.as_str()).unwrap_or("").to_string();
        let c = seen.entry(tag).or_insert(0);
        *c += 1;
        *c <= per_tag
    });
}

fn main() {
    let argv: Vec<String> = std::env::args().collect();
    if argv.len() < 2 {
        eprintln!("usage: qh <cmd> [--seed N] [--tier quick|thorough] [--out DIR] [extra...]");
        std::process::exit(2);
    }
    let mut args = Args {
        seed: 1,
        thorough: false,
        out: "/verif/coq/Run".to_string(),
        extra: vec![],
    };
    let mut i = 2;
    while i < argv.len() {
        match argv[i].as_str() {
            "--seed" => {
                args.seed = argv[i + 1].parse().unwrap();
                i += 2;
            }
            "--tier" => {
                args.thorough = argv[i + 1] == "thorough";
                i += 2;
            }
            "--out" => {
                args.out = argv[i + 1].clone();
                i += 2;
            }
            other => {
                args.extra.push(other.to_string());
                i += 1;
            }
        }
    }
    // silence panic messages from catch_unwind'ed library panics
    if std::env::var("QH_SHOW_PANICS").is_err() {
        std::panic::set_hook(Box::new(|_| {}));
    }
    let summary = match argv[1].as_str() {
        "c16" => c16::run(&args),
        "c08" => c08::run(&args),
        "c08debug" => c08::debug(&args),
        "steps" => steps::run(&args),
        "c17" => c17::run(&args),
        "c09" => c09::run(&args),
        "c10" => c10::run(&args),
        "c11" => c11::run(&args),
        "c13" => c13::run(&args),
        "c14" => c14::run(&args),
        "c15" => c15::run(&args),
        "c19" => c19::run(&args),
        "c18" => c18::run(&args),
        "c20" => c20::run(&args),
        "thermal" => thermal::run(&args),
        "rvb" => rvb::run(&args),
        other => {
            eprintln!("unknown command {}", other);
            std::process::exit(2);
        }
    };
    println!("{}", serde_json::to_string(&summary).unwrap());
}
