//! Shared harness-side data: table Hamiltonians, operator strings, conversion to/from FastOps and Coq.
use crate::coqfmt as cq;
use crate::tape::SplitMix64;
use qmc::sse::fast_ops::{FastOp, FastOps};
use qmc::sse::*;
use smallvec::SmallVec;

#[derive(Clone, Debug, PartialEq)]
pub struct MOp {
    pub vars: Vec<usize>,
    pub bond: usize,
    pub ins: Vec<bool>,
    pub outs: Vec<bool>,
    pub constant: bool,
}

impl MOp {
    pub fn is_diag(&self) -> bool {
        self.ins == self.outs
    }
    pub fn to_fast(&self) -> FastOp {
        let vars: SmallVec<[usize; 2]> = self.vars.iter().cloned().collect();
        let ins: SmallVec<[bool; 2]> = self.ins.iter().cloned().collect();
        let outs: SmallVec<[bool; 2]> = self.outs.iter().cloned().collect();
        if self.ins == self.outs {
            FastOp::diagonal(vars, self.bond, ins, self.constant)
        } else {
            FastOp::offdiagonal(vars, self.bond, ins, outs, self.constant)
        }
    }
    pub fn from_op<O: Op>(op: &O) -> Self {
        MOp {
            vars: op.get_vars().to_vec(),
            bond: op.get_bond(),
            ins: op.get_inputs().to_vec(),
            outs: op.get_outputs().to_vec(),
            constant: op.is_constant(),
        }
    }
    pub fn coq(&self) -> String {
        format!(
            "(mkOp {} {}%nat {} {} {})",
            cq::nats(&self.vars),
            self.bond,
            cq::bools(&self.ins),
            cq::bools(&self.outs),
            cq::b(self.constant)
        )
    }
}

pub type Slots = Vec<Option<MOp>>;

pub fn slots_coq(s: &Slots) -> String {
    cq::list(s, |o| cq::opt(o, |x| x.coq()))
}

pub fn read_slots<M: OpContainer>(m: &M) -> Slots {
    (0..m.get_cutoff()).map(|p| m.get_pth(p).map(MOp::from_op)).collect()
}

pub fn build_fastops(nvars: usize, slots: &Slots, nbonds: Option<usize>) -> FastOps {
    let mut m = match nbonds {
        Some(nb) => FastOps::new_from_nvars_and_nbonds(nvars, Some(nb)),
        None => FastOps::new_from_nvars(nvars),
    };
    m.set_cutoff(slots.len());
    // install through the public mutation interface so that bond counters are maintained too
    let sl = slots.clone();
    m.mutate_ps(0, slots.len(), 0usize, |_, _, p| (sl[p].as_ref().map(|o| Some(o.to_fast())), p + 1));
    m
}

/// A Hamiltonian given by explicit tables (diagonal weights per bond and sub-state).
#[derive(Clone, Debug)]
pub struct TableHam {
    pub vars: Vec<Vec<usize>>,
    pub consts: Vec<bool>,
    pub diag: Vec<Vec<f64>>, // indexed by big-endian sub-state (first variable most significant)
    pub offw: f64,
}

pub fn idx_of(bits: &[bool]) -> usize {
    bits.iter().fold(0, |a, b| 2 * a + (*b as usize))
}

impl TableHam {
    pub fn weight(&self, bond: usize, ins: &[bool], outs: &[bool]) -> f64 {
        if ins == outs {
            self.diag[bond][idx_of(ins)]
        } else {
            self.offw
        }
    }
    pub fn nbonds(&self) -> usize {
        self.vars.len()
    }
    pub fn coq(&self) -> String {
        format!(
            "(mkTable {} {} {} {})",
            cq::list(&self.vars, |v| cq::nats(v)),
            cq::bools(&self.consts),
            cq::list(&self.diag, |d| cq::qs(d)),
            cq::q(self.offw)
        )
    }
}

pub struct HamRef<'a>(pub &'a TableHam);

impl<'a> Hamiltonian<'a> for HamRef<'a> {
    fn hamiltonian(&self, _vars: &[usize], bond: usize, inputs: &[bool], outputs: &[bool]) -> f64 {
        self.0.weight(bond, inputs, outputs)
    }
    fn edge_fn(&self, bond: usize) -> (&'a [usize], bool) {
        (&self.0.vars[bond], self.0.consts[bond])
    }
    fn num_bonds(&self) -> usize {
        self.0.vars.len()
    }
}

pub fn pick_distinct(rng: &mut SplitMix64, n: usize, k: usize) -> Vec<usize> {
    let mut all: Vec<usize> = (0..n).collect();
    let k = k.min(n);
    for i in 0..k {
        let j = i + rng.below((n - i) as u64) as usize;
        all.swap(i, j);
    }
    all.truncate(k);
    all
}

/// Random table Hamiltonian with dyadic weights (multiples of 1/8, some zero, some large).
pub fn random_table(rng: &mut SplitMix64, nvars: usize, nbonds: usize, max_arity: usize) -> TableHam {
    let mut vars = vec![];
    let mut consts = vec![];
    let mut diag = vec![];
    for _ in 0..nbonds {
        let k = 1 + rng.below(max_arity.min(nvars) as u64) as usize;
        let vs = pick_distinct(rng, nvars, k);
        let constant = k == 1 && rng.chance(1, 2);
        let scale = [0.125, 0.25, 0.5, 1.0, 2.0][rng.below(5) as usize];
        let c = (1 + rng.below(8)) as f64 * scale;
        let d: Vec<f64> = (0..(1usize << k))
            .map(|_| {
                if constant {
                    c
                } else if rng.chance(1, 5) {
                    0.0
                } else {
                    (1 + rng.below(16)) as f64 * scale
                }
            })
            .collect();
        vars.push(vs);
        consts.push(constant);
        diag.push(d);
    }
    let offw = (1 + rng.below(8)) as f64 * 0.25;
    TableHam { vars, consts, diag, offw }
}

/// Random world-line consistent operator string over `len` slots for the table Hamiltonian.
/// Returns (state at p = 0, slots). Off-diagonal ops flip a subset of their variables; periodicity
/// is restored by single-variable flips placed in the trailing slots.
pub fn random_string(rng: &mut SplitMix64, h: &TableHam, nvars: usize, len: usize, fill_num: u64, fill_den: u64) -> (Vec<bool>, Slots) {
    let st0: Vec<bool> = (0..nvars).map(|_| rng.chance(1, 2)).collect();
    let mut st = st0.clone();
    let mut slots: Slots = vec![None; len];
    let nb = h.nbonds();
    let allow_off = rng.chance(3, 4);
    let main = if allow_off { len.saturating_sub(nvars) } else { len };
    for p in 0..main {
        if nb == 0 || !rng.chance(fill_num, fill_den) {
            continue;
        }
        let b = rng.below(nb as u64) as usize;
        let vs = &h.vars[b];
        let ins: Vec<bool> = vs.iter().map(|v| st[*v]).collect();
        if !allow_off || rng.chance(2, 3) {
            if h.weight(b, &ins, &ins) > 0.0 {
                slots[p] = Some(MOp { vars: vs.clone(), bond: b, ins: ins.clone(), outs: ins, constant: h.consts[b] });
            }
        } else {
            let mut outs = ins.clone();
            let mut any = false;
            for k in 0..outs.len() {
                if rng.chance(1, 2) {
                    outs[k] = !outs[k];
                    any = true;
                }
            }
            if !any {
                outs[0] = !outs[0];
            }
            for (k, v) in vs.iter().enumerate() {
                st[*v] = outs[k];
            }
            slots[p] = Some(MOp { vars: vs.clone(), bond: b, ins, outs, constant: h.consts[b] });
        }
    }
    let mut p = main;
    for v in 0..nvars {
        if st[v] != st0[v] && p < len {
            if let Some(b) = (0..nb).find(|b| h.vars[*b].contains(&v)) {
                let vs = &h.vars[b];
                let ins: Vec<bool> = vs.iter().map(|x| st[*x]).collect();
                let mut outs = ins.clone();
                let k = vs.iter().position(|x| *x == v).unwrap();
                outs[k] = !outs[k];
                st[v] = !st[v];
                slots[p] = Some(MOp { vars: vs.clone(), bond: b, ins, outs, constant: h.consts[b] });
                p += 1;
            }
        }
    }
    if st != st0 {
        // could not restore periodicity: keep only diagonal ops, rebuilt on st0
        for q in 0..len {
            if let Some(o) = slots[q].clone() {
                let ins: Vec<bool> = o.vars.iter().map(|v| st0[*v]).collect();
                if h.weight(o.bond, &ins, &ins) > 0.0 {
                    slots[q] = Some(MOp { ins: ins.clone(), outs: ins, ..o });
                } else {
                    slots[q] = None;
                }
            }
        }
    }
    debug_assert!(naive_wf(&st0, &slots));
    (st0, slots)
}

/// Independent world-line checker written from the property text (C06).
pub fn naive_wf(st0: &[bool], slots: &Slots) -> bool {
    let mut cur = st0.to_vec();
    for o in slots.iter().flatten() {
        if o.ins.len() != o.vars.len() || o.outs.len() != o.vars.len() {
            return false;
        }
        for (k, v) in o.vars.iter().enumerate() {
            if *v >= cur.len() || cur[*v] != o.ins[k] {
                return false;
            }
        }
        for (k, v) in o.vars.iter().enumerate() {
            cur[*v] = o.outs[k];
        }
    }
    cur == st0
}
