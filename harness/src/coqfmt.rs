//! Printing harness values as Coq terms.
use crate::tape::Word;

/// exact rational value of a finite f64 as a Coq Q literal
pub fn q(x: f64) -> String {
    assert!(x.is_finite(), "non-finite value {}", x);
    if x == 0.0 {
        return "(Qmake 0 1)".to_string();
    }
    let bits = x.to_bits();
    let sign = if (bits >> 63) == 1 { -1i128 } else { 1 };
    let exp = ((bits >> 52) & 0x7ff) as i64;
    let frac = bits & ((1u64 << 52) - 1);
    let (mut m, mut e) = if exp == 0 {
        (frac as i128, -1074i64)
    } else {
        ((frac | (1u64 << 52)) as i128, exp - 1075)
    };
    while m % 2 == 0 && e < 0 {
        m /= 2;
        e += 1;
    }
    if e >= 0 {
        assert!(e < 60, "value too large {}", x);
        format!("(Qmake ({}) 1)", sign * (m << e))
    } else {
        assert!(-e < 120, "value too fine {}", x);
        format!("(Qmake ({}) {})", sign * m, 1u128 << (-e))
    }
}

pub fn b(x: bool) -> &'static str {
    if x {
        "true"
    } else {
        "false"
    }
}

pub fn list<T, F: Fn(&T) -> String>(xs: &[T], f: F) -> String {
    let parts: Vec<String> = xs.iter().map(f).collect();
    format!("[{}]", parts.join("; "))
}

pub fn bools(xs: &[bool]) -> String {
    list(xs, |x| b(*x).to_string())
}
pub fn nats(xs: &[usize]) -> String {
    list(xs, |x| format!("{}%nat", x))
}
pub fn qs(xs: &[f64]) -> String {
    list(xs, |x| q(*x))
}
pub fn n(x: u64) -> String {
    format!("{}%N", x)
}
pub fn opt<T, F: Fn(&T) -> String>(x: &Option<T>, f: F) -> String {
    match x {
        None => "None".to_string(),
        Some(v) => format!("(Some {})", f(v)),
    }
}
pub fn words(ws: &[Word]) -> String {
    list(ws, |w| match w {
        Word::W64(v) => format!("W64 {}", v),
        Word::W32(v) => format!("W32 {}", v),
    })
}
