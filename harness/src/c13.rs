//! C13: reproducibility from seeds, clone independence, serial == parallel tempering driver for every pool size.
use crate::c14::{jv, same_sampler};
use crate::coqfmt as cq;
use crate::ising::*;
use crate::tape::{SplitMix64, TapeRng};
use crate::Args;
use qmc::sse::rayon_tempering::ParallelQmcTimeSteps;
use qmc::sse::*;
use serde_json::{json, Value};
use std::panic::{catch_unwind, AssertUnwindSafe};

fn strip(v: &mut Value) {
    v["rng"]["log"] = json!(null);
    if let Some(gs) = v["graphs"].as_array_mut() {
        for g in gs.iter_mut() {
            g[0]["rng"]["log"] = json!(null);
        }
    }
}

pub fn run(args: &Args) -> Value {
    let mut rng = SplitMix64::new(args.seed ^ 0xC13);
    let n_runs = if args.thorough { 500 } else { 50 };
    let mut coq = vec![];
    let mut samples = vec![];
    let mut oracle_failures: Vec<Value> = vec![];
    let mut distinct = std::collections::HashSet::new();
    let mut n_twin = 0;
    let mut n_clone = 0;
    let mut n_par = 0;
    let mut pools_used = std::collections::BTreeMap::new();
    // ---- twins from equal seeds and clones taken at any step (Ising and generic samplers)
    for ri in 0..n_runs {
        let mut spec = random_ising(&mut rng, 5, true);
        spec.hb = ri % 2 == 0;
        let rvb = ri % 3 == 1;
        let seed = rng.next();
        let beta = [0.5, 1.0, 2.0][rng.below(3) as usize];
        let mut a = spec.build(TapeRng::new(seed));
        let mut b = spec.build(TapeRng::new(seed));
        a.set_run_rvb(rvb);
        b.set_run_rvb(rvb);
        let ctx = json!({"edges": spec.edges, "h": spec.h, "heatbath": spec.hb, "rvb": rvb, "beta": beta});
        let nsteps = 4 + rng.below(8) as usize;
        let kclone = rng.below(nsteps as u64) as usize;
        let mut c: Option<IG> = None;
        let mut seen = 0usize;
        for k in 0..nsteps {
            if k == kclone {
                c = Some(a.clone());
                n_clone += 1;
            }
            let rec = do_call(&mut a, Call::Timestep, beta);
            b.timestep(beta);
            n_twin += 1;
            if !same_sampler(&a, &b) {
                oracle_failures.push(json!({"what": format!("twins built from equal inputs and seeds differ after step {}", k + 1), "context": ctx}));
                break;
            }
            // the model replays the same call from the logged words: the step is a function of (state, tape)
            if !rvb && k % 3 == 0 {
                if let Some((sl1, st1, c1)) = &rec.after {
                    let words = take_words(&a, &mut seen);
                    let (sl0, st0, c0) = rec.before.clone();
                    coq.push(format!("Steps.Ising {} {} {} 0%nat {}%nat {} {} {} {} {} {}%nat false", spec.coq(), cq::b(spec.hb), cq::q(beta), c0, cq::bools(&st0),
                        crate::model::slots_coq(&sl0), cq::words(&words), crate::model::slots_coq(sl1), cq::bools(st1), c1));
                }
            } else {
                let _ = take_words(&a, &mut seen);
            }
        }
        // the clone continues exactly like its original did, and stepping it did not influence the original
        if let Some(mut c) = c {
            let mut o = spec.build(TapeRng::new(seed));
            o.set_run_rvb(rvb);
            for _ in 0..kclone {
                o.timestep(beta);
            }
            let before_a = jv(&a);
            for _ in kclone..nsteps {
                c.timestep(beta);
                o.timestep(beta);
                if !same_sampler(&c, &o) {
                    oracle_failures.push(json!({"what": "a clone does not continue like its original", "cloned_at": kclone, "context": ctx}));
                    break;
                }
            }
            if !same_sampler(&c, &a) {
                oracle_failures.push(json!({"what": "clone and original disagree after the same number of steps", "cloned_at": kclone, "context": ctx}));
            }
            if jv(&a) != before_a {
                oracle_failures.push(json!({"what": "stepping a clone changed the original", "context": ctx}));
            }
        }
        distinct.insert(format!("twin{}", ri));
    }
    // ---- the generic sampler: twins from equal seeds and clones, every option combination (heat bath on / off,
    // loops on / off): all randomness must come from the sampler's own generator
    let same_q = |a: &GQ, b: &GQ| -> bool {
        let mut x = jv(a);
        let mut y = jv(b);
        x["rng"]["log"] = json!(null);
        y["rng"]["log"] = json!(null);
        x == y
    };
    let mut n_twin_generic = 0usize;
    for ri in 0..n_runs {
        let mut spec = random_qmc(&mut rng);
        spec.hb = ri % 2 == 0;
        let seed = rng.next();
        let beta = [0.5, 1.0, 2.0][rng.below(3) as usize];
        let (mut a, mut b) = match (spec.build(TapeRng::new(seed)), spec.build(TapeRng::new(seed))) {
            (Some(a), Some(b)) => (a, b),
            _ => continue,
        };
        let ctx = json!({"sampler": "generic", "bonds": spec.bonds.iter().map(|b| json!([b.kind, b.mat, b.vars])).collect::<Vec<_>>(),
            "loops": spec.loops, "heatbath": spec.hb, "beta": beta});
        let nsteps = 4 + rng.below(8) as usize;
        let kclone = rng.below(nsteps as u64) as usize;
        let r = catch_unwind(AssertUnwindSafe(|| {
            let mut fails: Vec<String> = vec![];
            let mut c: Option<GQ> = None;
            for k in 0..nsteps {
                if k == kclone {
                    c = Some(a.clone());
                }
                a.timestep(beta);
                b.timestep(beta);
                if !same_q(&a, &b) {
                    fails.push(format!("generic twins built from equal inputs and seeds differ after step {}", k + 1));
                    return fails;
                }
            }
            if let Some(mut c) = c {
                let before_a = jv(&a);
                for _ in kclone..nsteps {
                    c.timestep(beta);
                }
                if !same_q(&c, &a) {
                    fails.push("a clone of a generic sampler does not continue like its original".into());
                }
                if jv(&a) != before_a {
                    fails.push("stepping a clone of a generic sampler changed the original".into());
                }
            }
            fails
        }));
        n_twin_generic += 1;
        match r {
            Ok(fails) => {
                for f in fails {
                    oracle_failures.push(json!({"what": f, "cloned_at": kclone, "context": ctx}));
                }
            }
            Err(_) => oracle_failures.push(json!({"what": "a generic sampler panicked in a twin run", "context": ctx})),
        }
        distinct.insert(format!("gtwin{}", ri));
    }
    // ---- serial vs parallel tempering driver under every pool size
    let n_lad = if args.thorough { 160 } else { 18 };
    for li in 0..n_lad {
        let nrep = 2 + rng.below(7) as usize;
        let lad = crate::c10::random_ladder(&mut rng, nrep);
        let seed_state = rng.clone();
        let t = 4 + rng.below(12) as usize;
        let sw = 1 + rng.below(4) as usize;
        let f = 1 + rng.below(4) as usize;
        let mut r1 = seed_state.clone();
        let mut serial = crate::c10::build(&lad, &mut r1);
        let rs = catch_unwind(AssertUnwindSafe(|| serial.timesteps_sample(t, sw, f)));
        let rs = match rs {
            Ok(x) => x,
            Err(_) => {
                oracle_failures.push(json!({"what": "serial tempering driver panicked", "ladder": li}));
                continue;
            }
        };
        let mut sj = jv(&serial);
        strip(&mut sj);
        let pools: Vec<usize> = if args.thorough { (1..=16).collect() } else { vec![1, 2, 3, 8, 16] };
        for nthreads in pools {
            for rep in 0..2 {
                let mut r2 = seed_state.clone();
                let mut par = crate::c10::build(&lad, &mut r2);
                let pool = rayon::ThreadPoolBuilder::new().num_threads(nthreads).build().unwrap();
                let rp = catch_unwind(AssertUnwindSafe(|| pool.install(|| par.parallel_timesteps_sample(t, sw, f))));
                *pools_used.entry(nthreads).or_insert(0usize) += 1;
                n_par += 1;
                match rp {
                    Err(_) => oracle_failures.push(json!({"what": "parallel tempering driver panicked", "ladder": li, "threads": nthreads})),
                    Ok(rp) => {
                        let mut pj = jv(&par);
                        strip(&mut pj);
                        if rp != rs || pj != sj {
                            oracle_failures.push(json!({"what": "the thread-parallel tempering driver returned something different from the serial driver (states, energies, final configurations or swap count)",
                                "ladder": li, "replicas": nrep, "threads": nthreads, "repetition": rep, "T": t, "swap": sw, "freq": f, "betas": lad.betas,
                                "gammas": lad.specs.iter().map(|s| s.gamma).collect::<Vec<_>>(),
                                "swaps": [serial.get_total_swaps(), par.get_total_swaps()]}));
                        }
                    }
                }
            }
        }
        distinct.insert(format!("lad{}", li));
        if li % 5 == 0 {
            samples.push(json!({"ladder": li, "replicas": nrep, "T": t, "swap": sw, "freq": f, "serial_swaps": serial.get_total_swaps()}));
        }
    }
    oracle_failures.truncate(40);
    let files = crate::write_shards(&args.out, "C13", "Steps", &coq, 100);
    json!({"files": files, "evaluations": n_twin + n_clone + n_par, "distinct_nontrivial": distinct.len(), "twin_steps": n_twin, "clones": n_clone,
        "parallel_runs": n_par, "rayon_pool_sizes": pools_used, "model_replays": coq.len(),
        "generic_twin_runs": n_twin_generic, "oracle_failures": oracle_failures, "samples": samples,
        "rule": "equal-seed twins stepped in lock-step (all options), clones taken at a random step and compared with a re-run of the original, serial vs rayon tempering drivers on ladders of 2..8 replicas (beta / Hamiltonian / mixed ladders) under pools of 1,2,3,8,16 (1..16 thorough) threads, each twice; every third twin step is also replayed by the model from the logged words"})
}
