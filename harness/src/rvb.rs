//! Histories that interleave RVB sweeps with the other public calls on Ising samplers (C03).  The RVB
//! region search and graph rewrite are not transcribed into the Coq model; after every call the
//! result is judged by model-independent oracles: periodic world-line consistency, legality of every
//! stored operator (in particular no zero-weight longitudinal operator inside a flipped region),
//! counter bookkeeping, and the structural contract of an RVB sweep (operator count, positions of
//! operators and the constant operators' positions are unchanged; only bonds of diagonal two-site
//! operators and spin values move).
use crate::coqfmt as cq;
use crate::ising::*;
use crate::model::*;
use crate::steps::legal_ising;
use crate::tape::{SplitMix64, TapeRng};
use crate::Args;
use qmc::sse::*;
use serde_json::json;
use std::panic::{catch_unwind, AssertUnwindSafe};

pub fn run(args: &Args) -> serde_json::Value {
    let mut rng = SplitMix64::new(args.seed ^ 0x9B7B);
    let n_hist = if args.thorough { 15000 } else { 1500 };
    let max_calls = if args.thorough { 40 } else { 25 };
    let mut oracle_failures: Vec<serde_json::Value> = vec![];
    let mut samples = vec![];
    let mut n_calls = 0usize;
    let mut n_rvb = 0usize;
    let mut n_rvb_changed = 0usize;
    let mut n_rvb_rotated = 0usize;
    let mut n_field = 0usize;
    let mut n_frustrated = 0usize;
    let mut hist_n = std::collections::BTreeMap::new();
    let mut distinct = std::collections::HashSet::new();
    // the first histories keep the RNG log: every RVB sweep / RVB-enabled timestep of theirs becomes a
    // correspondence case replayed by Model/Rvb.v on the raw words
    let n_replay = if args.thorough { 2500 } else { 260 };
    let mut coq: Vec<String> = vec![];
    let mut n_replay_sweeps = 0usize;
    let mut n_replay_steps = 0usize;
    let mut n_replay_words = 0usize;
    let mut n_replay_accepted = 0usize;
    let mut fail = |what: String, ctx: serde_json::Value, v: &mut Vec<serde_json::Value>| {
        {
            // the same concrete failure contradicts C03 and the structural property it belongs to
            let prop = if what.starts_with("world line") || what.starts_with("verify()") {
                "C03,C06"
            } else if what.starts_with("illegal stored") {
                "C03,C07"
            } else if what.starts_with("get_n()") || what.starts_with("get_bond_count") {
                "C03,C11"
            } else if what.starts_with("call panicked") {
                // a public update call that does not complete (the library's own integrity assertions
                // are active in this build) leaves no consistent configuration behind
                "C03,C06,C11"
            } else {
                "C03"
            };
            if v.iter().filter(|f| f["prop"].as_str() == Some(prop)).count() < 20 {
                v.push(json!({"prop": prop, "what": what, "context": ctx}));
            }
        }
    };
    for hi in 0..n_hist {
        let mut spec = random_ising(&mut rng, 5, true);
        if hi % 3 == 0 {
            // frustrated triangle with unequal magnitudes, plus whatever else was generated
            spec.nvars = spec.nvars.max(3);
            while spec.state.len() < spec.nvars {
                spec.state.push(rng.chance(1, 2));
            }
            spec.edges.push(((0, 1), 1.0));
            spec.edges.push(((1, 2), 0.5));
            spec.edges.push(((0, 2), 0.75));
            n_frustrated += 1;
        }
        if spec.h != 0.0 {
            n_field += 1;
        }
        let auto = rng.chance(1, 2);
        let ctx = json!({"history": hi, "edges": spec.edges, "gamma": spec.gamma, "h": spec.h, "cutoff0": spec.cutoff,
            "heatbath": spec.hb, "set_run_rvb": auto, "initial_state": spec.state});
        let mut g = spec.build(TapeRng::new(rng.next()));
        let replay = hi < n_replay;
        let mut seen = 0usize;
        if !replay {
            g.rng_logging_off();
        }
        if auto {
            g.set_run_rvb(true);
        }
        let ncalls = 2 + rng.below(max_calls) as usize;
        for ci in 0..ncalls {
            let beta = [0.5, 1.0, 2.0, 4.0][rng.below(4) as usize];
            let kind = rng.below(5);
            let k = 1 + rng.below(4) as usize;
            let (sl0, st0, c0) = snapshot_ising(&g);
            let mut succ = 0usize;
            let r = catch_unwind(AssertUnwindSafe(|| match kind {
                0 | 1 => {
                    g.timestep(beta);
                }
                2 => {
                    g.single_diagonal_step(beta);
                }
                _ => {
                    succ = g.single_rvb_sweep(Some(k)).0;
                }
            }));
            n_calls += 1;
            let c = json!({"ctx": ctx, "call_index": ci, "call": match kind { 0 | 1 => "timestep", 2 => "single_diagonal_step", _ => "single_rvb_sweep" },
                "updates": k, "beta": beta, "slots_before": sl0.iter().map(|o| o.as_ref().map(|o| json!([o.vars, o.bond, o.ins, o.outs]))).collect::<Vec<_>>(),
                "state_before": st0});
            if r.is_err() {
                fail("call panicked".into(), c, &mut oracle_failures);
                break;
            }
            let (sl1, st1, c1) = snapshot_ising(&g);
            if replay {
                let words = take_words(&g, &mut seen);
                if kind >= 3 {
                    n_replay_sweeps += 1;
                    n_replay_words += words.len();
                    n_replay_accepted += succ;
                    coq.push(format!("Rvb.Sweep {} {}%nat {} {} {} {} {} {}%nat", spec.coq(), k, cq::bools(&st0), slots_coq(&sl0),
                        cq::words(&words), cq::bools(&st1), slots_coq(&sl1), succ));
                } else if kind <= 1 && auto {
                    n_replay_steps += 1;
                    n_replay_words += words.len();
                    coq.push(format!("Rvb.Step {} {} {} {}%nat {} {} {} {} {} {}%nat", spec.coq(), cq::b(spec.hb), cq::q(beta), c0,
                        cq::bools(&st0), slots_coq(&sl0), cq::words(&words), cq::bools(&st1), slots_coq(&sl1), c1));
                }
            }
            let n1 = sl1.iter().flatten().count();
            *hist_n.entry(n1.min(40) / 5 * 5).or_insert(0usize) += 1;
            distinct.insert(format!("{:?}{:?}{}", sl0, st0, kind));
            if !naive_wf(&st1, &sl1) {
                fail("world line inconsistent after call".into(), c.clone(), &mut oracle_failures);
            }
            if let Some(w) = legal_ising(&spec, &sl1) {
                fail(format!("illegal stored operator: {}", w), c.clone(), &mut oracle_failures);
            }
            if g.get_n() != n1 {
                fail(format!("get_n() = {} but {} operators stored", g.get_n(), n1), c.clone(), &mut oracle_failures);
            }
            for b in 0..spec.nbonds() {
                let cnt = sl1.iter().flatten().filter(|o| o.bond == b).count();
                if g.get_bond_count(b) != cnt {
                    fail(format!("get_bond_count({}) = {} but {} stored", b, g.get_bond_count(b), cnt), c.clone(), &mut oracle_failures);
                    break;
                }
            }
            if !g.verify() {
                fail("verify() is false".into(), c.clone(), &mut oracle_failures);
            }
            if kind >= 3 {
                n_rvb += 1;
                // structural contract of an explicit RVB sweep
                if c1 != c0 || sl1.len() != sl0.len() {
                    fail(format!("RVB sweep changed the cutoff / container length {}->{}", sl0.len(), sl1.len()), c.clone(), &mut oracle_failures);
                } else {
                    let mut changed = false;
                    for p in 0..sl0.len() {
                        match (&sl0[p], &sl1[p]) {
                            (None, None) => {}
                            (Some(a), Some(b)) => {
                                if a.constant != b.constant || (a.constant && (a.bond != b.bond || a.vars != b.vars)) {
                                    fail(format!("RVB sweep moved or replaced the constant operator at slot {}", p), c.clone(), &mut oracle_failures);
                                }
                                let ne = spec.edges.len();
                                if (a.bond < ne) != (b.bond < ne) {
                                    fail(format!("RVB sweep turned a two-site operator into another kind at slot {}", p), c.clone(), &mut oracle_failures);
                                }
                                if a.bond != b.bond {
                                    n_rvb_rotated += 1;
                                }
                                if a.bond != b.bond || a.ins != b.ins || a.outs != b.outs {
                                    changed = true;
                                }
                            }
                            _ => fail(format!("RVB sweep inserted or removed an operator at slot {}", p), c.clone(), &mut oracle_failures),
                        }
                    }
                    if changed || st0 != st1 {
                        n_rvb_changed += 1;
                    }
                }
            }
            if (hi * 13 + ci) % 401 == 0 {
                samples.push(json!({"nvars": spec.nvars, "edges": spec.edges.len(), "h": spec.h, "call": kind, "n_after": n1, "cutoff": c1}));
            }
        }
    }
    // ---- reversibility probes at configuration level (model-independent): an explicit single-update RVB sweep is a
    // Metropolis move on operator strings; for two configurations X, Y of equal operator count its transition
    // frequencies must satisfy W(X) P(X->Y) = W(Y) P(Y->X) with W the product of matrix elements.  Frequencies are
    // measured over many scripted-seed trials from clones of X and of Y; a deviation beyond 6 sigma is re-measured
    // with 4x the trials from other seeds before it is reported.
    let n_probe_models = if args.thorough { 300 } else { 60 };
    let mut n_rev_pairs = 0usize;
    let mut n_rev_trials = 0usize;
    let weight = |spec: &IsingSpec, sl: &Slots| -> f64 { sl.iter().flatten().map(|o| spec.weight(o.bond, &o.ins, &o.outs)).product() };
    for mi in 0..n_probe_models {
        // two or three spins, several couplings of unequal magnitude between the same sites (also frustrated), h = 0
        let nv = 2 + (mi % 2);
        let mags = [0.5, 1.5, 1.0, 2.0, 0.75];
        let mut edges = vec![((0usize, 1usize), -mags[mi % 5]), ((0, 1), mags[(mi + 1) % 5])];
        if mi % 3 == 0 {
            edges.push(((0, 1), mags[(mi + 2) % 5]));
        }
        if nv == 3 {
            edges.push(((1, 2), mags[(mi + 3) % 5]));
            edges.push(((0, 2), -mags[(mi + 4) % 5]));
        }
        let spec = IsingSpec { nvars: nv, edges, gamma: 1.0, h: 0.0, cutoff: 6, state: (0..nv).map(|_| rng.chance(1, 2)).collect(), hb: false };
        let mut g = spec.build(TapeRng::new(rng.next()));
        g.rng_logging_off();
        let probe_beta = [0.5, 1.0, 2.0][(mi / 2) % 3];
        for _ in 0..(20 + rng.below(20)) {
            g.timestep(probe_beta);
        }
        let x = g.clone();
        let (slx, stx, _) = snapshot_ising(&x);
        if slx.iter().flatten().count() < 2 {
            continue;
        }
        let key = |g: &IG| { let (sl, st, _) = snapshot_ising(g); format!("{:?}|{:?}", sl, st) };
        let kx = key(&x);
        let trial = |from: &IG, seed: u64| -> IG {
            // the same configuration with another RNG attached (through the RNG-less snapshot form)
            let (sg, _old): (qmc::sse::serialization::SerializeQmcGraph<qmc::sse::fast_ops::FastOps>, TapeRng) = from.clone().into();
            let mut r = TapeRng::new(seed);
            r.logging = false;
            let mut c: IG = sg.into_qmc(r);
            c.single_rvb_sweep(Some(1));
            c
        };
        // all destinations Y != X reached at least 40 times, each with its return frequency
        let measure = |x: &IG, kx: &str, trials: usize, seed0: u64| -> Vec<(IG, f64, f64)> {
            let mut counts: std::collections::BTreeMap<String, (usize, IG)> = std::collections::BTreeMap::new();
            for t in 0..trials {
                let c = trial(x, seed0.wrapping_add(t as u64));
                let k = key(&c);
                if k != kx {
                    counts.entry(k).or_insert((0, c)).0 += 1;
                }
            }
            let mut dests: Vec<(usize, IG)> = counts.into_iter().map(|(_, v)| v).filter(|v| v.0 >= 40).collect();
            dests.sort_by_key(|v| std::cmp::Reverse(v.0));
            dests.truncate(6);
            dests.into_iter().map(|(a, y)| {
                let mut b = 0usize;
                for t in 0..trials {
                    if key(&trial(&y, seed0.wrapping_add(0x9E37_79B9).wrapping_add(t as u64))) == kx {
                        b += 1;
                    }
                }
                (y, a as f64 / trials as f64, b as f64 / trials as f64)
            }).collect()
        };
        let trials = 4000usize;
        let r = catch_unwind(AssertUnwindSafe(|| measure(&x, &kx, trials, rng.next())));
        if let Ok(pairs) = r {
            for (y, pxy, pyx) in pairs {
                n_rev_trials += 2 * trials;
                n_rev_pairs += 1;
                let (sly, _, _) = snapshot_ising(&y);
                let (wx, wy) = (weight(&spec, &slx), weight(&spec, &sly));
                let sigma = |p: f64, n: usize| (p.max(1.0 / n as f64) / n as f64).sqrt();
                let off = |pxy: f64, pyx: f64, n: usize| (wx * pxy - wy * pyx).abs() > 6.0 * (wx * sigma(pxy, n) + wy * sigma(pyx, n));
                if off(pxy, pyx, trials) {
                    // confirmation with 4x the trials and other seeds, towards the same Y
                    let big = 4 * trials;
                    let ky = key(&y);
                    let s1 = rng.next();
                    let a2 = (0..big).filter(|t| key(&trial(&x, s1.wrapping_add(*t as u64))) == ky).count() as f64 / big as f64;
                    let b2 = (0..big).filter(|t| key(&trial(&y, s1.wrapping_add(0x51_7C_C1_B7).wrapping_add(*t as u64))) == kx).count() as f64 / big as f64;
                    n_rev_trials += 2 * big;
                    if off(a2, b2, big) {
                        fail(format!("an RVB update is not reversible: W(X) P(X->Y) = {:.5} but W(Y) P(Y->X) = {:.5} (W(X) = {}, W(Y) = {}, P(X->Y) = {:.4}, P(Y->X) = {:.4} over {} single-update sweeps each)",
                                wx * a2, wy * b2, wx, wy, a2, b2, big),
                            json!({"edges": spec.edges, "gamma": spec.gamma, "h": 0.0, "state_X": stx,
                                "slots_X": slx.iter().map(|o| o.as_ref().map(|o| json!([o.vars, o.bond, o.ins, o.outs]))).collect::<Vec<_>>(),
                                "slots_Y": sly.iter().map(|o| o.as_ref().map(|o| json!([o.vars, o.bond, o.ins, o.outs]))).collect::<Vec<_>>()}),
                            &mut oracle_failures);
                    }
                }
            }
        }
    }
    // ---- known finding (C03, key rvb-zero-coupling): a graph on which some spin's only bonds have J = 0 makes the
    // weighted boundary of the RVB region search total 0; pop_index then evaluates 0/0 and gen_bool(NaN) panics.
    // The witness is replayed on every run; any OTHER failure of C03 is still reported (matching is by key).
    {
        let witness = std::panic::catch_unwind(std::panic::AssertUnwindSafe(|| {
            for seed in 0..5u64 {
                let spec = IsingSpec { edges: vec![((0, 1), 0.0), ((2, 3), 1.0)], gamma: 0.5, h: 0.0, nvars: 4, cutoff: 4, state: vec![false, true, false, true], hb: false };
                let mut g = spec.build(TapeRng::new(seed));
                g.set_run_rvb(true);
                for _ in 0..300 {
                    g.timestep(1.0);
                }
            }
        }));
        if witness.is_err() {
            oracle_failures.push(json!({"prop": "C03", "key": "rvb-zero-coupling",
                "what": "RVB-enabled time steps panic on a graph with a zero coupling: edges [((0,1), 0.0), ((2,3), 1.0)], Gamma 0.5, h 0, beta 1, within 300 steps for seeds 0..4 (0/0 boundary weight in the region search -> gen_bool(NaN))"}));
        }
    }
    let files = crate::write_shards(&args.out, "Rvb", "Rvb", &coq, if args.thorough { 400 } else { 60 });
    json!({"files": files, "replayed_rvb_sweeps": n_replay_sweeps, "replayed_rvb_timesteps": n_replay_steps,
        "replayed_raw_words": n_replay_words, "replayed_sweep_updates_accepted": n_replay_accepted, "evaluations": n_calls, "distinct_nontrivial": distinct.len(), "histories": n_hist, "rvb_sweeps": n_rvb,
        "rvb_sweeps_that_changed_the_configuration": n_rvb_changed, "operators_rotated_to_another_bond": n_rvb_rotated,
        "reversibility_probe_pairs": n_rev_pairs, "reversibility_probe_sweeps": n_rev_trials, "histories_with_field": n_field, "histories_with_frustrated_triangle": n_frustrated, "n_after_histogram(bucket of 5)": hist_n,
        "oracle_failures": oracle_failures, "samples": samples,
        "rule": "random Ising samplers (2-5 spins, multi-edges, J of both signs and unequal magnitude, every third with a frustrated triangle, h = 0 / +-, heat bath on/off, automatic RVB on/off); histories interleaving timestep / single_diagonal_step / single_rvb_sweep(1..4); after each call: naive periodic world-line check, legality of every stored operator, get_n / get_bond_count against a scan, verify(), and for explicit sweeps the structural contract (same slots occupied, constant operators untouched, only two-site bonds rotate)"})
}
