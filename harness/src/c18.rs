//! C18: pool borrow/return traces of every public call (hook `qmc::util::allocator::verif_trace`,
//! only compiled with --cfg qmc_verif) and pool occupancy from the serde snapshot.
use crate::coqfmt as cq;
use crate::ising::*;
use crate::model::*;
use crate::tape::{SplitMix64, TapeRng};
use crate::Args;
use qmc::sse::fast_ops::FastOps;
use qmc::sse::*;
use qmc::util::allocator::verif_trace;
use serde_json::{json, Value};
use std::panic::{catch_unwind, AssertUnwindSafe};

const POOLS: [&str; 9] = ["usize_alloc", "bool_alloc", "opside_alloc", "leg_alloc", "option_usize_alloc", "f64_alloc",
    "bond_container_alloc", "bond_container_varpos_alloc", "binary_heap_alloc"];

fn pool_index(type_name: &str) -> usize {
    // type names as produced by std::any::type_name
    let t = type_name.replace(' ', "");
    if t.contains("BinaryHeap") {
        8
    } else if t.contains("BondContainer<usize>") {
        6
    } else if t.contains("BondContainer<") {
        7
    } else if t.contains("Vec<core::option::Option<usize>>") || t.contains("Vec<Option<usize>>") {
        4
    } else if t.contains("OpSide)>") {
        3
    } else if t.contains("Vec<qmc::sse::qmc_types::OpSide>") || t.ends_with("OpSide>") {
        2
    } else if t.contains("Vec<bool>") {
        1
    } else if t.contains("Vec<f64>") {
        5
    } else if t.contains("Vec<usize>") {
        0
    } else {
        99
    }
}

fn occupancy(m: &FastOps) -> Vec<usize> {
    let v = serde_json::to_value(m).unwrap();
    POOLS.iter().map(|p| v["alloc"][p]["instances"].as_u64().unwrap() as usize).collect()
}

fn trace_coq(tr: &[(&'static str, bool)]) -> (String, bool) {
    let unknown = tr.iter().any(|(n, _)| pool_index(n) == 99);
    let s = cq::list(tr, |(n, g)| {
        let i = pool_index(n);
        format!("{} {}%nat", if *g { "Pool.Get" } else { "Pool.Ret" }, i)
    });
    (s, unknown)
}

pub fn run(args: &Args) -> Value {
    let mut rng = SplitMix64::new(args.seed ^ 0xC18);
    let n_hist = if args.thorough { 1200 } else { 110 };
    let mut coq = vec![];
    let mut samples = vec![];
    let mut oracle_failures: Vec<Value> = vec![];
    let mut distinct = std::collections::HashSet::new();
    let mut kinds = std::collections::BTreeMap::new();
    let mut peaks = vec![0usize; 9];
    let mut push_case = |kind: usize, name: &str, tr: Vec<(&'static str, bool)>, occ: Vec<usize>, panicked: bool,
                         coq: &mut Vec<String>, oracle_failures: &mut Vec<Value>, distinct: &mut std::collections::HashSet<String>,
                         peaks: &mut Vec<usize>, ctx: Value| {
        *kinds.entry(name.to_string()).or_insert(0usize) += 1;
        let (tcoq, unknown) = trace_coq(&tr);
        // oracle from the property text: everything borrowed is returned, occupancy unchanged, no exhaustion
        let mut cur = vec![0i64; 9];
        for (n, g) in &tr {
            let i = pool_index(n);
            if i < 9 {
                cur[i] += if *g { 1 } else { -1 };
                peaks[i] = peaks[i].max(cur[i].max(0) as usize);
            }
        }
        let caps = [10usize, 2, 1, 1, 4, 1, 2, 2, 1];
        if panicked {
            oracle_failures.push(json!({"what": format!("{} panicked (pool exhaustion or other)", name), "context": ctx}));
        } else if cur.iter().any(|x| *x != 0) {
            oracle_failures.push(json!({"what": format!("{} did not return every buffer it borrowed: net per pool {:?}", name, cur), "context": ctx}));
        } else if occ != caps {
            oracle_failures.push(json!({"what": format!("pool occupancy after {} is {:?}, initial {:?}", name, occ, caps), "context": ctx}));
        }
        if unknown {
            oracle_failures.push(json!({"what": "unknown pooled type in trace", "context": ctx}));
        }
        distinct.insert(format!("{}{}", name, tcoq));
        coq.push(format!("C18.Call {}%nat {} {} {}", kind, tcoq, cq::nats(&occ), cq::b(panicked)));
    };
    for hi in 0..n_hist {
        // ---- Ising sampler with every option combination
        let mut spec = random_ising(&mut rng, 5, true);
        spec.hb = hi % 2 == 0;
        let rvb = hi % 3 != 0;
        let mut g = spec.build(TapeRng::new(rng.next()));
        g.set_run_rvb(rvb);
        let ctx = json!({"sampler": "ising", "edges": spec.edges, "h": spec.h, "gamma": spec.gamma, "heatbath": spec.hb, "rvb": rvb, "cutoff0": spec.cutoff});
        let ncalls = 2 + rng.below(10) as usize;
        for _ in 0..ncalls {
            let beta = [0.25, 1.0, 2.0, 4.0][rng.below(4) as usize];
            let which = rng.below(5);
            verif_trace::take();
            let name = ["timestep", "single_diagonal_step", "single_cluster_step", "single_rvb_sweep", "single_rvb_sweep(3)"][which as usize];
            let r = catch_unwind(AssertUnwindSafe(|| match which {
                0 => {
                    g.timestep(beta);
                }
                1 => g.single_diagonal_step(beta),
                2 => {
                    g.single_cluster_step();
                }
                3 => {
                    g.single_rvb_sweep(None);
                }
                _ => {
                    g.single_rvb_sweep(Some(3));
                }
            }));
            let tr = verif_trace::take();
            let occ = if r.is_err() { vec![] } else { occupancy(g.get_manager_ref()) };
            push_case(which as usize, name, tr, occ, r.is_err(), &mut coq, &mut oracle_failures, &mut distinct, &mut peaks, ctx.clone());
            if r.is_err() {
                break;
            }
        }
        // ---- generic sampler (loops / clusters / isolated variables)
        let mut qs = random_qmc(&mut rng);
        qs.nvars += (hi % 2) as usize; // an extra variable no interaction acts on
        qs.state.resize(qs.nvars, false);
        if let Some(mut q) = qs.build(TapeRng::new(rng.next())) {
            let ctx = json!({"sampler": "qmc", "bonds": qs.bonds.iter().map(|b| json!([b.kind, b.mat, b.vars])).collect::<Vec<_>>(), "loops": qs.loops, "nvars": qs.nvars});
            for _ in 0..(1 + rng.below(8)) {
                let beta = [0.5, 1.0, 4.0][rng.below(3) as usize];
                verif_trace::take();
                let r = catch_unwind(AssertUnwindSafe(|| {
                    q.timestep(beta);
                }));
                let tr = verif_trace::take();
                let occ = if r.is_err() { vec![] } else { occupancy(q.get_manager_ref()) };
                push_case(5, "qmc.timestep", tr, occ, r.is_err(), &mut coq, &mut oracle_failures, &mut distinct, &mut peaks, ctx.clone());
                if r.is_err() {
                    break;
                }
            }
        }
        // ---- direct container calls: windowed sweeps, sub-variable cursors, hinted cursors, rebuilds
        let nvars = 1 + rng.below(4) as usize;
        let nbt = 1 + rng.below(4) as usize;
        let h = random_table(&mut rng, nvars, nbt, 2);
        let len = 2 + rng.below(12) as usize;
        let (st0, sl0) = random_string(&mut rng, &h, nvars, len, 1, 2);
        let mut m = build_fastops(nvars, &sl0, None);
        verif_trace::take();
        let ctx = json!({"sampler": "container", "nvars": nvars, "slots": sl0.iter().map(|o| o.as_ref().map(|o| json!([o.vars, o.bond]))).collect::<Vec<_>>()});
        for k in 0..6 {
            let a = rng.below(len as u64) as usize;
            let b = a + rng.below((len - a) as u64) as usize;
            verif_trace::take();
            let name = ["mutate_ops(window)", "mutate_subsection(window)", "mutate_subsection_ops(varlist)", "fill_args_with_hint", "iterate/try_iterate", "mutate_ps(empty decisions)"][k];
            let r = catch_unwind(AssertUnwindSafe(|| match k {
                0 => {
                    m.mutate_ops(a, b, (), |_, _, _, _| (None, ()));
                }
                1 => {
                    m.mutate_subsection(a, b.max(a), (), |_, _, _| (None, ()), None);
                }
                2 => {
                    let vs: Vec<usize> = (0..nvars).filter(|v| v % 2 == 0).collect();
                    let args = m.get_empty_args(SubvarAccess::Varlist(&vs));
                    let args = m.fill_args_at_p(a, args);
                    m.mutate_subsection_ops(a, len, (), |_, _, _, _| (None, ()), Some(args));
                }
                3 => {
                    let vs: Vec<usize> = (0..nvars).collect();
                    let mut args = m.get_empty_args(SubvarAccess::Varlist(&vs));
                    let hints: Vec<Option<usize>> = vs.iter().map(|_| None).collect();
                    m.fill_args_at_p_with_hint(a, &mut args, &vs, hints.into_iter());
                    let mut sub = vec![false; vs.len()];
                    let hints2: Vec<Option<usize>> = vs.iter().map(|_| None).collect();
                    m.get_propagated_substate_with_hint(a, &mut sub, &st0, &vs, hints2.into_iter());
                    m.return_args(args);
                }
                4 => {
                    let c = m.iterate_ops(0, len, 0usize, |_, _, _, c| c + 1);
                    let _ = m.try_iterate_ps(0, len, c, |_, _, c| -> Result<usize, ()> { Ok(c) });
                    let _ = m.get_count(0);
                }
                _ => {
                    m.mutate_ps(0, len, (), |_, _, _| (None, ()));
                }
            }));
            let tr = verif_trace::take();
            let occ = occupancy(&m);
            push_case(6 + k, name, tr, occ, r.is_err(), &mut coq, &mut oracle_failures, &mut distinct, &mut peaks, ctx.clone());
            if r.is_err() {
                break;
            }
        }
        if hi % 23 == 0 {
            samples.push(json!({"history": hi, "ising_options": {"heatbath": spec.hb, "rvb": rvb, "h": spec.h}, "peaks_so_far": peaks}));
        }
    }
    oracle_failures.truncate(40);
    let files = crate::write_shards(&args.out, "C18", "C18", &coq, if args.thorough { 1500 } else { 300 });
    json!({"files": files, "evaluations": coq.len(), "distinct_nontrivial": distinct.len(), "calls_by_kind": kinds,
        "peak_simultaneous_borrows_per_pool": peaks, "pool_order": POOLS,
        "oracle_failures": oracle_failures, "samples": samples,
        "rule": "every public update of the Ising sampler (timestep, single_* steps, RVB sweeps; heat bath / RVB / field on and off, cutoff from 1, empty strings), generic time steps (loops, clusters, variables no interaction acts on) and direct container calls (windowed mutate_ops / mutate_subsection, sub-variable cursors, hinted cursors, iteration) is traced through the allocator hook; distinct = distinct (call, trace)"})
}
