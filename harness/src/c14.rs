//! C14: snapshot / restore at every step index, direct and RNG-less forms, samplers and tempering
//! containers; C13 shares the twin / clone machinery (see c13.rs).
use crate::coqfmt as cq;
use crate::ising::*;
use crate::model::*;
use crate::tape::{SplitMix64, TapeRng};
use crate::Args;
use qmc::sse::fast_ops::FastOps;
use qmc::sse::serialization::*;
use qmc::sse::*;
use serde_json::{json, Value};
use std::panic::{catch_unwind, AssertUnwindSafe};

pub fn jv<T: serde::Serialize>(x: &T) -> Value {
    serde_json::to_value(x).unwrap()
}

/// compare two samplers through everything serde exposes except the RNG log (which only the harness uses)
pub fn same_sampler(a: &IG, b: &IG) -> bool {
    let mut x = jv(a);
    let mut y = jv(b);
    x["rng"]["log"] = json!(null);
    y["rng"]["log"] = json!(null);
    x == y
}

fn steps_case(spec: &IsingSpec, beta: f64, g: &mut IG, seen: &mut usize) -> Option<String> {
    let rec = do_call(g, Call::Timestep, beta);
    let (sl0, st0, c0) = rec.before.clone();
    let words = take_words(g, seen);
    rec.after.as_ref().map(|(sl1, st1, c1)| {
        format!("Steps.Ising {} {} {} 0%nat {}%nat {} {} {} {} {} {}%nat false", spec.coq(), cq::b(spec.hb), cq::q(beta), c0, cq::bools(&st0), slots_coq(&sl0),
            cq::words(&words), slots_coq(sl1), cq::bools(st1), c1)
    })
}

pub fn run(args: &Args) -> Value {
    let mut rng = SplitMix64::new(args.seed ^ 0xC14);
    let n_runs = if args.thorough { 700 } else { 60 };
    let mut coq = vec![];
    let mut samples = vec![];
    let mut oracle_failures: Vec<Value> = vec![];
    let mut distinct = std::collections::HashSet::new();
    let mut n_points = 0usize;
    let mut n_growth_points = 0usize;
    let mut n_temper_points = 0usize;
    for ri in 0..n_runs {
        let mut spec = random_ising(&mut rng, 5, true);
        spec.hb = ri % 2 == 1;
        let rvb = ri % 3 == 2;
        spec.cutoff = [1, 2, 3, 6][rng.below(4) as usize];
        let beta = [0.5, 1.0, 2.0, 4.0][rng.below(4) as usize];
        let mut g = spec.build(TapeRng::new(rng.next()));
        g.set_run_rvb(rvb);
        // option histories: RVB used by hand only (the lookup tables exist, the automatic option is off), or used
        // for a warm-up and then switched off again — the snapshot must carry the OPTION, not what can be derived
        // from the tables that happen to exist
        let rvb_history = if !rvb { rng.below(3) } else { 0 };
        if rvb_history == 1 {
            g.timestep(beta);
            g.single_rvb_sweep(Some(2));
        } else if rvb_history == 2 {
            g.set_run_rvb(true);
            g.timestep(beta);
            g.timestep(beta);
            g.set_run_rvb(false);
        }
        let rvb_history_name = ["none", "manual single_rvb_sweep only", "automatic RVB for two steps, then switched off"][rvb_history as usize];
        let ctx = json!({"edges": spec.edges, "gamma": spec.gamma, "h": spec.h, "heatbath": spec.hb, "rvb": rvb, "cutoff0": spec.cutoff, "beta": beta,
            "rvb_history": rvb_history_name});
        let nsteps = 3 + rng.below(8) as usize;
        let m = 3usize;
        for k in 0..=nsteps {
            // ---- snapshot point k (k = 0: before any step)
            n_points += 1;
            let mgr_len = g.get_manager_ref().get_cutoff();
            if mgr_len < g.get_cutoff() {
                n_growth_points += 1; // the cutoff grew during the last step; the container has not been resized yet
            }
            let r = catch_unwind(AssertUnwindSafe(|| {
                let mut fails: Vec<String> = vec![];
                // direct form (with the RNG), twice
                let s1 = serde_json::to_string(&g).unwrap();
                let mut d: IG = serde_json::from_str(&s1).unwrap();
                let s2 = serde_json::to_string(&d).unwrap();
                let d2: IG = serde_json::from_str(&s2).unwrap();
                if !same_sampler(&g, &d) || !same_sampler(&g, &d2) {
                    fails.push("direct round trip changed the observable state".into());
                }
                if !d.verify() {
                    fails.push("restored sampler fails verify()".into());
                }
                // RNG-less form with the same RNG re-attached
                let (sg, r0): (SerializeQmcGraph<FastOps>, TapeRng) = g.clone().into();
                let sj = serde_json::to_string(&sg).unwrap();
                let sg2: SerializeQmcGraph<FastOps> = serde_json::from_str(&sj).unwrap();
                let mut e: IG = sg2.into_qmc(r0);
                if !same_sampler(&g, &e) {
                    fails.push("RNG-less round trip changed the observable state (state / cutoff / options / counters / pool sizes)".into());
                }
                if !e.verify() {
                    fails.push("sampler restored from the RNG-less form fails verify()".into());
                }
                // continuation: the next m steps of all copies are identical to the uninterrupted run
                let mut u = g.clone();
                for j in 0..m {
                    u.timestep(beta);
                    d.timestep(beta);
                    e.timestep(beta);
                    if !same_sampler(&u, &d) {
                        fails.push(format!("restored sampler (direct form) leaves the uninterrupted trajectory {} steps after the snapshot", j + 1));
                        break;
                    }
                    if !same_sampler(&u, &e) {
                        fails.push(format!("restored sampler (RNG-less form) leaves the uninterrupted trajectory {} steps after the snapshot", j + 1));
                        break;
                    }
                }
                fails
            }));
            match r {
                Err(_) => oracle_failures.push(json!({"what": "snapshot / restore / continue panicked", "snapshot_at_step": k, "context": ctx})),
                Ok(fails) => {
                    for f in fails {
                        oracle_failures.push(json!({"what": f, "snapshot_at_step": k, "cutoff": g.get_cutoff(), "container_slots": mgr_len, "context": ctx}));
                    }
                }
            }
            // model replay of one step of a restored copy (no RVB in the model)
            if !rvb && k % 2 == 0 {
                let (sg, r0): (SerializeQmcGraph<FastOps>, TapeRng) = g.clone().into();
                let sj = serde_json::to_string(&sg).unwrap();
                let sg2: SerializeQmcGraph<FastOps> = serde_json::from_str(&sj).unwrap();
                let mut e: IG = sg2.into_qmc(r0);
                let mut seen = jv(&e)["rng"]["log"].as_array().map(|a| a.len()).unwrap_or(0);
                if let Some(c) = steps_case(&spec, beta, &mut e, &mut seen) {
                    coq.push(c);
                }
            }
            distinct.insert(format!("{}-{}", ri, k));
            if k < nsteps {
                g.timestep(beta);
            }
        }
        if ri % 13 == 0 {
            samples.push(json!({"run": ri, "snapshot_points": nsteps + 1, "options": {"heatbath": spec.hb, "rvb": rvb, "h": spec.h}, "initial_cutoff": spec.cutoff, "final_cutoff": g.get_cutoff()}));
        }
    }
    // ---- tempering containers: snapshot right after a swap phase and in between
    let n_lad = if args.thorough { 150 } else { 14 };
    let mut n_late_replicas = 0usize;
    for li in 0..n_lad {
        let nrep = 2 + rng.below(4) as usize;
        let lad = crate::c10::random_ladder(&mut rng, nrep);
        let mut tc = crate::c10::build(&lad, &mut rng);
        for round in 0..4 {
            // every other ladder grows by one replica AFTER tempering steps have run (the container's
            // cached pair information already exists then and must stay consistent with what a
            // restored container recomputes)
            if round == 1 && li % 2 == 1 {
                let mut late = lad.specs[rng.below(lad.specs.len() as u64) as usize].clone();
                late.state = (0..late.nvars).map(|_| rng.chance(1, 2)).collect();
                let b = [0.25, 0.5, 1.0, 2.0][rng.below(4) as usize];
                if tc.add_qmc_stepper(late.build(TapeRng::new(rng.next())), b).is_ok() {
                    n_late_replicas += 1;
                }
            }
            tc.timesteps(1 + rng.below(3) as usize);
            if round % 2 == 0 {
                tc.tempering_step();
            }
            n_temper_points += 1;
            let r = catch_unwind(AssertUnwindSafe(|| {
                let mut fails: Vec<String> = vec![];
                let s = serde_json::to_string(&tc).unwrap();
                let mut d: crate::c10::TC = serde_json::from_str(&s).unwrap();
                let strip = |v: &mut Value| {
                    v["rng"]["log"] = json!(null);
                    if let Some(gs) = v["graphs"].as_array_mut() {
                        for g in gs.iter_mut() {
                            g[0]["rng"]["log"] = json!(null);
                        }
                    }
                };
                let mut a = jv(&tc);
                let mut b = jv(&d);
                strip(&mut a);
                strip(&mut b);
                if a != b {
                    fails.push("tempering container changed by a direct round trip".into());
                }
                if !d.verify() {
                    fails.push("restored tempering container fails verify()".into());
                }
                // RNG-less form with the same RNGs re-attached
                let (sc, r1, rs): (SerializeTemperingContainer<FastOps>, TapeRng, Vec<TapeRng>) = tc.clone().into();
                let sj = serde_json::to_string(&sc).unwrap();
                let sc2: SerializeTemperingContainer<FastOps> = serde_json::from_str(&sj).unwrap();
                let mut e: crate::c10::TC = sc2.into_tempering_container_from_vec(r1, rs);
                let mut u = tc.clone();
                for j in 0..3 {
                    u.timesteps(1);
                    d.timesteps(1);
                    e.timesteps(1);
                    u.tempering_step();
                    d.tempering_step();
                    e.tempering_step();
                    let mut x = jv(&u);
                    let mut y = jv(&d);
                    let mut z = jv(&e);
                    strip(&mut x);
                    strip(&mut y);
                    strip(&mut z);
                    // the RNG-less form does not carry the cached Hamiltonian-equality flags; they are recomputed
                    for v in [&mut x, &mut y, &mut z] {
                        v["graph_ham_eq_a"] = json!(null);
                        v["graph_ham_eq_b"] = json!(null);
                    }
                    if x != y {
                        fails.push(format!("restored tempering container (direct) diverges {} rounds after the snapshot", j + 1));
                        break;
                    }
                    if x != z {
                        fails.push(format!("restored tempering container (RNG-less) diverges {} rounds after the snapshot", j + 1));
                        break;
                    }
                }
                fails
            }));
            match r {
                Err(_) => oracle_failures.push(json!({"what": "tempering snapshot / restore / continue panicked", "ladder": li})),
                Ok(fails) => {
                    for f in fails {
                        oracle_failures.push(json!({"what": f, "ladder": li, "round": round, "betas": lad.betas}));
                    }
                }
            }
            distinct.insert(format!("t{}-{}", li, round));
        }
    }
    oracle_failures.truncate(40);
    let files = crate::write_shards(&args.out, "C14", "Steps", &coq, 100);
    json!({"files": files, "evaluations": n_points + n_temper_points, "distinct_nontrivial": distinct.len(), "sampler_snapshot_points": n_points,
        "snapshot_points_mid_growth": n_growth_points, "tempering_snapshot_points": n_temper_points, "ladders_grown_after_tempering_steps": n_late_replicas, "model_replays_of_restored_samplers": coq.len(),
        "oracle_failures": oracle_failures, "samples": samples,
        "rule": "every step index of random runs (before any step, mid-growth of the cutoff, heat bath / RVB / field on and off, initial cutoffs 1..6) is a snapshot point: direct JSON round trip (twice), RNG-less form with the same RNG re-attached, verify(), JSON equality of everything serde exposes (incl. pool sizes and counters), and 3 further steps of all copies against the uninterrupted run; tempering containers right after swap phases and in between, half of them grown by a replica after tempering steps have run; one step of a restored copy is also replayed by the model"})
}
