//! C16: interaction constructors — validation, lookup, classification, sampleability.
use crate::coqfmt as cq;
use crate::tape::{SplitMix64, TapeRng};
use crate::Args;
use qmc::sse::*;
use serde_json::json;
use std::panic::{catch_unwind, AssertUnwindSafe};

type Q = Qmc<TapeRng, fast_ops::FastOps>;

#[derive(Clone, Debug)]
pub struct Case {
    pub kind: usize, // 0 full, 1 full+offset, 2 diag, 3 diag+offset
    pub mat: Vec<f64>,
    pub vars: Vec<usize>,
}

#[derive(Clone, Debug)]
pub struct Obs {
    pub panicked_ctor: bool,
    pub ok: bool,
    pub is_const: bool,
    pub is_cdiag: bool,
    pub sym: bool,
    pub at: Vec<Option<f64>>,
    pub offset: f64,
    pub sample_panicked: bool,
    pub sampled: bool,
    pub sample_hung: bool,
}

/// set once a sampling run did not come back: no further watchdog runs are started (each hung
/// thread keeps a core busy until the process exits)
static HUNG_ONCE: std::sync::atomic::AtomicBool = std::sync::atomic::AtomicBool::new(false);

/// The accepted interaction next to constant single-site terms on every variable, so that cluster
/// updates run whenever the interaction is spin-flip symmetric; under a watchdog, because "can be
/// sampled" also means that the updates come back.  Returns (panicked, hung).
fn sample_in_company(c: &Case, seed: u64) -> (bool, bool) {
    if HUNG_ONCE.load(std::sync::atomic::Ordering::SeqCst) {
        return (false, false);
    }
    let c = c.clone();
    let (tx, rx) = std::sync::mpsc::channel();
    std::thread::spawn(move || {
        let r = catch_unwind(AssertUnwindSafe(|| {
            let mut q = Q::new_with_state(NVARS, TapeRng::new(seed ^ 0xC0), vec![false; NVARS], false);
            for v in 0..NVARS {
                q.make_interaction(vec![0.5; 4], vec![v]).unwrap();
            }
            let r = match c.kind {
                0 => q.make_interaction(c.mat.clone(), c.vars.clone()),
                1 => q.make_interaction_and_offset(c.mat.clone(), c.vars.clone()),
                2 => q.make_diagonal_interaction(c.mat.clone(), c.vars.clone()),
                _ => q.make_diagonal_interaction_and_offset(c.mat.clone(), c.vars.clone()),
            };
            if r.is_ok() {
                for step in 0..16 {
                    q.set_do_loop_updates(step % 4 == 3);
                    q.set_do_heatbath(step % 3 == 2);
                    q.timestep(0.75);
                }
            }
        }));
        let _ = tx.send(r.is_err());
    });
    match rx.recv_timeout(std::time::Duration::from_secs(20)) {
        Ok(panicked) => (panicked, false),
        Err(_) => {
            HUNG_ONCE.store(true, std::sync::atomic::Ordering::SeqCst);
            (false, true)
        }
    }
}

pub const NVARS: usize = 5;

fn bits(idx: usize, n: usize) -> Vec<bool> {
    (0..n).map(|k| (idx >> (n - 1 - k)) & 1 == 1).collect()
}

pub fn observe(c: &Case, seed: u64) -> Obs {
    let mut o = Obs {
        panicked_ctor: false,
        ok: false,
        is_const: false,
        is_cdiag: false,
        sym: false,
        at: vec![],
        offset: 0.0,
        sample_panicked: false,
        sampled: false,
        sample_hung: false,
    };
    let state = vec![false; NVARS];
    let mut q = Q::new_with_state(NVARS, TapeRng::new(seed), state, false);
    let r = catch_unwind(AssertUnwindSafe(|| match c.kind {
        0 => q.make_interaction(c.mat.clone(), c.vars.clone()),
        1 => q.make_interaction_and_offset(c.mat.clone(), c.vars.clone()),
        2 => q.make_diagonal_interaction(c.mat.clone(), c.vars.clone()),
        _ => q.make_diagonal_interaction_and_offset(c.mat.clone(), c.vars.clone()),
    }));
    match r {
        Err(_) => {
            o.panicked_ctor = true;
            return o;
        }
        Ok(Err(_)) => return o,
        Ok(Ok(())) => {}
    }
    o.ok = true;
    o.offset = q.get_offset();
    let n = c.vars.len();
    {
        let it = &q.get_bonds()[0];
        o.is_const = it.is_constant();
        o.is_cdiag = it.is_constant_diag();
        let s = catch_unwind(AssertUnwindSafe(|| it.sym_under_ising()));
        match s {
            Ok(v) => o.sym = v,
            Err(_) => {
                o.panicked_ctor = true;
                return o;
            }
        }
        if n <= 3 {
            for outs in 0..(1usize << n) {
                for ins in 0..(1usize << n) {
                    let r = catch_unwind(AssertUnwindSafe(|| it.at(&bits(ins, n), &bits(outs, n))));
                    match r {
                        Ok(Ok(v)) => o.at.push(Some(v)),
                        Ok(Err(_)) => o.at.push(None),
                        Err(_) => {
                            o.panicked_ctor = true;
                            return o;
                        }
                    }
                }
            }
        }
    }
    // sampleability: diagonal updates, loop updates, cluster updates when the sampler allows
    o.sampled = true;
    let r = catch_unwind(AssertUnwindSafe(|| {
        for step in 0..24 {
            q.set_do_loop_updates(step % 2 == 1);
            q.set_do_heatbath(step % 3 == 2);
            q.timestep(0.75);
        }
    }));
    o.sample_panicked = r.is_err();
    if !o.sample_panicked {
        let (p, h) = sample_in_company(c, seed);
        o.sample_panicked = p;
        o.sample_hung = h;
    }
    o
}

/// Implementation-side oracle written from the property text (independent of the Coq model).
pub fn oracle(c: &Case, o: &Obs) -> Option<String> {
    if o.panicked_ctor {
        return Some("constructor or accessor panicked".into());
    }
    let full = c.kind < 2;
    let n = c.vars.len();
    let want_len = if full { 1usize.checked_shl(2 * n as u32) } else { 1usize.checked_shl(n as u32) };
    let size_ok = want_len == Some(c.mat.len());
    // the offset variants subtract the minimum (diagonal) entry first
    let mut mat = c.mat.clone();
    let mut min = 0.0;
    if size_ok && c.kind % 2 == 1 {
        let tn = 1usize << n;
        let diag: Vec<usize> = if full { (0..tn).map(|r| r * tn + r).collect() } else { (0..mat.len()).collect() };
        min = diag.iter().map(|i| mat[*i]).fold(f64::INFINITY, f64::min);
        for i in diag {
            mat[i] -= min;
        }
    }
    let neg = mat.iter().any(|x| *x < 0.0);
    let expect_ok = size_ok && !neg;
    if !size_ok && o.ok {
        return Some(format!("accepted a matrix of length {} for {} variables", c.mat.len(), n));
    }
    if size_ok && neg && o.ok {
        return Some("accepted a matrix with a negative weight".into());
    }
    if expect_ok != o.ok {
        return Some(format!("constructor returned ok={} but the input is valid={}", o.ok, expect_ok));
    }
    if !o.ok {
        return None;
    }
    if o.sample_panicked {
        return Some("sampling an accepted interaction panicked".into());
    }
    if o.sample_hung {
        return Some("sampling an accepted interaction (next to constant single-site terms, cluster updates on) did not terminate within 20 s".into());
    }
    if (o.offset + min).abs() > 1e-12 {
        return Some(format!("recorded offset {} but minimum was {}", o.offset, min));
    }
    let len = mat.len();
    let all_eq = mat.iter().all(|x| *x == mat[0]);
    let sym = (0..len).all(|i| mat[i] == mat[len - 1 - i]);
    let tn = 1usize << n;
    let cdiag = if full { (0..tn).all(|r| mat[r * tn + r] == mat[0]) } else { all_eq };
    if o.is_const != (full && all_eq) {
        return Some(format!("is_constant={} but all-equal={} (full={})", o.is_const, all_eq, full));
    }
    if o.is_cdiag != cdiag {
        return Some(format!("is_constant_diag={} but diagonal constant={}", o.is_cdiag, cdiag));
    }
    if o.sym != sym {
        return Some(format!("sym_under_ising={} but matrix symmetric under global flip={}", o.sym, sym));
    }
    if n <= 3 {
        let mut k = 0;
        for outs in 0..tn {
            for ins in 0..tn {
                let want = if full { mat[outs * tn + ins] } else if ins == outs { mat[ins] } else { 0.0 };
                if o.at[k] != Some(want) {
                    return Some(format!("at(ins={},outs={}) = {:?}, documented entry is {}", ins, outs, o.at[k], want));
                }
                k += 1;
            }
        }
    }
    None
}

pub fn to_coq(c: &Case, o: &Obs) -> String {
    format!(
        "C16.mk {}%nat {} {} {} {} {} {} {} {} {} {}",
        c.kind,
        cq::qs(&c.mat),
        cq::nats(&c.vars),
        cq::b(o.panicked_ctor),
        cq::b(o.ok),
        cq::b(o.is_const),
        cq::b(o.is_cdiag),
        cq::b(o.sym),
        cq::list(&o.at, |x| cq::opt(x, |v| cq::q(*v))),
        cq::q(o.offset),
        cq::b(o.sample_panicked)
    )
}

fn pick_vars(rng: &mut SplitMix64, k: usize) -> Vec<usize> {
    let mut all: Vec<usize> = (0..NVARS).collect();
    for i in 0..k.min(NVARS) {
        let j = i + rng.below((NVARS - i) as u64) as usize;
        all.swap(i, j);
    }
    all.truncate(k.min(NVARS));
    all
}

fn dyadic(rng: &mut SplitMix64, allow_neg: bool) -> f64 {
    let v = rng.below(33) as f64 / 8.0;
    if allow_neg && rng.chance(1, 6) {
        -v - 0.125
    } else {
        v
    }
}

pub fn gen_cases(args: &Args) -> Vec<Case> {
    let mut rng = SplitMix64::new(args.seed ^ 0xC16);
    let mut cases = vec![];
    // (1) exhaustive size grid: lengths 0..=70 x var-list lengths 0..=4 x 4 constructors
    for len in 0..=70usize {
        for nv in 0..=4usize {
            for kind in 0..4 {
                let mat: Vec<f64> = (0..len).map(|i| 1.0 + ((i * 7 + nv) % 5) as f64 * 0.25).collect();
                cases.push(Case { kind, mat, vars: pick_vars(&mut rng, nv) });
            }
        }
    }
    // (2) all 0/1 matrices: full on 1 var (16), diagonal on 1..3 vars (4+16+256)
    for m in 0..16u32 {
        let mat: Vec<f64> = (0..4).map(|i| ((m >> i) & 1) as f64).collect();
        for kind in 0..2 {
            cases.push(Case { kind, mat: mat.clone(), vars: pick_vars(&mut rng, 1) });
        }
    }
    for nv in 1..=3usize {
        let len = 1usize << nv;
        for m in 0..(1u32 << len) {
            let mat: Vec<f64> = (0..len).map(|i| ((m >> i) & 1) as f64).collect();
            cases.push(Case { kind: 2 + (m as usize % 2), mat, vars: pick_vars(&mut rng, nv) });
        }
    }
    // (3) sampled 0/1 matrices: full on 2 vars, diagonal on 4 vars
    let n01 = if args.thorough { 6000 } else { 400 };
    for i in 0..n01 {
        let (nv, len, kind) = if i % 2 == 0 { (2, 16, i / 2 % 2) } else { (4, 16, 2 + i / 2 % 2) };
        let mut mat: Vec<f64> = (0..len).map(|_| rng.below(2) as f64).collect();
        // bias towards (near-)symmetric matrices so that the classification is exercised on both sides
        if rng.chance(2, 3) {
            for k in 0..len / 2 {
                mat[len - 1 - k] = mat[k];
            }
            if rng.chance(1, 2) {
                let k = rng.below(len as u64) as usize;
                mat[k] = 1.0 - mat[k];
            }
        }
        cases.push(Case { kind, mat, vars: pick_vars(&mut rng, nv) });
    }
    // (4) real-valued dyadic matrices, all constructors, incl. negatives / constant / constant diagonal / symmetric
    let nreal = if args.thorough { 12000 } else { 700 };
    for i in 0..nreal {
        let kind = i % 4;
        let nv = 1 + rng.below(if kind < 2 { 3 } else { 4 }) as usize;
        let len = if kind < 2 { 1usize << (2 * nv) } else { 1usize << nv };
        let flavour = rng.below(6);
        let allow_neg = rng.chance(1, 4);
        let mut mat: Vec<f64> = (0..len).map(|_| dyadic(&mut rng, allow_neg)).collect();
        match flavour {
            0 => {
                let c = dyadic(&mut rng, false);
                mat.iter_mut().for_each(|x| *x = c);
                if rng.chance(1, 3) {
                    let k = rng.below(len as u64) as usize;
                    mat[k] += 0.5;
                }
            }
            1 if kind < 2 => {
                let c = dyadic(&mut rng, false);
                let tn = 1usize << nv;
                for r in 0..tn {
                    mat[r * tn + r] = c;
                }
                if rng.chance(1, 3) {
                    let r = rng.below(tn as u64) as usize;
                    mat[r * tn + r] += 0.25;
                }
            }
            2 | 3 => {
                for k in 0..len / 2 {
                    mat[len - 1 - k] = mat[k];
                }
                if flavour == 3 {
                    // break the symmetry at one position (any position, incl. the middle ones)
                    let k = rng.below(len as u64) as usize;
                    mat[k] += 0.125;
                }
            }
            _ => {}
        }
        // occasionally a wrong number of variables
        let nvl = if rng.chance(1, 10) { (nv + 1 + rng.below(2) as usize) % 5 } else { nv };
        cases.push(Case { kind, mat, vars: pick_vars(&mut rng, nvl) });
    }
    cases
}

/// Variable lists that name a spin the sampler does not have, or the same spin twice (right-sized, non-negative
/// matrices): the constructor must return (Err or Ok) without panicking, and whatever it accepts must be
/// sampleable.  Not part of the Coq correspondence (the interaction model has no notion of the sampler's size).
fn malformed_variable_lists(seed: u64) -> (usize, Vec<serde_json::Value>) {
    let mut fails = vec![];
    let mut n = 0usize;
    let lists: Vec<Vec<usize>> = vec![vec![NVARS], vec![NVARS + 2], vec![0, NVARS], vec![NVARS, 1], vec![0, 0], vec![2, 2], vec![1, 3, 1], vec![0, 1, NVARS + 1],
        vec![4, 4, 4], vec![0, 1, 2, 0]];
    for (li, vars) in lists.iter().enumerate() {
        for kind in 0..4usize {
            let k = vars.len();
            let len = if kind < 2 { 1usize << (2 * k) } else { 1usize << k };
            let mat: Vec<f64> = (0..len).map(|i| 0.25 * (1 + (i * 7 + li) % 5) as f64).collect();
            let c = Case { kind, mat, vars: vars.clone() };
            n += 1;
            let o = observe(&c, seed.wrapping_add((li * 4 + kind) as u64));
            if o.panicked_ctor {
                fails.push(json!({"what": "constructor panicked on a variable list naming a missing or repeated spin", "kind": kind, "vars": vars, "nvars": NVARS}));
                continue;
            }
            if o.ok {
                let (panicked, hung) = sample_in_company(&c, seed.wrapping_add(77 + li as u64));
                if panicked || hung {
                    fails.push(json!({"what": format!("interaction on variables {:?} of a {}-spin sampler was accepted but sampling it {}", vars, NVARS, if hung {"does not return"} else {"panics"}),
                        "kind": kind, "vars": vars, "mat": c.mat}));
                }
            }
        }
    }
    (n, fails)
}

pub fn run(args: &Args) -> serde_json::Value {
    let cases = gen_cases(args);
    let mut coq = vec![];
    let mut n_ok = 0;
    let mut n_err = 0;
    let mut n_sym = 0;
    let mut n_panic = 0;
    let mut n_sample_panic = 0;
    let mut distinct = std::collections::HashSet::new();
    let mut samples = vec![];
    let mut oracle_failures = vec![];
    for (i, c) in cases.iter().enumerate() {
        let o = observe(c, args.seed.wrapping_add(i as u64));
        if let Some(what) = oracle(c, &o) {
            if oracle_failures.len() < 50 {
                oracle_failures.push(json!({"index": i, "what": what, "kind": c.kind, "mat": c.mat, "vars": c.vars}));
            }
        }
        if o.ok {
            n_ok += 1
        } else {
            n_err += 1
        }
        if o.sym {
            n_sym += 1
        }
        if o.panicked_ctor {
            n_panic += 1
        }
        if o.sample_panicked {
            n_sample_panic += 1
        }
        let key = format!("{}|{:?}|{:?}", c.kind, c.mat, c.vars.len());
        if !c.mat.is_empty() {
            distinct.insert(key);
        }
        if i % 997 == 0 {
            samples.push(json!({"kind": c.kind, "mat": c.mat, "vars": c.vars, "accepted": o.ok,
                "sym": o.sym, "const": o.is_const, "const_diag": o.is_cdiag, "offset": o.offset}));
        }
        coq.push(to_coq(c, &o));
    }
    let (n_bad_lists, bad_fails) = malformed_variable_lists(args.seed);
    for f in bad_fails {
        if oracle_failures.len() < 60 {
            oracle_failures.push(f);
        }
    }
    let files = crate::write_shards(&args.out, "C16", "C16", &coq, 400);
    json!({"files": files, "evaluations": cases.len(), "distinct_nontrivial": distinct.len(), "malformed_variable_list_probes": n_bad_lists,
        "accepted": n_ok, "rejected": n_err, "reported_symmetric": n_sym,
        "oracle_failures": oracle_failures, "impl_ctor_panics": n_panic, "impl_sampling_panics": n_sample_panic, "samples": samples,
        "rule": "size grid 0..70 x 0..4 vars x 4 ctors (exhaustive), all 0/1 full 1-var and diagonal 1..3-var matrices (exhaustive), sampled 0/1 2-var full / 4-var diagonal, random dyadic matrices incl. negative / constant / constant-diagonal / (nearly) symmetric; distinct = distinct (ctor, matrix, nvars) with non-empty matrix"})
}
