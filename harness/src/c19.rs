//! C19: classical Ising sampler — time steps replayed on the raw tape, per-move acceptance
//! thresholds vs the Boltzmann factor of the sampler's own reported energy (oracle), worm move probe.
use crate::coqfmt as cq;
use crate::tape::{SplitMix64, TapeRng, Word};
use crate::Args;
use qmc::classical::graph::GraphState;
use serde_json::json;
use std::panic::{catch_unwind, AssertUnwindSafe};

type G = GraphState<TapeRng>;

#[derive(Clone, Debug)]
pub struct CSpec {
    pub edges: Vec<((usize, usize), f64)>,
    pub biases: Vec<f64>,
    pub state: Vec<bool>,
    pub importance: bool,
}

impl CSpec {
    pub fn coq(&self) -> String {
        format!("(mkCGraph {} {})",
            cq::list(&self.edges, |((a, b), j)| format!("({}%nat, {}%nat, {})", a, b, cq::q(*j))),
            cq::qs(&self.biases))
    }
    pub fn build(&self, rng: TapeRng, state: &[bool]) -> G {
        let mut g = G::new_with_state_and_rng(state.to_vec(), &self.edges, &self.biases, rng);
        if self.importance {
            g.enable_edge_importance_sampling(true);
        }
        g
    }
    /// direct sum over edges and biases (property text)
    pub fn energy(&self, s: &[bool]) -> f64 {
        let sp = |i: usize| if s[i] { 1.0 } else { -1.0 };
        self.edges.iter().map(|((a, b), j)| j * sp(*a) * sp(*b)).sum::<f64>() - self.biases.iter().enumerate().map(|(i, b)| b * sp(i)).sum::<f64>()
    }
}

fn random_cspec(rng: &mut SplitMix64, with_bias: bool) -> CSpec {
    let n = 2 + rng.below(4) as usize;
    let ne = 1 + rng.below((n + 2) as u64) as usize;
    let js = [0.25, 0.5, 1.0, 1.5, 2.0];
    let mut edges = vec![];
    for _ in 0..ne {
        let a = rng.below(n as u64) as usize;
        let mut b = rng.below(n as u64) as usize;
        if a == b {
            b = (a + 1) % n;
        }
        edges.push(((a, b), js[rng.below(5) as usize] * if rng.chance(1, 2) { -1.0 } else { 1.0 }));
    }
    let biases = (0..n).map(|_| if with_bias && rng.chance(2, 3) { [0.25, 0.5, 1.0][rng.below(3) as usize] * if rng.chance(1, 2) { -1.0 } else { 1.0 } } else { 0.0 }).collect();
    let state = (0..n).map(|_| rng.chance(1, 2)).collect();
    CSpec { edges, biases, state, importance: rng.chance(1, 3) }
}

fn bisect<F: Fn(u64) -> bool>(accept: F) -> u128 {
    if !accept(0) {
        return 0;
    }
    if accept(u64::MAX) {
        return 1u128 << 64;
    }
    let (mut lo, mut hi) = (0u64, u64::MAX);
    while hi - lo > 1 {
        let mid = lo + (hi - lo) / 2;
        if accept(mid) {
            lo = mid
        } else {
            hi = mid
        }
    }
    hi as u128
}

fn unif_word(b: usize, nb: usize) -> u64 {
    ((((b as u128) << 64) + (1u128 << 62)) / nb as u128) as u64
}

fn w64(w: &Word) -> u64 {
    match w {
        Word::W64(v) => *v,
        Word::W32(v) => (*v as u64) << 32,
    }
}

pub fn run(args: &Args) -> serde_json::Value {
    let mut rng = SplitMix64::new(args.seed ^ 0xC19);
    let n_cases = if args.thorough { 4000 } else { 350 };
    let mut coq = vec![];
    let mut samples = vec![];
    let mut oracle_failures: Vec<serde_json::Value> = vec![];
    let mut distinct = std::collections::HashSet::new();
    let mut n_probes = 0;
    let mut n_worm = 0;
    let mut n_worm_steps = 0;
    let mut n_importance = 0;
    let two64 = 18446744073709551616.0f64;
    // ---- the witness of the Coq theorem C19_worm_refuted, replayed on the implementation: from [up, up] on one
    // edge J = 1 with biases (1/2, 1/2) a worm time step ends in [down, down] whatever the last word is, although the
    // reported energy rises by 2 (known finding "worm")
    {
        let w = CSpec { edges: vec![((0, 1), 1.0)], biases: vec![0.5, 0.5], state: vec![true, true], importance: false };
        let mut ends = vec![];
        for start in [0u64, u64::MAX] {
            for last in [0u64, u64::MAX] {
                let mut g = w.build(TapeRng::scripted(vec![u64::MAX, start, 0, last], 7), &w.state);
                let r = catch_unwind(AssertUnwindSafe(|| g.do_time_step(1.0, Some(1), Some(1), Some(1), Some(false))));
                if let Ok(Ok(())) = r {
                    ends.push((g.clone_state(), g.get_energy()));
                }
            }
        }
        let e0 = w.energy(&w.state);
        if ends.len() == 4 && ends.iter().all(|(s, e)| s == &vec![false, false] && *e > e0 + 1.0) {
            oracle_failures.push(json!({"key": "worm", "what": "witness of C19_worm_refuted reproduced on the implementation: the worm move takes [up, up] to [down, down] for every acceptance word although the reported energy rises from 0 to 2 (dE = +2)",
                "context": {"edges": w.edges, "biases": w.biases, "state": w.state, "beta": 1.0, "end_states": ends.iter().map(|(s, e)| json!([s, e])).collect::<Vec<_>>()}}));
        }
    }
    for ci in 0..n_cases {
        let spec = random_cspec(&mut rng, ci % 4 != 0);
        if spec.importance {
            n_importance += 1
        }
        let beta = [0.25, 0.5, 1.0][rng.below(3) as usize];
        let ctx = json!({"edges": spec.edges, "biases": spec.biases, "state": spec.state, "beta": beta, "importance": spec.importance});
        // ---- (a) a basic-move time step replayed on the tape
        let nspin = 1 + rng.below(3) as usize;
        let nedge = 1 + rng.below(3) as usize;
        let (trng, hlog) = TapeRng::new(rng.next()).shared();
        let mut g = spec.build(trng, &spec.state);
        let e0 = g.get_energy();
        if (e0 - spec.energy(&spec.state)).abs() > 1e-9 {
            oracle_failures.push(json!({"what": format!("reported energy {} differs from the direct sum {}", e0, spec.energy(&spec.state)), "context": ctx}));
        }
        let r = catch_unwind(AssertUnwindSafe(|| g.do_time_step(beta, Some(nspin), Some(nedge), None, Some(true))));
        match r {
            Ok(Ok(())) => {
                let s1 = g.clone_state();
                let e1 = g.get_energy();
                if s1.len() != spec.state.len() {
                    oracle_failures.push(json!({"what": "number of spins changed", "context": ctx}));
                }
                if (e1 - spec.energy(&s1)).abs() > 1e-9 {
                    oracle_failures.push(json!({"what": format!("reported energy {} differs from the direct sum {}", e1, spec.energy(&s1)), "context": ctx}));
                }
                let words = hlog.lock().unwrap().clone();
                coq.push(format!("C19.Step {} {} {} {}%nat {}%nat {} {} {} {} false", spec.coq(), cq::b(spec.importance), cq::q(beta), nspin, nedge,
                    cq::bools(&spec.state), cq::words(&words), cq::bools(&s1), cq::q(e1)));
                distinct.insert(format!("{:?}{:?}{:?}", spec.edges, spec.state, words.len()));
            }
            _ => {
                oracle_failures.push(json!({"what": "do_time_step panicked or failed", "context": ctx}));
                coq.push(format!("C19.Step {} {} {} {}%nat {}%nat {} [] [] (Qmake 0 1) true", spec.coq(), cq::b(spec.importance), cq::q(beta), nspin, nedge, cq::bools(&spec.state)));
            }
        }
        // ---- (a') a time step with all three move sets offered (worm included), replayed on the tape
        {
            let nworm = 1 + rng.below(3) as usize;
            let (trng, hlog) = TapeRng::new(rng.next()).shared();
            let mut g = spec.build(trng, &spec.state);
            let r = catch_unwind(AssertUnwindSafe(|| g.do_time_step(beta, Some(nspin), Some(nedge), Some(nworm), Some(false))));
            if let Ok(Ok(())) = r {
                let s1 = g.clone_state();
                let e1 = g.get_energy();
                let words = hlog.lock().unwrap().clone();
                if let Some(Word::W32(w0)) = words.first() {
                    // u8 range over 3: the high-multiply of the first word selects the move set
                    if ((*w0 as u64 * 3) >> 32) == 2 {
                        n_worm_steps += 1;
                    }
                }
                coq.push(format!("C19.StepFull {} {} {} {}%nat {}%nat {}%nat {} {} {} {}", spec.coq(), cq::b(spec.importance), cq::q(beta), nspin, nedge, nworm,
                    cq::bools(&spec.state), cq::words(&words), cq::bools(&s1), cq::q(e1)));
            } else {
                oracle_failures.push(json!({"what": "do_time_step (all move sets) panicked or failed", "context": ctx}));
            }
        }
        // ---- (b) per-move acceptance thresholds vs the Boltzmann factor of the reported energy (oracle)
        let n = spec.state.len();
        let run_move = |script: Vec<u64>, kind: u8| -> Option<Vec<bool>> {
            // kind 0: one spin move, 1: one edge move; the first word selects the move type (u8 range over 2)
            let mut s = vec![if kind == 0 { 0u64 } else { 1u64 << 63 }];
            s.extend(script);
            let mut g = spec.build(TapeRng::scripted(s, 3), &spec.state);
            let r = catch_unwind(AssertUnwindSafe(|| g.do_time_step(beta, Some(1), Some(1), None, Some(true))));
            match r {
                Ok(Ok(())) => Some(g.clone_state()),
                _ => None,
            }
        };
        if ci % 2 == 0 {
            for i in 0..n {
                let mut s2 = spec.state.clone();
                s2[i] = !s2[i];
                let de = spec.build(TapeRng::new(1), &s2).get_energy() - e0;
                let t = bisect(|v| run_move(vec![unif_word(i, n), v], 0).map(|s| s == s2).unwrap_or(false));
                let got = t as f64 / two64;
                let want = (-beta * de).exp().min(1.0);
                n_probes += 1;
                if (got - want).abs() > 1e-9 {
                    oracle_failures.push(json!({"what": format!("spin move on {}: acceptance {} but min(1, exp(-beta dE)) = {} for dE = {} (reported energies)", i, got, want, de), "context": ctx}));
                }
                coq.push(format!("C19.ProbeSpin {} {} {} {}%nat {}%N", spec.coq(), cq::q(beta), cq::bools(&spec.state), i, t));
            }
            let total: f64 = spec.edges.iter().map(|e| e.1.abs()).sum();
            for (k, ((a, b), _)) in spec.edges.iter().enumerate() {
                let mut s2 = spec.state.clone();
                s2[*a] = !s2[*a];
                s2[*b] = !s2[*b];
                let de = spec.build(TapeRng::new(1), &s2).get_energy() - e0;
                let sel = if spec.importance {
                    let x = spec.edges[..k].iter().map(|e| e.1.abs()).sum::<f64>() + 0.25 * spec.edges[k].1.abs();
                    ((x / total) * two64) as u64
                } else {
                    unif_word(k, spec.edges.len())
                };
                let t = bisect(|v| run_move(vec![sel, v], 1).map(|s| s == s2).unwrap_or(false));
                let got = t as f64 / two64;
                let want = (-beta * de).exp().min(1.0);
                n_probes += 1;
                if (got - want).abs() > 1e-9 {
                    oracle_failures.push(json!({"what": format!("edge move on edge {}: acceptance {} but min(1, exp(-beta dE)) = {} for dE = {}", k, got, want, de), "context": ctx}));
                }
                coq.push(format!("C19.ProbeEdge {} {} {} {} {}%nat {}%N", spec.coq(), cq::b(spec.importance), cq::q(beta), cq::bools(&spec.state), k, t));
            }
        }
        // ---- (c) worm move: acceptance vs Boltzmann factor (oracle only; the worm is not modelled)
        if ci % 5 == 0 {
            n_worm += 1;
            let (trng, wlog) = TapeRng::scripted(vec![u64::MAX], rng.next()).shared();
            let mut g = spec.build(trng, &spec.state);
            // first word: u8 range over 3 -> choice 2 (worm)
            let r = catch_unwind(AssertUnwindSafe(|| g.do_time_step(beta, Some(1), Some(1), Some(1), Some(false))));
            if let Ok(Ok(())) = r {
                let words: Vec<u64> = wlog.lock().unwrap().iter().map(w64).collect();
                if words.len() >= 2 {
                    // outcome with the last word forced to 0 (accept if a draw was made) / MAX (reject)
                    let replay = |last: u64| -> Option<Vec<bool>> {
                        let mut w = words.clone();
                        let k = w.len() - 1;
                        w[k] = last;
                        let mut g = spec.build(TapeRng::scripted(w, 1), &spec.state);
                        let r = catch_unwind(AssertUnwindSafe(|| g.do_time_step(beta, Some(1), Some(1), Some(1), Some(false))));
                        match r {
                            Ok(Ok(())) => Some(g.clone_state()),
                            _ => None,
                        }
                    };
                    let acc_state = replay(0);
                    let rej_state = replay(u64::MAX);
                    if let (Some(sa), Some(sr)) = (acc_state, rej_state) {
                        if sa != sr && sr == spec.state {
                            // the last word is the acceptance draw of a proposed move state -> sa
                            let de = spec.energy(&sa) - spec.energy(&spec.state);
                            let t = bisect(|v| replay(v).map(|s| s == sa).unwrap_or(false));
                            let got = t as f64 / two64;
                            let want = (-beta * de).exp().min(1.0);
                            if (got - want).abs() > 1e-6 {
                                oracle_failures.push(json!({"key": "worm", "what": format!("worm move accepted with probability {} but min(1, exp(-beta dE)) = {} (dE = {})", got, want, de), "context": ctx}));
                            }
                        } else if sa == sr && sa != spec.state {
                            // accepted without a draw: must be downhill
                            let de = spec.energy(&sa) - spec.energy(&spec.state);
                            if de > 1e-9 {
                                oracle_failures.push(json!({"key": "worm", "what": format!("worm move accepted with probability 1 although dE = {} > 0", de), "context": ctx}));
                            }
                        }
                    }
                }
                if g.clone_state().len() != n {
                    oracle_failures.push(json!({"what": "worm move changed the number of spins", "context": ctx}));
                }
                let s1 = g.clone_state();
                if (g.get_energy() - spec.energy(&s1)).abs() > 1e-9 {
                    oracle_failures.push(json!({"what": "reported energy differs from direct sum after worm move", "context": ctx}));
                }
            } else {
                oracle_failures.push(json!({"what": "worm time step panicked", "context": ctx}));
            }
        }
        if ci % 41 == 0 {
            samples.push(json!({"spins": n, "edges": spec.edges, "biases": spec.biases, "beta": beta, "importance": spec.importance}));
        }
    }
    // keep one representative per known-finding key, all others
    let mut seen_worm = 0;
    oracle_failures.retain(|f| {
        if f.get("key").is_some() {
            seen_worm += 1;
            seen_worm <= 3
        } else {
            true
        }
    });
    oracle_failures.truncate(60);
    let files = crate::write_shards(&args.out, "C19", "C19", &coq, if args.thorough { 500 } else { 120 });
    json!({"files": files, "evaluations": coq.len(), "distinct_nontrivial": distinct.len() + n_probes, "time_steps": n_cases,
        "threshold_probes": n_probes, "worm_probes": n_worm, "replayed_time_steps_that_chose_the_worm": n_worm_steps, "with_importance_sampling": n_importance,
        "oracle_failures": oracle_failures, "samples": samples,
        "rule": "random graphs (2-5 spins, multi-edges, J of both signs and unequal magnitude, site biases, importance sampling on/off), beta in {1/4, 1/2, 1}; basic-move time steps replayed on the raw tape; for every spin and every edge the acceptance threshold is bisected and compared with the Boltzmann factor of the sampler's own reported energy; time steps with all three move sets (worm included) replayed on the raw tape; worm acceptance additionally probed by the oracle"})
}
