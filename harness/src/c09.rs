//! C09: cluster update on synthetic random operator strings (besides the equilibrium strings of `steps`).
use crate::coqfmt as cq;
use crate::ising::*;
use crate::model::*;
use crate::tape::{SplitMix64, TapeRng};
use crate::Args;
use qmc::sse::*;
use serde_json::json;
use std::panic::{catch_unwind, AssertUnwindSafe};

/// Ising-symmetric table: constant single-site bonds (cluster edges) and symmetric diagonal tables.
fn symmetric_table(rng: &mut SplitMix64, nvars: usize) -> TableHam {
    let mut vars = vec![];
    let mut consts = vec![];
    let mut diag = vec![];
    let d = |rng: &mut SplitMix64| (1 + rng.below(8)) as f64 * 0.25;
    for v in 0..nvars {
        if rng.chance(3, 4) {
            let c = d(rng);
            vars.push(vec![v]);
            consts.push(true);
            diag.push(vec![c, c]);
        }
    }
    let nb = 1 + rng.below(4) as usize;
    for _ in 0..nb {
        let k = 1 + rng.below(nvars.min(3) as u64) as usize;
        let vs = pick_distinct(rng, nvars, k);
        let len = 1usize << k;
        let mut m: Vec<f64> = (0..len).map(|_| d(rng)).collect();
        for i in 0..len / 2 {
            m[len - 1 - i] = m[i];
        }
        vars.push(vs);
        consts.push(false);
        diag.push(m);
    }
    TableHam { vars, consts, diag, offw: 0.5 }
}

pub fn run(args: &Args) -> serde_json::Value {
    let mut rng = SplitMix64::new(args.seed ^ 0xC09);
    let n_cases = if args.thorough { 8000 } else { 700 };
    let mut coq = vec![];
    let mut samples = vec![];
    let mut oracle_failures: Vec<serde_json::Value> = vec![];
    let mut distinct = std::collections::HashSet::new();
    let mut hist_clusters = std::collections::BTreeMap::new();
    let mut n_no_const = 0;
    let mut n_free_spins = 0;
    for ci in 0..n_cases {
        let nvars = 1 + rng.below(5) as usize;
        let h = symmetric_table(&mut rng, nvars);
        let len = 1 + rng.below(if args.thorough { 24 } else { 14 }) as usize;
        let (fa, fb) = [(1, 3), (1, 2), (3, 4), (9, 10)][rng.below(4) as usize];
        // off-diagonal ops only on constant single-site bonds (spin flips), as in a real TFIM string
        let (st0, mut sl0) = random_string(&mut rng, &h, nvars, len, fa, fb);
        let mut ok = true;
        for o in sl0.iter().flatten() {
            if !o.is_diag() && !(o.constant && o.vars.len() == 1) {
                ok = false;
            }
        }
        if !ok {
            // keep the string but make offending ops diagonal on the propagated state is not possible in general: drop them
            let mut cur = st0.clone();
            for p in 0..sl0.len() {
                if let Some(o) = sl0[p].clone() {
                    if !o.is_diag() && !(o.constant && o.vars.len() == 1) {
                        sl0[p] = None;
                    } else {
                        for (k, v) in o.vars.iter().enumerate() {
                            let _ = k;
                            let _ = v;
                        }
                    }
                }
                let _ = &mut cur;
            }
            if !naive_wf(&st0, &sl0) {
                continue;
            }
        }
        if sl0.iter().flatten().all(|o| !(o.constant && o.vars.len() == 1)) {
            n_no_const += 1
        }
        if (0..nvars).any(|v| sl0.iter().flatten().all(|o| !o.vars.contains(&v))) {
            n_free_spins += 1
        }
        let r = catch_unwind(AssertUnwindSafe(|| {
            let mut m = build_fastops(nvars, &sl0, None);
            let mut st = st0.clone();
            let mut trng = TapeRng::new(rng.next());
            let n = m.flip_each_cluster_ising_symmetry_rng(0.5, &mut trng, &mut st);
            // decomposing the result again must find the same number of clusters
            let mut st2 = st.clone();
            let mut t2 = TapeRng::scripted(vec![u64::MAX; 64], 1);
            let n2 = m.clone().flip_each_cluster_ising_symmetry_rng(0.5, &mut t2, &mut st2);
            (read_slots(&m), st, n, n2, trng.log)
        }));
        let ctx = json!({"nvars": nvars, "table": {"vars": h.vars, "consts": h.consts, "diag": h.diag}, "state": st0,
            "string": sl0.iter().map(|o| o.as_ref().map(|o| json!([o.vars, o.bond, o.ins, o.outs]))).collect::<Vec<_>>()});
        match r {
            Err(_) => {
                oracle_failures.push(json!({"what": "cluster update panicked", "context": ctx}));
                coq.push(format!("C09.Case {} {} [] [] [] 0%nat true", cq::bools(&st0), slots_coq(&sl0)));
            }
            Ok((sl1, st1, n, n2, words)) => {
                *hist_clusters.entry(n.min(12)).or_insert(0usize) += 1;
                // oracle (property text): skeleton, weight product, world line, re-decomposition
                let sk = |s: &Slots| s.iter().map(|o| o.as_ref().map(|o| (o.vars.clone(), o.bond, o.constant))).collect::<Vec<_>>();
                if sk(&sl0) != sk(&sl1) {
                    oracle_failures.push(json!({"what": "cluster update changed number / positions / bonds / variables of operators", "context": ctx}));
                }
                let w = |s: &Slots| s.iter().flatten().map(|o| if h.consts[o.bond] { h.diag[o.bond][0] } else { h.weight(o.bond, &o.ins, &o.outs) }).product::<f64>();
                if (w(&sl0) - w(&sl1)).abs() > 1e-9 * w(&sl0).abs() {
                    oracle_failures.push(json!({"what": format!("product of matrix elements changed {} -> {}", w(&sl0), w(&sl1)), "context": ctx}));
                }
                if !naive_wf(&st1, &sl1) {
                    oracle_failures.push(json!({"what": "world line inconsistent after cluster update", "context": ctx}));
                }
                if n != n2 {
                    oracle_failures.push(json!({"what": format!("re-decomposition found {} clusters instead of {}", n2, n), "context": ctx}));
                }
                distinct.insert(format!("{:?}{:?}", sl0, st0));
                coq.push(format!("C09.Case {} {} {} {} {} {}%nat false", cq::bools(&st0), slots_coq(&sl0), cq::words(&words), slots_coq(&sl1), cq::bools(&st1), n));
                if ci % 83 == 0 {
                    samples.push(json!({"nvars": nvars, "slots": sl0.len(), "ops": sl0.iter().flatten().count(), "clusters": n, "words": words.len()}));
                }
            }
        }
    }
    // ---- clusters containing a longitudinal-field operator must NEVER flip: whatever words the RNG hands out.
    // Equilibrated Ising samplers with h != 0, then single_cluster_step driven by the extreme tapes
    // (all words 0: every uniform draw is exactly 0.0; all words MAX): field operators must be bit-identical,
    // every stored operator legal, the product of matrix elements unchanged.
    let n_ext = if args.thorough { 400 } else { 60 };
    let mut n_ext_field_ops = 0usize;
    for _ in 0..n_ext {
        let mut spec = random_ising(&mut rng, 4, true);
        if spec.h == 0.0 {
            spec.h = if rng.chance(1, 2) { 0.5 } else { -0.75 };
        }
        let mut g = spec.build(TapeRng::new(rng.next()));
        g.rng_logging_off();
        for _ in 0..(3 + rng.below(12)) {
            g.timestep([0.5, 1.0, 2.0][rng.below(3) as usize]);
        }
        for word in [0u64, u64::MAX] {
            let mut v = serde_json::to_value(&g).unwrap();
            v["rng"]["script"] = serde_json::json!(vec![word; 4096]);
            v["rng"]["pos"] = serde_json::json!(0);
            let mut g2: IG = serde_json::from_value(v).unwrap();
            let (sl0, st0, _) = snapshot_ising(&g2);
            let r = catch_unwind(AssertUnwindSafe(|| g2.single_cluster_step()));
            let ctx = json!({"edges": spec.edges, "gamma": spec.gamma, "h": spec.h, "every_rng_word": word, "state": st0,
                "string": sl0.iter().map(|o| o.as_ref().map(|o| json!([o.vars, o.bond, o.ins, o.outs]))).collect::<Vec<_>>()});
            if r.is_err() {
                oracle_failures.push(json!({"what": "single_cluster_step panicked on an extreme tape", "context": ctx}));
                continue;
            }
            let (sl1, st1, _) = snapshot_ising(&g2);
            let nfield0 = spec.edges.len() + spec.nvars;
            for (p, (a, b)) in sl0.iter().zip(sl1.iter()).enumerate() {
                if let (Some(a), Some(b)) = (a, b) {
                    if a.bond >= nfield0 {
                        n_ext_field_ops += 1;
                        if a != b {
                            oracle_failures.push(json!({"what": format!("a cluster containing the longitudinal-field operator at slot {} was flipped ({:?} -> {:?})", p, a.ins, b.ins), "context": ctx}));
                        }
                    }
                }
            }
            let w = |s: &Slots| s.iter().flatten().map(|o| spec.weight(o.bond, &o.ins, &o.outs)).product::<f64>();
            if (w(&sl0) - w(&sl1)).abs() > 1e-9 * w(&sl0).abs() {
                oracle_failures.push(json!({"what": format!("product of matrix elements changed {} -> {} in a cluster update", w(&sl0), w(&sl1)), "context": ctx}));
            }
            if !naive_wf(&st1, &sl1) {
                oracle_failures.push(json!({"what": "world line inconsistent after cluster update on an extreme tape", "context": ctx}));
            }
        }
    }
    oracle_failures.truncate(40);
    let files = crate::write_shards(&args.out, "C09", "C09", &coq, if args.thorough { 600 } else { 100 });
    json!({"files": files, "evaluations": coq.len(), "distinct_nontrivial": distinct.len(), "cluster_count_histogram": hist_clusters,
        "extreme_tape_cluster_steps": 2 * n_ext, "field_operators_watched_on_extreme_tapes": n_ext_field_ops, "strings_without_constant_op": n_no_const, "strings_with_operator_free_spins": n_free_spins,
        "oracle_failures": oracle_failures, "samples": samples,
        "rule": "synthetic random valid operator strings (1-5 spins, up to 14 (24) slots, 0/1/many constant single-site ops per world line, op-free spins, ops of arity 1-3, several bonds on the same variables) over Ising-symmetric tables; flip_each_cluster_ising_symmetry_rng replayed on the raw tape; equilibrium strings are covered by the `steps` correspondence; equilibrated samplers with a field are additionally driven through single_cluster_step with all-zero and all-ones RNG words (field operators must never change)"})
}
