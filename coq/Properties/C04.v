(* C04 — generic sampler: the directed-loop vertex move is in detailed balance with the operator
   weights; diagonal updates as in C01/C02; cluster updates only when legal. *)
From Coq Require Import List QArith ZArith NArith Bool Arith.
From QmcV Require Import Model.Prog Model.Sse Model.Nav Model.Ham Model.Diagonal Model.Cluster Model.Loop
     Proofs.ProgLemmas Proofs.DiagonalProofs Proofs.SseWeight Proofs.LoopProofs Proofs.HamProofs Proofs.ThermalProofs.
From QmcV Require Import Model.Diagonal Proofs.Expect Proofs.SweepStationary Proofs.GroupKernel Proofs.TimestepStationary Check.Common Proofs.ValidatedPipeline.
Import ListNotations.
Open Scope Q_scope.

(* heat-bath exit choice: W(o) P(o; e -> x) = W(o') P(o'; x -> e) where o' is the operator after
   entering at leg e and leaving at leg x; for every Hamiltonian, operator, arity and leg pair *)
Theorem C04_vertex_balance : forall H o e x legs,
  let o' := pass_through o e x in
  op_weight H o * (leg_weight H o e x / exit_total H o e legs)
  == op_weight H o' * (leg_weight H o' x e / exit_total H o' x legs).
Proof. exact vertex_balance. Qed.
Print Assumptions C04_vertex_balance.

(* the weight used for an exit IS the weight of the operator the loop would leave behind *)
Theorem C04_exit_weight_is_new_weight : forall H o e x, leg_weight H o e x = op_weight H (pass_through o e x).
Proof. exact leg_weight_is_new_weight. Qed.
Print Assumptions C04_exit_weight_is_new_weight.

(* the reverse traversal offers exactly the same outcomes (same normaliser) *)
Theorem C04_reverse_total : forall H o e x legs, exit_total H (pass_through o e x) x legs = exit_total H o e legs.
Proof. exact reverse_total. Qed.
Print Assumptions C04_reverse_total.

Theorem C04_bounce_unchanged : forall o e, io_of (pass_through o e e) = io_of o.
Proof. exact bounce_unchanged. Qed.
Print Assumptions C04_bounce_unchanged.

(* diagonal updates of the generic sampler use the same slot programs *)
Theorem C04_metropolis_slot_reversible : forall H beta st sl p b,
  nth_error sl p = Some None -> (b < h_nbonds H)%nat -> 0 < beta -> 0 < diag_weight H b st ->
  let L := length sl in
  let n := count_ops sl in
  let o := mk_diag H b st in
  let P_ins := mass (is_slot (Some o)) (denote (met_slot H L n beta st None)) in
  let P_rem := mass (is_slot None) (denote (met_slot H L (S n) beta st (Some o))) in
  sse_weight H beta sl * P_ins == sse_weight H beta (set_nth sl p (Some o)) * P_rem.
Proof. exact metropolis_slot_balance_wrt_weight. Qed.
Print Assumptions C04_metropolis_slot_reversible.

(* cluster updates are enabled exactly when no interaction breaks the global spin-flip symmetry and
   a constant single-variable term exists *)
Theorem C04_cluster_gate : forall bonds : list interaction,
  should_cluster bonds = true <->
  (forall i, In i bonds -> sym_under_ising i = true) /\ (exists i, In i bonds /\ is_constant i = true /\ length (it_vars i) = 1%nat).
Proof. exact should_cluster_spec. Qed.
Print Assumptions C04_cluster_gate.

(* what 'symmetric' means for an accepted full matrix: entry idx equals entry (len - 1 - idx) *)
Theorem C04_symmetry_meaning : forall mat vars i,
  new_full mat vars = COk i ->
  (sym_under_ising i = true <->
   forall idx, (idx < length mat)%nat -> (nth idx mat 0 == nth (length mat - 1 - idx) mat 0)%Q).
Proof. exact sym_full_spec. Qed.
Print Assumptions C04_symmetry_meaning.

(* stored weights are non-negative, so every configuration weight is *)
Theorem C04_weights_nonneg : forall i ins outs q,
  Forall (fun q => 0 <= q)%Q (it_mat i) -> inter_at i ins outs = Some q -> 0 <= q.
Proof. exact inter_at_nonneg. Qed.
Print Assumptions C04_weights_nonneg.

(* KNOWN FINDING (odd parity): a loop update preserves the leg parity of every operator, diagonal
   operators have even parity, a single-site spin flip has odd parity. A Hamiltonian whose only
   spin-flip terms are odd-parity elements of a non-constant / symmetry-breaking matrix (cluster
   updates gated off by C04_cluster_gate) is therefore not sampled ergodically. *)
Theorem C04_loop_keeps_leg_parity : forall o e x,
  leg_in_range (io_of o) e -> leg_in_range (io_of o) x ->
  leg_parity (io_of (pass_through o e x)) = leg_parity (io_of o).
Proof. exact pass_through_parity. Qed.
Print Assumptions C04_loop_keeps_leg_parity.

Theorem C04_diagonal_ops_even : forall l : list bool, leg_parity (l, l) = false.
Proof. exact diagonal_even_parity. Qed.
Print Assumptions C04_diagonal_ops_even.

Example C04_single_site_flip_is_odd : leg_parity ([false], [true]) = true.
Proof. reflexivity. Qed.

(* loops never leave a zero-weight operator behind *)
From QmcV Require Import Proofs.LegalityProofs.
Theorem C04_loop_never_stores_nonpositive : forall (H : ham) fuel sl st,
  nonneg_ham H -> all_positive H sl = true ->
  mass (bad H) (denote (loop_update fuel H sl st)) == 0.
Proof. exact loop_update_positive. Qed.
Print Assumptions C04_loop_never_stores_nonpositive.

(* a directed loop always closes into a consistent configuration (shared with C06) *)
From QmcV Require Import Model.ClusterValid Proofs.ProgSafety Proofs.LoopWorldLine.
Theorem C04_loop_closes_consistently : forall H fuel (sl : slots) (st : state),
  ops_wellformed (length st) sl = true -> wf st sl = true ->
  all_out_r good (loop_update fuel H sl st).
Proof. exact loop_update_wf. Qed.
Print Assumptions C04_loop_closes_consistently.

(* for interaction sets on which the cluster update runs (symmetric diagonal terms + constant single-site terms,
   no loops): the generic sampler's pipeline — diagonal update, cluster update, free-spin refresh, with the
   Hamiltonian table built from the interaction list — leaves the SSE weight of ITS matrices stationary *)
Theorem C04_cluster_pipeline_stationary : forall bonds beta L nv xs,
  (0 < beta)%Q -> (0 < h_nbonds (qmc_ham bonds))%nat -> tspace_ok (qmc_ham bonds) L nv xs ->
  forall f : cfg -> Q,
    (Qsum (map (fun x => sse_weight (qmc_ham bonds) beta (snd x)
                         * expect (pipeline_cfg (update_cfg (met_update (qmc_ham bonds) beta)) x) f) xs)
     == Qsum (map (fun x => sse_weight (qmc_ham bonds) beta (snd x) * f x) xs))%Q.
Proof. intros bonds. exact (metropolis_timestep_stationary (qmc_ham bonds)). Qed.
Print Assumptions C04_cluster_pipeline_stationary.

(* and its diagonal update alone, Metropolis or heat bath, on the complete configuration space of any
   interaction list (no symmetry needed) *)
Theorem C04_diagonal_update_stationary : forall bonds beta L sts,
  (0 < beta)%Q -> (0 < h_nbonds (qmc_ham bonds))%nat ->
  forall f : cfg -> Q,
    (Qsum (map (fun x => sse_weight (qmc_ham bonds) beta (snd x)
                         * expect (update_cfg (met_update (qmc_ham bonds) beta) x) f) (canon (qmc_ham bonds) sts L))
     == Qsum (map (fun x => sse_weight (qmc_ham bonds) beta (snd x) * f x) (canon (qmc_ham bonds) sts L)))%Q.
Proof. intros bonds. exact (metropolis_update_stationary_canon (qmc_ham bonds)). Qed.
Print Assumptions C04_diagonal_update_stationary.

(* unconditional on the complete configuration space for every interaction list whose table is flip-symmetric on
   its legal operators (the class on which the library enables cluster updates) *)
Theorem C04_symmetric_pipeline_stationary : forall bonds nv L beta,
  sym_ham (qmc_ham bonds) -> (0 < beta)%Q -> (0 < h_nbonds (qmc_ham bonds))%nat ->
  wstat (canon (qmc_ham bonds) (all_substates nv) L) (fun c => sse_weight (qmc_ham bonds) beta (snd c))
        (pipeline_cfg_v (update_cfg (met_update (qmc_ham bonds) beta))).
Proof. intros bonds nv L beta Hs. exact (metropolis_pipeline_v_stationary (qmc_ham bonds) Hs nv L beta). Qed.
Print Assumptions C04_symmetric_pipeline_stationary.

(* unconditional form for the generic sampler's cluster pipeline: for every interaction list whose table is
   flip-symmetric on its legal operators and whose terms name existing variables, on the COMPLETE configuration
   space, with the model's own cluster update (the decomposition is proved to yield validated labellings) *)
From QmcV Require Import Proofs.UnconditionalPipeline.
Theorem C04_cluster_pipeline_stationary_complete_space : forall bonds nv L beta,
  sym_ham (qmc_ham bonds) -> ham_vars_ok (qmc_ham bonds) nv ->
  (0 < beta)%Q -> (0 < h_nbonds (qmc_ham bonds))%nat ->
  wstat (canon (qmc_ham bonds) (all_substates nv) L) (fun c => sse_weight (qmc_ham bonds) beta (snd c))
        (pipeline_cfg (update_cfg (met_update (qmc_ham bonds) beta))).
Proof. intros bonds nv L beta Hs Hr. exact (metropolis_pipeline_stationary_canon (qmc_ham bonds) Hs nv L Hr beta). Qed.
Print Assumptions C04_cluster_pipeline_stationary_complete_space.

(* The start of the directed loop (after fix 88da00a: uniform over the legs of ALL stored operators).  The model's
   loop update is "draw a start, run the loop from it", and every leg of every stored operator is the starting leg
   with the same probability 1 / (2 * number of variable slots) whatever the arity of its operator — so a loop and
   its reverse (which starts at the other end of the first link, possibly on an operator of another arity) are
   proposed with the same start probability.  Before the fix the probability was 1 / (n * 2k): not symmetric for
   interaction sets of mixed arity (defect found in round 6, §4 of DESIGN.md). *)
From QmcV Require Import Proofs.LoopStart.
Theorem C04_loop_update_is_start_then_loop : forall fuel H sl st,
  denote (loop_update fuel H sl st) = denote (bind (loop_start sl) (loop_from fuel H sl st)).
Proof. exact loop_update_is_start_then_loop. Qed.
Print Assumptions C04_loop_update_is_start_then_loop.

Theorem C04_loop_start_uniform_over_legs : forall sl p v d,
  In (p, v) (var_slots sl) ->
  (mass (is_start p v d) (denote (loop_start sl)) == 1 / ((2 # 1) * (Z.of_nat (length (var_slots sl)) # 1)))%Q.
Proof. exact loop_start_uniform. Qed.
Print Assumptions C04_loop_start_uniform_over_legs.

Theorem C04_loop_start_slots_are_the_legs : forall sl p v,
  In (p, v) (var_slots sl) <-> exists o, get_op sl p = Some o /\ (v < length (o_vars o))%nat.
Proof. exact var_slots_in. Qed.
Print Assumptions C04_loop_start_slots_are_the_legs.
