(* C18 — pooled scratch buffers are always returned. *)
From Coq Require Import List Arith Bool.
From QmcV Require Import Model.Sse Model.Pool Proofs.PoolProofs Generated.PoolCaps.
Import ListNotations.

(* if every public call borrows within capacity and returns everything (checked on the real
   borrow/return traces of every call by the correspondence), then NO sequence of calls, however
   long, can fail with pool exhaustion, and the occupancy after any call equals the initial one *)
Theorem C18_no_exhaustion_ever : forall caps (calls : list (list ev)),
  Forall (fun tr => call_ok caps tr = true) calls -> run caps (concat calls) = Some caps.
Proof. exact calls_never_exhaust. Qed.
Print Assumptions C18_no_exhaustion_ever.

Theorem C18_full_at_every_call_boundary : forall caps (calls : list (list ev)) k,
  Forall (fun tr => call_ok caps tr = true) calls -> run caps (concat (firstn k calls)) = Some caps.
Proof. exact calls_prefix_full. Qed.
Print Assumptions C18_full_at_every_call_boundary.

Theorem C18_call_ok_means_balanced : forall caps tr, call_ok caps tr = true -> run caps tr = Some caps.
Proof. exact call_ok_spec. Qed.
Print Assumptions C18_call_ok_means_balanced.

(* facts re-extracted from the source on this run: the nine capacities, buffers are reset on
   return, and the pools never silently allocate more *)
Theorem C18_source_facts :
  length pool_caps = 9 /\ return_resets_buffer = true /\ pool_never_generates_more = true
  /\ Forall (fun c => 1 <= c) pool_caps.
Proof. vm_compute. repeat split; repeat constructor. Qed.
Print Assumptions C18_source_facts.

Example C18_ex_cluster_trace :
  call_ok [10; 2; 1; 1; 4; 1; 2; 2; 1] [Get 4; Get 4; Get 0; Get 2; Get 0; Get 3; Ret 0; Ret 3; Ret 0; Ret 2; Get 1; Ret 4; Ret 4; Ret 1] = true
  /\ call_ok [10; 2; 1; 1; 4; 1; 2; 2; 1] [Get 4; Get 4; Ret 4] = false.
Proof. split; reflexivity. Qed.

(* occupancy accounting: after ANY trace that does not panic, the occupancy of pool t is the initial
   one minus what was borrowed plus what was returned, and the number of pools is unchanged *)
Theorem C18_occupancy_accounting : forall t tr p p',
  t < length p -> run p tr = Some p' ->
  nth t p' 0 + gets t tr = nth t p 0 + rets t tr /\ length p' = length p.
Proof. exact occupancy_accounting. Qed.
Print Assumptions C18_occupancy_accounting.

(* a call accepted by the trace check borrows and returns equally many buffers of every pool *)
Theorem C18_call_ok_balanced : forall caps tr t,
  t < length caps -> call_ok caps tr = true -> gets t tr = rets t tr.
Proof. exact call_ok_balanced. Qed.
Print Assumptions C18_call_ok_balanced.

(* the converse direction of the property's "therefore": a call that keeps a single buffer of pool t
   can be repeated at most cap(t) times; one more repetition panics ("Out of instances") ... *)
Theorem C18_leak_exhausts : forall caps tr t n,
  t < length caps -> gets t tr = S (rets t tr) -> nth t caps 0 < n ->
  run caps (concat (repeat tr n)) = None.
Proof. exact leak_exhausts. Qed.
Print Assumptions C18_leak_exhausts.

(* ... and before that the only trace of the leak is the occupancy, lower by one per call — which is
   why the check compares occupancies at every call boundary instead of waiting for the panic *)
Theorem C18_leak_is_silent_until_then : forall caps tr t n p',
  t < length caps -> gets t tr = S (rets t tr) -> run caps (concat (repeat tr n)) = Some p' ->
  nth t p' 0 + n = nth t caps 0.
Proof. exact leak_is_silent_until_then. Qed.
Print Assumptions C18_leak_is_silent_until_then.

Example C18_ex_leak :
  let caps := [10; 2; 1; 1; 4; 1; 2; 2; 1] in let tr := [Get 4; Get 4; Ret 4] in
  gets 4 tr = S (rets 4 tr) /\ run caps (concat (repeat tr 3)) <> None /\ run caps (concat (repeat tr 5)) = None.
Proof. cbv zeta. split; [reflexivity|]. split; [intro E; vm_compute in E; discriminate E|reflexivity]. Qed.
