(* C18 — pooled scratch buffers are always returned. *)
From Coq Require Import List Arith Bool.
From QmcV Require Import Model.Sse Model.Pool Proofs.PoolProofs Generated.PoolCaps.
Import ListNotations.

(* if every public call borrows within capacity and returns everything (checked on the real
   borrow/return traces of every call by the correspondence), then NO sequence of calls, however
   long, can fail with pool exhaustion, and the occupancy after any call equals the initial one *)
Theorem C18_no_exhaustion_ever : forall caps (calls : list (list ev)),
  Forall (fun tr => call_ok caps tr = true) calls -> run caps (concat calls) = Some caps.
Proof. exact calls_never_exhaust. Qed.
Print Assumptions C18_no_exhaustion_ever.

Theorem C18_full_at_every_call_boundary : forall caps (calls : list (list ev)) k,
  Forall (fun tr => call_ok caps tr = true) calls -> run caps (concat (firstn k calls)) = Some caps.
Proof. exact calls_prefix_full. Qed.
Print Assumptions C18_full_at_every_call_boundary.

Theorem C18_call_ok_means_balanced : forall caps tr, call_ok caps tr = true -> run caps tr = Some caps.
Proof. exact call_ok_spec. Qed.
Print Assumptions C18_call_ok_means_balanced.

(* facts re-extracted from the source on this run: the nine capacities, buffers are reset on
   return, and the pools never silently allocate more *)
Theorem C18_source_facts :
  length pool_caps = 9 /\ return_resets_buffer = true /\ pool_never_generates_more = true
  /\ Forall (fun c => 1 <= c) pool_caps.
Proof. vm_compute. repeat split; repeat constructor. Qed.
Print Assumptions C18_source_facts.

Example C18_ex_cluster_trace :
  call_ok [10; 2; 1; 1; 4; 1; 2; 2; 1] [Get 4; Get 4; Get 0; Get 2; Get 0; Get 3; Ret 0; Ret 3; Ret 0; Ret 2; Get 1; Ret 4; Ret 4; Ret 1] = true
  /\ call_ok [10; 2; 1; 1; 4; 1; 2; 2; 1] [Get 4; Get 4; Ret 4] = false.
Proof. split; reflexivity. Qed.
