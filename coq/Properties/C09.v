(* C09 — the cluster update is weight-preserving and reversible. *)
From Coq Require Import List QArith ZArith NArith Bool Arith.
From QmcV Require Import Model.Prog Model.Sse Model.Nav Model.Cluster Model.ClusterValid Proofs.ProgLemmas Proofs.ClusterProofs Proofs.ClusterFlipProofs Model.Diagonal Proofs.Expect Proofs.SweepStationary Proofs.GroupKernel Proofs.TimestepStationary Check.Common Proofs.ValidatedPipeline.
Import ListNotations.

(* whatever labelling and whatever flip outcomes: number, positions, bonds, variables and
   constant flags of the operators are unchanged (only spin values are flipped) *)
Theorem C09_skeleton_unchanged : forall sl st b flips, skeleton (fst (apply_flips sl st b flips)) = skeleton sl.
Proof. exact apply_flips_skeleton. Qed.
Print Assumptions C09_skeleton_unchanged.

Theorem C09_operator_count_unchanged : forall sl st b flips, count_ops (fst (apply_flips sl st b flips)) = count_ops sl.
Proof. exact apply_flips_count. Qed.
Print Assumptions C09_operator_count_unchanged.

(* applying the decomposition to the result finds exactly the same clusters (same number, same
   boundaries): the decomposition is a function of the skeleton alone *)
Theorem C09_redecomposition_identical : forall sl st b flips, decompose (fst (apply_flips sl st b flips)) = decompose sl.
Proof. exact redecompose_same. Qed.
Print Assumptions C09_redecomposition_identical.

(* a cluster containing an operator whose flip ratio is 0 (a longitudinal-field operator) has
   total weight 0 ... *)
Theorem C09_broken_cluster_weight_zero : forall sl b ncl wf p a o,
  (p < length b)%nat -> bget b p = (Some a, Some a) -> get_op sl p = Some o -> (wf o == 0)%Q -> (a < ncl)%nat ->
  (nth a (cluster_weights sl b ncl wf) 1 == 0)%Q.
Proof. exact cluster_weight_zero. Qed.
Print Assumptions C09_broken_cluster_weight_zero.

(* ... and a cluster whose flip probability is <= 0 is flipped with probability exactly 0 *)
Theorem C09_zero_probability_cluster_never_flips : forall probs acc j,
  (j < length probs)%nat -> (nth j probs 1 <= 0)%Q ->
  (mass (fun fl : list bool => nth (length acc + j) fl false) (denote (draw_flips probs acc (fun f => Ret f))) == 0)%Q.
Proof. exact draw_flips_zero. Qed.
Print Assumptions C09_zero_probability_cluster_never_flips.

(* For every labelling accepted by the executable validator [links_ok] (linked sides of consecutive
   operators on a world line carry the same cluster label, periodically) and EVERY flip outcome:
   the flipped configuration is again a consistent periodic world-line configuration. The validator
   is evaluated on the decomposition of every configuration in the correspondence runs. *)
Theorem C09_flip_keeps_worldline : forall sl st b flips,
  vars_in_range (length st) sl = true -> links_ok sl b = true -> wf st sl = true ->
  let '(sl', st') := apply_flips sl st b flips in wf st' sl' = true.
Proof. exact cluster_flip_wf. Qed.
Print Assumptions C09_flip_keeps_worldline.

(* the product of matrix elements is identical before and after, when non-edge operators are
   flip-symmetric (both sides flipped together: [sides_ok]) and cluster-edge operators are constant *)
Theorem C09_flip_keeps_weight : forall H sl st b flips,
  (forall o, In (Some o) sl -> is_edge o = false -> flip_sym H o) ->
  (forall o, In (Some o) sl -> is_edge o = true -> edge_free H o) ->
  sides_ok sl b = true ->
  (weight_product H (fst (apply_flips sl st b flips)) == weight_product H sl)%Q.
Proof. exact cluster_flip_weight. Qed.
Print Assumptions C09_flip_keeps_weight.

(* with symmetry-breaking operators: it suffices that their clusters are not flipped *)
Theorem C09_flip_keeps_weight_with_broken_clusters : forall H sl st b flips,
  (forall p o, get_op sl p = Some o ->
     if is_edge o then edge_free H o
     else flip_sym H o \/ (forall a, fst (bget b p) = Some a -> nth a flips false = false)) ->
  sides_ok sl b = true ->
  (weight_product H (fst (apply_flips sl st b flips)) == weight_product H sl)%Q.
Proof. exact cluster_flip_weight_positional. Qed.
Print Assumptions C09_flip_keeps_weight_with_broken_clusters.

(* reversibility: applying the same flips again restores the configuration *)
Theorem C09_flip_involutive : forall sl st b flips,
  vars_in_range (length st) sl = true -> links_ok sl b = true -> wf st sl = true ->
  let '(sl', st') := apply_flips sl st b flips in apply_flips sl' st' b flips = (sl, st).
Proof. exact cluster_flip_involutive. Qed.
Print Assumptions C09_flip_involutive.

(* what the validator means in terms of navigation *)
Theorem C09_validator_links : forall sl b v p k q k', links_ok sl b = true ->
  In (p, k) (ops_on_var sl v) -> next_wrap sl p v = Some (q, k') -> snd (bget b p) = fst (bget b q).
Proof. exact links_ok_next_wrap. Qed.
Print Assumptions C09_validator_links.

(* reversibility as a statement about probabilities: the cluster update, as a kernel on complete configurations
   (one fair bit per cluster, apply the flips), reaches y from x exactly as likely as x from y, weights included,
   on every space of validated configurations closed under cluster flips *)
Theorem C09_cluster_kernel_detailed_balance : forall H beta xs x y,
  NoDup xs -> cluster_ready H xs -> In x xs -> In y xs ->
  (sse_weight H beta (snd x) * mass (cfg_eqb y) (denote (gkernel cl_act cl_k x))
   == sse_weight H beta (snd y) * mass (cfg_eqb x) (denote (gkernel cl_act cl_k y)))%Q.
Proof.
  intros H beta xs x y Hnd Hcr.
  exact (gkernel_detailed_balance cfg_eqb cfg_eqb_ok cl_act cl_k (W H beta) xs
           (cl_k_act H xs Hcr) (cl_act_invol H xs Hcr) (cl_act_weight H beta xs Hcr) x y).
Qed.
Print Assumptions C09_cluster_kernel_detailed_balance.

(* that kernel is the model's cluster update: same expectation for every observable *)
Theorem C09_cluster_update_is_kernel : forall c (f : cfg -> Q),
  (Nat.eqb (count_ops (snd c)) 0 = false -> decompose (snd c) <> None) ->
  (expect (cluster_cfg c) f == expect (gkernel cl_act cl_k c) f)%Q.
Proof. exact cluster_cfg_is_gkernel. Qed.
Print Assumptions C09_cluster_update_is_kernel.

(* the weighted cluster update (clusters with a symmetry-breaking operator have probability 0) is a reversible
   kernel too: conditions are asked only of flip vectors of non-zero probability *)
Theorem C09_weighted_cluster_update_stationary : forall H wfn beta xs,
  NoDup xs -> cluster_ready_w H wfn xs -> wstat xs (fun c => sse_weight H beta (snd c)) (cluster_cfg_w wfn).
Proof. exact cluster_kernel_w_stationary. Qed.
Print Assumptions C09_weighted_cluster_update_stationary.

(* with the validators folded into the kernel (run the cluster update iff the labelling is accepted) the cluster
   stage is stationary on the COMPLETE configuration space of every flip-symmetric table: flips of a validated
   configuration stay validated, consistent, legal and in the space *)
Theorem C09_validated_cluster_update_stationary : forall H nv L beta,
  sym_ham H -> wstat (canon H (all_substates nv) L) (fun c => sse_weight H beta (snd c)) cluster_cfg_v.
Proof. intros H nv L beta Hs. exact (cluster_v_stationary H Hs nv L beta). Qed.
Print Assumptions C09_validated_cluster_update_stationary.

Theorem C09_flip_of_validated_stays_validated : forall H nv L st sl b ncl fl,
  sym_ham H ->
  In (st, sl) (canon H (all_substates nv) L) -> Nat.eqb (count_ops sl) 0 = false -> decompose sl = Some (b, ncl) ->
  links_ok sl b = true -> sides_ok sl b = true -> vars_in_range (length st) sl = true ->
  In (cl_act (st, sl) fl) (canon H (all_substates nv) L) /\ cluster_valid (cl_act (st, sl) fl) = true.
Proof. intros H nv L st sl b ncl fl Hs. exact (flip_of_valid H Hs nv L st sl b ncl fl). Qed.
Print Assumptions C09_flip_of_validated_stays_validated.

(* THE DECOMPOSITION IS CORRECT (Proofs/DecomposeProofs.v): every labelling the transcribed cluster decomposition
   returns — for any operator string whatsoever — passes both validators.  (Partial correctness: [None] means the
   model ran out of fuel or met a malformed string; the correspondence check would show that as a mismatch.) *)
From QmcV Require Import Proofs.DecomposeProofs Proofs.UnconditionalPipeline.
Theorem C09_decomposition_is_valid : forall sl b n,
  decompose sl = Some (b, n) -> links_ok sl b = true /\ sides_ok sl b = true.
Proof. exact decompose_valid. Qed.
Print Assumptions C09_decomposition_is_valid.

(* in navigation terms: occupied slots carry two labels and empty slots none; the output label of an operator
   equals the input label of the next operator on each of its variables (periodically); only cluster edges
   (constant single-site operators) separate two clusters *)
Theorem C09_decomposition_positional : forall sl b n,
  decompose sl = Some (b, n) ->
  (forall p, match get_op sl p with
             | Some _ => exists a d, bget b p = (Some a, Some d)
             | None => bget b p = (None, None)
             end)
  /\ (forall p o v q kq, get_op sl p = Some o -> In v (o_vars o) ->
        next_wrap sl p v = Some (q, kq) -> snd (bget b p) = fst (bget b q))
  /\ (forall p o, get_op sl p = Some o -> is_edge o = false -> fst (bget b p) = snd (bget b p)).
Proof. intros sl b n Hd. exact (good_skeleton sl b (decompose_sk_good (skeleton sl) b n Hd)). Qed.
Print Assumptions C09_decomposition_positional.

(* hence the validity test only ever fails when the decomposition returns nothing ... *)
Theorem C09_validity_test_decided : forall c,
  vars_in_range (length (fst c)) (snd c) = true ->
  cluster_valid c = (Nat.eqb (count_ops (snd c)) 0 || match decompose (snd c) with Some _ => true | None => false end)%bool.
Proof. exact cluster_valid_iff. Qed.
Print Assumptions C09_validity_test_decided.

(* ... and the model's OWN cluster update (no validation wrapper) is stationary for the SSE weight on the complete
   configuration space of every flip-symmetric table whose bonds name existing variables *)
Theorem C09_cluster_update_stationary : forall H nv L beta,
  sym_ham H -> ham_vars_ok H nv ->
  wstat (canon H (all_substates nv) L) (fun c => sse_weight H beta (snd c)) cluster_cfg.
Proof. intros H nv L beta Hs Hr. exact (cluster_stationary_canon H Hs nv L Hr beta). Qed.
Print Assumptions C09_cluster_update_stationary.

(* the flip theorems for the labelling the decomposition actually returns *)
Theorem C09_decomposed_flip_keeps_worldline : forall sl st b n flips,
  decompose sl = Some (b, n) -> vars_in_range (length st) sl = true -> wf st sl = true ->
  let '(sl', st') := apply_flips sl st b flips in wf st' sl' = true.
Proof. exact decomposed_flip_wf. Qed.
Print Assumptions C09_decomposed_flip_keeps_worldline.

Theorem C09_decomposed_flip_involutive : forall sl st b n flips,
  decompose sl = Some (b, n) -> vars_in_range (length st) sl = true -> wf st sl = true ->
  let '(sl', st') := apply_flips sl st b flips in apply_flips sl' st' b flips = (sl, st).
Proof. exact decomposed_flip_involutive. Qed.
Print Assumptions C09_decomposed_flip_involutive.

Theorem C09_decomposed_flip_keeps_weight : forall H sl st b n flips,
  decompose sl = Some (b, n) ->
  (forall o, In (Some o) sl -> is_edge o = false -> flip_sym H o) ->
  (forall o, In (Some o) sl -> is_edge o = true -> edge_free H o) ->
  (weight_product H (fst (apply_flips sl st b flips)) == weight_product H sl)%Q.
Proof. exact decomposed_flip_weight. Qed.
Print Assumptions C09_decomposed_flip_keeps_weight.

(* TOTAL CORRECTNESS of the decomposition (Proofs/DecomposeTotal.v): with the fuel the model supplies, the
   transcribed algorithm returns a labelling for EVERY operator string (potential argument: one iteration of the
   inner loop lowers |interior stack| + W, one iteration of the outer loop lowers |frontier| + W), and that
   labelling passes both validators *)
From QmcV Require Import Proofs.DecomposeTotal.
Theorem C09_decomposition_total : forall sl, decompose sl <> None.
Proof. exact decompose_total. Qed.
Print Assumptions C09_decomposition_total.

Theorem C09_decomposition_correct : forall sl,
  exists b n, decompose sl = Some (b, n) /\ links_ok sl b = true /\ sides_ok sl b = true.
Proof. exact decompose_correct. Qed.
Print Assumptions C09_decomposition_correct.

(* so the cluster update of the model IS the fair-bit kernel, with no side condition *)
Theorem C09_cluster_update_is_kernel_total : forall c (f : cfg -> Q),
  (expect (cluster_cfg c) f == expect (gkernel cl_act cl_k c) f)%Q.
Proof. exact cluster_cfg_is_gkernel_total. Qed.
Print Assumptions C09_cluster_update_is_kernel_total.

(* the WEIGHTED cluster update (longitudinal field: cluster a flips with probability w_a / 2) is a reversible kernel
   for the SSE weight on the complete configuration space, for every table and skeleton-only flip ratio such that
   a legal operator is a value-independent cluster edge, or keeps its weight under a flip, or has flip ratio 0 *)
From QmcV Require Import Proofs.UnconditionalFieldPipeline.
Theorem C09_weighted_cluster_update_stationary_complete_space : forall H wfn nv L beta,
  (forall o o', skel_of o = skel_of o' -> wfn o = wfn o') ->
  (forall o, op_legal H o = true -> if is_edge o then edge_free H o else (flip_sym H o \/ wfn o == 0)%Q) ->
  ham_vars_ok H nv ->
  wstat (canon H (all_substates nv) L) (fun c => sse_weight H beta (snd c)) (cluster_cfg_w wfn).
Proof. intros H wfn nv L beta H1 H2 H3. exact (cluster_w_stationary_canon H wfn H1 H2 nv L H3 beta). Qed.
Print Assumptions C09_weighted_cluster_update_stationary_complete_space.
