(* C09 — the cluster update is weight-preserving and reversible. *)
From Coq Require Import List QArith ZArith NArith Bool Arith.
From QmcV Require Import Model.Prog Model.Sse Model.Nav Model.Cluster Proofs.ProgLemmas Proofs.ClusterProofs.
Import ListNotations.

(* whatever labelling and whatever flip outcomes: number, positions, bonds, variables and
   constant flags of the operators are unchanged (only spin values are flipped) *)
Theorem C09_skeleton_unchanged : forall sl st b flips, skeleton (fst (apply_flips sl st b flips)) = skeleton sl.
Proof. exact apply_flips_skeleton. Qed.
Print Assumptions C09_skeleton_unchanged.

Theorem C09_operator_count_unchanged : forall sl st b flips, count_ops (fst (apply_flips sl st b flips)) = count_ops sl.
Proof. exact apply_flips_count. Qed.
Print Assumptions C09_operator_count_unchanged.

(* applying the decomposition to the result finds exactly the same clusters (same number, same
   boundaries): the decomposition is a function of the skeleton alone *)
Theorem C09_redecomposition_identical : forall sl st b flips, decompose (fst (apply_flips sl st b flips)) = decompose sl.
Proof. exact redecompose_same. Qed.
Print Assumptions C09_redecomposition_identical.

(* a cluster containing an operator whose flip ratio is 0 (a longitudinal-field operator) has
   total weight 0 ... *)
Theorem C09_broken_cluster_weight_zero : forall sl b ncl wf p a o,
  (p < length b)%nat -> bget b p = (Some a, Some a) -> get_op sl p = Some o -> (wf o == 0)%Q -> (a < ncl)%nat ->
  (nth a (cluster_weights sl b ncl wf) 1 == 0)%Q.
Proof. exact cluster_weight_zero. Qed.
Print Assumptions C09_broken_cluster_weight_zero.

(* ... and a cluster whose flip probability is <= 0 is flipped with probability exactly 0 *)
Theorem C09_zero_probability_cluster_never_flips : forall probs acc j,
  (j < length probs)%nat -> (nth j probs 1 <= 0)%Q ->
  (mass (fun fl : list bool => nth (length acc + j) fl false) (denote (draw_flips probs acc (fun f => Ret f))) == 0)%Q.
Proof. exact draw_flips_zero. Qed.
Print Assumptions C09_zero_probability_cluster_never_flips.
