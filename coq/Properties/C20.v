(* C20 — the autocorrelation helpers compute the documented normalised autocorrelation. *)
From Coq Require Import List QArith ZArith Bool Arith.
From QmcV Require Import Model.Autocorr Model.Stepper Proofs.AutocorrProofs Proofs.StepperProofs.
Import ListNotations.

(* one entry per recorded sample *)
Theorem C20_one_entry_per_sample : forall samples, length (ac_spec samples) = length samples.
Proof. exact ac_spec_length. Qed.
Print Assumptions C20_one_entry_per_sample.

(* lag 0 is exactly 1 whenever no observable column is constant *)
Theorem C20_lag_zero_is_one : forall samples,
  samples <> [] -> hd [] samples <> [] ->
  (forall i, (i < length (hd [] samples))%nat -> ~ (circ_cov (centred (column samples i)) 0 == 0)%Q) ->
  (nth 0 (ac_spec samples) 0 == 1)%Q.
Proof. exact ac_spec_lag0. Qed.
Print Assumptions C20_lag_zero_is_one.

(* the samples are the states after steps f, 2f, ...: floor(T/f) of them (cadence shared with C17) *)
Theorem C20_sample_cadence : forall f T k, In k (sample_times f T) <-> (1 <= k <= T /\ k mod f = 0)%nat.
Proof. exact sample_times_in. Qed.
Print Assumptions C20_sample_cadence.

Theorem C20_sample_count : forall f T, (0 < f)%nat -> length (sample_times f T) = (T / f)%nat.
Proof. exact sample_times_length. Qed.
Print Assumptions C20_sample_count.
