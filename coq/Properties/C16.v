(* C16 — Interaction constructors validate input and classify matrices exactly.
   This file contains only statements, closed by [exact], with their assumptions printed. *)
From Coq Require Import List QArith ZArith NArith Bool Arith.
From QmcV Require Import Model.Sse Model.Ham Proofs.HamProofs.
Import ListNotations.

(* A full matrix is accepted iff its length is 4^(#vars) and no entry is negative. *)
Theorem C16_full_accepts_exactly : forall mat vars,
  (exists i, new_full mat vars = COk i) <->
  (length mat = (4 ^ length vars)%nat /\ Forall (fun q => 0 <= q)%Q mat).
Proof. exact new_full_accepts. Qed.
Print Assumptions C16_full_accepts_exactly.

(* A diagonal table is accepted iff its length is 2^(#vars) and no entry is negative. *)
Theorem C16_diag_accepts_exactly : forall mat vars,
  (exists i, new_diag mat vars = COk i) <->
  (length mat = (2 ^ length vars)%nat /\ Forall (fun q => 0 <= q)%Q mat).
Proof. exact new_diag_accepts. Qed.
Print Assumptions C16_diag_accepts_exactly.

(* The offset variants accept only what the plain constructors accept (same length). *)
Theorem C16_full_offset_via_plain : forall mat vars r m,
  new_full_offset mat vars = (r, m) ->
  r = CErr \/ exists mat', r = new_full mat' vars /\ length mat' = length mat.
Proof. exact new_full_offset_via. Qed.
Print Assumptions C16_full_offset_via_plain.

Theorem C16_diag_offset_via_plain : forall mat vars r m,
  new_diag_offset mat vars = (r, m) ->
  r = CErr \/ exists mat', r = new_diag mat' vars /\ length mat' = length mat.
Proof. exact new_diag_offset_via. Qed.
Print Assumptions C16_diag_offset_via_plain.

(* Lookup: outputs are more significant than inputs, first variable most significant. *)
Theorem C16_at_full : forall mat vars i ins outs,
  new_full mat vars = COk i ->
  length ins = length vars -> length outs = length vars ->
  exists q, inter_at i ins outs = Some q /\
            (q == nth (index_of_bits outs * 2 ^ length ins + index_of_bits ins) mat 0)%Q.
Proof.
  intros mat vars i ins outs H Hi Ho.
  rewrite <- index_from_state_split. exact (at_full_spec mat vars i ins outs H Hi Ho).
Qed.
Print Assumptions C16_at_full.

Theorem C16_at_diag : forall mat vars i ins outs,
  new_diag mat vars = COk i ->
  length ins = length vars -> length outs = length vars ->
  inter_at i ins outs = Some (if bools_eqb ins outs then nth (index_of_bits ins) mat 0%Q else 0%Q).
Proof. exact at_diag_spec. Qed.
Print Assumptions C16_at_diag.

(* Classifications are exact. *)
Theorem C16_constant_exact : forall mat vars i,
  new_full mat vars = COk i ->
  (is_constant i = true <->
   forall a b, (a < length mat)%nat -> (b < length mat)%nat -> (nth a mat 0 == nth b mat 0)%Q).
Proof. exact const_full_spec. Qed.
Print Assumptions C16_constant_exact.

Theorem C16_constant_diag_exact_full : forall mat vars i,
  new_full mat vars = COk i ->
  (is_constant_diag i = true <->
   forall r s, (r < 2 ^ length vars)%nat -> (s < 2 ^ length vars)%nat ->
     (nth (r * 2 ^ length vars + r) mat 0 == nth (s * 2 ^ length vars + s) mat 0)%Q).
Proof. exact cdiag_full_spec. Qed.
Print Assumptions C16_constant_diag_exact_full.

Theorem C16_constant_diag_exact_diag : forall mat vars i,
  new_diag mat vars = COk i ->
  (is_constant_diag i = true <->
   forall a b, (a < length mat)%nat -> (b < length mat)%nat -> (nth a mat 0 == nth b mat 0)%Q).
Proof. exact cdiag_diag_spec. Qed.
Print Assumptions C16_constant_diag_exact_diag.

Theorem C16_symmetry_exact_full : forall mat vars i,
  new_full mat vars = COk i ->
  (sym_under_ising i = true <->
   forall idx, (idx < length mat)%nat -> (nth idx mat 0 == nth (length mat - 1 - idx) mat 0)%Q).
Proof. exact sym_full_spec. Qed.
Print Assumptions C16_symmetry_exact_full.

Theorem C16_symmetry_exact_diag : forall mat vars i,
  new_diag mat vars = COk i ->
  (sym_under_ising i = true <->
   forall idx, (idx < length mat)%nat -> (nth idx mat 0 == nth (length mat - 1 - idx) mat 0)%Q).
Proof. exact sym_diag_spec. Qed.
Print Assumptions C16_symmetry_exact_diag.

(* Every weight an accepted interaction can hand to the sampler is >= 0 (so the
   Bernoulli arguments formed by the diagonal update are never negative). *)
Theorem C16_accepted_weights_nonneg : forall i ins outs q,
  Forall (fun q => 0 <= q)%Q (it_mat i) -> inter_at i ins outs = Some q -> (0 <= q)%Q.
Proof. exact inter_at_nonneg. Qed.
Print Assumptions C16_accepted_weights_nonneg.

(* Non-vacuity: concrete accepted / rejected / classified instances. *)
Example C16_ex_accept_sym :
  exists i, new_full [1;2;3;4; 5;6;7;8; 8;7;6;5; 4;3;2;1]%Q [0;1]%nat = COk i
            /\ sym_under_ising i = true /\ is_constant i = false.
Proof. eexists. vm_compute. repeat split. Qed.

Example C16_ex_middle_pair_asymmetric :
  exists i, new_full [1;2;3;4; 5;6;7;8; 9;7;6;5; 4;3;2;1]%Q [0;1]%nat = COk i
            /\ sym_under_ising i = false.
Proof. eexists. vm_compute. repeat split. Qed.

Example C16_ex_three_var_diag_asymmetric :
  exists i, new_diag [1;2;3;4; 5;3;2;1]%Q [0;1;2]%nat = COk i /\ sym_under_ising i = false.
Proof. eexists. vm_compute. repeat split. Qed.

Example C16_ex_reject : new_full [1;1;1;1; 1;1;1;1]%Q [0]%nat = CErr
                        /\ new_diag [1; -1]%Q [0]%nat = CErr
                        /\ new_full [1;1]%Q []%nat = CErr.
Proof. vm_compute. repeat split. Qed.
