(* C15 — Ising-to-generic conversion preserves the model. *)
From Coq Require Import List QArith ZArith NArith Bool Arith.
From QmcV Require Import Model.Sse Model.Ham Model.Convert Proofs.ConvertProofs.
Import ListNotations.
Open Scope Q_scope.

(* every edge term is accepted (conversion cannot fail on it), acts on the same variables, is
   not a cluster edge, and has exactly the Ising sampler's matrix elements for all 16 patterns *)
Theorem C15_edge_term : forall a b j,
  exists i, fst (conv_edge (a, b, j)) = COk i /\ it_vars i = [a; b] /\ is_constant i = false
            /\ (snd (conv_edge (a, b, j)) == - Qabs' j)
            /\ forall x y u v,
                 exists q, inter_at i [x; y] [u; v] = Some q /\ q == two_site [x; y] [u; v] j.
Proof. exact conv_edge_ok. Qed.
Print Assumptions C15_edge_term.

Theorem C15_transverse_term : forall g v, 0 <= i_gamma g ->
  exists i, conv_transverse g v = COk i /\ it_vars i = [v] /\ is_constant i = true
            /\ forall x u, inter_at i [x] [u] = Some (i_gamma g).
Proof. exact conv_transverse_ok. Qed.
Print Assumptions C15_transverse_term.

(* the longitudinal term is accepted for every h (the pre-fix matrix [h,0,0,-h] never was),
   its diagonal is |h| -/+ h like the Ising sampler's and it has no off-diagonal part *)
Theorem C15_field_term : forall g v,
  exists i, fst (conv_long g v) = COk i /\ it_vars i = [v]
            /\ (snd (conv_long g v) == - Qabs' (i_h g))
            /\ (forall x, exists q, inter_at i [x] [x] = Some q /\ q == longitudinal_w [x] [x] (i_h g))
            /\ (forall x, exists q, inter_at i [x] [negb x] = Some q /\ q == 0).
Proof. exact conv_long_ok. Qed.
Print Assumptions C15_field_term.

(* reported energies differ by one run-independent constant *)
Theorem C15_energy_constant : forall g,
  ising_offset g - convert_offset g == (Z.of_nat (i_nvars g) # 1) * i_gamma g.
Proof. exact offset_difference. Qed.
Print Assumptions C15_energy_constant.

Example C15_ex_convert :
  exists bonds, convert_bonds (mkIsing [(0%nat, 1%nat, 1); (1%nat, 2%nat, -(1 # 2))] 1 (1 # 2) 3) = Some bonds
                /\ length bonds = 8%nat /\ should_cluster bonds = false.
Proof. eexists. vm_compute. repeat split. Qed.

Example C15_ex_convert_h0 :
  exists bonds, convert_bonds (mkIsing [(0%nat, 1%nat, 1); (1%nat, 2%nat, -(1 # 2))] 1 0 3) = Some bonds
                /\ length bonds = 5%nat /\ should_cluster bonds = true.
Proof. eexists. vm_compute. repeat split. Qed.
