(* C03 — the RVB move: the algebra of its acceptance probability.  The region search and the graph
   rewrite of rvb.rs are NOT transcribed (see DESIGN.md); the theorems below are about the abstract
   move "flip a region, re-draw the n rotatable boundary operators among the boundary bonds in
   proportion to their weight after the flip, accept with min(1,(W_after/W_before)^n)". The
   implementation is tied to it by the exact-diagonalisation oracle and the world-line / legality /
   bookkeeping oracles run after every RVB sweep. *)
From Coq Require Import List QArith ZArith NArith Bool Arith.
From QmcV Require Import Model.Prog Model.Sse Proofs.ProgLemmas Proofs.RvbAbstract Proofs.SseWeight.
Import ListNotations.
Open Scope Q_scope.

Theorem C03_rotation_balance : forall (wb wa : list Q) (Wb Wa : Q),
  0 < Wb -> 0 < Wa -> length wa = length wb ->
  let n := length wb in
  let pi_c := qprod wb in
  let pi_c' := qprod wa in
  let q_fwd := rot_prob wa Wa in
  let q_rev := rot_prob wb Wb in
  let A_fwd := ratio_prob (qpow Wa n) (qpow Wb n) in
  let A_rev := ratio_prob (qpow Wb n) (qpow Wa n) in
  pi_c * q_fwd * A_fwd == pi_c' * q_rev * A_rev.
Proof. exact rvb_rotation_balance. Qed.
Print Assumptions C03_rotation_balance.

Theorem C03_zero_ratio_never_accepted : forall W, 0 < W -> ratio_prob 0 W == 0.
Proof. exact rvb_zero_ratio_never_accepted. Qed.
Print Assumptions C03_zero_ratio_never_accepted.

Theorem C03_acceptance_is_probability : forall x d, 0 <= ratio_prob x d /\ ratio_prob x d <= 1.
Proof. exact ratio_prob_range. Qed.
Print Assumptions C03_acceptance_is_probability.

(* an RVB sweep is one more stationary kernel in the composition *)
Theorem C03_composes : forall N pi K1 K2,
  stationary N pi K1 -> stationary N pi K2 -> stationary N pi (kcomp N K1 K2).
Proof. exact stationary_comp. Qed.
Print Assumptions C03_composes.

Example C03_ex : let wb := [2; 2; 4] in let wa := [4; 1; 1] in
  qprod wb * rot_prob wa 6 * ratio_prob (qpow 6 3) (qpow 8 3) == qprod wa * rot_prob wb 8 * ratio_prob (qpow 8 3) (qpow 6 3).
Proof. vm_compute. reflexivity. Qed.
