(* C03 — the RVB move.
   (a) rvb.rs, util/bondcontainer.rs and util/vec_help.rs are transcribed in Model/Rvb.v and replayed on the
       raw RNG words of every single_rvb_sweep / RVB-enabled timestep of the correspondence runs.
   (b) Theorems about the transcription: the weighted boundary set is a finite map whose draws have the
       law w_i / total (zero weight: never), toggle positions keep odd multiplicities only, region sizes
       follow 2^-k, and for EVERY sequence of draws a sweep keeps each operator at its slot (count, lengths).
   (c) Theorems about the abstract move (flip a region, re-draw the n rotatable boundary operators among
       the boundary bonds in proportion to their weight after the flip, accept with
       min(1,(W_after/W_before)^n)): this acceptance balances the configuration weight.
   That the transcribed region search realises the abstract move is NOT proved; convergence is decided by
   the exact-diagonalisation oracle. *)
From Coq Require Import List QArith ZArith NArith Bool Arith Permutation.
From QmcV Require Import Model.Prog Model.Sse Model.Ham Model.Rvb Proofs.ProgLemmas Proofs.RvbAbstract Proofs.SseWeight
     Proofs.ProgSafety Proofs.RvbProofs.
Import ListNotations.
Open Scope Q_scope.

Theorem C03_rotation_balance : forall (wb wa : list Q) (Wb Wa : Q),
  0 < Wb -> 0 < Wa -> length wa = length wb ->
  let n := length wb in
  let pi_c := qprod wb in
  let pi_c' := qprod wa in
  let q_fwd := rot_prob wa Wa in
  let q_rev := rot_prob wb Wb in
  let A_fwd := ratio_prob (qpow Wa n) (qpow Wb n) in
  let A_rev := ratio_prob (qpow Wb n) (qpow Wa n) in
  pi_c * q_fwd * A_fwd == pi_c' * q_rev * A_rev.
Proof. exact rvb_rotation_balance. Qed.
Print Assumptions C03_rotation_balance.

Theorem C03_zero_ratio_never_accepted : forall W, 0 < W -> ratio_prob 0 W == 0.
Proof. exact rvb_zero_ratio_never_accepted. Qed.
Print Assumptions C03_zero_ratio_never_accepted.

Theorem C03_acceptance_is_probability : forall x d, 0 <= ratio_prob x d /\ ratio_prob x d <= 1.
Proof. exact ratio_prob_range. Qed.
Print Assumptions C03_acceptance_is_probability.

(* an RVB sweep is one more stationary kernel in the composition *)
Theorem C03_composes : forall N pi K1 K2,
  stationary N pi K1 -> stationary N pi K2 -> stationary N pi (kcomp N K1 K2).
Proof. exact stationary_comp. Qed.
Print Assumptions C03_composes.

Example C03_ex : let wb := [2; 2; 4] in let wa := [4; 1; 1] in
  qprod wb * rot_prob wa 6 * ratio_prob (qpow 6 3) (qpow 8 3) == qprod wa * rot_prob wb 8 * ratio_prob (qpow 8 3) (qpow 6 3).
Proof. vm_compute. reflexivity. Qed.

(* ---------------- the transcribed implementation ---------------- *)
Theorem C03_bondcontainer_insert_keeps_keys_distinct : forall (T : Type) (idx : T -> nat) (c : bc T) t w,
  NoDup (keys_of T idx c) -> NoDup (keys_of T idx (bc_insert idx c t w)).
Proof. exact bc_insert_nodup. Qed.
Print Assumptions C03_bondcontainer_insert_keeps_keys_distinct.

Theorem C03_bondcontainer_insert_lookup : forall (T : Type) (idx : T -> nat) (c : bc T) t w k,
  bc_contains idx (bc_insert idx c t w) k = Nat.eqb k (idx t) || bc_contains idx c k.
Proof. exact bc_insert_contains. Qed.
Print Assumptions C03_bondcontainer_insert_lookup.

Theorem C03_bondcontainer_remove : forall (T : Type) (idx : T -> nat) (c : bc T) k,
  NoDup (keys_of T idx c) ->
  NoDup (keys_of T idx (bc_remove idx c k))
  /\ (forall k', In k' (keys_of T idx (bc_remove idx c k)) <-> In k' (keys_of T idx c) /\ k' <> k).
Proof. exact bc_remove_spec. Qed.
Print Assumptions C03_bondcontainer_remove.

Theorem C03_bondcontainer_swap_remove_is_permutation : forall (T : Type) (c : bc T) i x,
  nth_error c i = Some x -> Permutation (x :: bc_remove_index c i) c.
Proof. exact bc_remove_index_perm. Qed.
Print Assumptions C03_bondcontainer_swap_remove_is_permutation.

Theorem C03_bondcontainer_total_after_remove : forall (T : Type) (c : bc T) i t w,
  nth_error c i = Some (t, w) -> bc_total (bc_remove_index c i) == bc_total c - w.
Proof. exact bc_remove_index_total. Qed.
Print Assumptions C03_bondcontainer_total_after_remove.

Theorem C03_draw_probability : forall (ws : list Q) (i : nat), (i < length ws)%nat ->
  mass (fun j => Nat.eqb j i) (denote (Choose ws (fun j => Ret j))) == nth i ws 0 / Qsum ws.
Proof. exact bc_draw_law. Qed.
Print Assumptions C03_draw_probability.

Theorem C03_zero_weight_bond_never_drawn : forall (ws : list Q) (i : nat), nth i ws 0 == 0 ->
  mass (fun j => Nat.eqb j i) (denote (Choose ws (fun j => Ret j))) == 0.
Proof. exact bc_zero_weight_never_drawn. Qed.
Print Assumptions C03_zero_weight_bond_never_drawn.

Theorem C03_toggle_positions_odd_multiplicity : forall n l x, (length l <= n)%nat -> sorted_le l ->
  count_occ Nat.eq_dec (remove_doubles l) x = (count_occ Nat.eq_dec l x mod 2)%nat.
Proof. exact remove_doubles_parity. Qed.
Print Assumptions C03_toggle_positions_odd_multiplicity.

Theorem C03_region_size_law : forall k, (k < 64)%nat ->
  mass (fun n => N.eqb n (N.of_nat k)) (denote (TrailOnes (fun n => Ret n))) == 1 / qpow2 (S k).
Proof. exact trail_ones_law. Qed.
Print Assumptions C03_region_size_law.

Theorem C03_region_size_is_distribution : total (denote (TrailOnes (fun n => Ret n))) == 1.
Proof. exact trail_ones_is_distribution. Qed.
Print Assumptions C03_region_size_is_distribution.

Theorem C03_sweep_keeps_operator_slots : forall g updates st sl,
  all_out (keeps_shape_n st sl) (rvb_update g updates st sl).
Proof. exact rvb_update_keeps_shape. Qed.
Print Assumptions C03_sweep_keeps_operator_slots.

Theorem C03_sweep_count_unchanged : forall g updates st sl p st' sl' succ,
  In (p, Some (st', sl', succ)) (denote (single_rvb_sweep g updates st sl)) ->
  count_ops sl' = count_ops sl /\ length sl' = length sl /\ length st' = length st.
Proof. exact rvb_sweep_count_unchanged. Qed.
Print Assumptions C03_sweep_count_unchanged.

Theorem C03_sweep_count_unchanged_on_tape : forall g updates st sl tape st' sl' succ rest,
  run_tape (single_rvb_sweep g updates st sl) tape = RDone (Some (st', sl', succ)) rest ->
  count_ops sl' = count_ops sl /\ length sl' = length sl /\ length st' = length st.
Proof. exact rvb_sweep_count_unchanged_on_tape. Qed.
Print Assumptions C03_sweep_count_unchanged_on_tape.

(* non-vacuity: a sweep recorded from the real sampler (two spins, opposite-sign double edge, h = 1):
   the model accepts the region and rotates the diagonal operator onto the other edge *)
Example C03_ex_model_runs :
  let g := mkIsing [(0, 1, Qmake (-1) 2); (1, 0, Qmake 1 4)]%nat (Qmake 1 2) (Qmake 1 1) 2%nat in
  run_tape (single_rvb_sweep g (Some 1%nat) [true; true]
              [None; Some (mkOp [0; 1]%nat 0%nat [true; true] [true; true] false)])
           [W64 1655999432815776198; W64 11776152845406309638; W64 3409793048657096142;
            W64 16242415005418283830; W64 7015378918463526744; W64 5530627976877952907]
  = RDone (Some ([false; true], [None; Some (mkOp [1; 0]%nat 1%nat [true; false] [true; false] false)], 1%nat)) [].
Proof. vm_compute. reflexivity. Qed.
