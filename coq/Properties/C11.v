(* C11 — the container's bookkeeping agrees with its contents.
   The specification side: what "scanning the slots directly" yields (Model/Nav.v) is a coherent
   navigation interface; the implementation's private link fields are compared with it after
   every mutation by the correspondence check (Check/C11.v). *)
From Coq Require Import List Bool Arith Sorted.
From QmcV Require Import Model.Sse Model.Nav Proofs.NavProofs.
Import ListNotations.

Theorem C11_occupied_exact : forall (sl : slots) p, In p (occupied sl) <-> exists o, get_op sl p = Some o.
Proof. exact occupied_spec. Qed.
Print Assumptions C11_occupied_exact.

Theorem C11_occupied_in_time_order : forall sl : slots, StronglySorted lt (occupied sl).
Proof. exact occupied_sorted. Qed.
Print Assumptions C11_occupied_in_time_order.

Theorem C11_count_is_number_of_occupied : forall sl : slots, count_ops sl = length (occupied sl).
Proof. exact count_is_occupied. Qed.
Print Assumptions C11_count_is_number_of_occupied.

Theorem C11_first_is_minimum : forall (sl : slots) p,
  first_p sl = Some p -> In p (occupied sl) /\ forall q, In q (occupied sl) -> p <= q.
Proof. exact first_p_min. Qed.
Print Assumptions C11_first_is_minimum.

Theorem C11_last_is_maximum : forall (sl : slots) p,
  last_p sl = Some p -> In p (occupied sl) /\ forall q, In q (occupied sl) -> q <= p.
Proof. exact last_p_max. Qed.
Print Assumptions C11_last_is_maximum.

Theorem C11_bond_counts_add_up : forall nb (sl : slots),
  (forall o, In (Some o) sl -> o_bond o < nb) -> sum_counts nb sl = count_ops sl.
Proof. exact bond_counts_total. Qed.
Print Assumptions C11_bond_counts_add_up.

Theorem C11_var_has_ops_exact : forall (sl : slots) v,
  var_has_ops sl v = true <-> exists o, In (Some o) sl /\ In v (o_vars o).
Proof. exact var_has_ops_spec. Qed.
Print Assumptions C11_var_has_ops_exact.

(* ------------------------------------------------------------------------------------------- *)
(* Refinement: the optimised container's linked structure, transcribed branch by branch from
   FastOps::mutate_p (Model/FastOps.v: quick install / unlink / relink / cursor advance), always
   equals the structure a scan of its contents yields. *)
From QmcV Require Import Model.FastOps Proofs.FastOpsProofs.

(* one mutation: started from the scan-derived structure and cursor, [mutate_p] ends in the
   scan-derived structure and cursor of the updated slots — for every string, position, decision
   (no-op, removal, same-variable replace, different-variable replace, insertion) *)
Theorem C11_mutate_p_refines : forall nvars nb sl p dec,
  p < length sl -> wf_decision nvars nb dec -> wf_slots nvars nb sl ->
  mutate_p (build nvars nb sl) p dec (scan_cursor nvars sl p)
  = (build nvars nb (apply_dec sl p dec), scan_cursor nvars (apply_dec sl p dec) (S p)).
Proof. exact mutate_p_refines. Qed.
Print Assumptions C11_mutate_p_refines.

(* any run of consecutive mutations with any decisions: every reachable structure is the scan of
   its own contents (first/last, per-variable ends, all predecessor/successor links, n, counters) *)
Theorem C11_sweep_invariant : forall nvars nb decs sl a,
  a + length decs <= length sl -> Forall (wf_decision nvars nb) decs -> wf_slots nvars nb sl ->
  let F := fst (FastOps.sweep (build nvars nb sl) (scan_cursor nvars sl a) a decs) in
  contents F = apply_decs sl a decs /\ F = build nvars nb (contents F).
Proof. exact sweep_invariant. Qed.
Print Assumptions C11_sweep_invariant.

(* construction and cutoff growth establish / preserve the invariant *)
Theorem C11_new_container_is_scan : forall nvars nb, new_fops nvars nb = build nvars nb [].
Proof. exact new_fops_is_build. Qed.
Print Assumptions C11_new_container_is_scan.

Theorem C11_cutoff_growth_refines : forall nv nb sl pend,
  resize_ops (build nv nb sl) pend = build nv nb (sl ++ repeat None (pend - length sl)).
Proof. exact resize_refines. Qed.
Print Assumptions C11_cutoff_growth_refines.

(* the cursor / node agreement that mutate_p double-checks with debug assertions *)
Theorem C11_cursor_matches_node : forall nv nb sl p old, wf_slots nv nb sl -> nth_error sl p = Some (Some old) ->
  let a := scan_cursor nv sl p in let nd := build_node sl p old in
  a_last_p a = n_prev nd /\ forall relv v, nth_error (o_vars old) relv = Some v ->
    nth v (a_last a) None = nth relv (n_prev_v nd) None.
Proof. exact cursor_matches_node. Qed.
Print Assumptions C11_cursor_matches_node.
