(* C11 — the container's bookkeeping agrees with its contents.
   The specification side: what "scanning the slots directly" yields (Model/Nav.v) is a coherent
   navigation interface; the implementation's private link fields are compared with it after
   every mutation by the correspondence check (Check/C11.v). *)
From Coq Require Import List Bool Arith Sorted.
From QmcV Require Import Model.Sse Model.Nav Proofs.NavProofs.
Import ListNotations.

Theorem C11_occupied_exact : forall (sl : slots) p, In p (occupied sl) <-> exists o, get_op sl p = Some o.
Proof. exact occupied_spec. Qed.
Print Assumptions C11_occupied_exact.

Theorem C11_occupied_in_time_order : forall sl : slots, StronglySorted lt (occupied sl).
Proof. exact occupied_sorted. Qed.
Print Assumptions C11_occupied_in_time_order.

Theorem C11_count_is_number_of_occupied : forall sl : slots, count_ops sl = length (occupied sl).
Proof. exact count_is_occupied. Qed.
Print Assumptions C11_count_is_number_of_occupied.

Theorem C11_first_is_minimum : forall (sl : slots) p,
  first_p sl = Some p -> In p (occupied sl) /\ forall q, In q (occupied sl) -> p <= q.
Proof. exact first_p_min. Qed.
Print Assumptions C11_first_is_minimum.

Theorem C11_last_is_maximum : forall (sl : slots) p,
  last_p sl = Some p -> In p (occupied sl) /\ forall q, In q (occupied sl) -> q <= p.
Proof. exact last_p_max. Qed.
Print Assumptions C11_last_is_maximum.

Theorem C11_bond_counts_add_up : forall nb (sl : slots),
  (forall o, In (Some o) sl -> o_bond o < nb) -> sum_counts nb sl = count_ops sl.
Proof. exact bond_counts_total. Qed.
Print Assumptions C11_bond_counts_add_up.

Theorem C11_var_has_ops_exact : forall (sl : slots) v,
  var_has_ops sl v = true <-> exists o, In (Some o) sl /\ In v (o_vars o).
Proof. exact var_has_ops_spec. Qed.
Print Assumptions C11_var_has_ops_exact.
