(* C11 — the container's bookkeeping agrees with its contents.
   The specification side: what "scanning the slots directly" yields (Model/Nav.v) is a coherent
   navigation interface; the implementation's private link fields are compared with it after
   every mutation by the correspondence check (Check/C11.v). *)
From Coq Require Import List Bool Arith Sorted.
From QmcV Require Import Model.Sse Model.Nav Proofs.NavProofs.
Import ListNotations.

Theorem C11_occupied_exact : forall (sl : slots) p, In p (occupied sl) <-> exists o, get_op sl p = Some o.
Proof. exact occupied_spec. Qed.
Print Assumptions C11_occupied_exact.

Theorem C11_occupied_in_time_order : forall sl : slots, StronglySorted lt (occupied sl).
Proof. exact occupied_sorted. Qed.
Print Assumptions C11_occupied_in_time_order.

Theorem C11_count_is_number_of_occupied : forall sl : slots, count_ops sl = length (occupied sl).
Proof. exact count_is_occupied. Qed.
Print Assumptions C11_count_is_number_of_occupied.

Theorem C11_first_is_minimum : forall (sl : slots) p,
  first_p sl = Some p -> In p (occupied sl) /\ forall q, In q (occupied sl) -> p <= q.
Proof. exact first_p_min. Qed.
Print Assumptions C11_first_is_minimum.

Theorem C11_last_is_maximum : forall (sl : slots) p,
  last_p sl = Some p -> In p (occupied sl) /\ forall q, In q (occupied sl) -> q <= p.
Proof. exact last_p_max. Qed.
Print Assumptions C11_last_is_maximum.

Theorem C11_bond_counts_add_up : forall nb (sl : slots),
  (forall o, In (Some o) sl -> o_bond o < nb) -> sum_counts nb sl = count_ops sl.
Proof. exact bond_counts_total. Qed.
Print Assumptions C11_bond_counts_add_up.

Theorem C11_var_has_ops_exact : forall (sl : slots) v,
  var_has_ops sl v = true <-> exists o, In (Some o) sl /\ In v (o_vars o).
Proof. exact var_has_ops_spec. Qed.
Print Assumptions C11_var_has_ops_exact.

(* ------------------------------------------------------------------------------------------- *)
(* Refinement: the optimised container's linked structure, transcribed branch by branch from
   FastOps::mutate_p (Model/FastOps.v: quick install / unlink / relink / cursor advance), always
   equals the structure a scan of its contents yields. *)
From QmcV Require Import Model.FastOps Proofs.FastOpsProofs.

(* one mutation: started from the scan-derived structure and cursor, [mutate_p] ends in the
   scan-derived structure and cursor of the updated slots — for every string, position, decision
   (no-op, removal, same-variable replace, different-variable replace, insertion) *)
Theorem C11_mutate_p_refines : forall nvars nb sl p dec,
  p < length sl -> wf_decision nvars nb dec -> wf_slots nvars nb sl ->
  mutate_p (build nvars nb sl) p dec (scan_cursor nvars sl p)
  = (build nvars nb (apply_dec sl p dec), scan_cursor nvars (apply_dec sl p dec) (S p)).
Proof. exact mutate_p_refines. Qed.
Print Assumptions C11_mutate_p_refines.

(* any run of consecutive mutations with any decisions: every reachable structure is the scan of
   its own contents (first/last, per-variable ends, all predecessor/successor links, n, counters) *)
Theorem C11_sweep_invariant : forall nvars nb decs sl a,
  a + length decs <= length sl -> Forall (wf_decision nvars nb) decs -> wf_slots nvars nb sl ->
  let F := fst (FastOps.sweep (build nvars nb sl) (scan_cursor nvars sl a) a decs) in
  contents F = apply_decs sl a decs /\ F = build nvars nb (contents F).
Proof. exact sweep_invariant. Qed.
Print Assumptions C11_sweep_invariant.

(* construction and cutoff growth establish / preserve the invariant *)
Theorem C11_new_container_is_scan : forall nvars nb, new_fops nvars nb = build nvars nb [].
Proof. exact new_fops_is_build. Qed.
Print Assumptions C11_new_container_is_scan.

Theorem C11_cutoff_growth_refines : forall nv nb sl pend,
  resize_ops (build nv nb sl) pend = build nv nb (sl ++ repeat None (pend - length sl)).
Proof. exact resize_refines. Qed.
Print Assumptions C11_cutoff_growth_refines.

(* the cursor / node agreement that mutate_p double-checks with debug assertions *)
Theorem C11_cursor_matches_node : forall nv nb sl p old, wf_slots nv nb sl -> nth_error sl p = Some (Some old) ->
  let a := scan_cursor nv sl p in let nd := build_node sl p old in
  a_last_p a = n_prev nd /\ forall relv v, nth_error (o_vars old) relv = Some v ->
    nth v (a_last a) None = nth relv (n_prev_v nd) None.
Proof. exact cursor_matches_node. Qed.
Print Assumptions C11_cursor_matches_node.

(* ------------------------------------------------------------------------------------------- *)
(* Navigation: algorithms written against the link interface see exactly what a scan sees.
   (Model/FastOpsNav.v transcribes the getters, the world-line walks and fill_args_at_p.) *)
From QmcV Require Import Model.FastOpsNav Proofs.FastOpsNavProofs.

(* following the per-variable successor links from the per-variable head enumerates exactly the
   operators on that variable, in imaginary-time order, for every string *)
Theorem C11_world_line_walk_is_scan : forall nv nb sl v, v < nv ->
  walk_var (build nv nb sl) v = ops_on_var sl v.
Proof. exact walk_var_is_scan. Qed.
Print Assumptions C11_world_line_walk_is_scan.

(* following next_p from the first position enumerates exactly the occupied slots *)
Theorem C11_global_walk_is_scan : forall nv nb sl, walk_p (build nv nb sl) = occupied sl.
Proof. exact walk_p_is_scan. Qed.
Print Assumptions C11_global_walk_is_scan.

(* RvbUpdater::constant_ops_on_var on the linked structure = the constant operators a scan finds *)
Theorem C11_constant_ops_on_var_is_scan : forall nv nb sl v, v < nv ->
  constant_ops_on_var (build nv nb sl) v
  = flat_map (fun '(p, _) => match get_op sl p with
                             | Some o => if o_const o then [p] else []
                             | None => []
                             end) (ops_on_var sl v).
Proof. exact constant_ops_on_var_is_scan. Qed.
Print Assumptions C11_constant_ops_on_var_is_scan.

Theorem C11_does_var_have_ops_is_scan : forall nv nb sl v, v < nv ->
  does_var_have_ops (build nv nb sl) v = var_has_ops sl v.
Proof. exact does_var_have_ops_is_scan. Qed.
Print Assumptions C11_does_var_have_ops_is_scan.

(* the cursor construction fill_args_at_p (backward walk over the links with its early exit on the
   "unfilled" counter) builds exactly the cursor a scan yields, at every position of every well-formed
   string — with no side condition since fix 5d805dc (see C11_fill_args_zero_variable_case below) *)
From QmcV Require Import Proofs.FillArgsProofs.

Theorem C11_fill_args_at_p_is_scan_cursor : forall nv nb sl p,
  wf_slots nv nb sl -> p < length sl ->
  fill_args_at_p (build nv nb sl) p = scan_cursor nv sl p.
Proof. exact fill_args_refines. Qed.
Print Assumptions C11_fill_args_at_p_is_scan_cursor.

(* hence mutate_subsection(pstart, pend, f, None) as a whole — grow, build the cursor, fold mutate_p —
   ends in the structure a scan of the updated slots yields *)
Theorem C11_mutate_subsection_refines : forall nv nb sl pstart decs,
  wf_slots nv nb sl -> Forall (wf_decision nv nb) decs ->
  0 < length decs ->
  mutate_subsection (build nv nb sl) pstart decs
  = build nv nb (apply_decs (sl ++ repeat None (pstart + length decs - length sl)) pstart decs).
Proof. exact mutate_subsection_refines. Qed.
Print Assumptions C11_mutate_subsection_refines.

(* history of a genuine defect: before fix 5d805dc the `unfilled == 0` shortcut returned last_p = None although
   operators preceded p whenever no selected variable carried operators (sub-variable cursors on idle variables;
   with SubvarAccess::All: only zero-variable operators stored).  The former refutation witness — one
   zero-variable operator at slot 0, cursor at p = 1 — now agrees with the scan *)
Theorem C11_fill_args_zero_variable_case :
  let sl := [Some (mkOp [] 0 [] [] false); None] in
  wf_slots 1 None sl /\ fill_args_at_p (build 1 None sl) 1 = scan_cursor 1 sl 1
  /\ a_last_p (fill_args_at_p (build 1 None sl) 1) = Some 0.
Proof.
  cbv zeta. split; [|split; vm_compute; reflexivity].
  intros q o Hq. destruct q as [|[|q]]; cbn in Hq; try discriminate.
  - inversion Hq; subst. repeat split; [constructor|intros v []].
  - destruct q; discriminate.
Qed.
Print Assumptions C11_fill_args_zero_variable_case.

(* non-vacuity: a string with a two-variable operator between single-site ones *)
Example C11_ex_walk :
  let sl := [Some (mkOp [1] 3 [true] [false] true); None; Some (mkOp [0; 1] 0 [true; false] [true; false] false);
             Some (mkOp [1] 3 [false] [true] true)] in
  walk_var (build 2 None sl) 1 = [(0, 0); (2, 1); (3, 0)] /\ walk_p (build 2 None sl) = [0; 2; 3]
  /\ fill_args_at_p (build 2 None sl) 3 = scan_cursor 2 sl 3.
Proof. vm_compute. repeat split; reflexivity. Qed.
