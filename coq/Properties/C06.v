(* C06 — the operator string stays a consistent periodic world-line configuration. *)
From Coq Require Import List QArith ZArith NArith Bool Arith.
From QmcV Require Import Model.Prog Model.Sse Model.Nav Model.Diagonal Model.Cluster Model.ClusterValid Model.Tempering
     Proofs.DiagonalProofs Proofs.WorldLine Proofs.ClusterFlipProofs.
Import ListNotations.
Local Open Scope nat_scope.

(* both diagonal-update variants obey the structural slot specification ... *)
Theorem C06_metropolis_slot_spec : forall H L n beta, slot_spec H (met_slot H L n beta).
Proof. exact met_slot_spec. Qed.
Print Assumptions C06_metropolis_slot_spec.

Theorem C06_heatbath_slot_spec : forall H L n beta, slot_spec H (hb_slot H (bond_weights H) L n beta).
Proof. exact hb_slot_spec. Qed.
Print Assumptions C06_heatbath_slot_spec.

(* ... and any such update maps a consistent periodic configuration to a consistent periodic
   configuration with the same p = 0 state, for every cutoff, string, state and outcome *)
Theorem C06_diagonal_update_keeps_worldline : forall H (slotf : nat -> nat -> state -> option op -> prog (option op * state)) L st sl,
  (forall L n, slot_spec H (slotf L n)) ->
  length sl <= L ->
  wf st sl = true ->
  forall p sl' n' st', In (p, (sl', n', st')) (denote (diagonal_update slotf L st sl)) ->
    wf st sl' = true /\ st' = st.
Proof. exact diagonal_update_wf. Qed.
Print Assumptions C06_diagonal_update_keeps_worldline.

(* the free-spin refresh only touches spins no operator acts on *)
Theorem C06_refresh_keeps_worldline : forall sl st p st',
  wf st sl = true -> In (p, st') (denote (refresh sl st)) -> wf st' sl = true.
Proof. exact refresh_wf. Qed.
Print Assumptions C06_refresh_keeps_worldline.

(* cutoff growth / ladder-maximum padding appends identities only *)
Theorem C06_padding_keeps_worldline : forall st sl L, wf st (pad L sl) = wf st sl.
Proof. exact wf_pad. Qed.
Print Assumptions C06_padding_keeps_worldline.

(* a replica swap exchanges (state, string) as a unit *)
Theorem C06_swap_keeps_worldline : forall a b,
  wf (rp_state a) (rp_slots a) = true -> wf (rp_state b) (rp_slots b) = true ->
  let '(a', b') := swap_replicas a b in
  wf (rp_state a') (rp_slots a') = true /\ wf (rp_state b') (rp_slots b') = true.
Proof. exact swap_keeps_wf. Qed.
Print Assumptions C06_swap_keeps_worldline.

(* the imaginary-time fold visits exactly the propagated states, one per slot *)
Theorem C06_itime_fold_states : forall sl st,
  itime_states st sl = map (fun p => propagate st (firstn p sl)) (seq 0 (length sl)).
Proof. exact itime_states_spec. Qed.
Print Assumptions C06_itime_fold_states.

Theorem C06_itime_fold_one_per_slot : forall st sl, length (itime_states st sl) = length sl.
Proof. exact itime_states_length. Qed.
Print Assumptions C06_itime_fold_one_per_slot.

(* the cluster flip, for every validated labelling and every flip outcome *)
Theorem C06_cluster_flip_keeps_worldline : forall sl st b flips,
  vars_in_range (length st) sl = true -> links_ok sl b = true -> wf st sl = true ->
  let '(sl', st') := apply_flips sl st b flips in wf st' sl' = true.
Proof. exact cluster_flip_wf. Qed.
Print Assumptions C06_cluster_flip_keeps_worldline.

(* ------------------------------------------------------------------------------------------- *)
(* The directed-loop update (Model/Loop.v: any Hamiltonian, any arity, loop start chosen as the code
   does) closes into a consistent periodic world line, for EVERY start and EVERY sequence of exit
   choices (not only those of positive probability).  Invariant (Proofs/LoopWorldLine.v): the
   configuration with the loop's current entrance leg and its initial leg toggled is consistent; a
   vertex visit toggles both ends of one world-line segment of it (and the p = 0 value when the segment
   crosses the time boundary). *)
From QmcV Require Import Model.Loop Proofs.ProgSafety Proofs.LoopWorldLine.

Theorem C06_loop_update_keeps_worldline : forall H fuel (sl : slots) (st : state),
  ops_wellformed (length st) sl = true -> wf st sl = true ->
  all_out_r good (loop_update fuel H sl st).
Proof. exact loop_update_wf. Qed.
Print Assumptions C06_loop_update_keeps_worldline.

Theorem C06_loop_update_keeps_worldline_outcomes : forall H fuel sl st p sl' st',
  ops_wellformed (length st) sl = true -> wf st sl = true ->
  In (p, Some (sl', st')) (denote (loop_update fuel H sl st)) -> wf st' sl' = true.
Proof. exact loop_update_keeps_worldline. Qed.
Print Assumptions C06_loop_update_keeps_worldline_outcomes.

(* both ends of one world-line segment toggled: consistency is kept (the step the loop is made of) *)
Theorem C06_segment_flip_keeps_worldline : forall (st : state) sl p a ka v q kq,
  swf (length st) sl -> wf st sl = true -> get_op sl p = Some a -> nth_error (o_vars a) ka = Some v ->
  next_for_var sl p v = Some (q, kq) ->
  wf st (T (T sl p (ka, Outputs)) q (kq, Inputs)) = true.
Proof. exact seg_fwd_inner. Qed.
Print Assumptions C06_segment_flip_keeps_worldline.

Theorem C06_segment_flip_across_time_boundary : forall (st : state) sl p a ka v q kq,
  swf (length st) sl -> wf st sl = true -> get_op sl p = Some a -> nth_error (o_vars a) ka = Some v ->
  next_for_var sl p v = None -> first_for_var sl v = Some (q, kq) ->
  wf (xorv st v) (T (T sl p (ka, Outputs)) q (kq, Inputs)) = true.
Proof. exact seg_fwd_wrap. Qed.
Print Assumptions C06_segment_flip_across_time_boundary.

(* non-vacuity: a consistent two-spin string with an exchange vertex satisfies the premises *)
Example C06_ex_loop_premises :
  let sl := [Some (mkOp [0; 1] 0 [true; false] [false; true] false); None;
             Some (mkOp [0; 1] 0 [false; true] [true; false] false)] in
  ops_wellformed 2 sl = true /\ wf [true; false] sl = true.
Proof. vm_compute. split; reflexivity. Qed.

(* the cluster flip with the labelling the decomposition ACTUALLY returns — no validator hypothesis: the
   decomposition is proved to return only validated labellings (Proofs/DecomposeProofs.v) *)
From QmcV Require Import Proofs.DecomposeProofs.
Theorem C06_cluster_update_keeps_worldline : forall sl st b n flips,
  decompose sl = Some (b, n) -> vars_in_range (length st) sl = true -> wf st sl = true ->
  let '(sl', st') := apply_flips sl st b flips in wf st' sl' = true.
Proof. exact decomposed_flip_wf. Qed.
Print Assumptions C06_cluster_update_keeps_worldline.
