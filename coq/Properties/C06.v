(* C06 — the operator string stays a consistent periodic world-line configuration. *)
From Coq Require Import List QArith ZArith NArith Bool Arith.
From QmcV Require Import Model.Prog Model.Sse Model.Nav Model.Diagonal Model.Cluster Model.ClusterValid Model.Tempering
     Proofs.DiagonalProofs Proofs.WorldLine Proofs.ClusterFlipProofs.
Import ListNotations.
Local Open Scope nat_scope.

(* both diagonal-update variants obey the structural slot specification ... *)
Theorem C06_metropolis_slot_spec : forall H L n beta, slot_spec H (met_slot H L n beta).
Proof. exact met_slot_spec. Qed.
Print Assumptions C06_metropolis_slot_spec.

Theorem C06_heatbath_slot_spec : forall H L n beta, slot_spec H (hb_slot H (bond_weights H) L n beta).
Proof. exact hb_slot_spec. Qed.
Print Assumptions C06_heatbath_slot_spec.

(* ... and any such update maps a consistent periodic configuration to a consistent periodic
   configuration with the same p = 0 state, for every cutoff, string, state and outcome *)
Theorem C06_diagonal_update_keeps_worldline : forall H (slotf : nat -> nat -> state -> option op -> prog (option op * state)) L st sl,
  (forall L n, slot_spec H (slotf L n)) ->
  length sl <= L ->
  wf st sl = true ->
  forall p sl' n' st', In (p, (sl', n', st')) (denote (diagonal_update slotf L st sl)) ->
    wf st sl' = true /\ st' = st.
Proof. exact diagonal_update_wf. Qed.
Print Assumptions C06_diagonal_update_keeps_worldline.

(* the free-spin refresh only touches spins no operator acts on *)
Theorem C06_refresh_keeps_worldline : forall sl st p st',
  wf st sl = true -> In (p, st') (denote (refresh sl st)) -> wf st' sl = true.
Proof. exact refresh_wf. Qed.
Print Assumptions C06_refresh_keeps_worldline.

(* cutoff growth / ladder-maximum padding appends identities only *)
Theorem C06_padding_keeps_worldline : forall st sl L, wf st (pad L sl) = wf st sl.
Proof. exact wf_pad. Qed.
Print Assumptions C06_padding_keeps_worldline.

(* a replica swap exchanges (state, string) as a unit *)
Theorem C06_swap_keeps_worldline : forall a b,
  wf (rp_state a) (rp_slots a) = true -> wf (rp_state b) (rp_slots b) = true ->
  let '(a', b') := swap_replicas a b in
  wf (rp_state a') (rp_slots a') = true /\ wf (rp_state b') (rp_slots b') = true.
Proof. exact swap_keeps_wf. Qed.
Print Assumptions C06_swap_keeps_worldline.

(* the imaginary-time fold visits exactly the propagated states, one per slot *)
Theorem C06_itime_fold_states : forall sl st,
  itime_states st sl = map (fun p => propagate st (firstn p sl)) (seq 0 (length sl)).
Proof. exact itime_states_spec. Qed.
Print Assumptions C06_itime_fold_states.

Theorem C06_itime_fold_one_per_slot : forall st sl, length (itime_states st sl) = length sl.
Proof. exact itime_states_length. Qed.
Print Assumptions C06_itime_fold_one_per_slot.

(* the cluster flip, for every validated labelling and every flip outcome *)
Theorem C06_cluster_flip_keeps_worldline : forall sl st b flips,
  vars_in_range (length st) sl = true -> links_ok sl b = true -> wf st sl = true ->
  let '(sl', st') := apply_flips sl st b flips in wf st' sl' = true.
Proof. exact cluster_flip_wf. Qed.
Print Assumptions C06_cluster_flip_keeps_worldline.
