(* C19 — the classical sampler has the Boltzmann distribution as stationary law. *)
From Coq Require Import List QArith ZArith NArith Bool Arith Reals.
From QmcV Require Import Model.Prog Model.Sse Model.Classical Proofs.ClassicalProofs Proofs.BoltzmannR Proofs.ProgSafety Proofs.WormProofs.
Import ListNotations.

(* the energy change computed by the single-spin move is exactly E(after) - E(before), for every
   graph (multi-edges, any couplings and biases) and state *)
Theorem C19_delta_spin_exact : forall g s i,
  (i < length s)%nat -> no_self_loops g ->
  (energy g (flip s i) - energy g s == delta_spin g s i)%Q.
Proof. exact delta_spin_exact. Qed.
Print Assumptions C19_delta_spin_exact.

(* likewise for the edge move, which leaves out all parallel bonds between the two spins *)
Theorem C19_delta_edge_exact : forall g s a b,
  (a < length s)%nat -> (b < length s)%nat -> a <> b -> no_self_loops g ->
  (energy g (flip (flip s a) b) - energy g s == delta_edge g s a b)%Q.
Proof. exact delta_edge_exact. Qed.
Print Assumptions C19_delta_edge_exact.

(* which spin / edge is proposed does not depend on the state (uniform, or proportional to |J|) *)
Theorem C19_spin_selection_state_independent : forall acc g beta s,
  exists f, spin_move acc g beta s = Unif (N.of_nat (length s)) f.
Proof. exact spin_move_selection. Qed.
Print Assumptions C19_spin_selection_state_independent.

Theorem C19_edge_selection_uniform : forall acc g beta s,
  exists f, edge_move acc g false beta s = Unif (N.of_nat (length (c_edges g))) f.
Proof. exact edge_move_selection_uniform. Qed.
Print Assumptions C19_edge_selection_uniform.

Theorem C19_edge_selection_importance : forall acc g beta s,
  exists f, edge_move acc g true beta s = Choose (map (fun '(_, _, j) => Qabsq j) (c_edges g)) f.
Proof. exact edge_move_selection_importance. Qed.
Print Assumptions C19_edge_selection_importance.

(* moves are their own inverse and never change the number of spins *)
Theorem C19_flip_involutive : forall s i, (i < length s)%nat -> flip (flip s i) i = s.
Proof. exact flip_involutive. Qed.
Print Assumptions C19_flip_involutive.

Theorem C19_spin_count_constant : forall s i, length (flip s i) = length s.
Proof. exact flip_length. Qed.
Print Assumptions C19_spin_count_constant.

(* Metropolis acceptance min(1, exp(-beta dE)) on a direction-independent proposal probability q
   satisfies detailed balance w.r.t. exp(-beta E): hence Boltzmann stationarity of each move *)
Theorem C19_move_detailed_balance : forall beta q E E' : R,
  (exp (- (beta * E)) * (q * Rmin 1 (exp (- (beta * (E' - E)))))
   = exp (- (beta * E')) * (q * Rmin 1 (exp (- (beta * (E - E'))))))%R.
Proof. exact move_balance_R. Qed.
Print Assumptions C19_move_detailed_balance.

(* ---------------- the worm move: the property's full statement is FALSE of the faithful model ----------------
   (known finding "worm"; the transcription of do_worm_flip is replayed on the raw tape by check C19) *)
Theorem C19_worm_refuted :
  exists (g : cgraph) (s s' : state),
    (energy g s < energy g s')%Q
    /\ forall acc beta, (mass (fun x => bools_eqb x s') (denote (worm_move acc g beta s)) == 1)%Q.
Proof. exact worm_refuted. Qed.
Print Assumptions C19_worm_refuted.

(* ... and a kernel reversible w.r.t. exp(-beta E) cannot move to a higher energy with probability 1 *)
Theorem C19_reversible_cannot_go_uphill_surely : forall beta E E' p : R,
  (0 < beta)%R -> (E < E')%R -> (0 <= p <= 1)%R ->
  (exp (- (beta * E)) * 1 <> exp (- (beta * E')) * p)%R.
Proof. exact reversible_cannot_go_uphill_surely. Qed.
Print Assumptions C19_reversible_cannot_go_uphill_surely.

(* what the worm move does keep, for every sequence of draws: the number of spins *)
Theorem C19_worm_keeps_spin_count : forall acc g beta s,
  all_out (fun s' => length s' = length s) (worm_move acc g beta s).
Proof. exact worm_keeps_spin_count. Qed.
Print Assumptions C19_worm_keeps_spin_count.

Example C19_ex_triangle :
  let g := mkCGraph [(0%nat, 1%nat, 1%Q); (1%nat, 2%nat, 1%Q); (2%nat, 0%nat, 1%Q); (0%nat, 1%nat, (-(1 # 2))%Q)] [(1 # 4)%Q; 0%Q; (-(1 # 2))%Q] in
  (energy g [true; false; true] == energy_coded g [true; false; true])%Q
  /\ (energy g (flip [true; false; true] 1) - energy g [true; false; true] == delta_spin g [true; false; true] 1)%Q.
Proof. vm_compute. split; reflexivity. Qed.
