(* C07 — only legal Hamiltonian terms with positive weight are ever stored. *)
From Coq Require Import List QArith ZArith NArith Bool Arith.
From QmcV Require Import Model.Prog Model.Sse Model.Nav Model.Diagonal Model.Cluster
     Proofs.ProgLemmas Proofs.DiagonalProofs Proofs.WorldLine Proofs.ClusterProofs.
Import ListNotations.

(* structural legality (valid bond index, exactly that bond's variables in order, constant flag,
   arities) is preserved by any diagonal sweep obeying the slot specification *)
Theorem C07_sweep_structural_legality : forall H (slotf : nat -> state -> option op -> prog (option op * state)),
  (forall n, slot_spec H (slotf n)) ->
  forall sl n st p sl' n' st',
    all_struct_legal H sl = true ->
    In (p, (sl', n', st')) (denote (sweep slotf n st sl)) ->
    all_struct_legal H sl' = true.
Proof. exact sweep_struct_legal. Qed.
Print Assumptions C07_sweep_structural_legality.

Theorem C07_inserted_ops_are_legal_terms : forall H b st, (b < h_nbonds H)%nat -> op_struct_legal H (mk_diag H b st) = true.
Proof. exact mk_diag_struct_legal. Qed.
Print Assumptions C07_inserted_ops_are_legal_terms.

(* positivity: an operator of weight 0 is inserted with probability exactly 0, in both variants
   (this is what keeps the zero-weight value of each longitudinal-field term out of the string) *)
Theorem C07_zero_weight_never_inserted_metropolis : forall H L n beta st b,
  (b < h_nbonds H)%nat -> (n < L)%nat -> (diag_weight H b st == 0)%Q ->
  (mass (is_slot (Some (mk_diag H b st))) (denote (met_slot H L n beta st None)) == 0)%Q.
Proof. exact met_zero_weight_never_inserted. Qed.
Print Assumptions C07_zero_weight_never_inserted_metropolis.

Theorem C07_zero_weight_never_inserted_heatbath : forall H L n beta st b,
  (b < h_nbonds H)%nat -> (0 < max_weight H b)%Q -> (diag_weight H b st == 0)%Q ->
  (mass (is_slot (Some (mk_diag H b st))) (denote (hb_slot H (bond_weights H) L n beta st None)) == 0)%Q.
Proof. exact hb_zero_weight_never_inserted. Qed.
Print Assumptions C07_zero_weight_never_inserted_heatbath.

(* updates that only flip spins never change which bonds sit at which imaginary-time positions *)
Theorem C07_spin_flips_keep_bond_positions : forall sl st b flips, skeleton (fst (apply_flips sl st b flips)) = skeleton sl.
Proof. exact apply_flips_skeleton. Qed.
Print Assumptions C07_spin_flips_keep_bond_positions.

(* ---- spin-flip updates keep positivity / legality ---- *)
From QmcV Require Import Model.ClusterValid Model.Loop Model.Ham Proofs.ClusterFlipProofs Proofs.LegalityProofs.

(* a directed-loop update started from a string of positive-weight operators stores an operator
   of non-positive weight with probability exactly 0 (any Hamiltonian with non-negative weights,
   any start, any fuel) *)
Theorem C07_loop_never_stores_nonpositive : forall (H : ham) fuel sl st,
  nonneg_ham H -> all_positive H sl = true ->
  (mass (bad H) (denote (loop_update fuel H sl st)) == 0)%Q.
Proof. exact loop_update_positive. Qed.
Print Assumptions C07_loop_never_stores_nonpositive.

Theorem C07_generic_weights_nonneg : forall bonds : list interaction,
  (forall i, In i bonds -> Forall (fun q => 0 <= q)%Q (it_mat i)) -> nonneg_ham (qmc_ham bonds).
Proof. exact qmc_ham_nonneg. Qed.
Print Assumptions C07_generic_weights_nonneg.

(* a cluster flip (validated labelling, symmetric non-edge operators or unflipped clusters) keeps
   every stored operator legal: bond, variables, constant flag, arities and strictly positive weight *)
Theorem C07_cluster_flip_keeps_legality : forall H sl st b flips,
  sides_ok sl b = true -> weight_hyp H flips sl b -> all_legal H sl = true ->
  all_legal H (fst (apply_flips sl st b flips)) = true.
Proof. exact cluster_flip_legal. Qed.
Print Assumptions C07_cluster_flip_keeps_legality.

(* with the labelling the decomposition ACTUALLY returns (proved to satisfy the validators, Proofs/DecomposeProofs.v):
   the cluster update of a flip-symmetric table keeps every stored operator legal, no validator hypothesis *)
From QmcV Require Import Proofs.UnconditionalPipeline.
Theorem C07_cluster_update_keeps_legality : forall H sl st b n flips,
  decompose sl = Some (b, n) ->
  (forall o, In (Some o) sl -> is_edge o = false -> flip_sym H o) ->
  (forall o, In (Some o) sl -> is_edge o = true -> edge_free H o) ->
  all_legal H sl = true ->
  all_legal H (fst (apply_flips sl st b flips)) = true.
Proof. exact decomposed_flip_legal. Qed.
Print Assumptions C07_cluster_update_keeps_legality.
