(* C02 — the heat-bath diagonal update is in balance with the same configuration weight as the
   Metropolis one, for bonds of unequal maximum weight. *)
From Coq Require Import List QArith ZArith NArith Bool Arith.
From QmcV Require Import Model.Prog Model.Sse Model.Diagonal Proofs.ProgLemmas Proofs.DiagonalProofs Proofs.SseWeight.
Import ListNotations.
Open Scope Q_scope.

Theorem C02_heatbath_slot_reversible : forall H beta st sl p b,
  nth_error sl p = Some None -> (b < h_nbonds H)%nat -> 0 < beta -> 0 < diag_weight H b st ->
  let L := length sl in
  let n := count_ops sl in
  let o := mk_diag H b st in
  let bw := bond_weights H in
  let P_ins := mass (is_slot (Some o)) (denote (hb_slot H bw L n beta st None)) in
  let P_rem := mass (is_slot None) (denote (hb_slot H bw L (S n) beta st (Some o))) in
  sse_weight H beta sl * P_ins == sse_weight H beta (set_nth sl p (Some o)) * P_rem.
Proof. exact heatbath_slot_balance_wrt_weight. Qed.
Print Assumptions C02_heatbath_slot_reversible.

(* same ratio as the Metropolis update: P_ins (L-n) = beta w_b P_rem *)
Theorem C02_same_ratio_as_metropolis : forall H L n beta st b,
  (n < L)%nat -> (b < h_nbonds H)%nat -> 0 < beta -> 0 < diag_weight H b st ->
  let bw := bond_weights H in
  let P_ins := mass (is_slot (Some (mk_diag H b st))) (denote (hb_slot H bw L n beta st None)) in
  let P_rem := mass (is_slot None) (denote (hb_slot H bw L (S n) beta st (Some (mk_diag H b st)))) in
  P_ins * Qnat (L - n) == beta * diag_weight H b st * P_rem /\ 0 < P_rem.
Proof. exact heatbath_balance. Qed.
Print Assumptions C02_same_ratio_as_metropolis.

(* the table: one entry per bond, the maximum over ALL 2^k sub-states of the diagonal weight *)
Theorem C02_table_length : forall H, length (bond_weights H) = h_nbonds H.
Proof. exact bond_weights_length. Qed.
Print Assumptions C02_table_length.

Theorem C02_table_entry : forall H b, (b < h_nbonds H)%nat -> nth b (bond_weights H) 0 = max_weight H b.
Proof. exact bond_weights_nth. Qed.
Print Assumptions C02_table_entry.

Theorem C02_weight_le_maxweight : forall H b st, diag_weight H b st <= max_weight H b.
Proof. exact max_weight_dominates. Qed.
Print Assumptions C02_weight_le_maxweight.

Theorem C02_all_substates_scanned : forall k s, length s = k -> In s (all_substates k).
Proof. exact all_substates_complete. Qed.
Print Assumptions C02_all_substates_scanned.

Theorem C02_offdiag_untouched : forall H bw L n beta st o,
  is_diag o = false -> hb_slot H bw L n beta st (Some o) = Ret (Some o, apply_op st o).
Proof. exact hb_offdiag. Qed.
Print Assumptions C02_offdiag_untouched.
