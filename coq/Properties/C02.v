(* C02 — the heat-bath diagonal update is in balance with the same configuration weight as the
   Metropolis one, for bonds of unequal maximum weight. *)
From Coq Require Import List QArith ZArith NArith Bool Arith.
From QmcV Require Import Model.Prog Model.Sse Model.Diagonal Proofs.ProgLemmas Proofs.DiagonalProofs Proofs.SseWeight
     Proofs.WorldLine Proofs.Expect Proofs.SweepStationary Proofs.GroupKernel Proofs.TimestepStationary Model.Ham Check.Common Proofs.ValidatedPipeline.
Import ListNotations.
Open Scope Q_scope.

Theorem C02_heatbath_slot_reversible : forall H beta st sl p b,
  nth_error sl p = Some None -> (b < h_nbonds H)%nat -> 0 < beta -> 0 < diag_weight H b st ->
  let L := length sl in
  let n := count_ops sl in
  let o := mk_diag H b st in
  let bw := bond_weights H in
  let P_ins := mass (is_slot (Some o)) (denote (hb_slot H bw L n beta st None)) in
  let P_rem := mass (is_slot None) (denote (hb_slot H bw L (S n) beta st (Some o))) in
  sse_weight H beta sl * P_ins == sse_weight H beta (set_nth sl p (Some o)) * P_rem.
Proof. exact heatbath_slot_balance_wrt_weight. Qed.
Print Assumptions C02_heatbath_slot_reversible.

(* same ratio as the Metropolis update: P_ins (L-n) = beta w_b P_rem *)
Theorem C02_same_ratio_as_metropolis : forall H L n beta st b,
  (n < L)%nat -> (b < h_nbonds H)%nat -> 0 < beta -> 0 < diag_weight H b st ->
  let bw := bond_weights H in
  let P_ins := mass (is_slot (Some (mk_diag H b st))) (denote (hb_slot H bw L n beta st None)) in
  let P_rem := mass (is_slot None) (denote (hb_slot H bw L (S n) beta st (Some (mk_diag H b st)))) in
  P_ins * Qnat (L - n) == beta * diag_weight H b st * P_rem /\ 0 < P_rem.
Proof. exact heatbath_balance. Qed.
Print Assumptions C02_same_ratio_as_metropolis.

(* the table: one entry per bond, the maximum over ALL 2^k sub-states of the diagonal weight *)
Theorem C02_table_length : forall H, length (bond_weights H) = h_nbonds H.
Proof. exact bond_weights_length. Qed.
Print Assumptions C02_table_length.

Theorem C02_table_entry : forall H b, (b < h_nbonds H)%nat -> nth b (bond_weights H) 0 = max_weight H b.
Proof. exact bond_weights_nth. Qed.
Print Assumptions C02_table_entry.

Theorem C02_weight_le_maxweight : forall H b st, diag_weight H b st <= max_weight H b.
Proof. exact max_weight_dominates. Qed.
Print Assumptions C02_weight_le_maxweight.

Theorem C02_all_substates_scanned : forall k s, length s = k -> In s (all_substates k).
Proof. exact all_substates_complete. Qed.
Print Assumptions C02_all_substates_scanned.

Theorem C02_offdiag_untouched : forall H bw L n beta st o,
  is_diag o = false -> hb_slot H bw L n beta st (Some o) = Ret (Some o, apply_op st o).
Proof. exact hb_offdiag. Qed.
Print Assumptions C02_offdiag_untouched.

(* ---- kernel identification: the whole heat-bath diagonal update (table = maximum over all
   sub-states, unequal maxima included), as a program on complete configurations, leaves the SAME
   SSE weight stationary as the Metropolis update, for every observable f ---- *)
Theorem C02_heatbath_update_stationary : forall H beta L sts,
  0 < beta ->
  forall f : cfg -> Q,
    Qsum (map (fun x => sse_weight H beta (snd x) * expect (update_cfg (hb_update H (bond_weights H) beta) x) f) (canon H sts L))
    == Qsum (map (fun x => sse_weight H beta (snd x) * f x) (canon H sts L)).
Proof. exact heatbath_update_stationary_canon. Qed.
Print Assumptions C02_heatbath_update_stationary.

Theorem C02_heatbath_update_stationary_pointwise : forall H beta L sts y,
  0 < beta -> In y (canon H sts L) ->
  Qsum (map (fun x => sse_weight H beta (snd x)
                      * mass (cfg_eqb y) (denote (update_cfg (hb_update H (bond_weights H) beta) x))) (canon H sts L))
  == sse_weight H beta (snd y).
Proof. exact heatbath_update_stationary_pointwise. Qed.
Print Assumptions C02_heatbath_update_stationary_pointwise.

(* the heat-bath single-slot kernel is in detailed balance with the SSE weight between any two
   consistent legal configurations of length L *)
Theorem C02_slot_kernel_detailed_balance : forall H beta L p x y,
  0 < beta ->
  length (snd x) = L -> length (snd y) = L -> good H x = true -> good H y = true ->
  sse_weight H beta (snd x) * mass (cfg_eqb y) (denote (slot_at (fun n st o => hb_slot H (bond_weights H) L n beta st o) p x))
  == sse_weight H beta (snd y) * mass (cfg_eqb x) (denote (slot_at (fun n st o => hb_slot H (bond_weights H) L n beta st o) p y)).
Proof.
  intros H beta L p x y Hb. exact (slot_at_detailed_balance H beta L _ (hb_slot_good H beta L Hb) p x y Hb).
Qed.
Print Assumptions C02_slot_kernel_detailed_balance.

(* every slot program of the heat-bath update is a probability distribution (total mass one) *)
Theorem C02_heatbath_slot_total : forall H L n beta st o,
  0 < beta -> total (denote (hb_slot H (bond_weights H) L n beta st o)) == 1.
Proof. exact hb_slot_total. Qed.
Print Assumptions C02_heatbath_slot_total.

Example C02_ex_stationary_space :
  let sp := canon ex_ham (all_substates 2) 2 in
  forallb (fun y => Qeq_bool
        (Qsum (map (fun x => sse_weight ex_ham (1 # 2) (snd x)
                             * mass (cfg_eqb y) (denote (update_cfg (hb_update ex_ham (bond_weights ex_ham) (1 # 2)) x))) sp))
        (sse_weight ex_ham (1 # 2) (snd y))) sp = true.
Proof. vm_compute. reflexivity. Qed.

(* the whole pipeline with the heat-bath diagonal update: same stationary weight *)
Theorem C02_heatbath_timestep_stationary : forall H beta L nv xs,
  0 < beta -> tspace_ok H L nv xs ->
  forall f : cfg -> Q,
    Qsum (map (fun x => sse_weight H beta (snd x) * expect (pipeline_cfg (update_cfg (hb_update H (bond_weights H) beta)) x) f) xs)
    == Qsum (map (fun x => sse_weight H beta (snd x) * f x) xs).
Proof. exact heatbath_timestep_stationary. Qed.
Print Assumptions C02_heatbath_timestep_stationary.

(* unconditional: heat-bath pipeline of every Ising model without longitudinal field, complete configuration space *)
Theorem C02_ising_heatbath_pipeline_stationary : forall g beta L,
  has_long g = false -> 0 < beta ->
  wstat (canon (ising_ham g) (all_substates (i_nvars g)) L) (fun c => sse_weight (ising_ham g) beta (snd c))
        (pipeline_cfg_v (update_cfg (hb_update (ising_ham g) (bond_weights (ising_ham g)) beta))).
Proof. exact ising_heatbath_pipeline_stationary. Qed.
Print Assumptions C02_ising_heatbath_pipeline_stationary.

(* the heat-bath pipeline with the model's OWN cluster update (decomposition proved valid, no wrapper) *)
From QmcV Require Import Proofs.UnconditionalPipeline.
Theorem C02_ising_model_heatbath_pipeline_stationary : forall g beta L,
  has_long g = false -> ising_edges_ok g = true -> 0 < beta ->
  wstat (canon (ising_ham g) (all_substates (i_nvars g)) L) (fun c => sse_weight (ising_ham g) beta (snd c))
        (pipeline_cfg (update_cfg (hb_update (ising_ham g) (bond_weights (ising_ham g)) beta))).
Proof. exact ising_model_heatbath_pipeline_stationary. Qed.
Print Assumptions C02_ising_model_heatbath_pipeline_stationary.

(* ... and with a longitudinal field (weighted cluster update), complete configuration space, no hypothesis *)
From QmcV Require Import Proofs.UnconditionalFieldPipeline Model.Steps.
Theorem C02_ising_model_heatbath_pipeline_stationary_with_field : forall g beta L,
  ising_edges_ok g = true -> 0 < beta ->
  wstat (canon (ising_ham g) (all_substates (i_nvars g)) L) (fun c => sse_weight (ising_ham g) beta (snd c))
        (pipeline_cfg_w (long_wf g) (update_cfg (hb_update (ising_ham g) (bond_weights (ising_ham g)) beta))).
Proof. exact ising_model_heatbath_pipeline_stationary_with_field. Qed.
Print Assumptions C02_ising_model_heatbath_pipeline_stationary_with_field.
