(* C14 — a sampler restored from a snapshot continues exactly as if never interrupted. *)
From Coq Require Import List String NArith Bool.
From QmcV Require Import Generated.SerdeFields Model.Serde Model.Prog Proofs.SerdeProofs.
Import ListNotations.

(* field-mode round trip: fully serialised fields and empty count-only pools are restored exactly *)
Theorem C14_roundtrip : forall modes st,
  List.length modes = List.length st ->
  forallb (fun '(m, v) => field_ok m v) (combine modes st) = true ->
  restore (snapshot modes st) = st.
Proof. exact roundtrip. Qed.
Print Assumptions C14_roundtrip.

(* facts re-extracted from the Rust source on this run: no serialisable struct skips a field; the only
   count-only field is the allocator's buffer list; the RNG-less mirror and its two conversions (and
   Clone) carry every field *)
Theorem C14_source_fields_ok :
  all_fields_serialised = true
  /\ count_only_fields = [("Allocator", "instances")]%string
  /\ rngless_mirror_complete = true.
Proof. vm_compute. repeat split. Qed.
Print Assumptions C14_source_fields_ok.

(* continuation: a step is a function of (configuration, RNG words) — equal restored state and equal
   RNG state give the identical continuation *)
Theorem C14_continuation_deterministic : forall (A : Type) (p q : prog A) (t u : list word),
  p = q -> t = u -> run_tape p t = run_tape q u.
Proof. intros A p q t u -> ->. reflexivity. Qed.
Print Assumptions C14_continuation_deterministic.

(* repeated snapshot-restore cycles: any number of them gives back the state *)
Theorem C14_repeated_cycles : forall n modes st,
  List.length modes = List.length st ->
  forallb (fun '(m, v) => field_ok m v) (combine modes st) = true ->
  Nat.iter n (cycle modes) st = st.
Proof. exact repeated_cycles. Qed.
Print Assumptions C14_repeated_cycles.

(* pooled scratch capacity: a count-only pool is restored as exactly as many buffers, all empty,
   whatever the buffers held at the snapshot point *)
Theorem C14_pool_capacity_restored : forall b,
  exists b', restore_field (snap_field FCountOnly (VPool b)) = VPool b'
             /\ List.length b' = List.length b
             /\ forallb (fun x => match x with [] => true | _ => false end) b' = true.
Proof. exact pool_capacity_restored. Qed.
Print Assumptions C14_pool_capacity_restored.

(* the round-trip condition is exact for the two modes the source uses: a field survives iff it is
   serialised in full or is a count-only pool of empty buffers *)
Theorem C14_field_roundtrip_iff : forall m v, m = FFull \/ m = FCountOnly ->
  (restore_field (snap_field m v) = v <-> field_ok m v = true).
Proof. exact field_roundtrip_iff. Qed.
Print Assumptions C14_field_roundtrip_iff.

(* necessity: a pool holding a non-empty buffer at the snapshot point is not restored (so C18's
   "returned, emptied" is a premise, checked by the pool oracle at every call boundary) *)
Theorem C14_dirty_pool_not_restored : forall b,
  forallb (fun x => match x with [] => true | _ => false end) b = false ->
  restore_field (snap_field FCountOnly (VPool b)) <> VPool b.
Proof. exact dirty_pool_not_restored. Qed.
Print Assumptions C14_dirty_pool_not_restored.

(* necessity: "serialised in full" is the only field mode under which every value survives, so a
   field switched to skip / count-only / a custom serialiser breaks C14_source_fields_ok for a reason *)
Theorem C14_only_full_mode_is_lossless : forall m,
  (forall v, restore_field (snap_field m v) = v) <-> m = FFull.
Proof. exact only_full_mode_is_lossless. Qed.
Print Assumptions C14_only_full_mode_is_lossless.
