(* C14 — a sampler restored from a snapshot continues exactly as if never interrupted. *)
From Coq Require Import List String NArith Bool.
From QmcV Require Import Generated.SerdeFields Model.Serde Model.Prog Proofs.SerdeProofs.
Import ListNotations.

(* field-mode round trip: fully serialised fields and empty count-only pools are restored exactly *)
Theorem C14_roundtrip : forall modes st,
  List.length modes = List.length st ->
  forallb (fun '(m, v) => field_ok m v) (combine modes st) = true ->
  restore (snapshot modes st) = st.
Proof. exact roundtrip. Qed.
Print Assumptions C14_roundtrip.

(* facts re-extracted from the Rust source on this run: no serialisable struct skips a field; the only
   count-only field is the allocator's buffer list; the RNG-less mirror and its two conversions (and
   Clone) carry every field *)
Theorem C14_source_fields_ok :
  all_fields_serialised = true
  /\ count_only_fields = [("Allocator", "instances")]%string
  /\ rngless_mirror_complete = true.
Proof. vm_compute. repeat split. Qed.
Print Assumptions C14_source_fields_ok.

(* continuation: a step is a function of (configuration, RNG words) — equal restored state and equal
   RNG state give the identical continuation *)
Theorem C14_continuation_deterministic : forall (A : Type) (p q : prog A) (t u : list word),
  p = q -> t = u -> run_tape p t = run_tape q u.
Proof. intros A p q t u -> ->. reflexivity. Qed.
Print Assumptions C14_continuation_deterministic.
