(* C17 — measurement helpers sample on the documented cadence and report true averages. *)
From Coq Require Import List QArith ZArith NArith Bool Arith.
From QmcV Require Import Model.Stepper Proofs.StepperProofs.
Import ListNotations.
Local Open Scope nat_scope.

(* A measuring run of T steps with period f, for any step function, count function, fold and
   initial state: final state = T steps; the fold saw exactly the states after the sampled
   steps, in order; counters are the number of samples and the sum of their operator counts. *)
Theorem C17_measure_spec : forall (St A : Type) (step : St -> St) (nof : St -> nat) (fold : A -> St -> A) f T s0 acc,
  measure step nof fold f T s0 acc
  = (iter step T s0,
     fold_left fold (map (fun k => iter step k s0) (sample_times f T)) acc,
     length (sample_times f T),
     sum_nat (map (fun k => nof (iter step k s0)) (sample_times f T))).
Proof. exact (@measure_spec). Qed.
Print Assumptions C17_measure_spec.

(* the sampled steps are exactly the multiples of f in 1..T: floor(T/f) of them, increasing *)
Theorem C17_sample_times_exact : forall f T k, In k (sample_times f T) <-> (1 <= k <= T /\ k mod f = 0).
Proof. exact sample_times_in. Qed.
Print Assumptions C17_sample_times_exact.

Theorem C17_sample_count : forall f T, 0 < f -> length (sample_times f T) = T / f.
Proof. exact sample_times_length. Qed.
Print Assumptions C17_sample_count.

Theorem C17_sample_order : forall f T i j, i < j < length (sample_times f T) ->
  nth i (sample_times f T) 0 < nth j (sample_times f T) 0.
Proof. exact sample_times_sorted. Qed.
Print Assumptions C17_sample_order.

(* the chunked tempering driver produces exactly: T steps, a swap phase after every s-th step,
   a sample after every f-th step (swap before sample when both fall on the same step) *)
Theorem C17_driver_trace : forall sf ff T, 0 < sf -> 0 < ff ->
  driver (S T) sf ff T ff sf = Some (spec_trace sf ff T).
Proof. exact driver_trace. Qed.
Print Assumptions C17_driver_trace.

Theorem C17_driver_steps : forall sf ff rem k,
  length (filter (fun e => match e with EStep => true | _ => false end) (spec_from sf ff k rem)) = rem.
Proof. exact count_steps_spec. Qed.
Print Assumptions C17_driver_steps.

(* the energy the drivers return is the per-step average over all T steps, whatever s and f *)
Theorem C17_driver_energy_is_average : forall sf ff T es,
  0 < sf -> 0 < ff -> 0 < T ->
  (driver_energy (chunks (S T) sf ff T ff sf) es T == qsum (firstn T es) / (Z.of_nat T # 1))%Q.
Proof. exact driver_energy_is_average. Qed.
Print Assumptions C17_driver_energy_is_average.

Example C17_ex_trace : spec_trace 3 4 10
  = [EStep; EStep; EStep; ESwap; EStep; ESample; EStep; EStep; ESwap; EStep; EStep; ESample; EStep; ESwap; EStep].
Proof. reflexivity. Qed.

Example C17_ex_nondivisor : sample_times 4 10 = [4; 8] /\ chunks 11 3 4 10 4 3 = [3; 1; 2; 2; 1; 1].
Proof. split; reflexivity. Qed.

(* the cadence in closed form: the i-th sample (from 0) is taken after step (i+1)*f, for i < floor(T/f) *)
Theorem C17_sample_times_closed_form : forall f T, (0 < f)%nat ->
  sample_times f T = map (fun i => ((i + 1) * f)%nat) (seq 0 (T / f)).
Proof. exact sample_times_closed_form. Qed.
Print Assumptions C17_sample_times_closed_form.

(* edges: a period longer than the run samples nothing; period 1 samples after every step *)
Theorem C17_period_longer_than_run : forall f T, (T < f)%nat -> sample_times f T = [].
Proof. exact sample_times_none. Qed.
Print Assumptions C17_period_longer_than_run.

Theorem C17_period_one : forall T, sample_times 1 T = seq 1 T.
Proof. exact sample_times_every_step. Qed.
Print Assumptions C17_period_one.
