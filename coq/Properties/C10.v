(* C10 — replica swaps use the exact Metropolis probability and swap only configurations. *)
From Coq Require Import List QArith Qminmax ZArith NArith Bool Arith.
From QmcV Require Import Model.Prog Model.Sse Model.Ham Model.Diagonal Model.Tempering
     Proofs.ProgLemmas Proofs.TemperingProofs.
From QmcV Require Import Proofs.Expect Proofs.TemperingStationary.
Import ListNotations.
Open Scope Q_scope.

(* a neighbouring pair is exchanged with probability exactly min(1, p_swap) *)
Theorem C10_pair_swap_probability : forall (A : Type) (ps : A -> A -> Q) (swp : A -> A -> A * A) a b,
  mass (fun r : list A * nat => Nat.eqb (snd r) 1) (denote (phase ps swp [a; b])) == qmin1q (ps a b).
Proof. exact (@pair_swap_probability). Qed.
Print Assumptions C10_pair_swap_probability.

Theorem C10_clip_is_min : forall q, 0 <= q -> qmin1q q == Qmin 1 q.
Proof. exact qmin1q_spec. Qed.
Print Assumptions C10_clip_is_min.

(* the swap counter counts exactly the accepted exchange; a rejected pair is left untouched *)
Theorem C10_pair_outcomes : forall (A : Type) (ps : A -> A -> Q) (swp : A -> A -> A * A) a b p l c,
  In (p, (l, c)) (denote (phase ps swp [a; b])) ->
  (c = 1%nat /\ l = [fst (swp a b); snd (swp a b)]) \/ (c = 0%nat /\ l = [a; b]).
Proof. exact (@pair_swap_result). Qed.
Print Assumptions C10_pair_outcomes.

(* an exchange moves operator string and spin state only: each position keeps its
   Hamiltonian, beta and cutoff *)
Theorem C10_swap_moves_only_configuration : forall a b,
  let '(a', b') := swap_replicas a b in
  rp_ham a' = rp_ham a /\ rp_beta a' = rp_beta a /\ rp_cutoff a' = rp_cutoff a
  /\ rp_ham b' = rp_ham b /\ rp_beta b' = rp_beta b /\ rp_cutoff b' = rp_cutoff b
  /\ rp_state a' = rp_state b /\ rp_slots a' = rp_slots b
  /\ rp_state b' = rp_state a /\ rp_slots b' = rp_slots a.
Proof. exact swap_keeps_position. Qed.
Print Assumptions C10_swap_moves_only_configuration.

(* all replicas share one cutoff (the ladder maximum) for the step; none shrinks *)
Theorem C10_shared_cutoff : forall l a b, In a (equalise l) -> In b (equalise l) -> rp_cutoff a = rp_cutoff b.
Proof. exact equalise_shared. Qed.
Print Assumptions C10_shared_cutoff.

Theorem C10_equalise_only_grows : forall l r',
  In r' (equalise l) ->
  exists r, In r l /\ rp_ham r' = rp_ham r /\ rp_beta r' = rp_beta r /\ rp_state r' = rp_state r
            /\ rp_slots r' = pad (rp_cutoff r') (rp_slots r)
            /\ (rp_cutoff r <= rp_cutoff r')%nat
            /\ rp_cutoff r' = fold_right (fun r acc => Nat.max (rp_cutoff r) acc) 0%nat l.
Proof. exact equalise_spec. Qed.
Print Assumptions C10_equalise_only_grows.

(* the temperature factor (beta_a/beta_b)^(n_b - n_a) is the ratio of the beta^n factors of
   the four configuration weights *)
Theorem C10_beta_factor : forall ba bb (na nb : nat), 0 < ba -> 0 < bb ->
  qpowz (ba / bb) (Z.of_nat nb - Z.of_nat na)
  == (qpow ba nb * qpow bb na) / (qpow ba na * qpow bb nb).
Proof. exact beta_factor. Qed.
Print Assumptions C10_beta_factor.

(* the transition probabilities of a whole pairing phase, pair by pair: exchanged with min(1, p_swap), kept
   with 1 - min(1, p_swap), independently for the pairs (0,1), (2,3), ...; nothing else is reachable *)
Theorem C10_phase_transition_probabilities : forall (A : Type) (eqb : A -> A -> bool) (ps : A -> A -> Q)
    (swp : A -> A -> A * A) l l',
  mass (leqb eqb l') (denote (phase_l ps swp l)) == T eqb ps swp l l'.
Proof. intros A eqb ps swp. exact (mass_phase_l eqb ps swp). Qed.
Print Assumptions C10_phase_transition_probabilities.

(* Metropolis balance of one pair from the two ratio identities *)
Theorem C10_pair_balance : forall x y r r' : Q,
  0 < x -> 0 < y -> r * x == y -> r' * y == x -> x * qmin1q r == y * qmin1q r'.
Proof. exact metropolis_pair_balance. Qed.
Print Assumptions C10_pair_balance.
