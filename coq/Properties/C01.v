(* C01 — the Ising sampler's moves leave exp(-beta H) stationary: each elementary move of the
   default pipeline is in balance with the SSE configuration weight
        W(sl) = beta^n (L-n)!/L! prod_p <out_p| H_b |in_p>,
   whose matrix elements are those of H = sum J s s - Gamma sum sx - h sum s (plus constants). *)
From Coq Require Import List QArith ZArith NArith Bool Arith.
From QmcV Require Import Model.Prog Model.Sse Model.Nav Model.Ham Model.Diagonal Model.Cluster Model.ClusterValid
     Model.Convert Proofs.ProgLemmas Proofs.DiagonalProofs Proofs.ConvertProofs Proofs.SseWeight
     Proofs.ClusterProofs Proofs.ClusterFlipProofs Proofs.ThermalProofs Proofs.WorldLine Proofs.Expect Proofs.SweepStationary Proofs.GroupKernel Proofs.TimestepStationary Model.Steps Check.Common Proofs.ValidatedPipeline.
Import ListNotations.
Open Scope Q_scope.

(* matrix elements: |J| - J s s' on the diagonal only; Gamma in all four entries; |h| + h s *)
Theorem C01_two_site_elements : forall a b c d j,
  two_site [a; b] [c; d] j ==
  if (Bool.eqb a c && Bool.eqb b d)%bool then Qabs' j - j * (sgn a * sgn b) else 0.
Proof. exact two_site_elements. Qed.
Print Assumptions C01_two_site_elements.

Theorem C01_transverse_elements : forall g (a b : bool),
  transverse_w g == g * (if Bool.eqb a b then 1 else 0) + g * (if Bool.eqb a b then 0 else 1).
Proof. exact transverse_elements. Qed.
Print Assumptions C01_transverse_elements.

Theorem C01_longitudinal_elements : forall h a, longitudinal_w [a] [a] h == Qabs' h + h * sgn a.
Proof. exact longitudinal_diag_elements. Qed.
Print Assumptions C01_longitudinal_elements.

(* filling an empty slot changes the weight by beta w / (L - n) *)
Theorem C01_weight_fill_ratio : forall H beta sl p o,
  nth_error sl p = Some None ->
  sse_weight H beta (set_nth sl p (Some o)) * Qnat (length sl - count_ops sl)
  == beta * op_weight H o * sse_weight H beta sl.
Proof. exact sse_weight_fill_ratio. Qed.
Print Assumptions C01_weight_fill_ratio.

(* Metropolis diagonal update of one slot: detailed balance w.r.t. the configuration weight,
   for every table, cutoff, count, state, bond and beta (clipped regime included) *)
Theorem C01_metropolis_slot_reversible : forall H beta st sl p b,
  nth_error sl p = Some None -> (b < h_nbonds H)%nat -> 0 < beta -> 0 < diag_weight H b st ->
  let L := length sl in
  let n := count_ops sl in
  let o := mk_diag H b st in
  let P_ins := mass (is_slot (Some o)) (denote (met_slot H L n beta st None)) in
  let P_rem := mass (is_slot None) (denote (met_slot H L (S n) beta st (Some o))) in
  sse_weight H beta sl * P_ins == sse_weight H beta (set_nth sl p (Some o)) * P_rem.
Proof. exact metropolis_slot_balance_wrt_weight. Qed.
Print Assumptions C01_metropolis_slot_reversible.

(* balance on the star {empty, bond_1, ..., bond_k} of one slot gives stationarity at each of its states *)
Theorem C01_slot_stationary_empty : forall pe items,
  star_ok pe items ->
  pe * (1 - Qsum (map (fun '(_, pins, _) => pins) items))
  + Qsum (map (fun '(pb, _, prem) => pb * prem) items) == pe.
Proof. exact star_stationary_empty. Qed.
Print Assumptions C01_slot_stationary_empty.

Theorem C01_slot_stationary_bond : forall pe pb pins prem,
  pe * pins == pb * prem -> pe * pins + pb * (1 - prem) == pb.
Proof. exact star_stationary_bond. Qed.
Print Assumptions C01_slot_stationary_bond.

(* the cluster update: any combination of flips of clusters without symmetry-breaking operators keeps
   the full configuration weight (so flipping each with probability 1/2 is a symmetric proposal
   accepted with probability 1) *)
Theorem C01_cluster_flip_keeps_weight : forall H beta sl st b flips,
  (forall p o, get_op sl p = Some o ->
     if is_edge o then edge_free H o
     else flip_sym H o \/ (forall a, fst (bget b p) = Some a -> nth a flips false = false)) ->
  sides_ok sl b = true ->
  sse_weight H beta (fst (apply_flips sl st b flips)) == sse_weight H beta sl.
Proof. exact cluster_flip_sse_weight. Qed.
Print Assumptions C01_cluster_flip_keeps_weight.

Theorem C01_cluster_flip_reversible : forall sl st b flips,
  vars_in_range (length st) sl = true -> links_ok sl b = true -> wf st sl = true ->
  let '(sl', st') := apply_flips sl st b flips in apply_flips sl' st' b flips = (sl, st).
Proof. exact cluster_flip_involutive. Qed.
Print Assumptions C01_cluster_flip_reversible.

(* with h <> 0 a cluster holding a longitudinal operator has flip probability exactly 0 *)
Theorem C01_broken_cluster_never_flips : forall probs acc j,
  (j < length probs)%nat -> nth j probs 1 <= 0 ->
  mass (fun fl : list bool => nth (length acc + j) fl false) (denote (draw_flips probs acc (fun f => Ret f))) == 0.
Proof. exact draw_flips_zero. Qed.
Print Assumptions C01_broken_cluster_never_flips.

(* moves compose: a sweep of kernels that each keep pi stationary keeps pi stationary, and a
   reversible stochastic kernel is stationary *)
Theorem C01_reversible_is_stationary : forall N pi K,
  (forall i j, (i < N)%nat -> (j < N)%nat -> pi i * K i j == pi j * K j i) ->
  (forall j, (j < N)%nat -> ksum N (fun i => K j i) == 1) ->
  stationary N pi K.
Proof. exact detailed_balance_stationary. Qed.
Print Assumptions C01_reversible_is_stationary.

Theorem C01_sweep_stationary : forall N pi Ks K,
  stationary N pi K -> Forall (stationary N pi) Ks -> stationary N pi (ksweep N K Ks).
Proof. exact sweep_stationary. Qed.
Print Assumptions C01_sweep_stationary.

(* the reported energy: offset - <n>/beta, with the offset sum|J| + n Gamma + n|h| that makes every
   matrix element non-negative; it differs from the generic sampler's by n Gamma (C15) *)
Theorem C01_offset_accounting : forall g,
  ising_offset g - convert_offset g == (Z.of_nat (i_nvars g) # 1) * i_gamma g.
Proof. exact offset_difference. Qed.
Print Assumptions C01_offset_accounting.

(* ---- kernel identification: the whole Metropolis diagonal update, as a program on complete
   configurations (p = 0 state, operator string), leaves the SSE weight stationary ----

   [update_cfg (met_update H beta)] is the model term replayed against the implementation on raw RNG
   words (it runs [met_update] at cutoff = string length and returns the new configuration).
   [canon H sts L] enumerates EVERY consistent, legal configuration of length L whose p = 0 state is in
   [sts] (C01_configuration_space_complete).  Weak form: for every observable f,
        sum_x W(x) E_{update(x)}[f]  =  sum_x W(x) f(x). *)
Theorem C01_metropolis_update_stationary : forall H beta L sts,
  0 < beta -> (0 < h_nbonds H)%nat ->
  forall f : cfg -> Q,
    Qsum (map (fun x => sse_weight H beta (snd x) * expect (update_cfg (met_update H beta) x) f) (canon H sts L))
    == Qsum (map (fun x => sse_weight H beta (snd x) * f x) (canon H sts L)).
Proof. exact metropolis_update_stationary_canon. Qed.
Print Assumptions C01_metropolis_update_stationary.

(* the same read at a point: the probability flow into every configuration equals its weight *)
Theorem C01_metropolis_update_stationary_pointwise : forall H beta L sts y,
  0 < beta -> (0 < h_nbonds H)%nat -> In y (canon H sts L) ->
  Qsum (map (fun x => sse_weight H beta (snd x)
                      * mass (cfg_eqb y) (denote (update_cfg (met_update H beta) x))) (canon H sts L))
  == sse_weight H beta (snd y).
Proof. exact metropolis_update_stationary_pointwise. Qed.
Print Assumptions C01_metropolis_update_stationary_pointwise.

(* the enumeration misses nothing: every consistent legal configuration over the state list is in it,
   it has no duplicates, contains only consistent legal configurations of length L and is closed under
   every single-slot change that keeps a configuration consistent and legal *)
Theorem C01_configuration_space_complete : forall H sts s sl,
  In s sts -> good H (s, sl) = true -> In (s, sl) (canon H sts (length sl)).
Proof. exact canon_complete. Qed.
Print Assumptions C01_configuration_space_complete.

Theorem C01_configuration_space_ok : forall H sts L, space_ok H L (canon H sts L).
Proof. exact canon_space_ok. Qed.
Print Assumptions C01_configuration_space_ok.

(* the identification itself: on a consistent configuration the sweep program of the model (state and
   live count threaded slot by slot) has the same expectation, for every observable, as the
   composition of the single-slot kernels on complete configurations *)
Theorem C01_sweep_is_composition_of_slot_kernels : forall H (slotf : nat -> slotfn) s sl (f : cfg -> Q),
  (forall L n, slot_spec H (slotf L n)) -> wf s sl = true ->
  expect (update_cfg (diagonal_update slotf) (s, sl)) f
  == expect (cfg_sweep (slotf (length sl)) 0 (length sl) (s, sl)) f.
Proof. exact diagonal_update_is_cfg_sweep. Qed.
Print Assumptions C01_sweep_is_composition_of_slot_kernels.

(* each single-slot kernel is in detailed balance with the SSE weight between ANY two consistent legal
   configurations of length L (not only an insertion/removal pair) *)
Theorem C01_slot_kernel_detailed_balance : forall H beta L p x y,
  0 < beta -> (0 < h_nbonds H)%nat ->
  length (snd x) = L -> length (snd y) = L -> good H x = true -> good H y = true ->
  sse_weight H beta (snd x) * mass (cfg_eqb y) (denote (slot_at (fun n st o => met_slot H L n beta st o) p x))
  == sse_weight H beta (snd y) * mass (cfg_eqb x) (denote (slot_at (fun n st o => met_slot H L n beta st o) p y)).
Proof.
  intros H beta L p x y Hb Hk. exact (slot_at_detailed_balance H beta L _ (met_slot_good H beta L Hb Hk) p x y Hb).
Qed.
Print Assumptions C01_slot_kernel_detailed_balance.

(* stationarity is kept by composition of program-valued kernels, with no side condition *)
Theorem C01_stationary_kernels_compose : forall (xs : list cfg) (Wt : cfg -> Q) (K1 K2 : cfg -> prog cfg),
  wstat xs Wt K1 -> wstat xs Wt K2 -> wstat xs Wt (fun x => bind (K1 x) K2).
Proof. exact (@wstat_comp cfg). Qed.
Print Assumptions C01_stationary_kernels_compose.

(* non-vacuity: for a two-spin antiferromagnetic bond plus a constant single-site term at cutoff 2 the
   space has 30 configurations, all of positive weight, and the flow equation holds at each of them *)
Example C01_ex_stationary_space :
  let sp := canon ex_ham (all_substates 2) 2 in
  length sp = 30%nat
  /\ forallb (fun c => negb (Qle_bool (sse_weight ex_ham (1 # 2) (snd c)) 0)) sp = true
  /\ forallb (fun y => Qeq_bool
        (Qsum (map (fun x => sse_weight ex_ham (1 # 2) (snd x)
                             * mass (cfg_eqb y) (denote (update_cfg (met_update ex_ham (1 # 2)) x))) sp))
        (sse_weight ex_ham (1 # 2) (snd y))) sp = true.
Proof. vm_compute. repeat split. Qed.

(* ---- the whole default pipeline: diagonal update, then cluster update (one fair bit per cluster of the
   decomposition), then free-spin refresh (one fair bit per variable without operators), as ONE program on
   complete configurations, leaves the SSE weight stationary — for every Hamiltonian table whose non-edge
   operators are flip-symmetric (h = 0), on every configuration space that is closed under the three kinds
   of moves and on which the decomposition's labelling passes the validators of C09 ---- *)
Theorem C01_timestep_stationary : forall H beta L nv xs,
  0 < beta -> (0 < h_nbonds H)%nat -> tspace_ok H L nv xs ->
  forall f : cfg -> Q,
    Qsum (map (fun x => sse_weight H beta (snd x) * expect (pipeline_cfg (update_cfg (met_update H beta)) x) f) xs)
    == Qsum (map (fun x => sse_weight H beta (snd x) * f x) xs).
Proof. exact metropolis_timestep_stationary. Qed.
Print Assumptions C01_timestep_stationary.

(* the pipeline IS the model of QmcIsingGraph::timestep (the term replayed against the implementation on raw
   RNG words) when there is no longitudinal field and the decomposition succeeds on what the sweep produces *)
Theorem C01_timestep_is_pipeline : forall g beta st sl (f : cfg -> Q),
  has_long g = false -> wf st sl = true ->
  (forall p r, In (p, r) (denote (met_update (ising_ham g) beta (length sl) st sl)) ->
     Nat.eqb (count_ops (fst (fst r))) 0 = false -> decompose (fst (fst r)) <> None) ->
  expect (ising_timestep g false beta (length sl) st sl) (obs_of f)
  == expect (pipeline_cfg (update_cfg (met_update (ising_ham g) beta)) (st, sl)) f.
Proof. exact ising_timestep_is_pipeline. Qed.
Print Assumptions C01_timestep_is_pipeline.

(* the two later stages on their own *)
Theorem C01_cluster_update_stationary : forall H beta xs,
  NoDup xs -> cluster_ready H xs -> wstat xs (fun c => sse_weight H beta (snd c)) cluster_cfg.
Proof. exact cluster_kernel_stationary. Qed.
Print Assumptions C01_cluster_update_stationary.

Theorem C01_refresh_stationary : forall H beta xs k v,
  NoDup xs ->
  (forall st sl u, In (st, sl) xs -> var_has_ops sl u = false -> In (toggle_var st u, sl) xs) ->
  wstat xs (fun c => sse_weight H beta (snd c)) (refresh_sweep v k).
Proof. intros H beta xs k v Hnd Hf. exact (refresh_sweep_stationary H beta xs Hnd Hf k v). Qed.
Print Assumptions C01_refresh_stationary.

Theorem C01_refresh_is_sweep : forall c (f : cfg -> Q),
  expect (refresh_cfg c) f == expect (refresh_sweep 0 (length (fst c)) c) f.
Proof. exact refresh_cfg_is_sweep. Qed.
Print Assumptions C01_refresh_is_sweep.

(* the hypotheses are decidable on a concrete space ... *)
Theorem C01_space_check_sound : forall H L nv xs,
  space_ok H L xs ->
  (forall o, op_legal H o = true -> if is_edge o then edge_free H o else flip_sym H o) ->
  cluster_check xs = true -> free_check nv xs = true -> tspace_ok H L nv xs.
Proof. exact tspace_check_sound. Qed.
Print Assumptions C01_space_check_sound.

(* ... and hold for the complete space of the example (two spins, antiferromagnetic bond + constant term,
   cutoff 2, all 30 configurations): non-vacuity of C01_timestep_stationary, with the flow equation of the
   whole pipeline evaluated at every configuration *)
Example C01_ex_timestep_space : tspace_ok ex_ham 2 2 (canon ex_ham (all_substates 2) 2).
Proof. exact ex_space_ok. Qed.

Example C01_ex_timestep_flow :
  let sp := canon ex_ham (all_substates 2) 2 in
  forallb (fun y => Qeq_bool
        (Qsum (map (fun x => sse_weight ex_ham (1 # 2) (snd x)
                             * mass (cfg_eqb y) (denote (pipeline_cfg (update_cfg (met_update ex_ham (1 # 2))) x))) sp))
        (sse_weight ex_ham (1 # 2) (snd y))) sp = true.
Proof. vm_compute. reflexivity. Qed.

(* ---- with a longitudinal field (h of either sign): the cluster update flips cluster a with probability
   w_a / 2, w_a the product of the flip ratios (0 for a field operator) inside the cluster; the pipeline
   diagonal update -> weighted cluster update -> refresh leaves the SSE weight stationary on every space on
   which, for the flip vectors of non-zero probability, the flipped configuration is in the space and has the
   same cluster probabilities and the same product of matrix elements (conditions decidable on a concrete
   space) ---- *)
Theorem C01_timestep_stationary_with_field : forall H wfn beta L nv xs,
  0 < beta -> (0 < h_nbonds H)%nat -> tspace_ok_w H wfn L nv xs ->
  forall f : cfg -> Q,
    Qsum (map (fun x => sse_weight H beta (snd x) * expect (pipeline_cfg_w wfn (update_cfg (met_update H beta)) x) f) xs)
    == Qsum (map (fun x => sse_weight H beta (snd x) * f x) xs).
Proof. exact metropolis_timestep_w_stationary. Qed.
Print Assumptions C01_timestep_stationary_with_field.

Theorem C01_timestep_is_pipeline_with_field : forall g beta st sl (f : cfg -> Q),
  has_long g = true -> wf st sl = true ->
  (forall p r, In (p, r) (denote (met_update (ising_ham g) beta (length sl) st sl)) ->
     Nat.eqb (count_ops (fst (fst r))) 0 = false -> decompose (fst (fst r)) <> None) ->
  expect (ising_timestep g false beta (length sl) st sl) (obs_of f)
  == expect (pipeline_cfg_w (long_wf g) (update_cfg (met_update (ising_ham g) beta)) (st, sl)) f.
Proof. exact ising_timestep_is_pipeline_w. Qed.
Print Assumptions C01_timestep_is_pipeline_with_field.

Theorem C01_space_check_with_field_sound : forall H wfn L nv xs,
  space_ok H L xs -> cluster_check_w H wfn xs = true -> free_check nv xs = true -> tspace_ok_w H wfn L nv xs.
Proof. exact tspace_check_w_sound. Qed.
Print Assumptions C01_space_check_with_field_sound.

(* non-vacuity with a field: the example plus a longitudinal term on spin 0 (weights 0 / 1): 42 configurations,
   12 of them holding a field operator (their clusters have flip probability 0); flow equation of the whole
   weighted pipeline at every configuration *)
Example C01_ex_timestep_space_with_field : tspace_ok_w ex_ham_h ex_wfn 2 2 (canon ex_ham_h (all_substates 2) 2).
Proof. exact ex_space_w_ok. Qed.

Example C01_ex_timestep_flow_with_field :
  let sp := canon ex_ham_h (all_substates 2) 2 in
  length sp = 42%nat
  /\ length (filter (fun c => existsb (fun q => Qeq_bool q 0) (clw_pr ex_wfn c)) sp) = 12%nat
  /\ forallb (fun y => Qeq_bool
        (Qsum (map (fun x => sse_weight ex_ham_h (1 # 2) (snd x)
                             * mass (cfg_eqb y) (denote (pipeline_cfg_w ex_wfn (update_cfg (met_update ex_ham_h (1 # 2))) x))) sp))
        (sse_weight ex_ham_h (1 # 2) (snd y))) sp = true.
Proof. vm_compute. repeat split. Qed.

(* ==== UNCONDITIONAL form for the Ising sampler without longitudinal field ====
   For EVERY graph, couplings of either sign and any magnitude, Gamma, beta > 0, cutoff L: the default pipeline —
   Metropolis diagonal update, cluster update, free-spin refresh — leaves the SSE weight stationary on the space of
   ALL consistent legal configurations.  The cluster stage is taken with a VALIDATED decomposition
   ([cluster_cfg_v]: run the model's cluster update if the labelling passes links_ok / sides_ok / vars_in_range,
   otherwise leave the configuration alone); where the validators pass it IS the model's cluster update
   (C01_validated_stage_is_model), and the validity test is the very one the correspondence check evaluates on
   every replayed configuration (C01_validity_is_checked).  No hypothesis about the decomposition algorithm,
   about closure of the space or about symmetry of the weights is left. *)
Theorem C01_ising_pipeline_stationary : forall g beta L,
  has_long g = false -> 0 < beta -> (0 < ising_nbonds g)%nat ->
  forall f : cfg -> Q,
    Qsum (map (fun x => sse_weight (ising_ham g) beta (snd x)
                        * expect (pipeline_cfg_v (update_cfg (met_update (ising_ham g) beta)) x) f)
              (canon (ising_ham g) (all_substates (i_nvars g)) L))
    == Qsum (map (fun x => sse_weight (ising_ham g) beta (snd x) * f x)
                 (canon (ising_ham g) (all_substates (i_nvars g)) L)).
Proof. exact ising_pipeline_stationary. Qed.
Print Assumptions C01_ising_pipeline_stationary.

Theorem C01_validated_stage_is_model : forall c, cluster_valid c = true -> cluster_cfg_v c = cluster_cfg c.
Proof. exact cluster_cfg_v_is_model. Qed.
Print Assumptions C01_validated_stage_is_model.

Theorem C01_validity_is_checked : forall c, cluster_valid c = valid_decomp (fst c) (snd c).
Proof. exact cluster_valid_is_checked. Qed.
Print Assumptions C01_validity_is_checked.

(* the Ising table with h = 0 is flip-symmetric on its legal operators: two-site terms keep their weight when
   both spins are flipped, transverse terms have a value-independent weight *)
Theorem C01_ising_table_flip_symmetric : forall g, has_long g = false -> sym_ham (ising_ham g).
Proof. exact ising_sym_ham. Qed.
Print Assumptions C01_ising_table_flip_symmetric.

(* the same for any flip-symmetric Hamiltonian table (used by C04 for symmetric interaction sets) *)
Theorem C01_symmetric_pipeline_stationary : forall H nv L beta,
  sym_ham H -> 0 < beta -> (0 < h_nbonds H)%nat ->
  wstat (canon H (all_substates nv) L) (fun c => sse_weight H beta (snd c))
        (pipeline_cfg_v (update_cfg (met_update H beta))).
Proof. intros H nv L beta Hs. exact (metropolis_pipeline_v_stationary H Hs nv L beta). Qed.
Print Assumptions C01_symmetric_pipeline_stationary.

(* THE HEADLINE FOR THE MODEL'S OWN PIPELINE (Proofs/DecomposeProofs.v + Proofs/UnconditionalPipeline.v): the cluster
   decomposition is proved to produce only labellings the validators accept, so the validation wrapper is no
   longer needed: [pipeline_cfg] — the term proved equal to the model of QmcIsingGraph::timestep
   (C01_timestep_is_pipeline) and replayed against the implementation on raw RNG words — leaves the SSE weight
   stationary on the space of ALL consistent legal configurations, for every Ising model without longitudinal
   field whose edges name existing spins, every beta > 0 and every cutoff. *)
From QmcV Require Import Proofs.UnconditionalPipeline.
Theorem C01_ising_model_pipeline_stationary : forall g beta L,
  has_long g = false -> ising_edges_ok g = true -> 0 < beta -> (0 < ising_nbonds g)%nat ->
  forall f : cfg -> Q,
    Qsum (map (fun x => sse_weight (ising_ham g) beta (snd x)
                        * expect (pipeline_cfg (update_cfg (met_update (ising_ham g) beta)) x) f)
              (canon (ising_ham g) (all_substates (i_nvars g)) L))
    == Qsum (map (fun x => sse_weight (ising_ham g) beta (snd x) * f x)
                 (canon (ising_ham g) (all_substates (i_nvars g)) L)).
Proof. exact ising_model_pipeline_stationary. Qed.
Print Assumptions C01_ising_model_pipeline_stationary.

(* the validated stage and the model's cluster update have the same law wherever the operators' variables are
   in range (if the decomposition returns nothing both leave the configuration alone) *)
Theorem C01_validated_stage_has_model_law : forall c (f : cfg -> Q),
  vars_in_range (length (fst c)) (snd c) = true ->
  expect (cluster_cfg_v c) f == expect (cluster_cfg c) f.
Proof. exact cluster_cfg_v_is_cluster_cfg. Qed.
Print Assumptions C01_validated_stage_has_model_law.

(* with totality of the decomposition the identification of the model of QmcIsingGraph::timestep with the pipeline
   needs no hypothesis about the decomposition any more (h = 0 and h != 0) *)
Theorem C01_timestep_is_pipeline_total : forall g beta st sl (f : cfg -> Q),
  has_long g = false -> wf st sl = true ->
  expect (ising_timestep g false beta (length sl) st sl) (obs_of f)
  == expect (pipeline_cfg (update_cfg (met_update (ising_ham g) beta)) (st, sl)) f.
Proof. exact ising_timestep_is_pipeline_total. Qed.
Print Assumptions C01_timestep_is_pipeline_total.

Theorem C01_timestep_is_pipeline_with_field_total : forall g beta st sl (f : cfg -> Q),
  has_long g = true -> wf st sl = true ->
  expect (ising_timestep g false beta (length sl) st sl) (obs_of f)
  == expect (pipeline_cfg_w (long_wf g) (update_cfg (met_update (ising_ham g) beta)) (st, sl)) f.
Proof. exact ising_timestep_is_pipeline_w_total. Qed.
Print Assumptions C01_timestep_is_pipeline_with_field_total.

(* THE HEADLINE WITH A LONGITUDINAL FIELD (Proofs/UnconditionalFieldPipeline.v): the three per-flip conditions of
   the weighted cluster update — asked of a space as hypotheses by C01_timestep_stationary_with_field and checked
   there by computation on an example — are PROVED for the space of all consistent legal configurations of every
   Ising model with a field: a flip vector of non-zero probability flips no cluster that holds a field operator
   (its probability is 0), so every flipped operator is a two-site term (weight kept when both spins flip) or a
   transverse term (value-independent weight); the cluster probabilities only depend on the skeleton, which a
   flip does not change.  Hence, for every Ising model whose edges name existing spins, every h, every beta > 0
   and every cutoff, the model's own timestep pipeline leaves the SSE weight stationary on ALL configurations. *)
From QmcV Require Import Proofs.UnconditionalFieldPipeline.
Theorem C01_ising_model_pipeline_stationary_with_field : forall g beta L,
  ising_edges_ok g = true -> 0 < beta -> (0 < ising_nbonds g)%nat ->
  forall f : cfg -> Q,
    Qsum (map (fun x => sse_weight (ising_ham g) beta (snd x)
                        * expect (pipeline_cfg_w (long_wf g) (update_cfg (met_update (ising_ham g) beta)) x) f)
              (canon (ising_ham g) (all_substates (i_nvars g)) L))
    == Qsum (map (fun x => sse_weight (ising_ham g) beta (snd x) * f x)
                 (canon (ising_ham g) (all_substates (i_nvars g)) L)).
Proof. exact ising_model_pipeline_stationary_with_field. Qed.
Print Assumptions C01_ising_model_pipeline_stationary_with_field.

Theorem C01_ising_table_field_terms_never_flip : forall g o, op_legal (ising_ham g) o = true ->
  if is_edge o then edge_free (ising_ham g) o else (flip_sym (ising_ham g) o \/ long_wf g o == 0).
Proof. exact ising_sym_ham_w. Qed.
Print Assumptions C01_ising_table_field_terms_never_flip.
