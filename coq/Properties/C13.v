(* C13 — runs are reproducible from their seeds and independent of thread scheduling. *)
From Coq Require Import List QArith Arith Permutation.
From QmcV Require Import Model.Prog Model.Sse Model.Tempering Proofs.TapeLemmas Proofs.ScheduleProofs.
Import ListNotations.

(* every update is a function of (configuration, RNG words): equal inputs give equal results *)
Theorem C13_step_is_a_function : forall (A : Type) (p q : prog A) (t u : list word),
  p = q -> t = u -> run_tape p t = run_tape q u.
Proof. intros A p q t u -> ->. reflexivity. Qed.
Print Assumptions C13_step_is_a_function.

(* a run is the sequential composition of its steps: what happens after any prefix depends only on
   the configuration reached and the remaining words — so a clone taken there continues identically *)
Theorem C13_replay_composes : forall (A B : Type) (m : prog A) (k : A -> prog B) tape,
  run_tape (bind m k) tape = then_run (run_tape m tape) (fun a rest => run_tape (k a) rest).
Proof. exact (@run_tape_bind). Qed.
Print Assumptions C13_replay_composes.

(* the rayon driver draws one phase's uniforms ahead of time: same decisions as the serial driver *)
Theorem C13_predrawn_equals_lazy : forall (A : Type) (ps : A -> A -> Q) (swp : A -> A -> A * A) l tape,
  run_tape (phase_predrawn ps swp l) tape = run_tape (phase ps swp l) tape.
Proof. exact (@predrawn_equals_lazy). Qed.
Print Assumptions C13_predrawn_equals_lazy.

(* independent per-replica work gives the same vector under EVERY execution order of the workers *)
Theorem C13_any_schedule_same_result : forall (A : Type) (f : A -> A) (l : list A) (sched : list nat),
  Permutation sched (seq 0 (length l)) -> fold_left (upd f) sched l = map f l.
Proof. exact (@any_schedule_same_result). Qed.
Print Assumptions C13_any_schedule_same_result.

(* the same with a different closure per replica (each replica steps with its own temperature and its
   own RNG): every execution order of the workers gives the index-wise result *)
Theorem C13_any_schedule_same_result_indexed : forall (A : Type) (g : nat -> A -> A) (l : list A) (sched : list nat),
  Permutation sched (seq 0 (length l)) -> fold_left (updi g) sched l = mapi_from 0 g l.
Proof. exact (@any_schedule_same_result_indexed). Qed.
Print Assumptions C13_any_schedule_same_result_indexed.

(* a whole run: any number of parallel phases, closures differing from phase to phase, each under its
   own arbitrary schedule, ends in the vector the serial in-order execution produces *)
Theorem C13_any_schedules_same_run : forall (A : Type) (phases : list ((nat -> A -> A) * list nat)) (l : list A),
  Forall (fun ph => Permutation (snd ph) (seq 0 (length l))) phases ->
  fold_left (fun v ph => fold_left (updi (fst ph)) (snd ph) v) phases l
  = fold_left (fun v ph => mapi_from 0 (fst ph) v) phases l.
Proof. exact (@any_schedules_same_run). Qed.
Print Assumptions C13_any_schedules_same_run.
