(* C05 — replica exchange keeps the product of the replicas' thermal weights stationary. *)
From Coq Require Import List QArith Qminmax ZArith NArith Bool Arith.
From QmcV Require Import Model.Prog Model.Sse Model.Ham Model.Diagonal Model.Tempering
     Proofs.ProgLemmas Proofs.TemperingProofs Proofs.SseWeight Proofs.ThermalProofs Proofs.SwapRatio.
From QmcV Require Import Proofs.Expect Proofs.TemperingStationary.
Import ListNotations.
Open Scope Q_scope.

(* Metropolis exchange on the product weight pi_a(x) pi_b(y), also as part of a longer ladder *)
Theorem C05_exchange_balance : forall pax pay pbx pby,
  0 < pax -> 0 < pay -> 0 < pbx -> 0 < pby ->
  (pax * pby) * ratio_prob (pay * pbx) (pax * pby) == (pay * pbx) * ratio_prob (pax * pby) (pay * pbx).
Proof. exact exchange_balance. Qed.
Print Assumptions C05_exchange_balance.

Theorem C05_exchange_balance_in_ladder : forall rest pax pay pbx pby,
  0 < pax -> 0 < pay -> 0 < pbx -> 0 < pby ->
  (rest * (pax * pby)) * ratio_prob (pay * pbx) (pax * pby)
  == (rest * (pay * pbx)) * ratio_prob (pax * pby) (pay * pbx).
Proof. exact exchange_balance_in_ladder. Qed.
Print Assumptions C05_exchange_balance_in_ladder.

(* the implemented pair move exchanges with probability exactly min(1, p_swap) ... *)
Theorem C05_pair_swap_probability : forall (A : Type) (ps : A -> A -> Q) (swp : A -> A -> A * A) a b,
  mass (fun r : list A * nat => Nat.eqb (snd r) 1) (denote (phase ps swp [a; b])) == qmin1q (ps a b).
Proof. exact (@pair_swap_probability). Qed.
Print Assumptions C05_pair_swap_probability.

(* ... moves only the configuration; Hamiltonian, beta and cutoff stay with the ladder position ... *)
Theorem C05_swap_moves_only_configuration : forall a b,
  let '(a', b') := swap_replicas a b in
  rp_ham a' = rp_ham a /\ rp_beta a' = rp_beta a /\ rp_cutoff a' = rp_cutoff a
  /\ rp_ham b' = rp_ham b /\ rp_beta b' = rp_beta b /\ rp_cutoff b' = rp_cutoff b
  /\ rp_state a' = rp_state b /\ rp_slots a' = rp_slots b
  /\ rp_state b' = rp_state a /\ rp_slots b' = rp_slots a.
Proof. exact swap_keeps_position. Qed.
Print Assumptions C05_swap_moves_only_configuration.

(* ... and the temperature factor is the ratio of the beta^n parts of the four weights (the
   (L-n)!/L! parts cancel because all replicas share one cutoff for the step) *)
Theorem C05_beta_factor : forall ba bb (na nb : nat), 0 < ba -> 0 < bb ->
  qpowz (ba / bb) (Z.of_nat nb - Z.of_nat na)
  == (qpow ba nb * qpow bb na) / (qpow ba na * qpow bb nb).
Proof. exact beta_factor. Qed.
Print Assumptions C05_beta_factor.

Theorem C05_shared_cutoff : forall l a b, In a (equalise l) -> In b (equalise l) -> rp_cutoff a = rp_cutoff b.
Proof. exact equalise_shared. Qed.
Print Assumptions C05_shared_cutoff.

(* between exchanges every replica runs its own stationary kernel; sweeps compose *)
Theorem C05_sweep_stationary : forall N pi Ks K,
  stationary N pi K -> Forall (stationary N pi) Ks -> stationary N pi (ksweep N K Ks).
Proof. exact sweep_stationary. Qed.
Print Assumptions C05_sweep_stationary.

(* the implemented swap probability IS the ratio of the product weights after / before the exchange,
   for Ising replicas on the same graph whose couplings (and fields) have the same signs: the
   Hamiltonian factor computed from bond counts equals the ratio of the products of matrix elements *)
Theorem C05_relative_weight_is_weight_ratio : forall self h : replica,
  compatible (rp_ham self) (rp_ham h) ->
  all_legal (ising_ham (rp_ham self)) (rp_slots self) = true ->
  relative_weight self h * weight_product (ising_ham (rp_ham self)) (rp_slots self)
  == weight_product (ising_ham (rp_ham h)) (rp_slots self).
Proof. exact relative_weight_is_weight_ratio. Qed.
Print Assumptions C05_relative_weight_is_weight_ratio.

Theorem C05_p_swap_is_weight_ratio : forall a b : replica,
  compatible (rp_ham a) (rp_ham b) ->
  all_legal (ising_ham (rp_ham a)) (rp_slots a) = true ->
  all_legal (ising_ham (rp_ham b)) (rp_slots b) = true ->
  length (rp_slots a) = length (rp_slots b) ->
  0 < rp_beta a -> 0 < rp_beta b ->
  p_swap a b
  * (sse_weight (ising_ham (rp_ham a)) (rp_beta a) (rp_slots a)
     * sse_weight (ising_ham (rp_ham b)) (rp_beta b) (rp_slots b))
  == sse_weight (ising_ham (rp_ham a)) (rp_beta a) (rp_slots b)
     * sse_weight (ising_ham (rp_ham b)) (rp_beta b) (rp_slots a).
Proof. exact p_swap_is_weight_ratio. Qed.
Print Assumptions C05_p_swap_is_weight_ratio.

Theorem C05_p_swap_is_weight_ratio_checked : forall a b : replica,
  swap_hyps a b = true ->
  p_swap a b
  * (sse_weight (ising_ham (rp_ham a)) (rp_beta a) (rp_slots a)
     * sse_weight (ising_ham (rp_ham b)) (rp_beta b) (rp_slots b))
  == sse_weight (ising_ham (rp_ham a)) (rp_beta a) (rp_slots b)
     * sse_weight (ising_ham (rp_ham b)) (rp_beta b) (rp_slots a).
Proof. exact p_swap_is_weight_ratio_checked. Qed.
Print Assumptions C05_p_swap_is_weight_ratio_checked.

(* ---- the whole replica-exchange step as ONE program on ladders: the product of the replicas' own SSE
   weights, W_0(C_0) W_1(C_1) ... (each with its own Hamiltonian and beta), is stationary under
   tempering_step — fair choice of the order of the two pairing phases, one Metropolis test per neighbouring
   pair — on every ladder space that is closed under neighbour exchanges and whose neighbouring pairs
   satisfy the executable premise swap_hyps (same graph and signs, legal strings, equal lengths, beta > 0).
   So every ladder position keeps its own thermal weight. ---- *)
Theorem C05_tempering_step_stationary : forall (xs : list (list replica)),
  NoDup xs ->
  (forall l, In l xs -> (1 < length l)%nat) ->
  (forall l, In l xs -> pairs_ok (fun a b => swap_hyps a b = true) l /\ pairs_ok (fun a b => swap_hyps a b = true) (tl l)) ->
  (forall pre a b suf, In (pre ++ a :: b :: suf) xs ->
     In (pre ++ fst (swap_replicas a b) :: snd (swap_replicas a b) :: suf) xs) ->
  forall f : list replica -> Q,
    Qsum (map (fun l => ladder_weight l * expect (ladder_step l) f) xs) == Qsum (map (fun l => ladder_weight l * f l) xs).
Proof. exact ising_tempering_step_stationary. Qed.
Print Assumptions C05_tempering_step_stationary.

(* a pairing phase is a REVERSIBLE kernel on ladders for the product weight, for any exchange rule whose
   acceptance ratio is the ratio of the pair weights (abstract over the replica type) *)
Theorem C05_phase_detailed_balance : forall (A : Type) (eqb : A -> A -> bool) (w1 : A -> Q) (ps : A -> A -> Q)
    (swp : A -> A -> A * A) (Dp : A -> A -> Prop),
  (forall x y, eqb x y = true <-> x = y) ->
  (forall a b, Dp a b -> 0 < w1 a /\ 0 < w1 b) ->
  (forall a b, swp (fst (swp a b)) (snd (swp a b)) = (a, b)) ->
  (forall a b, Dp a b -> ps a b * (w1 a * w1 b) == w1 (fst (swp a b)) * w1 (snd (swp a b))) ->
  forall l l', pairs_ok Dp l -> pairs_ok Dp l' ->
    Wl w1 l * mass (leqb eqb l') (denote (phase_l ps swp l)) == Wl w1 l' * mass (leqb eqb l) (denote (phase_l ps swp l')).
Proof. intros A eqb w1 ps swp Dp He Hp Hi Hr. exact (phase_l_detailed_balance eqb He w1 ps swp Dp Hp Hi Hr). Qed.
Print Assumptions C05_phase_detailed_balance.

(* the kernels of the theorem are the model programs of tempering_container.rs (replayed on raw words) *)
Theorem C05_step_is_model_step : forall (A : Type) (ps : A -> A -> Q) (swp : A -> A -> A * A) l (F : list A -> Q),
  (1 < length l)%nat ->
  expect (bind (tempering_step ps swp l) (fun rc => Ret (fst rc))) F == expect (step_l ps swp l) F.
Proof. exact @tempering_step_is_step_l. Qed.
Print Assumptions C05_step_is_model_step.

(* non-vacuity: a two-replica ladder with different Hamiltonians and betas, and its exchange *)
Example C05_ex_ladder_space :
  NoDup ex_ladders
  /\ (forall l, In l ex_ladders -> (1 < length l)%nat)
  /\ (forall l, In l ex_ladders -> pairs_ok (fun a b => swap_hyps a b = true) l /\ pairs_ok (fun a b => swap_hyps a b = true) (tl l))
  /\ (forall pre a b suf, In (pre ++ a :: b :: suf) ex_ladders ->
        In (pre ++ fst (swap_replicas a b) :: snd (swap_replicas a b) :: suf) ex_ladders).
Proof. exact ex_ladders_ok. Qed.
