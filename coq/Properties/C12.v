(* C12 — the expansion cutoff never shrinks and keeps headroom. *)
From Coq Require Import List QArith ZArith NArith Bool Arith.
From QmcV Require Import Model.Prog Model.Sse Model.Ham Model.Diagonal Model.Steps Proofs.StepProofs Generated.CutoffRules Proofs.CutoffRules.
Import ListNotations.
Local Open Scope nat_scope.

(* growth rule: never shrinks; always leaves at least one free slot and a margin of n/2 *)
Theorem C12_cutoff_never_shrinks : forall c n, c <= next_cutoff c n.
Proof. exact next_cutoff_mono. Qed.
Print Assumptions C12_cutoff_never_shrinks.

Theorem C12_headroom : forall c n, n < next_cutoff c n /\ n + n / 2 < next_cutoff c n.
Proof. exact next_cutoff_headroom. Qed.
Print Assumptions C12_headroom.

(* along any run (any sequence of operator counts, any initial cutoff >= 0): monotone, and after
   step i the cutoff exceeds that step's count by a free slot and by half the count *)
Theorem C12_run : forall ns c i, i < length ns ->
  nth i (cutoffs c ns) 0 <= nth (S i) (cutoffs c ns) 0
  /\ nth i ns 0 < nth (S i) (cutoffs c ns) 0
  /\ nth i ns 0 + nth i ns 0 / 2 < nth (S i) (cutoffs c ns) 0.
Proof. exact run_cutoffs. Qed.
Print Assumptions C12_run.

Theorem C12_run_ge_initial : forall ns c i, i <= length ns -> c <= nth i (cutoffs c ns) 0.
Proof. exact run_cutoffs_ge_initial. Qed.
Print Assumptions C12_run_ge_initial.

(* the samplers apply exactly this rule to the count their update leaves *)
Theorem C12_ising_timestep_rule : forall g hb beta c st sl p sl' st' c',
  In (p, Some (sl', st', c')) (denote (ising_timestep g hb beta c st sl)) ->
  c' = next_cutoff c (count_ops sl').
Proof. exact ising_timestep_cutoff. Qed.
Print Assumptions C12_ising_timestep_rule.

Theorem C12_ising_single_diagonal_rule : forall g hb beta c st sl p sl' st' c',
  In (p, Some (sl', st', c')) (denote (ising_single_diagonal g hb beta c st sl)) ->
  c' = next_cutoff c (count_ops sl').
Proof. exact ising_single_diagonal_cutoff. Qed.
Print Assumptions C12_ising_single_diagonal_rule.

Theorem C12_generic_timestep_rule : forall fuel bonds hb loops beta c st sl p sl' st' c',
  In (p, Some (sl', st', c')) (denote (qmc_timestep fuel bonds hb loops beta c st sl)) ->
  exists n1, c' = next_cutoff c n1 /\ n1 <= Nat.max c (length sl).
Proof. exact qmc_timestep_cutoff. Qed.
Print Assumptions C12_generic_timestep_rule.

(* the count can never exceed the number of slots: after a diagonal update at cutoff L on a
   string no longer than L, n <= L *)
Theorem C12_count_le_cutoff : forall slot L st sl p sl' n' st',
  length sl <= L ->
  In (p, (sl', n', st')) (denote (diagonal_update slot L st sl)) -> n' <= L.
Proof. exact diagonal_update_headroom. Qed.
Print Assumptions C12_count_le_cutoff.

(* the growth rules as the SOURCE states them now (re-translated on every run by tools/extract.py):
   each of the three assignments never shrinks the cutoff, leaves a free slot and a margin of n/2,
   and is the rule the model uses *)
Theorem C12_source_rules_keep_headroom : Forall site_ok cutoff_rule_sites.
Proof. exact source_rules_keep_headroom. Qed.
Print Assumptions C12_source_rules_keep_headroom.

Theorem C12_source_rules_are_the_model_rule : Forall site_is_model cutoff_rule_sites.
Proof. exact source_rules_are_the_model_rule. Qed.
Print Assumptions C12_source_rules_are_the_model_rule.

Theorem C12_source_rule_sites_found : List.length cutoff_rule_sites = 3.
Proof. exact source_rule_sites_found. Qed.
Print Assumptions C12_source_rule_sites_found.

(* non-vacuity: a run started at cutoff 1 grows (the pre-fix rule max(c, n + n/2) would stay at 1) *)
Example C12_ex_growth_from_one : cutoffs 1 [1; 2; 3; 5] = [1; 2; 4; 5; 8].
Proof. reflexivity. Qed.

(* closed form of any run: the cutoff after the run is exactly max(initial, n + n/2 + 1 over the counts
   seen) — the least value the rule allows, independent of the order in which the counts occurred *)
Theorem C12_run_closed_form : forall ns c,
  nth (length ns) (cutoffs c ns) 0 = Nat.max c (list_max (map need ns)).
Proof. exact cutoffs_closed_form. Qed.
Print Assumptions C12_run_closed_form.

(* a run whose counts never demand more than the current cutoff leaves it unchanged at every step *)
Theorem C12_run_stable : forall ns c, Forall (fun n => need n <= c) ns ->
  forall i, i <= length ns -> nth i (cutoffs c ns) 0 = c.
Proof. exact cutoffs_stable. Qed.
Print Assumptions C12_run_stable.
