(* C20 (continued) — the FFT route used by fft_autocorrelation is algebraically the circular
   autocorrelation, for every series length: over any field with a primitive T-th root of unity,
   the unnormalised inverse transform of X_k * X_{-k} equals T times the circular autocorrelation. *)
From mathcomp Require Import all_ssreflect all_algebra.
From QmcV Require Import Proofs.Dft.
Import GRing.Theory.
Local Open Scope ring_scope.

Theorem C20_dft_route : forall (F : fieldType) (T : nat) (w : F) (Tpos : (0 < T)%N),
  T.-primitive_root w ->
  forall (x : 'I_T -> F) (t : 'I_T),
    \sum_(k < T) (\sum_(s < T) x s / w ^+ (k * s)) * (\sum_(u < T) x u * w ^+ (k * u)) * w ^+ (k * t)
    = T%:R * (\sum_(s < T) x s * x (Ordinal (ltn_pmod (s + t) Tpos))).
Proof. exact dft_autocorrelation. Qed.
Print Assumptions C20_dft_route.
