(* C08 — the diagonal update obeys exact detailed balance in every slot. *)
From Coq Require Import List QArith ZArith NArith Bool Arith.
From QmcV Require Import Model.Prog Model.Sse Model.Diagonal Proofs.ProgLemmas Proofs.DiagonalProofs
     Proofs.WorldLine Proofs.Expect Proofs.SweepStationary.
Import ListNotations.
Open Scope Q_scope.

(* P(fill empty slot with bond b at count n) / P(empty it again at count n+1) = beta w_b / (L - n),
   for every Hamiltonian table, cutoff, count, state, bond and beta — clipped regime included. *)
Theorem C08_metropolis_balance : forall H L n beta st b,
  (n < L)%nat -> (b < h_nbonds H)%nat -> 0 < beta -> 0 < diag_weight H b st ->
  let P_ins := mass (is_slot (Some (mk_diag H b st))) (denote (met_slot H L n beta st None)) in
  let P_rem := mass (is_slot None) (denote (met_slot H L (S n) beta st (Some (mk_diag H b st)))) in
  P_ins * Qnat (L - n) == beta * diag_weight H b st * P_rem /\ 0 < P_rem.
Proof. exact metropolis_balance. Qed.
Print Assumptions C08_metropolis_balance.

Theorem C08_heatbath_balance : forall H L n beta st b,
  (n < L)%nat -> (b < h_nbonds H)%nat -> 0 < beta -> 0 < diag_weight H b st ->
  let bw := bond_weights H in
  let P_ins := mass (is_slot (Some (mk_diag H b st))) (denote (hb_slot H bw L n beta st None)) in
  let P_rem := mass (is_slot None) (denote (hb_slot H bw L (S n) beta st (Some (mk_diag H b st)))) in
  P_ins * Qnat (L - n) == beta * diag_weight H b st * P_rem /\ 0 < P_rem.
Proof. exact heatbath_balance. Qed.
Print Assumptions C08_heatbath_balance.

(* Off-diagonal operators are never altered (no draw, state propagated through them). *)
Theorem C08_offdiag_untouched_metropolis : forall H L n beta st o,
  is_diag o = false -> met_slot H L n beta st (Some o) = Ret (Some o, apply_op st o).
Proof. exact met_offdiag. Qed.
Print Assumptions C08_offdiag_untouched_metropolis.

Theorem C08_offdiag_untouched_heatbath : forall H bw L n beta st o,
  is_diag o = false -> hb_slot H bw L n beta st (Some o) = Ret (Some o, apply_op st o).
Proof. exact hb_offdiag. Qed.
Print Assumptions C08_offdiag_untouched_heatbath.

(* The operator count handed from slot to slot is the live one: with k operators already
   placed in the processed prefix and n = k + (ops in the rest), every outcome reports
   k + (ops it left in the rest). *)
Theorem C08_count_is_live : forall slot sl k n st p sl' n' st',
  n = (k + count_ops sl)%nat ->
  In (p, (sl', n', st')) (denote (sweep slot n st sl)) ->
  n' = (k + count_ops sl')%nat /\ length sl' = length sl.
Proof. exact sweep_count. Qed.
Print Assumptions C08_count_is_live.

(* The heat-bath rejection ratio weight/maxweight is a probability, and an empty slot
   guarantees L - n >= 1 (no division by zero, no gen_bool argument outside [0,1]). *)
Theorem C08_weight_le_maxweight : forall H b st, diag_weight H b st <= max_weight H b.
Proof. exact max_weight_dominates. Qed.
Print Assumptions C08_weight_le_maxweight.

Theorem C08_empty_slot_headroom : forall sl : slots, In None sl -> (count_ops sl < length sl)%nat.
Proof. exact empty_slot_headroom. Qed.
Print Assumptions C08_empty_slot_headroom.

Theorem C08_acceptances_are_probabilities : forall x d, 0 <= ratio_prob x d /\ ratio_prob x d <= 1.
Proof. exact ratio_prob_range. Qed.
Print Assumptions C08_acceptances_are_probabilities.

(* Non-vacuity: a concrete table in the clipped and in the unclipped regime. *)
Example C08_ex_regimes :
  let H := mkHam 2 (fun b => [b]) (fun _ => false)
                 (fun b ins outs => if bools_eqb ins outs then (if Nat.eqb b 0 then 10 else 1 # 4) else 0) in
  (mass (is_slot (Some (mk_diag H 0 [true; false]))) (denote (met_slot H 3 0 1 [true; false] None)) == 1 # 2)
  /\ (mass (is_slot None) (denote (met_slot H 3 1 1 [true; false] (Some (mk_diag H 0 [true; false])))) == 3 # 20)
  /\ (mass (is_slot (Some (mk_diag H 1 [true; false]))) (denote (met_slot H 3 0 1 [true; false] None)) == 1 # 12).
Proof. vm_compute. repeat split. Qed.

(* ---- the same balance stated on complete configurations: the update of slot p, as a kernel on
   (p = 0 state, operator string) with the state at p obtained by propagation and the count read from
   the string, is in detailed balance with the SSE weight between ANY two consistent legal
   configurations — insertion/removal pairs, unrelated configurations (both probabilities 0),
   off-diagonal operators (never altered) ---- *)
Theorem C08_slot_kernel_detailed_balance : forall H beta L slot p x y,
  slot_good H beta L slot -> 0 < beta ->
  length (snd x) = L -> length (snd y) = L -> good H x = true -> good H y = true ->
  sse_weight H beta (snd x) * mass (cfg_eqb y) (denote (slot_at slot p x))
  == sse_weight H beta (snd y) * mass (cfg_eqb x) (denote (slot_at slot p y)).
Proof. intros H beta L slot p x y Hs. exact (slot_at_detailed_balance H beta L slot Hs p x y). Qed.
Print Assumptions C08_slot_kernel_detailed_balance.

(* both variants meet the assumptions: structural outcomes, total mass one, zero-weight operators
   have probability zero entry by entry, and the ratio P_ins (L - n) = beta w P_rem *)
Theorem C08_metropolis_slot_good : forall H beta L,
  0 < beta -> (0 < h_nbonds H)%nat -> slot_good H beta L (fun n st o => met_slot H L n beta st o).
Proof. exact met_slot_good. Qed.
Print Assumptions C08_metropolis_slot_good.

Theorem C08_heatbath_slot_good : forall H beta L,
  0 < beta -> slot_good H beta L (fun n st o => hb_slot H (bond_weights H) L n beta st o).
Proof. exact hb_slot_good. Qed.
Print Assumptions C08_heatbath_slot_good.

(* the probability of reaching a configuration from another by the update of slot p is the slot
   program's probability of producing the new content, and 0 unless they differ at p only *)
Theorem C08_slot_kernel_probability : forall slot s sl s' sl' p o,
  nth_error sl p = Some o ->
  mass (cfg_eqb (s', sl')) (denote (slot_at slot p (s, sl)))
  == if (bools_eqb s' s && slots_eqb sl' (set_nth sl p (nth p sl' None)))%bool
     then mass (is_slot (nth p sl' None)) (denote (slot (count_ops sl) (propagate s (firstn p sl)) o))
     else 0.
Proof. exact mass_slot_at. Qed.
Print Assumptions C08_slot_kernel_probability.
