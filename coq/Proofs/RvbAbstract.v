(* The algebra behind the RVB move's acceptance (C03), for an abstract time slice: n boundary
   operators are re-drawn among the boundary bonds in proportion to their weight AFTER the region
   flip, and the move is accepted with min(1, (W_after / W_before)^n).  Then
       pi(c) q(c -> c') A(c -> c')  =  pi(c') q(c' -> c) A(c' -> c). *)
From Coq Require Import List QArith Qpower ZArith Bool Arith Lia Lqa.
From QmcV Require Import Model.Prog Model.Sse Proofs.ProgLemmas.
Import ListNotations.
Open Scope Q_scope.

Definition qprod (l : list Q) : Q := fold_right Qmult 1 l.

(* proposal probability of a bond assignment with weights ws out of total W: prod (w / W) *)
Definition rot_prob (ws : list Q) (W : Q) : Q := qprod (map (fun w => w / W) ws).

Lemma qprod_div ws W : ~ W == 0 -> rot_prob ws W * qpow W (length ws) == qprod ws.
Proof.
  intros HW. unfold rot_prob. induction ws as [|w ws IH]; cbn [map qprod fold_right length qpow]; [ring|].
  change (fold_right Qmult 1 (map (fun w0 => w0 / W) ws)) with (qprod (map (fun w0 => w0 / W) ws)).
  change (fold_right Qmult 1 ws) with (qprod ws).
  rewrite <- IH. field. exact HW.
Qed.

Lemma qpow_pos q n : 0 < q -> 0 < qpow q n.
Proof. intros H. induction n as [|n IH]; cbn [qpow]; [lra|]. now apply Qmult_lt_0_compat. Qed.

Lemma qpow_le a b n : 0 < a -> a <= b -> qpow a n <= qpow b n.
Proof.
  intros Ha Hab. induction n as [|n IH]; cbn [qpow]; [lra|].
  pose proof (qpow_pos a n Ha). apply Qle_trans with (a * qpow b n).
  - apply Qmult_le_l; assumption.
  - apply Qmult_le_compat_r; [exact Hab|]. pose proof (qpow_pos b n ltac:(lra)). lra.
Qed.

(* before: bonds with weights [wb] (total boundary weight Wb); after the flip the same operators are
   re-drawn with weights [wa] (total Wa); n = number of rotated operators *)
Theorem rvb_rotation_balance (wb wa : list Q) (Wb Wa : Q) :
  0 < Wb -> 0 < Wa -> length wa = length wb ->
  let n := length wb in
  let pi_c := qprod wb in
  let pi_c' := qprod wa in
  let q_fwd := rot_prob wa Wa in
  let q_rev := rot_prob wb Wb in
  let A_fwd := ratio_prob (qpow Wa n) (qpow Wb n) in
  let A_rev := ratio_prob (qpow Wb n) (qpow Wa n) in
  pi_c * q_fwd * A_fwd == pi_c' * q_rev * A_rev.
Proof.
  intros HWb HWa Hlen. cbv zeta.
  set (n := length wb).
  assert (Ha : rot_prob wa Wa * qpow Wa n == qprod wa) by (unfold n; rewrite <- Hlen; apply qprod_div; lra).
  assert (Hb : rot_prob wb Wb * qpow Wb n == qprod wb) by (apply qprod_div; lra).
  pose proof (qpow_pos Wa n HWa) as Pa. pose proof (qpow_pos Wb n HWb) as Pb.
  pose proof (ratio_balance (qpow Wa n) (qpow Wb n) Pa Pb) as Hr.
  (* multiply both sides by Wa^n * Wb^n *)
  apply (Qmult_inj_r _ _ (qpow Wa n * qpow Wb n)); [nra|].
  transitivity (qprod wb * (rot_prob wa Wa * qpow Wa n) * (ratio_prob (qpow Wa n) (qpow Wb n) * qpow Wb n)); [ring|].
  rewrite Ha, Hr.
  transitivity (qprod wa * (rot_prob wb Wb * qpow Wb n) * (qpow Wa n * ratio_prob (qpow Wb n) (qpow Wa n))); [|ring].
  rewrite Hb. ring.
Qed.

(* a region whose flip would give some operator weight 0 (symmetry-breaking term) is never accepted *)
Theorem rvb_zero_ratio_never_accepted (W : Q) : 0 < W -> ratio_prob 0 W == 0.
Proof.
  intros HW. unfold ratio_prob.
  destruct (Qle_bool 0 W) eqn:E.
  - destruct (Qle_bool W 0) eqn:E0; [apply Qle_bool_iff in E0; lra|].
    unfold qclip. replace (Qle_bool (0 / W) 0) with true; [reflexivity|].
    symmetry. apply Qle_bool_iff. unfold Qdiv. rewrite Qmult_0_l. lra.
  - assert (~ 0 <= W) by (intros HH; apply Qle_bool_iff in HH; congruence). lra.
Qed.
