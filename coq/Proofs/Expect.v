(* Expectations of probabilistic programs, the monad law for [bind], and stationarity of a
   program-valued kernel in weak form:

       sum_x W x * E_{K x}[f]  ==  sum_x W x * f x        for every observable f,

   where x ranges over an enumeration [xs] of the configuration space.  Composition of stationary
   kernels is stationary (no side condition); a kernel in detailed balance with W that keeps the
   enumeration closed and has total mass 1 is stationary. *)
From Coq Require Import List QArith ZArith NArith Bool Arith Lia Lqa.
From QmcV Require Import Model.Prog Proofs.ProgLemmas Proofs.SseWeight.
Import ListNotations.
Open Scope Q_scope.

Definition emass {A} (f : A -> Q) (d : dist A) : Q := Qsum (map (fun '(p, a) => p * f a) d).
Definition expect {A} (m : prog A) (f : A -> Q) : Q := emass f (denote m).

Lemma emass_nil {A} (f : A -> Q) : emass f [] == 0.
Proof. reflexivity. Qed.

Lemma emass_cons {A} (f : A -> Q) p a d : emass f ((p, a) :: d) == p * f a + emass f d.
Proof. reflexivity. Qed.

Lemma emass_app {A} (f : A -> Q) d1 d2 : emass f (d1 ++ d2) == emass f d1 + emass f d2.
Proof. unfold emass. rewrite map_app, Qsum_app. reflexivity. Qed.

Lemma emass_dscale {A} (f : A -> Q) q d : emass f (dscale q d) == q * emass f d.
Proof.
  induction d as [|[p a] d IH]; [cbn; lra|].
  change (dscale q ((p, a) :: d)) with ((q * p, a) :: dscale q d).
  rewrite !emass_cons, IH. ring.
Qed.

Lemma emass_flat_map {A B} (f : A -> Q) (g : B -> dist A) l :
  emass f (flat_map g l) == Qsum (map (fun b => emass f (g b)) l).
Proof.
  induction l as [|x l IH]; cbn [flat_map map Qsum fold_right]; [reflexivity|].
  change (fold_right Qplus 0 (map (fun b => emass f (g b)) l)) with (Qsum (map (fun b => emass f (g b)) l)).
  rewrite emass_app, IH. reflexivity.
Qed.

Lemma emass_ext_in {A} (f g : A -> Q) d :
  (forall p a, In (p, a) d -> f a == g a) -> emass f d == emass g d.
Proof.
  induction d as [|[p a] d IH]; intros H; [reflexivity|].
  rewrite !emass_cons, IH by (intros; eapply H; right; eauto).
  rewrite (H p a) by now left. reflexivity.
Qed.

Lemma emass_ext {A} (f g : A -> Q) d : (forall a, f a == g a) -> emass f d == emass g d.
Proof. intros H. apply emass_ext_in. intros; apply H. Qed.

Lemma mass_as_emass {A} (P : A -> bool) d : mass P d == emass (fun a => if P a then 1 else 0) d.
Proof.
  induction d as [|[p a] d IH]; [reflexivity|].
  rewrite mass_cons, emass_cons, IH. destruct (P a); ring.
Qed.

Lemma total_as_emass {A} (d : dist A) : total d == emass (fun _ => 1) d.
Proof. unfold total. rewrite mass_as_emass. reflexivity. Qed.

Lemma expect_ret {A} (a : A) f : expect (Ret a) f == f a.
Proof. unfold expect. cbn [denote]. rewrite emass_cons, emass_nil. ring. Qed.

(* the monad law: E_{m >>= k}[f] = E_m[ a |-> E_{k a}[f] ] *)
Lemma expect_bind {A B} (m : prog A) (k : A -> prog B) (f : B -> Q) :
  expect (bind m k) f == expect m (fun a => expect (k a) f).
Proof.
  unfold expect.
  induction m as [a|n g IH|n g IH|q g IH|x y g IH|g IH|ws g IH|cs g IH|lo hi g IH|g IH|sure q g IH];
    cbn [bind denote].
  - rewrite emass_cons, emass_nil. ring.
  - rewrite !emass_flat_map. apply Qsum_ext. intros i _. rewrite !emass_dscale, IH. reflexivity.
  - rewrite !emass_flat_map. apply Qsum_ext. intros i _. rewrite !emass_dscale, IH. reflexivity.
  - rewrite !emass_app, !emass_dscale, !IH. reflexivity.
  - rewrite !emass_app, !emass_dscale, !IH. reflexivity.
  - rewrite !emass_app, !emass_dscale, !IH. reflexivity.
  - rewrite !emass_flat_map. apply Qsum_ext. intros i _. rewrite !emass_dscale, IH. reflexivity.
  - rewrite !emass_flat_map. apply Qsum_ext. intros i _.
    destruct (nth i cs (0, 0)) as [mw w]. rewrite !emass_app, !emass_dscale, !IH. reflexivity.
  - rewrite !emass_app, !emass_dscale, !IH. reflexivity.
  - rewrite !emass_app, !emass_flat_map, !emass_dscale, IH.
    apply Qplus_comp; [|reflexivity].
    apply Qsum_ext. intros i _. rewrite !emass_dscale, IH. reflexivity.
  - rewrite !emass_app, !emass_dscale, !IH. reflexivity.
Qed.

Lemma mass_bind_ret {A B} (P : B -> bool) (m : prog A) (g : A -> B) :
  mass P (denote (bind m (fun a => Ret (g a)))) == mass (fun a => P (g a)) (denote m).
Proof.
  rewrite !mass_as_emass. change (emass ?f (denote ?m)) with (expect m f).
  rewrite expect_bind. unfold expect at 1. apply emass_ext. intros a. apply expect_ret.
Qed.

(* ------------------------------------------------------------------ *)
(* sums over an enumeration                                            *)
Section Enum.
  Context {X : Type} (eqb : X -> X -> bool).
  Hypothesis eqb_ok : forall x y, eqb x y = true <-> x = y.

  (* every outcome of non-zero probability lies in xs *)
  Definition supp_in (xs : list X) (d : dist X) : Prop :=
    Forall (fun '(p, a) => p == 0 \/ In a xs) d.

  Lemma emass_over_enum (xs : list X) (d : dist X) (f : X -> Q) :
    NoDup xs -> supp_in xs d ->
    emass f d == Qsum (map (fun z => mass (eqb z) d * f z) xs).
  Proof.
    intros Hnd. induction d as [|[p a] d IH]; intros Hs.
    - rewrite emass_nil. symmetry. apply Qsum_all_zero. intros z _. rewrite mass_nil. ring.
    - inversion Hs as [|? ? Ha Hd]; subst. rewrite emass_cons, (IH Hd).
      transitivity (Qsum (map (fun z => (if eqb z a then p else 0) * f z + mass (eqb z) d * f z) xs)).
      + rewrite Qsum_map_plus. apply Qplus_comp; [|reflexivity].
        destruct Ha as [Hp|Hin].
        * rewrite Qsum_all_zero; [rewrite Hp; ring|]. intros z _. destruct (eqb z a); [rewrite Hp|]; ring.
        * rewrite (Qsum_single (fun z => (if eqb z a then p else 0) * f z) xs a Hnd Hin).
          -- replace (eqb a a) with true by (symmetry; now apply eqb_ok). reflexivity.
          -- intros z _ Hne. destruct (eqb z a) eqn:E; [apply eqb_ok in E; contradiction|ring].
      + apply Qsum_ext. intros z _. rewrite mass_cons. ring.
  Qed.

  Lemma row_sum_total (xs : list X) (d : dist X) :
    NoDup xs -> supp_in xs d -> Qsum (map (fun z => mass (eqb z) d) xs) == total d.
  Proof.
    intros Hnd Hs. rewrite total_as_emass, (emass_over_enum xs d (fun _ => 1) Hnd Hs).
    apply Qsum_ext. intros z _. ring.
  Qed.

  (* ---------------------------------------------------------------- *)
  (* stationarity in weak form                                          *)
  Definition wstat (xs : list X) (W : X -> Q) (K : X -> prog X) : Prop :=
    forall f : X -> Q,
      Qsum (map (fun x => W x * expect (K x) f) xs) == Qsum (map (fun x => W x * f x) xs).

  Lemma wstat_ret xs W : wstat xs W (fun x => Ret x).
  Proof. intros f. apply Qsum_ext. intros x _. rewrite expect_ret. reflexivity. Qed.

  Lemma wstat_ext_in xs W K K' :
    (forall x f, In x xs -> expect (K x) f == expect (K' x) f) -> wstat xs W K -> wstat xs W K'.
  Proof.
    intros HE HK f. rewrite <- (HK f). apply Qsum_ext. intros x Hx. rewrite (HE x f Hx). reflexivity.
  Qed.

  (* composition: no side condition *)
  Theorem wstat_comp xs W K1 K2 :
    wstat xs W K1 -> wstat xs W K2 -> wstat xs W (fun x => bind (K1 x) K2).
  Proof.
    intros H1 H2 f.
    transitivity (Qsum (map (fun x => W x * expect (K1 x) (fun a => expect (K2 a) f)) xs)).
    - apply Qsum_ext. intros x _. rewrite expect_bind. reflexivity.
    - rewrite (H1 (fun a => expect (K2 a) f)). apply H2.
  Qed.

  (* detailed balance + closed enumeration + total mass one ==> stationary *)
  Theorem wstat_of_detailed_balance xs W (K : X -> prog X) :
    NoDup xs ->
    (forall x, In x xs -> supp_in xs (denote (K x))) ->
    (forall x, In x xs -> total (denote (K x)) == 1) ->
    (forall x y, In x xs -> In y xs ->
       W x * mass (eqb y) (denote (K x)) == W y * mass (eqb x) (denote (K y))) ->
    wstat xs W K.
  Proof.
    intros Hnd Hcl Htot Hdb f.
    transitivity (Qsum (map (fun x => Qsum (map (fun y => W y * mass (eqb x) (denote (K y)) * f y) xs)) xs)).
    - apply Qsum_ext. intros x Hx. unfold expect.
      rewrite (emass_over_enum xs (denote (K x)) f Hnd (Hcl x Hx)).
      rewrite <- Qsum_map_scale. apply Qsum_ext. intros y Hy.
      rewrite <- (Hdb x y Hx Hy). ring.
    - rewrite Qsum_exchange. apply Qsum_ext. intros y Hy.
      transitivity (W y * f y * Qsum (map (fun x => mass (eqb x) (denote (K y))) xs)).
      + rewrite <- Qsum_map_scale. apply Qsum_ext. intros x _. ring.
      + rewrite (row_sum_total xs (denote (K y)) Hnd (Hcl y Hy)), (Htot y Hy). ring.
  Qed.

  (* the weak form read at a point: sum_x W x P(x -> y) = W y *)
  Theorem wstat_pointwise xs W K y :
    NoDup xs -> In y xs -> wstat xs W K ->
    Qsum (map (fun x => W x * mass (eqb y) (denote (K x))) xs) == W y.
  Proof.
    intros Hnd Hy HK.
    transitivity (Qsum (map (fun x => W x * expect (K x) (fun a => if eqb y a then 1 else 0)) xs)).
    - apply Qsum_ext. intros x _. rewrite mass_as_emass. reflexivity.
    - rewrite (HK (fun a => if eqb y a then 1 else 0)).
      rewrite (Qsum_single (fun x => W x * (if eqb y x then 1 else 0)) xs y Hnd Hy).
      + replace (eqb y y) with true by (symmetry; now apply eqb_ok). ring.
      + intros z _ Hne. destruct (eqb y z) eqn:E; [apply eqb_ok in E; congruence|ring].
  Qed.
End Enum.
