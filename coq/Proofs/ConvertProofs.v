(* Conversion preserves the Hamiltonian element by element (C15). *)
From Coq Require Import List QArith ZArith NArith Bool Arith Lia Lqa.
From QmcV Require Import Model.Sse Model.Ham Model.Convert Proofs.HamProofs.
Import ListNotations.
Open Scope Q_scope.

Lemma Qabs'_nonneg q : 0 <= Qabs' q.
Proof.
  unfold Qabs'. destruct (Qle_bool 0 q) eqn:E.
  - now apply Qle_bool_iff.
  - assert (~ 0 <= q) by (intros H; apply Qle_bool_iff in H; congruence). lra.
Qed.

Lemma Qabs'_cases q : (0 <= q /\ Qabs' q = q) \/ (q < 0 /\ Qabs' q = - q).
Proof.
  unfold Qabs'. destruct (Qle_bool 0 q) eqn:E.
  - left. split; [now apply Qle_bool_iff|reflexivity].
  - right. split; [|reflexivity].
    assert (~ 0 <= q) by (intros H; apply Qle_bool_iff in H; congruence). lra.
Qed.

(* characterisation of the running minimum used by the offset constructors *)
Lemma qmin_list_spec l : forall init,
  qmin_list l init <= init
  /\ Forall (fun x => qmin_list l init <= x) l
  /\ (qmin_list l init == init \/ Exists (fun x => qmin_list l init == x) l).
Proof.
  unfold qmin_list. induction l as [|x l IH]; intros init; cbn [fold_left].
  - split; [lra|]. split; [constructor|]. left. reflexivity.
  - set (acc := if negb (Qle_bool x init) then init else x).
    assert (Hacc : acc <= init /\ acc <= x /\ (acc == init \/ acc == x)).
    { unfold acc. destruct (Qle_bool x init) eqn:E; cbn [negb].
      - apply Qle_bool_iff in E. repeat split; lra.
      - assert (~ x <= init) by (intros H; apply Qle_bool_iff in H; congruence).
        repeat split; lra. }
    destruct Hacc as (H1 & H2 & H3). destruct (IH acc) as (I1 & I2 & I3).
    split; [lra|]. split.
    + constructor; [lra|exact I2].
    + destruct I3 as [I3|I3].
      * destruct H3 as [H3|H3]; [left; lra|right; left; lra].
      * right. right. exact I3.
Qed.

Lemma qmin_edge j : qmin_list [j; j; - j] (- j) == - Qabs' j.
Proof.
  destruct (qmin_list_spec [j; j; - j] (- j)) as (H1 & H2 & H3).
  inversion H2 as [|? ? Ha H2']; subst. clear H2 H2'.
  assert (Hm : qmin_list [j; j; - j] (- j) == - j \/ qmin_list [j; j; - j] (- j) == j).
  { destruct H3 as [H3|H3]; [now left|].
    inversion H3 as [? ? E|? ? H3']; subst; [now right|].
    inversion H3' as [? ? E|? ? H3'']; subst; [now right|].
    inversion H3'' as [? ? E|? ? H4]; subst; [now left|inversion H4]. }
  destruct (Qabs'_cases j) as [[Hj ->]|[Hj ->]]; destruct Hm as [Hm|Hm]; lra.
Qed.

(* edge term: accepted, and its elements are the Ising sampler's two-site weights *)
Lemma conv_edge_ok a b j :
  exists i, fst (conv_edge (a, b, j)) = COk i /\ it_vars i = [a; b] /\ is_constant i = false
            /\ (snd (conv_edge (a, b, j)) == - Qabs' j)
            /\ forall x y u v,
                 exists q, inter_at i [x; y] [u; v] = Some q /\ q == two_site [x; y] [u; v] j.
Proof.
  unfold conv_edge, new_diag_offset. cbn [fst snd map].
  pose proof (qmin_edge j) as Hm. remember (qmin_list [j; j; - j] (- j)) as m eqn:Em. clear Em.
  destruct (Qabs'_cases j) as [[Hj Ha]|[Hj Ha]].
  - (* 0 <= j *)
    assert (Hneg : has_negative [- j - m; j - m; j - m; - j - m] = false).
    { unfold has_negative. cbn [existsb]. rewrite !orb_false_r.
      repeat (apply orb_false_iff; split); apply negb_false_iff; apply Qle_bool_iff; rewrite Ha in Hm; lra. }
    unfold new_diag. rewrite Hneg. cbn [length power_of_two Nat.log2 Nat.eqb Nat.pow].
    change (power_of_two 4) with (Some 2%nat). cbn [Nat.eqb length].
    eexists. split; [reflexivity|]. cbn [it_vars is_constant it_type]. repeat split; [exact Hm|].
    intros x y u v. unfold inter_at. cbn [it_n length Nat.eqb andb negb it_type it_mat].
    unfold two_site. destruct x, y, u, v; cbn; eexists; (split; [reflexivity|]); rewrite ?Hm, ?Ha; lra.
  - assert (Hneg : has_negative [- j - m; j - m; j - m; - j - m] = false).
    { unfold has_negative. cbn [existsb]. rewrite !orb_false_r.
      repeat (apply orb_false_iff; split); apply negb_false_iff; apply Qle_bool_iff; rewrite Ha in Hm; lra. }
    unfold new_diag. rewrite Hneg.
    change (power_of_two (length [- j - m; j - m; j - m; - j - m])) with (Some 2%nat). cbn [Nat.eqb length].
    eexists. split; [reflexivity|]. cbn [it_vars is_constant it_type]. repeat split; [exact Hm|].
    intros x y u v. unfold inter_at. cbn [it_n length Nat.eqb andb negb it_type it_mat].
    unfold two_site. destruct x, y, u, v; cbn; eexists; (split; [reflexivity|]); rewrite ?Hm, ?Ha; lra.
Qed.

(* transverse term: accepted for gamma >= 0, constant, every element is gamma *)
Lemma conv_transverse_ok g v : 0 <= i_gamma g ->
  exists i, conv_transverse g v = COk i /\ it_vars i = [v] /\ is_constant i = true
            /\ forall x u, inter_at i [x] [u] = Some (i_gamma g).
Proof.
  intros Hg. unfold conv_transverse, new_full.
  assert (Hneg : has_negative [i_gamma g; i_gamma g; i_gamma g; i_gamma g] = false).
  { unfold has_negative. cbn [existsb]. apply Qle_bool_iff in Hg. now rewrite Hg. }
  rewrite Hneg. change (mat_var_size (length [i_gamma g; i_gamma g; i_gamma g; i_gamma g])) with (Some 1%nat).
  cbn [Nat.eqb length negb].
  assert (Hs : all_same [i_gamma g; i_gamma g; i_gamma g; i_gamma g] = true).
  { cbn [all_same all_same_from]. rewrite !Qeq_bool_refl. reflexivity. }
  eexists. split; [reflexivity|]. cbn [it_vars is_constant it_type]. rewrite Hs.
  split; [reflexivity|]. split; [reflexivity|].
  intros x u. unfold inter_at. cbn [it_n length Nat.eqb andb negb it_type it_mat]. reflexivity.
Qed.

Lemma qmin_long h : qmin_list [h] (- h) == - Qabs' h.
Proof.
  destruct (qmin_list_spec [h] (- h)) as (H1 & H2 & H3).
  inversion H2 as [|? ? Ha H2']; subst. clear H2 H2'.
  assert (Hm : qmin_list [h] (- h) == - h \/ qmin_list [h] (- h) == h).
  { destruct H3 as [H3|H3]; [now left|].
    inversion H3 as [? ? E|? ? H4]; subst; [now right|inversion H4]. }
  destruct (Qabs'_cases h) as [[Hj ->]|[Hj ->]]; destruct Hm as [Hm|Hm]; lra.
Qed.

Lemma sub_diag_1 m a b c d : sub_diag 1 m [a; b; c; d] = [a - m; b; c; d - m].
Proof. reflexivity. Qed.

Lemma diag_entries_1 a b c d : diag_entries 1 [a; b; c; d] = [a; d].
Proof. reflexivity. Qed.

(* longitudinal term: accepted, diagonal elements |h| -/+ h, off-diagonal elements 0 *)
Lemma conv_long_ok g v :
  exists i, fst (conv_long g v) = COk i /\ it_vars i = [v]
            /\ (snd (conv_long g v) == - Qabs' (i_h g))
            /\ (forall x, exists q, inter_at i [x] [x] = Some q /\ q == longitudinal_w [x] [x] (i_h g))
            /\ (forall x, exists q, inter_at i [x] [negb x] = Some q /\ q == 0).
Proof.
  unfold conv_long, new_full_offset.
  change (mat_var_size (length [- i_h g; 0; 0; i_h g])) with (Some 1%nat).
  cbv beta iota. rewrite diag_entries_1. cbv beta iota. rewrite sub_diag_1. cbn [fst snd].
  set (h := i_h g). pose proof (qmin_long h) as Hm. remember (qmin_list [h] (- h)) as m eqn:Em. clear Em.
  destruct (Qabs'_cases h) as [[Hh Ha]|[Hh Ha]].
  - assert (Hneg : has_negative [- h - m; 0; 0; h - m] = false).
    { unfold has_negative. cbn [existsb]. rewrite !orb_false_r.
      repeat (apply orb_false_iff; split); apply negb_false_iff; apply Qle_bool_iff; rewrite Ha in Hm; lra. }
    unfold new_full. rewrite Hneg. change (mat_var_size (length [- h - m; 0; 0; h - m])) with (Some 1%nat).
    cbn [Nat.eqb length negb].
    destruct (all_same [- h - m; 0; 0; h - m]) eqn:Hs.
    + (* h = 0 case: everything is 0 *)
      eexists. split; [reflexivity|]. cbn [it_vars]. split; [reflexivity|]. split; [exact Hm|].
      cbn [all_same all_same_from] in Hs. apply andb_true_iff in Hs. destruct Hs as [E1 Hs].
      apply andb_true_iff in Hs. destruct Hs as [_ Hs]. apply andb_true_iff in Hs. destruct Hs as [E3 _].
      apply Qeq_bool_iff in E1. apply Qeq_bool_iff in E3.
      split; intros x; unfold inter_at; cbn [it_n length Nat.eqb andb negb it_type it_mat nth];
        eexists; (split; [reflexivity|]); unfold longitudinal_w; destruct x; cbn; rewrite ?Ha; lra.
    + eexists. split; [reflexivity|]. cbn [it_vars]. split; [reflexivity|]. split; [exact Hm|].
      split; intros x; unfold inter_at; cbn [it_n length Nat.eqb andb negb it_type it_mat];
        destruct x; cbn; eexists; (split; [reflexivity|]); unfold longitudinal_w; cbn; rewrite ?Hm, ?Ha; lra.
  - assert (Hneg : has_negative [- h - m; 0; 0; h - m] = false).
    { unfold has_negative. cbn [existsb]. rewrite !orb_false_r.
      repeat (apply orb_false_iff; split); apply negb_false_iff; apply Qle_bool_iff; rewrite Ha in Hm; lra. }
    unfold new_full. rewrite Hneg. change (mat_var_size (length [- h - m; 0; 0; h - m])) with (Some 1%nat).
    cbn [Nat.eqb length negb].
    destruct (all_same [- h - m; 0; 0; h - m]) eqn:Hs.
    + eexists. split; [reflexivity|]. cbn [it_vars]. split; [reflexivity|]. split; [exact Hm|].
      cbn [all_same all_same_from] in Hs. apply andb_true_iff in Hs. destruct Hs as [E1 Hs].
      apply andb_true_iff in Hs. destruct Hs as [_ Hs]. apply andb_true_iff in Hs. destruct Hs as [E3 _].
      apply Qeq_bool_iff in E1. apply Qeq_bool_iff in E3.
      split; intros x; unfold inter_at; cbn [it_n length Nat.eqb andb negb it_type it_mat nth];
        eexists; (split; [reflexivity|]); unfold longitudinal_w; destruct x; cbn; rewrite ?Ha; lra.
    + eexists. split; [reflexivity|]. cbn [it_vars]. split; [reflexivity|]. split; [exact Hm|].
      split; intros x; unfold inter_at; cbn [it_n length Nat.eqb andb negb it_type it_mat];
        destruct x; cbn; eexists; (split; [reflexivity|]); unfold longitudinal_w; cbn; rewrite ?Hm, ?Ha; lra.
Qed.

(* ---------------- offsets ---------------- *)
Lemma edges_offset_sum l :
  fold_right (fun e acc => - snd (conv_edge e) + acc) 0 l
  == fold_right (fun '(_, _, j) acc => Qabs' j + acc) 0 l.
Proof.
  induction l as [|[[a b] j] l IH]; cbn [fold_right]; [reflexivity|].
  rewrite IH. destruct (conv_edge_ok a b j) as (i & _ & _ & _ & Hs & _). rewrite Hs. lra.
Qed.

Lemma long_offset_sum g l :
  fold_right (fun v acc => - snd (conv_long g v) + acc) 0 l == (Z.of_nat (length l) # 1) * Qabs' (i_h g).
Proof.
  induction l as [|v l IH]; cbn [fold_right length].
  - change (Z.of_nat 0) with 0%Z. lra.
  - rewrite IH. destruct (conv_long_ok g v) as (i & _ & _ & Hs & _). rewrite Hs.
    rewrite Nat2Z.inj_succ. unfold Z.succ.
    assert (E : (Z.of_nat (length l) + 1 # 1) == (Z.of_nat (length l) # 1) + 1).
    { unfold Qeq, Qplus. cbn. lia. }
    rewrite E. lra.
Qed.

Lemma has_long_false_abs g : has_long g = false -> Qabs' (i_h g) == 0.
Proof.
  unfold has_long. intros H. apply negb_false_iff in H. apply Qeq_bool_iff in H.
  destruct (Qabs'_cases (i_h g)) as [[_ ->]|[_ ->]]; lra.
Qed.

(* the two samplers' reported energies differ by the run-independent constant N * Gamma *)
Lemma offset_difference g :
  ising_offset g - convert_offset g == (Z.of_nat (i_nvars g) # 1) * i_gamma g.
Proof.
  unfold ising_offset, convert_offset. rewrite edges_offset_sum.
  destruct (has_long g) eqn:Hl.
  - rewrite long_offset_sum, seq_length. lra.
  - rewrite (has_long_false_abs g Hl). lra.
Qed.
