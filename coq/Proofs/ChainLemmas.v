(* Order-theoretic characterisation of the scan-based navigation functions of Model/Nav.v, and how
   the characterised answers change when the entry at one position is removed or inserted.

   A "chain" is a predicate M on entries together with a key (the slot position of an entry).
   `is_nb true  M p r` : r is the entry of M with the least key  > p   (None if there is none)
   `is_nb false M p r` : r is the entry of M with the greatest key < p (None if there is none)
   `is_end true M r`   : r is the entry with the least key, `is_end false` the greatest. *)
From Coq Require Import List Bool Arith Lia Sorted.
From QmcV Require Import Model.Sse Model.Nav Proofs.NavProofs.
Import ListNotations.

Definition dlt (d : bool) (x y : nat) : Prop := if d then x < y else y < x.
Definition dle (d : bool) (x y : nat) : Prop := if d then x <= y else y <= x.

Section Chain.
Context {A : Type} (key : A -> nat).

Definition is_nb (d : bool) (M : A -> Prop) (p : nat) (res : option A) : Prop :=
  match res with
  | Some a => M a /\ dlt d p (key a) /\ forall b, M b -> dlt d p (key b) -> dle d (key a) (key b)
  | None => forall b, M b -> dle d (key b) p
  end.

Definition is_end (d : bool) (M : A -> Prop) (res : option A) : Prop :=
  match res with
  | Some a => M a /\ forall b, M b -> dle d (key a) (key b)
  | None => forall b, ~ M b
  end.

Definition inj (M : A -> Prop) : Prop := forall a b, M a -> M b -> key a = key b -> a = b.
Definition agree_off (p : nat) (M M' : A -> Prop) : Prop := forall a, key a <> p -> (M a <-> M' a).
Definition empty_at (p : nat) (M : A -> Prop) : Prop := forall a, M a -> key a <> p.

Lemma is_nb_unique d M p x y : inj M -> is_nb d M p x -> is_nb d M p y -> x = y.
Proof.
  intros Hi Hx Hy. destruct x as [a|], y as [b|]; cbn in Hx, Hy.
  - destruct Hx as (Ma & La & Ha), Hy as (Mb & Lb & Hb). f_equal. apply Hi; auto.
    specialize (Ha b Mb Lb). specialize (Hb a Ma La). destruct d; cbn in *; lia.
  - destruct Hx as (Ma & La & _). specialize (Hy a Ma). destruct d; cbn in *; lia.
  - destruct Hy as (Mb & Lb & _). specialize (Hx b Mb). destruct d; cbn in *; lia.
  - reflexivity.
Qed.

Lemma is_end_unique d M x y : inj M -> is_end d M x -> is_end d M y -> x = y.
Proof.
  intros Hi Hx Hy. destruct x as [a|], y as [b|]; cbn in Hx, Hy.
  - destruct Hx as (Ma & Ha), Hy as (Mb & Hb). f_equal. apply Hi; auto.
    specialize (Ha b Mb). specialize (Hb a Ma). destruct d; cbn in *; lia.
  - destruct Hx as (Ma & _). destruct (Hy a Ma).
  - destruct Hy as (Mb & _). destruct (Hx b Mb).
  - reflexivity.
Qed.

Lemma is_nb_equiv d M M' p x : (forall a, M a <-> M' a) -> is_nb d M p x -> is_nb d M' p x.
Proof.
  intros E H. destruct x as [a|]; cbn in *.
  - destruct H as (Ma & La & Ha). split; [now apply E|]. split; [exact La|]. intros b Mb. apply Ha. now apply E.
  - intros b Mb. apply H. now apply E.
Qed.

Lemma is_end_equiv d M M' x : (forall a, M a <-> M' a) -> is_end d M x -> is_end d M' x.
Proof.
  intros E H. destruct x as [a|]; cbn in *.
  - destruct H as (Ma & Ha). split; [now apply E|]. intros b Mb. apply Ha. now apply E.
  - intros b Mb. apply (H b). now apply E.
Qed.

Lemma is_end_some d (M : A -> Prop) x r : M x -> is_end d M r -> exists f, r = Some f.
Proof. intros Mx H. destruct r as [f|]; [eauto|]. destruct (H x Mx). Qed.

Lemma is_end_none_flip d d' (M : A -> Prop) : is_end d M None -> is_end d' M None.
Proof. intros H; exact H. Qed.

(* the neighbour of p does not depend on what is stored at p *)
Lemma nb_agree d p M M' x : agree_off p M M' -> is_nb d M p x -> is_nb d M' p x.
Proof.
  intros Ag H. destruct x as [a|]; cbn in *.
  - destruct H as (Ma & La & Ha). split; [|split; [exact La|]].
    + apply Ag; [destruct d; cbn in *; lia|exact Ma].
    + intros b Mb Lb. apply Ha; [|exact Lb]. apply Ag; [destruct d; cbn in *; lia|exact Mb].
  - intros b Mb. destruct (Nat.eq_dec (key b) p) as [E|E]; [destruct d; cbn; lia|].
    apply H. now apply Ag.
Qed.

(* ---------------- removal of the entry at p ---------------- *)
Lemma R_hit d p M M' c N :
  agree_off p M M' -> empty_at p M' ->
  is_nb (negb d) M p (Some c) -> is_nb d M p N -> is_nb d M' (key c) N.
Proof.
  intros Ag Em (Mc & Lc & Hc) HN. destruct N as [n|]; cbn in *.
  - destruct HN as (Mn & Ln & Hn). split; [|split].
    + apply Ag; [destruct d; cbn in *; lia|exact Mn].
    + destruct d; cbn in *; lia.
    + intros b Mb Lb. pose proof (Em b Mb) as Eb. assert (Mb' : M b) by (now apply Ag).
      specialize (Hc b Mb'). specialize (Hn b Mb'). destruct d; cbn in *; lia.
  - intros b Mb. pose proof (Em b Mb) as Eb. assert (Mb' : M b) by (now apply Ag).
    specialize (HN b Mb'). specialize (Hc b Mb'). destruct d; cbn in *; lia.
Qed.

Lemma R_miss d p M M' aq P Nq :
  agree_off p M M' -> empty_at p M' -> M aq -> key aq <> p ->
  is_nb (negb d) M p P -> option_map key P <> Some (key aq) ->
  is_nb d M (key aq) Nq -> is_nb d M' (key aq) Nq.
Proof.
  intros Ag Em Maq Eq HP HPq HN. destruct Nq as [n|]; cbn in *.
  - destruct HN as (Mn & Ln & Hn).
    assert (En : key n <> p).
    { intros En. destruct P as [c|]; cbn in *.
      - destruct HP as (Mc & Lc & Hc). assert (key c <> key aq) by congruence.
        specialize (Hn c Mc). specialize (Hc aq Maq). destruct d; cbn in *; lia.
      - specialize (HP aq Maq). destruct d; cbn in *; lia. }
    split; [now apply Ag|]. split; [exact Ln|].
    intros b Mb Lb. apply Hn; [|exact Lb]. apply Ag; [apply Em; exact Mb|exact Mb].
  - intros b Mb. apply HN. apply Ag; [apply Em; exact Mb|exact Mb].
Qed.

Lemma skip_empty d p M c Nq :
  empty_at p M -> is_nb (negb d) M p (Some c) -> is_nb d M (key c) Nq -> is_nb d M p Nq.
Proof.
  intros Em (Mc & Lc & Hc) HN. destruct Nq as [n|]; cbn in *.
  - destruct HN as (Mn & Ln & Hn). pose proof (Em n Mn) as En. specialize (Hc n Mn).
    split; [exact Mn|]. split; [destruct d; cbn in *; lia|].
    intros b Mb Lb. apply Hn; [exact Mb|]. destruct d; cbn in *; lia.
  - intros b Mb. specialize (HN b Mb). destruct d; cbn in *; lia.
Qed.

Lemma from_end d p M Fi :
  empty_at p M -> is_nb (negb d) M p None -> is_end d M Fi -> is_nb d M p Fi.
Proof.
  intros Em HP HF. destruct Fi as [f|]; cbn in *.
  - destruct HF as (Mf & Hf). pose proof (Em f Mf) as Ef. specialize (HP f Mf).
    split; [exact Mf|]. split; [destruct d; cbn in *; lia|]. intros b Mb _. now apply Hf.
  - intros b Mb. destruct (HF b Mb).
Qed.

Lemma R_end_hit d p M M' N :
  agree_off p M M' -> empty_at p M' ->
  is_nb (negb d) M p None -> is_nb d M p N -> is_end d M' N.
Proof.
  intros Ag Em HP HN. destruct N as [n|]; cbn in *.
  - destruct HN as (Mn & Ln & Hn). split; [apply Ag; [destruct d; cbn in *; lia|exact Mn]|].
    intros b Mb. pose proof (Em b Mb) as Eb. assert (Mb' : M b) by (now apply Ag).
    specialize (HP b Mb'). apply Hn; [exact Mb'|]. destruct d; cbn in *; lia.
  - intros b Mb. pose proof (Em b Mb) as Eb. assert (Mb' : M b) by (now apply Ag).
    specialize (HP b Mb'). specialize (HN b Mb'). destruct d; cbn in *; lia.
Qed.

(* valid for removal and for insertion *)
Lemma end_miss d p M M' c Fi :
  agree_off p M M' -> is_nb (negb d) M p (Some c) -> is_end d M Fi -> is_end d M' Fi.
Proof.
  intros Ag (Mc & Lc & Hc) HF. destruct Fi as [f|]; cbn in *.
  - destruct HF as (Mf & Hf). pose proof (Hf c Mc) as Hfc.
    split; [apply Ag; [destruct d; cbn in *; lia|exact Mf]|].
    intros b Mb. destruct (Nat.eq_dec (key b) p) as [E|E]; [destruct d; cbn in *; lia|].
    apply Hf. now apply Ag.
  - destruct (HF c Mc).
Qed.

(* ---------------- insertion of an entry x at p ---------------- *)
Lemma I_hit d p M M' c x :
  agree_off p M M' -> empty_at p M -> M' x -> key x = p ->
  is_nb (negb d) M p (Some c) -> is_nb d M' (key c) (Some x).
Proof.
  intros Ag Em Mx Ex (Mc & Lc & Hc). cbn. split; [exact Mx|]. split; [destruct d; cbn in *; lia|].
  intros b Mb Lb. destruct (Nat.eq_dec (key b) p) as [E|E]; [destruct d; cbn in *; lia|].
  assert (Mb' : M b) by (now apply Ag). specialize (Hc b Mb'). destruct d; cbn in *; lia.
Qed.

Lemma I_miss d p M M' aq P Nq :
  agree_off p M M' -> empty_at p M -> M aq -> key aq <> p ->
  is_nb (negb d) M p P -> option_map key P <> Some (key aq) ->
  is_nb d M (key aq) Nq -> is_nb d M' (key aq) Nq.
Proof.
  intros Ag Em Maq Eq HP HPq HN.
  (* if aq lies on the far side of p, something lies strictly between aq and p *)
  assert (Hbetween : dlt d (key aq) p -> exists c, M c /\ dlt d (key aq) (key c) /\ dlt d (key c) p).
  { intros Hlt. destruct P as [c|]; cbn in *.
    - destruct HP as (Mc & Lc & Hc). assert (key c <> key aq) by congruence.
      specialize (Hc aq Maq). exists c. destruct d; cbn in *; (split; [exact Mc|lia]).
    - specialize (HP aq Maq). destruct d; cbn in *; lia. }
  destruct Nq as [n|]; cbn in *.
  - destruct HN as (Mn & Ln & Hn). split; [apply Ag; [now apply Em|exact Mn]|]. split; [exact Ln|].
    intros b Mb Lb. destruct (Nat.eq_dec (key b) p) as [E|E].
    + rewrite E in *. destruct (Hbetween Lb) as (c & Mc & L1 & L2). specialize (Hn c Mc L1).
      destruct d; cbn in *; lia.
    + apply Hn; [now apply Ag|exact Lb].
  - intros b Mb. destruct (Nat.eq_dec (key b) p) as [E|E].
    + rewrite E. destruct d; cbn in *.
      * destruct (Nat.le_gt_cases p (key aq)) as [L|L]; [exact L|].
        destruct (Hbetween L) as (c & Mc & L1 & L2). specialize (HN c Mc). lia.
      * destruct (Nat.le_gt_cases (key aq) p) as [L|L]; [exact L|].
        destruct (Hbetween L) as (c & Mc & L1 & L2). specialize (HN c Mc). lia.
    + apply HN. now apply Ag.
Qed.

Lemma I_end_hit d p M M' x :
  agree_off p M M' -> M' x -> key x = p -> is_nb (negb d) M p None -> is_end d M' (Some x).
Proof.
  intros Ag Mx Ex HP. cbn in *. split; [exact Mx|].
  intros b Mb. destruct (Nat.eq_dec (key b) p) as [E|E]; [destruct d; cbn in *; lia|].
  assert (Mb' : M b) by (now apply Ag). specialize (HP b Mb'). destruct d; cbn in *; lia.
Qed.

Lemma R_end d p M M' P N E :
  agree_off p M M' -> empty_at p M' -> is_nb (negb d) M p P -> is_nb d M p N -> is_end d M E ->
  is_end d M' (match P with None => N | Some _ => E end).
Proof.
  intros Ag Em HP HN HE. destruct P as [c|].
  - eapply end_miss; eauto.
  - eapply R_end_hit; eauto.
Qed.

Lemma I_end d p M M' P E x :
  agree_off p M M' -> M' x -> key x = p -> is_nb (negb d) M p P -> is_end d M E ->
  is_end d M' (match P with None => Some x | Some _ => E end).
Proof.
  intros Ag Mx Ex HP HE. destruct P as [c|].
  - eapply end_miss; eauto.
  - eapply I_end_hit; eauto.
Qed.

Lemma nb_none_empty p (M : A -> Prop) :
  empty_at p M -> is_nb true M p None -> is_nb false M p None -> forall b, ~ M b.
Proof.
  intros Em H1 H2 b Mb. pose proof (Em b Mb). specialize (H1 b Mb). specialize (H2 b Mb). cbn in *. lia.
Qed.

Lemma nb_some_member d (M : A -> Prop) p c : is_nb d M p (Some c) -> M c.
Proof. intros (H & _). exact H. Qed.

Lemma agree_empty_equiv p (M M' : A -> Prop) :
  agree_off p M M' -> empty_at p M -> empty_at p M' -> forall a, M a <-> M' a.
Proof.
  intros Ag E1 E2 a. destruct (Nat.eq_dec (key a) p) as [E|E].
  - split; intros H; [destruct (E1 a H E)|destruct (E2 a H E)].
  - now apply Ag.
Qed.

Lemma insert_ends_hyps p (M : A -> Prop) P N Fi La :
  empty_at p M -> is_nb false M p P -> is_nb true M p N -> is_end true M Fi -> is_end false M La ->
  ((P <> None \/ N <> None) -> exists f l, Fi = Some f /\ La = Some l)
  /\ (P = None -> N = None -> Fi = None /\ La = None).
Proof.
  intros Em HP HN HF HL. split.
  - intros H. assert (exists c, M c) as (c & Mc).
    { destruct H as [H|H]; [destruct P as [c|]; [|congruence]|destruct N as [c|]; [|congruence]]; exists c.
      - now destruct HP. - now destruct HN. }
    destruct (is_end_some true M c Fi Mc HF) as (f & ->). destruct (is_end_some false M c La Mc HL) as (l & ->). eauto.
  - intros -> ->. pose proof (nb_none_empty p M Em HN HP) as He. split.
    + destruct Fi as [f|]; [|reflexivity]. destruct HF as (Mf & _). destruct (He f Mf).
    + destruct La as [l|]; [|reflexivity]. destruct HL as (Ml & _). destruct (He l Ml).
Qed.

(* ---------------- moving the cursor one slot forward ---------------- *)
Lemma C_hit p (M : A -> Prop) x : M x -> key x = p -> inj M -> is_nb false M (S p) (Some x).
Proof.
  intros Mx Ex _. cbn. split; [exact Mx|]. split; [lia|]. intros b Mb Lb. lia.
Qed.

Lemma C_miss p M P : empty_at p M -> is_nb false M p P -> is_nb false M (S p) P.
Proof.
  intros Em HP. destruct P as [c|]; cbn in *.
  - destruct HP as (Mc & Lc & Hc). split; [exact Mc|]. split; [lia|].
    intros b Mb Lb. pose proof (Em b Mb). apply Hc; [exact Mb|lia].
  - intros b Mb. pose proof (Em b Mb). specialize (HP b Mb). lia.
Qed.
End Chain.

(* ------------------------------------------------------------------ *)
(* scans of sorted lists compute the characterised answers             *)
Section SortedScan.
Context {A : Type} (key : A -> nat).
Let klt (a b : A) := key a < key b.

Lemma last_lt_acc p (L : list A) : forall acc,
  StronglySorted klt L ->
  let r := fold_left (fun acc x => if Nat.ltb (key x) p then Some x else acc) L acc in
  (r = acc /\ forall b, In b L -> p <= key b)
  \/ (exists x, r = Some x /\ In x L /\ key x < p /\ forall b, In b L -> key b < p -> key b <= key x).
Proof.
  induction L as [|y L IH]; intros acc Hs; cbn [fold_left].
  - left. split; [reflexivity|]. intros b [].
  - inversion Hs as [|? ? Hs' Hall]; subst. rewrite Forall_forall in Hall.
    destruct (Nat.ltb_spec (key y) p) as [Hy|Hy].
    + right. destruct (IH (Some y) Hs') as [[Er Hn]|(x & Er & Hin & Hx & Hmax)].
      * exists y. split; [exact Er|]. split; [now left|]. split; [exact Hy|].
        intros b [<-|Hb] Hb'; [lia|]. specialize (Hn b Hb). lia.
      * exists x. split; [exact Er|]. split; [now right|]. split; [exact Hx|].
        intros b [<-|Hb] Hb'; [|now apply Hmax]. specialize (Hall x Hin). unfold klt in Hall. lia.
    + destruct (IH acc Hs') as [[Er Hn]|(x & Er & Hin & Hx & Hmax)].
      * left. split; [exact Er|]. intros b [<-|Hb]; [exact Hy|now apply Hn].
      * right. exists x. split; [exact Er|]. split; [now right|]. split; [exact Hx|].
        intros b [<-|Hb] Hb'; [lia|now apply Hmax].
Qed.

Lemma last_lt_is_prev p L : StronglySorted klt L -> is_nb key false (fun a => In a L) p (last_lt key p L).
Proof.
  intros Hs. unfold last_lt. destruct (last_lt_acc p L None Hs) as [[Er Hn]|(x & Er & Hin & Hx & Hmax)]; cbn zeta in *.
  - rewrite Er. cbn. exact Hn.
  - rewrite Er. cbn. split; [exact Hin|]. split; [exact Hx|]. exact Hmax.
Qed.

Lemma first_gt_is_next p L : StronglySorted klt L -> is_nb key true (fun a => In a L) p (first_gt key p L).
Proof.
  unfold first_gt. induction L as [|y L IH]; intros Hs; cbn [find].
  - cbn. intros b [].
  - inversion Hs as [|? ? Hs' Hall]; subst. rewrite Forall_forall in Hall.
    destruct (Nat.ltb_spec p (key y)) as [Hy|Hy].
    + cbn. split; [now left|]. split; [exact Hy|]. intros b [<-|Hb] _; [lia|]. specialize (Hall b Hb). unfold klt in Hall. lia.
    + specialize (IH Hs'). destruct (find (fun x => Nat.ltb p (key x)) L) as [x|]; cbn in *.
      * destruct IH as (Hin & Hx & Hmin). split; [now right|]. split; [exact Hx|].
        intros b [<-|Hb] Hb'; [lia|now apply Hmin].
      * intros b [<-|Hb]; [exact Hy|now apply IH].
Qed.

Lemma hd_is_first L : StronglySorted klt L -> is_end key true (fun a => In a L) (hd_error L).
Proof.
  intros Hs. destruct L as [|y L]; cbn.
  - intros b [].
  - inversion Hs as [|? ? Hs' Hall]; subst. rewrite Forall_forall in Hall.
    split; [now left|]. intros b [<-|Hb]; [lia|]. specialize (Hall b Hb). unfold klt in Hall. lia.
Qed.

Lemma hd_rev_is_last L : StronglySorted klt L -> is_end key false (fun a => In a L) (hd_error (rev L)).
Proof.
  induction 1 as [|x l Hs IH Hall]; [cbn; intros b []|].
  rewrite Forall_forall in Hall. cbn [rev]. destruct (rev l) as [|y r] eqn:Er.
  - assert (l = []) by (apply (f_equal (@rev A)) in Er; rewrite rev_involutive in Er; exact Er). subst.
    cbn. split; [now left|]. intros b [<-|[]]. lia.
  - cbn [app hd_error] in *. cbn in IH. destruct IH as (Hin & Hmax). cbn.
    split; [now right|]. intros b [<-|Hb]; [|now apply Hmax]. specialize (Hall y Hin). unfold klt in Hall. lia.
Qed.

Lemma sorted_inj L : StronglySorted klt L -> inj key (fun a => In a L).
Proof.
  induction 1 as [|x l Hs IH Hall]; intros a b Ha Hb E; [destruct Ha|].
  rewrite Forall_forall in Hall. destruct Ha as [<-|Ha], Hb as [<-|Hb].
  - reflexivity.
  - specialize (Hall b Hb). unfold klt in Hall. lia.
  - specialize (Hall a Ha). unfold klt in Hall. lia.
  - now apply IH.
Qed.
End SortedScan.

(* ------------------------------------------------------------------ *)
(* the two chains of a slot array                                      *)

(* entries (q, r): the operator in slot q acts on variable v with relative index r *)
Definition Mvar (sl : slots) (v : nat) (a : nat * nat) : Prop :=
  exists o, nth_error sl (fst a) = Some (Some o) /\ index_of v (o_vars o) = Some (snd a).
(* entries q: slot q holds an operator *)
Definition Mocc (sl : slots) (q : nat) : Prop := exists o, nth_error sl q = Some (Some o).

Definition idk (q : nat) : nat := q.

Lemma ops_on_var_from_spec (sl : slots) v : forall k q r,
  In (q, r) (g_ops_on_var_from o_vars k sl v)
  <-> (k <= q /\ exists o, nth_error sl (q - k) = Some (Some o) /\ index_of v (o_vars o) = Some r).
Proof.
  induction sl as [|s sl IH]; intros k q r; cbn [g_ops_on_var_from].
  - split; [intros []|]. intros [_ (o & H & _)]. destruct (q - k); discriminate.
  - assert (Hshift : forall X : Prop, (S k <= q /\ X) -> k <= q /\ q - k = S (q - S k)) by (intros; lia).
    destruct s as [a|].
    + destruct (index_of v (o_vars a)) as [i|] eqn:Ei.
      * cbn [In]. rewrite IH. split.
        -- intros [E|[Hk (o & Ho & Hi)]].
           ++ inversion E; subst. split; [lia|]. exists a. rewrite Nat.sub_diag. split; [reflexivity|exact Ei].
           ++ split; [lia|]. exists o. replace (q - k) with (S (q - S k)) by lia. split; assumption.
        -- intros [Hk (o & Ho & Hi)]. destruct (Nat.eq_dec k q) as [->|Hne].
           ++ rewrite Nat.sub_diag in Ho. cbn in Ho. inversion Ho; subst. left. congruence.
           ++ right. split; [lia|]. exists o. replace (q - k) with (S (q - S k)) in Ho by lia. split; assumption.
      * rewrite IH. split.
        -- intros [Hk (o & Ho & Hi)]. split; [lia|]. exists o. replace (q - k) with (S (q - S k)) by lia. split; assumption.
        -- intros [Hk (o & Ho & Hi)]. destruct (Nat.eq_dec k q) as [->|Hne].
           ++ rewrite Nat.sub_diag in Ho. cbn in Ho. inversion Ho; subst. congruence.
           ++ split; [lia|]. exists o. replace (q - k) with (S (q - S k)) in Ho by lia. split; assumption.
    + rewrite IH. split.
      * intros [Hk (o & Ho & Hi)]. split; [lia|]. exists o. replace (q - k) with (S (q - S k)) by lia. split; assumption.
      * intros [Hk (o & Ho & Hi)]. destruct (Nat.eq_dec k q) as [->|Hne].
        -- rewrite Nat.sub_diag in Ho. discriminate.
        -- split; [lia|]. exists o. replace (q - k) with (S (q - S k)) in Ho by lia. split; assumption.
Qed.

Lemma ops_on_var_in sl v a : In a (ops_on_var sl v) <-> Mvar sl v a.
Proof.
  destruct a as [q r]. unfold ops_on_var, g_ops_on_var, Mvar. rewrite ops_on_var_from_spec.
  cbn [fst snd]. rewrite Nat.sub_0_r. split; [intros [_ H]; exact H|intros H; split; [lia|exact H]].
Qed.

Lemma ops_on_var_from_sorted (sl : slots) v : forall k,
  StronglySorted (fun a b : nat * nat => fst a < fst b) (g_ops_on_var_from o_vars k sl v).
Proof.
  induction sl as [|s sl IH]; intros k; cbn [g_ops_on_var_from]; [constructor|].
  destruct s as [a|]; [|apply IH]. destruct (index_of v (o_vars a)); [|apply IH].
  constructor; [apply IH|]. apply Forall_forall. intros [q r] Hq. apply ops_on_var_from_spec in Hq. cbn. lia.
Qed.

Lemma ops_on_var_sorted sl v : StronglySorted (fun a b : nat * nat => fst a < fst b) (ops_on_var sl v).
Proof. apply ops_on_var_from_sorted. Qed.

Lemma occupied_in sl q : In q (occupied sl) <-> Mocc sl q.
Proof.
  rewrite occupied_spec. unfold get_op, g_get, Mocc. split; intros [o H].
  - destruct (nth_error sl q) as [[x|]|]; try discriminate. eauto.
  - exists o. now rewrite H.
Qed.

Lemma occupied_sorted' sl : StronglySorted (fun a b : nat => idk a < idk b) (occupied sl).
Proof. exact (occupied_sorted sl). Qed.

Lemma Mvar_inj sl v : inj fst (Mvar sl v).
Proof.
  intros a b Ha Hb E. apply ops_on_var_in in Ha, Hb.
  exact (sorted_inj fst _ (ops_on_var_sorted sl v) a b Ha Hb E).
Qed.

Lemma Mocc_inj sl : inj idk (Mocc sl).
Proof. intros a b _ _ E. exact E. Qed.

(* direction-indexed names for the scan functions *)
Definition nav_v (d : bool) (sl : slots) (q v : nat) : option (nat * nat) :=
  if d then next_for_var sl q v else prev_for_var sl q v.
Definition end_v (d : bool) (sl : slots) (v : nat) : option (nat * nat) :=
  if d then first_for_var sl v else last_for_var sl v.
Definition nav_p (d : bool) (sl : slots) (q : nat) : option nat :=
  if d then next_p sl q else prev_p sl q.
Definition end_p (d : bool) (sl : slots) : option nat :=
  if d then first_p sl else last_p sl.

Lemma nav_v_spec d sl q v : is_nb fst d (Mvar sl v) q (nav_v d sl q v).
Proof.
  apply is_nb_equiv with (M := fun a => In a (ops_on_var sl v)); [intros a; apply ops_on_var_in|].
  destruct d; cbn [nav_v].
  - apply first_gt_is_next. apply ops_on_var_sorted.
  - apply last_lt_is_prev. apply ops_on_var_sorted.
Qed.

Lemma end_v_spec d sl v : is_end fst d (Mvar sl v) (end_v d sl v).
Proof.
  apply is_end_equiv with (M := fun a => In a (ops_on_var sl v)); [intros a; apply ops_on_var_in|].
  destruct d; cbn [end_v].
  - apply hd_is_first. apply ops_on_var_sorted.
  - apply hd_rev_is_last. apply ops_on_var_sorted.
Qed.

Lemma nav_p_spec d sl q : is_nb idk d (Mocc sl) q (nav_p d sl q).
Proof.
  apply is_nb_equiv with (M := fun a => In a (occupied sl)); [intros a; apply occupied_in|].
  destruct d; cbn [nav_p].
  - apply (first_gt_is_next idk). apply occupied_sorted'.
  - apply (last_lt_is_prev idk). apply occupied_sorted'.
Qed.

Lemma end_p_spec d sl : is_end idk d (Mocc sl) (end_p d sl).
Proof.
  apply is_end_equiv with (M := fun a => In a (occupied sl)); [intros a; apply occupied_in|].
  destruct d; cbn [end_p].
  - apply (hd_is_first idk). apply occupied_sorted'.
  - apply (hd_rev_is_last idk). apply occupied_sorted'.
Qed.

(* to establish a value of a scan function it suffices to establish its characterisation *)
Lemma nav_v_eq d sl q v x : is_nb fst d (Mvar sl v) q x -> nav_v d sl q v = x.
Proof. intros H. eapply is_nb_unique; [apply Mvar_inj|apply nav_v_spec|exact H]. Qed.
Lemma end_v_eq d sl v x : is_end fst d (Mvar sl v) x -> end_v d sl v = x.
Proof. intros H. eapply is_end_unique; [apply Mvar_inj|apply end_v_spec|exact H]. Qed.
Lemma nav_p_eq d sl q x : is_nb idk d (Mocc sl) q x -> nav_p d sl q = x.
Proof. intros H. eapply is_nb_unique; [apply Mocc_inj|apply nav_p_spec|exact H]. Qed.
Lemma end_p_eq d sl x : is_end idk d (Mocc sl) x -> end_p d sl = x.
Proof. intros H. eapply is_end_unique; [apply Mocc_inj|apply end_p_spec|exact H]. Qed.
