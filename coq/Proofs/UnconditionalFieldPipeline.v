(* The pipeline theorem WITH a longitudinal field, on the complete configuration space, with no hypothesis
   about the space: for every table H and flip ratio wfn such that
     - wfn only looks at the skeleton of an operator (bond, variables, constant flag),
     - every legal cluster edge has a value-independent weight, and every other legal operator either keeps its
       weight under a flip of all its values or has flip ratio 0,
   the weighted cluster update (cluster a flips with probability w_a / 2, w_a the product of the flip ratios in
   the cluster) is a reversible kernel for the SSE weight on ALL consistent legal configurations.  The three
   per-flip conditions that Proofs/TimestepStationary.v asks of a space (checked there by computation on an
   example) are PROVED here for the canonical space, using the total correctness of the decomposition. *)
From Coq Require Import List QArith ZArith NArith Bool Arith Lia Lqa.
From QmcV Require Import Model.Prog Model.Sse Model.Nav Model.Ham Model.Diagonal Model.Cluster Model.ClusterValid Model.Steps
     Proofs.ProgLemmas Proofs.FastOpsLemmas Proofs.DiagonalProofs Proofs.SseWeight Proofs.ClusterProofs
     Proofs.ClusterFlipProofs Proofs.LegalityProofs Proofs.ThermalProofs Proofs.HamProofs Proofs.Expect Proofs.SweepStationary Proofs.GroupKernel
     Proofs.TimestepStationary Proofs.ValidatedPipeline Proofs.DecomposeProofs Proofs.DecomposeTotal
     Proofs.UnconditionalPipeline.
Import ListNotations.
Open Scope Q_scope.

(* a flip vector of non-zero probability flips only clusters of non-zero probability *)
Lemma pw_nonzero : forall probs fl a,
  ~ pw probs fl == 0 -> length fl = length probs -> (a < length probs)%nat ->
  nth a fl false = true -> ~ qclip (nth a probs 0) == 0.
Proof.
  induction probs as [|q r IH]; intros fl a Hp Hl Ha Hn; [cbn in Ha; lia|].
  destruct fl as [|b t]; [discriminate|]. cbn [pw] in Hp. cbn [length] in Hl, Ha.
  destruct a as [|a]; cbn [nth] in *.
  - subst b. intros E. apply Hp. rewrite E. ring.
  - apply (IH t a); try lia; [|exact Hn]. intros E. apply Hp. rewrite E. ring.
Qed.

Lemma qclip_nonzero_pos q : ~ qclip q == 0 -> 0 < q.
Proof.
  unfold qclip. destruct (Qle_bool q 0) eqn:E; [intros H; exfalso; apply H; reflexivity|].
  intros _. destruct (Qlt_le_dec 0 q) as [Hlt|Hle]; [exact Hlt|]. apply Qle_bool_iff in Hle. congruence.
Qed.

Section FieldPipeline.
  Variable H : ham.
  Variable wfn : op -> Q.
  Hypothesis Hskel : forall o o', skel_of o = skel_of o' -> wfn o = wfn o'.
  Hypothesis Hsym : forall o, op_legal H o = true ->
     if is_edge o then edge_free H o else (flip_sym H o \/ wfn o == 0).
  Variable nv L : nat.
  Hypothesis Hrange : ham_vars_ok H nv.
  Let xs := canon H (all_substates nv) L.

  (* the cluster weights only depend on the skeleton of the string *)
  Lemma weight_step_skel sl sl' acc pab :
    skeleton sl = skeleton sl' -> weight_step sl wfn acc pab = weight_step sl' wfn acc pab.
  Proof.
    intros Hs. destruct pab as [p ab]. unfold weight_step.
    assert (Hg : option_map skel_of (get_op sl p) = option_map skel_of (get_op sl' p)).
    { rewrite <- !skeleton_get. now rewrite Hs. }
    destruct ab as [[a|] [c|]]; try reflexivity.
    destruct (get_op sl p) as [o|], (get_op sl' p) as [o'|]; cbn in Hg; try discriminate; [|reflexivity].
    assert (Hsk : skel_of o = skel_of o') by congruence. now rewrite (Hskel o o' Hsk).
  Qed.

  Lemma cluster_weights_skel sl sl' b ncl :
    skeleton sl = skeleton sl' -> cluster_weights sl b ncl wfn = cluster_weights sl' b ncl wfn.
  Proof.
    intros Hs. unfold cluster_weights. generalize (repeat 1 ncl). generalize (combine (seq 0 (length b)) b).
    induction l as [|x l IH]; intros acc; cbn [fold_left]; [reflexivity|].
    rewrite (weight_step_skel sl sl' acc x Hs). apply IH.
  Qed.

  Theorem canon_cluster_ready_w : cluster_ready_w H wfn xs.
  Proof.
    constructor.
    - intros st sl Hin E0. destruct (canon_facts H nv L st sl Hin) as (Hg & _ & Hn).
      unfold good in Hg. cbn [fst snd] in Hg. apply andb_true_iff in Hg. destruct Hg as [Hwf Hleg].
      destruct (decompose_correct sl) as (b & ncl & Ed & Hl & Hs).
      exists b, ncl. repeat split; try assumption. rewrite Hn. now apply (legal_in_range H nv sl).
    - intros [st sl] fl Hin Hposs. destruct (canon_facts H nv L st sl Hin) as (Hg & HL & Hn).
      unfold good in Hg. cbn [fst snd] in Hg. apply andb_true_iff in Hg. destruct Hg as [Hwf Hleg].
      destruct (Nat.eqb (count_ops sl) 0) eqn:E0.
      { assert (Ec : cl_act (st, sl) fl = (st, sl)) by (unfold cl_act; cbn [fst snd]; now rewrite E0).
        rewrite Ec. repeat split; try reflexivity. exact Hin. }
      destruct (decompose_correct sl) as (b & ncl & Ed & Hl & Hs).
      assert (Hpr : clw_pr wfn (st, sl) = map (fun w => w * (1 # 2)) (cluster_weights sl b ncl wfn))
        by (unfold clw_pr; cbn [snd]; now rewrite E0, Ed).
      destruct Hposs as [Hlen Hnz]. rewrite Hpr in Hlen, Hnz.
      assert (Hr : vars_in_range (length st) sl = true) by (rewrite Hn; now apply (legal_in_range H nv sl)).
      (* the positional weight hypothesis: an operator with flip ratio 0 sits in a cluster that is not flipped *)
      assert (Hpos : forall p o, get_op sl p = Some o ->
                 if is_edge o then edge_free H o
                 else flip_sym H o \/ (forall a, fst (bget b p) = Some a -> nth a fl false = false)).
      { intros p o Hp. assert (Hlo : op_legal H o = true) by (apply (all_legal_nth H sl p o Hleg); now apply get_op_nth_error).
        pose proof (Hsym o Hlo) as Hso. destruct (is_edge o) eqn:Hedge; [exact Hso|].
        destruct Hso as [Hfs|Hz]; [now left|]. right. intros a Ha.
        destruct (nth a fl false) eqn:Efl; [|reflexivity]. exfalso.
        rewrite map_length in Hlen.
        pose proof (sides_ok_spec sl b p o Hs Hp Hedge) as Hside. rewrite Ha in Hside.
        assert (Hbp : bget b p = (Some a, Some a)).
        { destruct (bget b p) as [x y]. cbn [fst snd] in *. now subst. }
        assert (Halt : (a < ncl)%nat).
        { destruct (Nat.lt_ge_cases a ncl) as [Hlt|Hge]; [exact Hlt|]. exfalso.
          rewrite nth_overflow in Efl; [discriminate|]. rewrite Hlen. unfold cluster_weights.
          rewrite weight_fold_length, repeat_length. exact Hge. }
        assert (Hplt : (p < length b)%nat).
        { destruct (Nat.lt_ge_cases p (length b)) as [Hlt|Hge]; [exact Hlt|]. exfalso.
          unfold bget in Hbp. rewrite nth_overflow in Hbp by exact Hge. discriminate. }
        pose proof (cluster_weight_zero sl b ncl wfn p a o Hplt Hbp Hp Hz Halt) as Hw0.
        assert (Hlenw : length (cluster_weights sl b ncl wfn) = ncl)
          by (unfold cluster_weights; now rewrite weight_fold_length, repeat_length).
        apply (pw_nonzero _ fl a Hnz); [now rewrite map_length|rewrite map_length; lia|exact Efl|].
        assert (Hnth : nth a (map (fun w => w * (1 # 2)) (cluster_weights sl b ncl wfn)) 0
                       = (nth a (cluster_weights sl b ncl wfn) 1) * (1 # 2)).
        { rewrite (nth_indep _ 0 ((fun w => w * (1 # 2)) 1)) by (rewrite map_length; lia).
          exact (map_nth (fun w => w * (1 # 2)) (cluster_weights sl b ncl wfn) 1 a). }
        rewrite Hnth. unfold qclip.
        replace (Qle_bool (nth a (cluster_weights sl b ncl wfn) 1 * (1 # 2)) 0) with true; [reflexivity|].
        symmetry. apply Qle_bool_iff. rewrite Hw0. lra. }
      pose proof (cluster_flip_wf sl st b fl Hr Hl Hwf) as Hwf'.
      pose proof (cluster_flip_legal H sl st b fl Hs (weight_hyp_positional H fl sl b Hpos) Hleg) as Hleg'.
      pose proof (cluster_flip_weight_positional H sl st b fl Hpos Hs) as Hwp.
      pose proof (apply_flips_state sl st b fl Hl Hwf) as Hst.
      assert (Eact : cl_act (st, sl) fl = (snd (apply_flips sl st b fl), fst (apply_flips sl st b fl))).
      { unfold cl_act. cbn [fst snd]. rewrite E0, Ed. destruct (apply_flips sl st b fl); reflexivity. }
      rewrite Eact. destruct (apply_flips sl st b fl) as [sl' st'] eqn:Ea. cbn [fst snd] in *.
      assert (E1 : sl' = fst (apply_flips sl st b fl)) by now rewrite Ea.
      assert (Hlen_sl : length sl' = length sl) by (rewrite E1; apply apply_flips_length).
      assert (Hlen_st : length st' = length st) by (rewrite Hst; apply xst_length).
      assert (Hsk : skeleton sl' = skeleton sl) by (rewrite E1; apply apply_flips_skeleton).
      repeat split.
      + apply (in_canon H nv L); [unfold good; cbn [fst snd]; now rewrite Hwf', Hleg'|lia|lia].
      + rewrite Hpr. unfold clw_pr. cbn [snd].
        rewrite E1, apply_flips_count, E0, redecompose_same, Ed, <- E1.
        now rewrite (cluster_weights_skel sl' sl b ncl Hsk).
      + exact Hwp.
  Qed.

  Theorem cluster_w_stationary_canon beta : wstat xs (SweepStationary.W H beta) (cluster_cfg_w wfn).
  Proof.
    apply (cluster_kernel_w_stationary H wfn beta xs).
    - apply (sp_nodup H L xs (canon_space_ok H (all_substates nv) L)).
    - exact canon_cluster_ready_w.
  Qed.

  Theorem pipeline_w_stationary_canon beta (upd : cfg -> prog cfg) :
    wstat xs (SweepStationary.W H beta) upd -> wstat xs (SweepStationary.W H beta) (pipeline_cfg_w wfn upd).
  Proof.
    intros Hupd. apply (pipeline_w_stationary H wfn beta L nv xs); [|exact Hupd]. constructor.
    - apply canon_space_ok.
    - intros [st sl] Hc. destruct (canon_facts H nv L st sl Hc) as (_ & _ & Hn). exact Hn.
    - exact canon_cluster_ready_w.
    - intros st sl v. now apply (canon_free H nv L).
  Qed.
End FieldPipeline.

(* ---------------- Ising instance with a longitudinal field ---------------- *)
Lemma long_wf_skel g o o' : skel_of o = skel_of o' -> long_wf g o = long_wf g o'.
Proof. intros Hs. unfold long_wf. assert (o_bond o = o_bond o') by (unfold skel_of in Hs; congruence). now rewrite H. Qed.

(* two-site terms keep their weight when both spins flip; transverse terms have a value-independent weight;
   field terms have flip ratio 0 *)
Theorem ising_sym_ham_w g : forall o, op_legal (ising_ham g) o = true ->
  if is_edge o then edge_free (ising_ham g) o else (flip_sym (ising_ham g) o \/ long_wf g o == 0).
Proof.
  intros o Hleg. unfold op_legal in Hleg. rewrite !andb_true_iff in Hleg.
  destruct Hleg as [[[[[Hb Hv] Hc] _] _] _].
  apply eqb_prop in Hc. cbn [ising_ham h_nbonds h_vars h_const] in Hb, Hv, Hc.
  unfold is_edge, sk_is_edge, skel_of. cbn [sk_const sk_vars]. rewrite Hc. unfold ising_const.
  destruct (Nat.ltb (o_bond o) (length (i_edges g))) eqn:E1; cbn [negb andb].
  - left. unfold flip_sym, op_weight. cbn [ising_ham h_weight]. unfold ising_weight. rewrite E1.
    destruct (nth_error (i_edges g) (o_bond o)) as [[[x y] j]|]; [apply two_site_flip_sym|reflexivity].
  - apply Nat.ltb_ge in E1.
    destruct (Nat.ltb (o_bond o) (length (i_edges g) + i_nvars g)) eqn:E2.
    + apply nats_eqb_eq in Hv. unfold ising_vars in Hv.
      replace (Nat.ltb (o_bond o) (length (i_edges g))) with false in Hv by (symmetry; apply Nat.ltb_ge; exact E1).
      rewrite E2 in Hv. rewrite Hv. cbn [length Nat.eqb].
      unfold edge_free, op_weight. intros i o'. cbn [ising_ham h_weight]. unfold ising_weight.
      replace (Nat.ltb (o_bond o) (length (i_edges g))) with false by (symmetry; apply Nat.ltb_ge; exact E1).
      rewrite E2. reflexivity.
    + right. unfold long_wf. apply Nat.ltb_ge in E2.
      replace (Nat.leb (length (i_edges g) + i_nvars g) (o_bond o)) with true by (symmetry; apply Nat.leb_le; exact E2).
      reflexivity.
Qed.

Lemma ising_vars_ok_any g : ising_edges_ok g = true -> ham_vars_ok (ising_ham g) (i_nvars g).
Proof.
  intros He b Hb. cbn [ising_ham h_nbonds h_vars] in *. unfold ising_nbonds in Hb.
  unfold ising_vars. destruct (Nat.ltb b (length (i_edges g))) eqn:E1.
  - destruct (nth_error (i_edges g) b) as [[[x y] j]|] eqn:En; [|reflexivity].
    unfold ising_edges_ok in He. rewrite forallb_forall in He. specialize (He _ (nth_error_In _ _ En)).
    change (Nat.ltb x (i_nvars g) && Nat.ltb y (i_nvars g) = true)%bool in He.
    apply andb_true_iff in He. destruct He as [Hx Hy]. cbn [forallb]. now rewrite Hx, Hy.
  - apply Nat.ltb_ge in E1.
    destruct (Nat.ltb b (length (i_edges g) + i_nvars g)) eqn:E2; cbn [forallb]; rewrite andb_true_r; apply Nat.ltb_lt.
    + apply Nat.ltb_lt in E2. lia.
    + apply Nat.ltb_ge in E2. destruct (has_long g); lia.
Qed.

(* THE HEADLINE WITH A FIELD: for every Ising model with a longitudinal field whose edges name existing spins,
   every beta > 0 and every cutoff, the model's own timestep pipeline (Metropolis diagonal update, weighted cluster
   update, free-spin refresh) leaves the SSE weight stationary on the space of ALL consistent legal configurations *)
Theorem ising_model_pipeline_stationary_with_field g beta L :
  ising_edges_ok g = true -> 0 < beta -> (0 < ising_nbonds g)%nat ->
  wstat (canon (ising_ham g) (all_substates (i_nvars g)) L) (SweepStationary.W (ising_ham g) beta)
        (pipeline_cfg_w (long_wf g) (update_cfg (met_update (ising_ham g) beta))).
Proof.
  intros He Hb Hk.
  apply (pipeline_w_stationary_canon (ising_ham g) (long_wf g) (long_wf_skel g) (ising_sym_ham_w g) (i_nvars g) L
           (ising_vars_ok_any g He) beta).
  now apply metropolis_update_stationary_canon.
Qed.

Theorem ising_model_heatbath_pipeline_stationary_with_field g beta L :
  ising_edges_ok g = true -> 0 < beta ->
  wstat (canon (ising_ham g) (all_substates (i_nvars g)) L) (SweepStationary.W (ising_ham g) beta)
        (pipeline_cfg_w (long_wf g) (update_cfg (hb_update (ising_ham g) (bond_weights (ising_ham g)) beta))).
Proof.
  intros He Hb.
  apply (pipeline_w_stationary_canon (ising_ham g) (long_wf g) (long_wf_skel g) (ising_sym_ham_w g) (i_nvars g) L
           (ising_vars_ok_any g He) beta).
  now apply heatbath_update_stationary_canon.
Qed.
