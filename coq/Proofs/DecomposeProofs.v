(* Correctness of the cluster decomposition (qmc_traits/cluster.rs, transcribed in Model/Cluster.v):
   whenever [decompose] returns a labelling, that labelling passes the validators [links_ok] and
   [sides_ok] of Model/ClusterValid.v.  Partial correctness: fuel exhaustion / malformed strings
   return [None] and are outside the statement.

   Proof: a loop invariant over (labelling, current cluster, frontier, interior stack).  Legs on the
   interior stack count as already labelled with the current cluster ("effective label" [EL]); under
   that reading every labelled leg is either closed (its world-line neighbour carries the same label)
   or still on the stack, non-edge operators carry one label on both sides, and an edge operator with
   one unlabelled side has that side on the frontier. *)
From Coq Require Import List Bool Arith Lia Sorted.
From QmcV Require Import Model.Sse Model.Nav Model.Cluster Model.ClusterValid
     Proofs.FastOpsLemmas Proofs.DecomposeNav.
Import ListNotations.

Definition lab (b : bounds) (p : nat) (sd : side) : option nat :=
  if sd then snd (bget b p) else fst (bget b p).

Lemma sb_len p sd c b : length (fst (set_boundary p sd c b)) = length b.
Proof. unfold set_boundary. destruct (bget b p) as [t0 t1]. cbn [fst]. apply length_set_nth. Qed.

Lemma sb_bget_other p sd c b p' : p' <> p -> bget (fst (set_boundary p sd c b)) p' = bget b p'.
Proof.
  intros Hne. unfold set_boundary. destruct (bget b p) as [t0 t1]. cbn [fst]. unfold bget.
  apply nth_set_nth_neq. congruence.
Qed.

Lemma sb_lab p sd c b p' sd' : p < length b ->
  lab (fst (set_boundary p sd c b)) p' sd'
  = if Nat.eqb p' p && Bool.eqb sd' sd then Some c else lab b p' sd'.
Proof.
  intros Hp. destruct (Nat.eqb_spec p' p) as [->|Hne]; cbn [andb].
  - unfold lab, set_boundary. destruct (bget b p) as [t0 t1] eqn:E. cbn [fst]. unfold bget.
    rewrite nth_set_nth_eq by exact Hp.
    destruct sd, sd'; reflexivity.
  - unfold lab. now rewrite sb_bget_other.
Qed.

Lemma sb_both p sd c b :
  snd (set_boundary p sd c b) = match lab b p (negb sd) with Some _ => true | None => false end.
Proof.
  unfold set_boundary, lab. destruct (bget b p) as [[a|] [d|]]; destruct sd; reflexivity.
Qed.

Lemma sbs_len p c b : length (set_boundaries p c b) = length b.
Proof. unfold set_boundaries. now rewrite !sb_len. Qed.

Lemma sbs_bget_other p c b p' : p' <> p -> bget (set_boundaries p c b) p' = bget b p'.
Proof. intros H. unfold set_boundaries. now rewrite !sb_bget_other. Qed.

Lemma sbs_lab p c b p' sd' : p < length b ->
  lab (set_boundaries p c b) p' sd' = if Nat.eqb p' p then Some c else lab b p' sd'.
Proof.
  intros Hp. unfold set_boundaries. rewrite sb_lab by (now rewrite sb_len). rewrite sb_lab by exact Hp.
  destruct (Nat.eqb p' p); cbn [andb]; [|reflexivity]. destruct sd'; reflexivity.
Qed.

Lemma lab_none_pair b p : lab b p Inputs = None -> lab b p Outputs = None -> bget b p = (None, None).
Proof. unfold lab, Inputs, Outputs. destruct (bget b p) as [x y]. cbn. intros -> ->. reflexivity. Qed.

Lemma side_cases (sd sd' : side) : sd' = sd \/ sd' = negb sd.
Proof. destruct sd, sd'; auto. Qed.

Lemma eqb_side_refl (sd : side) : Bool.eqb sd sd = true.
Proof. destruct sd; reflexivity. Qed.
Lemma eqb_side_negb (sd : side) : Bool.eqb (negb sd) sd = false.
Proof. destruct sd; reflexivity. Qed.
Lemma eqb_side_negb' (sd : side) : Bool.eqb sd (negb sd) = false.
Proof. destruct sd; reflexivity. Qed.

Lemma sk_edge_vars o : sk_is_edge o = true -> exists v, sk_vars o = [v].
Proof.
  unfold sk_is_edge. intros H. apply andb_true_iff in H. destruct H as [_ H]. apply Nat.eqb_eq in H.
  destruct (sk_vars o) as [|v [|? ?]]; try discriminate. eauto.
Qed.

Definition leg := (nat * (nat * side))%type.

Section Dec.
Variable sl : skeleton_t.
Variable N : nat.
Hypothesis HN : forall p o, g_get sl p = Some o -> p < N.

Notation nb := (nbr sk_vars sl).

Definition pend (int : list leg) (p : nat) (sd : side) : Prop := exists k, In (p, (k, sd)) int.
Definition EL (b : bounds) (int : list leg) (c p : nat) (sd : side) (x : nat) : Prop :=
  lab b p sd = Some x \/ (lab b p sd = None /\ pend int p sd /\ x = c).
Definition ENone (b : bounds) (int : list leg) (p : nat) (sd : side) : Prop :=
  lab b p sd = None /\ ~ pend int p sd.

Lemma EL_fun b int c p sd x y : EL b int c p sd x -> EL b int c p sd y -> x = y.
Proof. intros [H1|(H1 & _ & ->)] [H2|(H2 & _ & ->)]; congruence. Qed.

Lemma EL_actual b int c p sd x : lab b p sd = Some x -> EL b int c p sd x.
Proof. intros H. now left. Qed.

Lemma EL_of_actual b int c p sd x y : lab b p sd = Some x -> EL b int c p sd y -> y = x.
Proof. intros H [H1|(H1 & _)]; congruence. Qed.

Lemma EL_nil b c p sd x : EL b [] c p sd x <-> lab b p sd = Some x.
Proof. split; [intros [H|(_ & [k []] & _)]; exact H|intros H; now left]. Qed.

Record Inv (b : bounds) (c : nat) (fr : list (nat * side)) (int : list leg) : Prop := {
  inv_len : length b = N;
  inv_unocc : forall p, g_get sl p = None -> bget b p = (None, None);
  inv_pend : forall p k sd, In (p, (k, sd)) int ->
     (exists o, g_get sl p = Some o /\ k < length (sk_vars o)) /\ (lab b p sd = None \/ lab b p sd = Some c);
  inv_legs : forall p o v sd x, g_get sl p = Some o -> In v (sk_vars o) -> EL b int c p sd x ->
     (forall q kq, nb p v sd = Some (q, kq) -> EL b int c q (negb sd) x)
     \/ (exists k, k < length (sk_vars o) /\ nth k (sk_vars o) 0 = v /\ In (p, (k, sd)) int);
  inv_sides : forall p o sd x, g_get sl p = Some o -> sk_is_edge o = false ->
     EL b int c p sd x -> EL b int c p (negb sd) x;
  inv_edge : forall p o sd x, g_get sl p = Some o -> sk_is_edge o = true ->
     EL b int c p sd x -> ENone b int p (negb sd) -> In (p, negb sd) fr;
  inv_front : forall p o sd, In (p, sd) fr -> g_get sl p = Some o -> sk_is_edge o = true ->
     exists x, EL b int c p (negb sd) x
}.

(* ---------- a generic transfer lemma: new labelling / interior / frontier from old ---------- *)
(* [news p sd x] describes the effective labels that are new. *)
Lemma Inv_transfer b c fr int b' fr' int' (news : nat -> side -> Prop) :
  Inv b c fr int ->
  length b' = N ->
  (forall p, g_get sl p = None -> bget b' p = (None, None)) ->
  (forall p k sd, In (p, (k, sd)) int' ->
     (exists o, g_get sl p = Some o /\ k < length (sk_vars o)) /\ (lab b' p sd = None \/ lab b' p sd = Some c)) ->
  (* old effective labels persist *)
  (forall p sd x, EL b int c p sd x -> EL b' int' c p sd x) ->
  (* effective labels are old ones or new ones (new ones are the current cluster) *)
  (forall p sd x, EL b' int' c p sd x -> EL b int c p sd x \/ (news p sd /\ x = c)) ->
  (forall p sd, ENone b' int' p sd -> ENone b int p sd /\ ~ news p sd) ->
  (* pending legs persist *)
  (forall l, In l int -> In l int') ->
  (* obligations for the new labels *)
  (forall p o v sd, news p sd -> g_get sl p = Some o -> In v (sk_vars o) ->
     (forall q kq, nb p v sd = Some (q, kq) -> EL b' int' c q (negb sd) c)
     \/ (exists k, k < length (sk_vars o) /\ nth k (sk_vars o) 0 = v /\ In (p, (k, sd)) int')) ->
  (forall p o sd, news p sd -> g_get sl p = Some o -> sk_is_edge o = false -> EL b' int' c p (negb sd) c) ->
  (forall p o sd, news p sd -> g_get sl p = Some o -> sk_is_edge o = true ->
     ENone b' int' p (negb sd) -> In (p, negb sd) fr') ->
  (* frontier *)
  (forall p sd, In (p, sd) fr -> ENone b' int' p sd -> In (p, sd) fr') ->
  (forall p o sd, In (p, sd) fr' -> g_get sl p = Some o -> sk_is_edge o = true ->
     In (p, sd) fr \/ exists x, EL b' int' c p (negb sd) x) ->
  Inv b' c fr' int'.
Proof.
  intros HI Hlen Hun Hpend Hmono Hback Hnone Hint Hnl Hns Hne Hfr Hfr'.
  constructor; try assumption.
  - intros p o v sd x Hp Hv He. destruct (Hback _ _ _ He) as [Hold|[Hn ->]].
    + destruct (inv_legs _ _ _ _ HI p o v sd x Hp Hv Hold) as [Hc|(k & Hk & Hnth & Hin)].
      * left. intros q kq Hq. apply Hmono. exact (Hc q kq Hq).
      * right. exists k. repeat split; try assumption. now apply Hint.
    + now apply (Hnl p o v sd).
  - intros p o sd x Hp Hedge He. destruct (Hback _ _ _ He) as [Hold|[Hn ->]].
    + apply Hmono. now apply (inv_sides _ _ _ _ HI p o sd x).
    + now apply (Hns p o sd).
  - intros p o sd x Hp Hedge He Hnn. destruct (Hback _ _ _ He) as [Hold|[Hn ->]].
    + destruct (Hnone _ _ Hnn) as [Hnn' _]. apply Hfr; [|exact Hnn].
      now apply (inv_edge _ _ _ _ HI p o sd x).
    + now apply (Hne p o sd).
  - intros p o sd Hin Hp Hedge. destruct (Hfr' p o sd Hin Hp Hedge) as [Hold|Hx]; [|exact Hx].
    destruct (inv_front _ _ _ _ HI p o sd Hold Hp Hedge) as [x Hx]. exists x. now apply Hmono.
Qed.

(* the interior matters only as a set *)
Lemma pend_ext int int' p sd : (forall l, In l int <-> In l int') -> (pend int p sd <-> pend int' p sd).
Proof. intros H. unfold pend. split; intros [k Hk]; exists k; now apply H. Qed.

Lemma Inv_ext b c fr int int' : (forall l, In l int <-> In l int') -> Inv b c fr int -> Inv b c fr int'.
Proof.
  intros H HI.
  assert (HE : forall p sd x, EL b int c p sd x <-> EL b int' c p sd x).
  { intros p sd x. unfold EL. now rewrite (pend_ext int int' p sd H). }
  assert (HNn : forall p sd, ENone b int p sd <-> ENone b int' p sd).
  { intros p sd. unfold ENone. now rewrite (pend_ext int int' p sd H). }
  apply (Inv_transfer b c fr int b fr int' (fun _ _ => False)); try assumption.
  - apply (inv_len _ _ _ _ HI).
  - apply (inv_unocc _ _ _ _ HI).
  - intros p k sd Hin. apply (inv_pend _ _ _ _ HI). now apply H.
  - intros p sd x. apply HE.
  - intros p sd x He. left. now apply HE.
  - intros p sd Hn. split; [now apply HNn|tauto].
  - intros l. apply H.
  - intros ? ? ? ? [].
  - intros ? ? ? [].
  - intros ? ? ? [].
  - auto.
  - auto.
Qed.

(* with an empty interior the current cluster number is irrelevant *)
Lemma Inv_nil_c b c c' fr : Inv b c fr [] -> Inv b c' fr [].
Proof.
  intros HI.
  assert (HE : forall p sd x, EL b [] c p sd x <-> EL b [] c' p sd x).
  { intros. now rewrite !EL_nil. }
  constructor.
  - apply (inv_len _ _ _ _ HI).
  - apply (inv_unocc _ _ _ _ HI).
  - intros ? ? ? [].
  - intros p o v sd x Hp Hv He. apply HE in He.
    destruct (inv_legs _ _ _ _ HI p o v sd x Hp Hv He) as [Hc|(k & _ & _ & [])].
    left. intros q kq Hq. apply HE. exact (Hc q kq Hq).
  - intros p o sd x Hp Hedge He. apply HE. apply HE in He. now apply (inv_sides _ _ _ _ HI p o sd x).
  - intros p o sd x Hp Hedge He Hn. apply HE in He. now apply (inv_edge _ _ _ _ HI p o sd x).
  - intros p o sd Hin Hp Hedge. destruct (inv_front _ _ _ _ HI p o sd Hin Hp Hedge) as [x Hx].
    exists x. now apply HE.
Qed.

(* ---------- step 1: the label of a pending leg's side is written ---------- *)
Lemma actualise b c fr int p k sd :
  Inv b c fr int -> In (p, (k, sd)) int -> Inv (fst (set_boundary p sd c b)) c fr int.
Proof.
  intros HI Hin. set (b1 := fst (set_boundary p sd c b)).
  destruct (inv_pend _ _ _ _ HI p k sd Hin) as [(o & Hp & Hk) Hlab].
  assert (Hlt : p < length b) by (rewrite (inv_len _ _ _ _ HI); now apply (HN p o)).
  assert (Hl : forall p' sd', lab b1 p' sd' = if Nat.eqb p' p && Bool.eqb sd' sd then Some c else lab b p' sd')
    by (intros; apply sb_lab; exact Hlt).
  assert (Hpd : pend int p sd) by (exists k; exact Hin).
  assert (HE : forall p' sd' x, EL b1 int c p' sd' x <-> EL b int c p' sd' x).
  { intros p' sd' x. unfold EL. rewrite Hl.
    destruct (Nat.eqb_spec p' p) as [->|Hne]; cbn [andb]; [|tauto].
    destruct (Bool.eqb sd' sd) eqn:Es; [|tauto]. apply eqb_prop in Es. subst sd'. split.
    - intros [H|(H & _)]; [|discriminate]. inversion H; subst x.
      destruct Hlab as [Hl0|Hl0]; [right; auto|left; exact Hl0].
    - intros [H|(H & _ & ->)]; [left; destruct Hlab as [Hl0|Hl0]; congruence|now left]. }
  assert (HNn : forall p' sd', ENone b1 int p' sd' <-> ENone b int p' sd').
  { intros p' sd'. unfold ENone. rewrite Hl.
    destruct (Nat.eqb_spec p' p) as [->|Hne]; cbn [andb]; [|tauto].
    destruct (Bool.eqb sd' sd) eqn:Es; [|tauto]. apply eqb_prop in Es. subst sd'. split.
    - intros [H _]. discriminate.
    - intros [_ H]. contradiction. }
  apply (Inv_transfer b c fr int b1 fr int (fun _ _ => False)); try assumption.
  - unfold b1. rewrite sb_len. apply (inv_len _ _ _ _ HI).
  - intros p' Hp'. unfold b1. rewrite sb_bget_other by (intros ->; congruence). now apply (inv_unocc _ _ _ _ HI).
  - intros p' k' sd' Hin'. destruct (inv_pend _ _ _ _ HI p' k' sd' Hin') as [Ho Hl']. split; [exact Ho|].
    rewrite Hl. destruct (Nat.eqb p' p && Bool.eqb sd' sd); [now right|exact Hl'].
  - intros p' sd' x. apply HE.
  - intros p' sd' x He. left. now apply HE.
  - intros p' sd' Hn. split; [now apply HNn|tauto].
  - auto.
  - intros ? ? ? ? [].
  - intros ? ? ? [].
  - intros ? ? ? [].
  - auto.
  - auto.
Qed.

(* ---------- step 2: a leg whose link is closed leaves the stack ---------- *)
Lemma drop_leg b c fr rest p k sd o :
  Inv b c fr ((p, (k, sd)) :: rest) -> g_get sl p = Some o -> lab b p sd = Some c ->
  (forall q kq, nb p (nth k (sk_vars o) 0) sd = Some (q, kq) -> EL b ((p, (k, sd)) :: rest) c q (negb sd) c) ->
  Inv b c fr rest.
Proof.
  intros HI Hp Hl Hclosed. set (I := (p, (k, sd)) :: rest) in *.
  assert (Hpd : forall p' sd', pend I p' sd' <-> (p' = p /\ sd' = sd) \/ pend rest p' sd').
  { intros p' sd'. unfold pend, I. split.
    - intros [k' [E|Hin]]; [inversion E; subst; now left|right; now exists k'].
    - intros [[-> ->]|[k' Hin]]; [exists k; now left|exists k'; now right]. }
  assert (HE : forall p' sd' x, EL b rest c p' sd' x <-> EL b I c p' sd' x).
  { intros p' sd' x. unfold EL. rewrite Hpd. split.
    - intros [H|(H & Hq & ->)]; [now left|right; auto].
    - intros [H|(H & [[-> ->]|Hq] & ->)]; [now left|congruence|right; auto]. }
  assert (HNn : forall p' sd', ENone b rest p' sd' <-> ENone b I p' sd').
  { intros p' sd'. unfold ENone. rewrite Hpd. split.
    - intros [H Hq]. split; [exact H|]. intros [[-> ->]|Hq']; [congruence|contradiction].
    - intros [H Hq]. split; [exact H|]. intros Hq'. apply Hq. now right. }
  constructor.
  - apply (inv_len _ _ _ _ HI).
  - apply (inv_unocc _ _ _ _ HI).
  - intros p' k' sd' Hin. apply (inv_pend _ _ _ _ HI). now right.
  - intros p' o' v sd' x Hp' Hv He. apply HE in He.
    destruct (inv_legs _ _ _ _ HI p' o' v sd' x Hp' Hv He) as [Hc|(k' & Hk' & Hnth & [E|Hin])].
    + left. intros q kq Hq. apply HE. exact (Hc q kq Hq).
    + inversion E; subst p' k' sd'. assert (o' = o) by congruence. subst o'.
      left. intros q kq Hq. apply HE. rewrite <- Hnth in Hq.
      assert (x = c) by (apply (EL_of_actual b I c p sd c x Hl He)). subst x. now apply (Hclosed q kq).
    + right. exists k'. auto.
  - intros p' o' sd' x Hp' Hedge He. apply HE. apply HE in He. now apply (inv_sides _ _ _ _ HI p' o' sd' x).
  - intros p' o' sd' x Hp' Hedge He Hn. apply HE in He. apply HNn in Hn. now apply (inv_edge _ _ _ _ HI p' o' sd' x).
  - intros p' o' sd' Hin Hp' Hedge. destruct (inv_front _ _ _ _ HI p' o' sd' Hin Hp' Hedge) as [x Hx].
    exists x. now apply HE.
Qed.

(* ---------- facts about the neighbour reached from a pending leg ---------- *)
Lemma neighbour_facts p o k sd q kq oq :
  g_get sl p = Some o -> k < length (sk_vars o) ->
  nb p (nth k (sk_vars o) 0) sd = Some (q, kq) -> g_get sl q = Some oq ->
  In (nth k (sk_vars o) 0) (sk_vars o)
  /\ kq < length (sk_vars oq) /\ nth kq (sk_vars oq) 0 = nth k (sk_vars o) 0
  /\ In (nth k (sk_vars o) 0) (sk_vars oq)
  /\ exists kp, nb q (nth k (sk_vars o) 0) (negb sd) = Some (p, kp).
Proof.
  intros Hp Hk Hnb Hq. set (v := nth k (sk_vars o) 0) in *.
  assert (Hv : In v (sk_vars o)) by (apply nth_In; exact Hk).
  destruct (nbr_inverse sk_vars sl p o v sd q kq Hp Hv Hnb) as (oq' & Hq' & Hix & kp & Hback).
  assert (oq' = oq) by congruence. subst oq'.
  destruct (index_of_nth v _ _ Hix) as [Hkq Hnth].
  repeat split; try assumption.
  - rewrite <- Hnth. now apply nth_In.
  - now exists kp.
Qed.

(* the side of the neighbour that faces a pending leg is unlabelled or carries the current cluster *)
Lemma facing_side b c fr rest p k sd o q kq oq z :
  Inv b c fr ((p, (k, sd)) :: rest) -> g_get sl p = Some o -> k < length (sk_vars o) -> lab b p sd = Some c ->
  nb p (nth k (sk_vars o) 0) sd = Some (q, kq) -> g_get sl q = Some oq ->
  EL b ((p, (k, sd)) :: rest) c q (negb sd) z -> z = c.
Proof.
  intros HI Hp Hk Hl Hnb Hq He. set (I := (p, (k, sd)) :: rest) in *.
  destruct (neighbour_facts p o k sd q kq oq Hp Hk Hnb Hq) as (Hv & Hkq & Hnth & Hvq & kp & Hback).
  destruct (inv_legs _ _ _ _ HI q oq _ (negb sd) z Hq Hvq He) as [Hc|(k3 & _ & _ & Hin)].
  - specialize (Hc p kp Hback). rewrite negb_involutive in Hc. now apply (EL_of_actual b I c p sd c z Hl).
  - destruct (inv_pend _ _ _ _ HI q k3 (negb sd) Hin) as [_ [Hn|Hs]].
    + destruct He as [He|(_ & _ & ->)]; [congruence|reflexivity].
    + now apply (EL_of_actual b I c q (negb sd) c z Hs).
Qed.

(* ---------- step 3a: the neighbour is a labelled non-edge operator ---------- *)
Lemma step_closed b c fr rest p k sd o q kq oq :
  Inv b c fr ((p, (k, sd)) :: rest) -> g_get sl p = Some o -> k < length (sk_vars o) -> lab b p sd = Some c ->
  nb p (nth k (sk_vars o) 0) sd = Some (q, kq) -> g_get sl q = Some oq ->
  sk_is_edge oq = false -> discoverable (bget b q) c = false ->
  Inv b c fr rest.
Proof.
  intros HI Hp Hk Hl Hnb Hq Hedge Hd. set (I := (p, (k, sd)) :: rest) in *.
  apply (drop_leg b c fr rest p k sd o HI Hp Hl).
  intros q' kq' Hq'. rewrite Hnb in Hq'. inversion Hq'; subst q' kq'.
  assert (Hex : exists sd0 z, lab b q sd0 = Some z).
  { unfold lab. destruct (bget b q) as [[x|] [y|]]; cbn in Hd.
    - exists Inputs, x. reflexivity.
    - exists Inputs, x. reflexivity.
    - exists Outputs, y. reflexivity.
    - discriminate. }
  destruct Hex as (sd0 & z & Hz).
  assert (He : EL b I c q (negb sd) z).
  { destruct (side_cases (negb sd) sd0) as [-> | ->]; [now left|].
    rewrite <- (negb_involutive (negb sd)) at 1.
    apply (inv_sides _ _ _ _ HI q oq (negb (negb sd)) z Hq Hedge). now left. }
  rewrite (facing_side b c fr rest p k sd o q kq oq z HI Hp Hk Hl Hnb Hq He) in He. exact He.
Qed.

(* ---------- step 3b: the neighbour is a cluster edge ---------- *)
Lemma step_edge b c fr rest p k sd o q kq oq :
  Inv b c fr ((p, (k, sd)) :: rest) -> g_get sl p = Some o -> k < length (sk_vars o) -> lab b p sd = Some c ->
  nb p (nth k (sk_vars o) 0) sd = Some (q, kq) -> g_get sl q = Some oq ->
  sk_is_edge oq = true ->
  Inv (fst (set_boundary q (negb sd) c b)) c
      (if snd (set_boundary q (negb sd) c b) then fr else (q, sd) :: fr) rest.
Proof.
  intros HI Hp Hk Hl Hnb Hq Hedge. set (I := (p, (k, sd)) :: rest) in *.
  set (b2 := fst (set_boundary q (negb sd) c b)).
  set (fr' := if snd (set_boundary q (negb sd) c b) then fr else (q, sd) :: fr).
  destruct (neighbour_facts p o k sd q kq oq Hp Hk Hnb Hq) as (Hv & Hkq & Hnth & Hvq & kp & Hback).
  set (v := nth k (sk_vars o) 0) in *.
  assert (Hlt : q < length b) by (rewrite (inv_len _ _ _ _ HI); now apply (HN q oq)).
  assert (Hl2 : forall p' sd', lab b2 p' sd' = if Nat.eqb p' q && Bool.eqb sd' (negb sd) then Some c else lab b p' sd')
    by (intros; apply sb_lab; exact Hlt).
  assert (Hpre : forall x, EL b I c q (negb sd) x -> x = c)
    by (intros x Hx; apply (facing_side b c fr rest p k sd o q kq oq x HI Hp Hk Hl Hnb Hq Hx)).
  assert (Hfrsub : forall l, In l fr -> In l fr').
  { intros l Hin. unfold fr'. destruct (snd (set_boundary q (negb sd) c b)); [exact Hin|now right]. }
  assert (HI2 : Inv b2 c fr' I).
  { apply (Inv_transfer b c fr I b2 fr' I (fun p' sd' => p' = q /\ sd' = negb sd)); try assumption.
    - unfold b2. rewrite sb_len. apply (inv_len _ _ _ _ HI).
    - intros p' Hp'. unfold b2. rewrite sb_bget_other by (intros ->; congruence). now apply (inv_unocc _ _ _ _ HI).
    - intros p' k' sd' Hin'. destruct (inv_pend _ _ _ _ HI p' k' sd' Hin') as [Ho Hl']. split; [exact Ho|].
      rewrite Hl2. destruct (Nat.eqb p' q && Bool.eqb sd' (negb sd)); [now right|exact Hl'].
    - intros p' sd' x He. unfold EL. rewrite Hl2.
      destruct (Nat.eqb_spec p' q) as [->|Hne]; cbn [andb]; [|exact He].
      destruct (Bool.eqb sd' (negb sd)) eqn:Es; [|exact He]. apply eqb_prop in Es. subst sd'.
      left. now rewrite (Hpre x He).
    - intros p' sd' x He. unfold EL in He. rewrite Hl2 in He.
      destruct (Nat.eqb_spec p' q) as [->|Hne]; cbn [andb] in He; [|now left].
      destruct (Bool.eqb sd' (negb sd)) eqn:Es; [|now left]. apply eqb_prop in Es. subst sd'.
      right. split; [now split|]. destruct He as [He|(He & _)]; congruence.
    - intros p' sd' [Hn Hnp]. rewrite Hl2 in Hn.
      destruct (Nat.eqb_spec p' q) as [->|Hne]; cbn [andb] in Hn.
      + destruct (Bool.eqb sd' (negb sd)) eqn:Es; [discriminate|].
        split; [split; assumption|]. intros [_ ->]. now rewrite eqb_side_refl in Es.
      + split; [split; assumption|]. intros [-> _]. congruence.
    - auto.
    - (* the new label closes its link *)
      intros p' o' v' sd' [-> ->] Ho' Hv'. assert (o' = oq) by congruence. subst o'.
      destruct (sk_edge_vars oq Hedge) as [v0 Ev]. rewrite Ev in Hv', Hvq.
      assert (v' = v) by (destruct Hv' as [<-|[]]; destruct Hvq as [<-|[]]; reflexivity). subst v'.
      left. intros q' kq' Hq'. rewrite Hback in Hq'. inversion Hq'; subst q' kq'.
      rewrite negb_involutive. left. rewrite Hl2.
      destruct (Nat.eqb p q && Bool.eqb sd (negb sd)); [reflexivity|exact Hl].
    - intros p' o' sd' [-> ->] Ho' He'. congruence.
    - intros p' o' sd' [-> ->] Ho' _ [Hn _]. rewrite negb_involutive in *. rewrite Hl2 in Hn.
      rewrite eqb_side_negb', andb_false_r in Hn.
      unfold fr'. rewrite sb_both, negb_involutive, Hn. now left.
    - intros p' sd' Hin _. now apply Hfrsub.
    - intros p' o' sd' Hin Ho' He'. unfold fr' in Hin.
      destruct (snd (set_boundary q (negb sd) c b)); [now left|].
      destruct Hin as [E|Hin]; [|now left]. inversion E; subst p' sd'.
      right. exists c. left. rewrite Hl2. now rewrite Nat.eqb_refl, eqb_side_refl. }
  apply (drop_leg b2 c fr' rest p k sd o HI2 Hp).
  - rewrite Hl2. destruct (Nat.eqb p q && Bool.eqb sd (negb sd)); [reflexivity|exact Hl].
  - intros q' kq' Hq'. fold v in Hq'. rewrite Hnb in Hq'. inversion Hq'; subst q' kq'.
    left. rewrite Hl2. now rewrite Nat.eqb_refl, eqb_side_refl.
Qed.

(* ---------- step 3c: the neighbour is a non-edge operator that joins the cluster ---------- *)
Lemma in_all_legs n j sd : In (j, sd) (all_legs n) <-> j < n.
Proof.
  unfold all_legs. rewrite in_app_iff, !in_map_iff. split.
  - intros [(x & E & Hx)|(x & E & Hx)]; inversion E; subst; apply in_seq in Hx; lia.
  - intros Hj. destruct sd; [right|left]; exists j; (split; [reflexivity|apply in_seq; lia]).
Qed.

Definition other_legs (q : nat) (n : nat) (entry : nat * side) : list leg :=
  map (fun l => (q, l)) (filter (fun l => negb (leg_eqb l entry)) (all_legs n)).

Lemma in_other_legs q n entry q' j sd :
  In (q', (j, sd)) (other_legs q n entry) <-> q' = q /\ j < n /\ leg_eqb (j, sd) entry = false.
Proof.
  unfold other_legs. rewrite in_map_iff. split.
  - intros ([j' sd'] & E & Hin). inversion E; subst. apply filter_In in Hin. destruct Hin as [Hin Hf].
    apply in_all_legs in Hin. apply negb_true_iff in Hf. auto.
  - intros (-> & Hj & Hf). exists (j, sd). split; [reflexivity|]. apply filter_In. split.
    + now apply in_all_legs.
    + now rewrite Hf.
Qed.

Lemma step_discover b c fr rest p k sd o q kq oq :
  Inv b c fr ((p, (k, sd)) :: rest) -> g_get sl p = Some o -> k < length (sk_vars o) -> lab b p sd = Some c ->
  nb p (nth k (sk_vars o) 0) sd = Some (q, kq) -> g_get sl q = Some oq ->
  sk_is_edge oq = false -> discoverable (bget b q) c = true ->
  Inv (set_boundaries q c b) c fr
      (push_all (other_legs q (length (sk_vars oq)) (kq, negb sd)) rest).
Proof.
  intros HI Hp Hk Hl Hnb Hq Hedge Hd. set (I := (p, (k, sd)) :: rest) in *.
  set (b2 := set_boundaries q c b).
  set (newl := other_legs q (length (sk_vars oq)) (kq, negb sd)).
  set (I2 := newl ++ I).
  destruct (neighbour_facts p o k sd q kq oq Hp Hk Hnb Hq) as (Hv & Hkq & Hnth & Hvq & kp & Hback).
  set (v := nth k (sk_vars o) 0) in *.
  assert (Hlt : q < length b) by (rewrite (inv_len _ _ _ _ HI); now apply (HN q oq)).
  assert (Hl2 : forall p' sd', lab b2 p' sd' = if Nat.eqb p' q then Some c else lab b p' sd')
    by (intros; apply sbs_lab; exact Hlt).
  assert (Hpre : forall sd0, lab b q sd0 = None \/ lab b q sd0 = Some c).
  { intros sd0. unfold lab. destruct (bget b q) as [[x|] [y|]]; cbn in Hd; try discriminate;
      try (apply Nat.eqb_eq in Hd; subst); destruct sd0; cbn; auto. }
  assert (Hpre' : forall sd0 x, EL b I c q sd0 x -> x = c).
  { intros sd0 x [He|(_ & _ & ->)]; [|reflexivity]. destruct (Hpre sd0); congruence. }
  assert (Hpd : forall p' sd', p' <> q -> (pend I2 p' sd' <-> pend I p' sd')).
  { intros p' sd' Hne. unfold pend, I2. split.
    - intros [k' Hin]. apply in_app_or in Hin. destruct Hin as [Hin|Hin]; [|now exists k'].
      apply in_other_legs in Hin. destruct Hin as [-> _]. congruence.
    - intros [k' Hin]. exists k'. apply in_or_app. now right. }
  assert (HI2 : Inv b2 c fr I2).
  { apply (Inv_transfer b c fr I b2 fr I2 (fun p' _ => p' = q)); try assumption.
    - unfold b2. rewrite sbs_len. apply (inv_len _ _ _ _ HI).
    - intros p' Hp'. unfold b2. rewrite sbs_bget_other by (intros ->; congruence). now apply (inv_unocc _ _ _ _ HI).
    - intros p' k' sd' Hin'. unfold I2 in Hin'. apply in_app_or in Hin'. destruct Hin' as [Hin'|Hin'].
      + apply in_other_legs in Hin'. destruct Hin' as (-> & Hk' & _). split; [now exists oq|].
        right. rewrite Hl2. now rewrite Nat.eqb_refl.
      + destruct (inv_pend _ _ _ _ HI p' k' sd' Hin') as [Ho Hl']. split; [exact Ho|].
        rewrite Hl2. destruct (Nat.eqb p' q); [now right|exact Hl'].
    - intros p' sd' x He. unfold EL. rewrite Hl2.
      destruct (Nat.eqb_spec p' q) as [->|Hne].
      + left. now rewrite (Hpre' sd' x He).
      + rewrite (Hpd p' sd' Hne). exact He.
    - intros p' sd' x He. unfold EL in He. rewrite Hl2 in He.
      destruct (Nat.eqb_spec p' q) as [->|Hne].
      + right. split; [reflexivity|]. destruct He as [He|(He & _)]; congruence.
      + left. rewrite (Hpd p' sd' Hne) in He. exact He.
    - intros p' sd' [Hn Hnp]. rewrite Hl2 in Hn.
      destruct (Nat.eqb_spec p' q) as [->|Hne]; [discriminate|].
      split; [|exact Hne]. split; [exact Hn|]. now rewrite <- (Hpd p' sd' Hne).
    - intros l Hin. unfold I2. apply in_or_app. now right.
    - (* the legs of the new operator: the entry leg is closed, all others are pending *)
      intros p' o' v' sd' -> Ho' Hv'. assert (o' = oq) by congruence. subst o'.
      destruct (Bool.eqb sd' (negb sd)) eqn:Es; [destruct (Nat.eq_dec v' v) as [->|Hvne]|].
      + apply eqb_prop in Es. subst sd'. left. intros q' kq' Hq'. rewrite Hback in Hq'. inversion Hq'; subst q' kq'.
        rewrite negb_involutive. left. rewrite Hl2. destruct (Nat.eqb p q); [reflexivity|exact Hl].
      + right. destruct (In_nth _ _ 0 Hv') as (k3 & Hk3 & Hn3). exists k3. repeat split; try assumption.
        unfold I2. apply in_or_app. left. apply in_other_legs. repeat split; try assumption.
        unfold leg_eqb. cbn [fst snd]. destruct (Nat.eqb_spec k3 kq) as [->|_]; [|reflexivity].
        exfalso. apply Hvne. now rewrite <- Hn3, Hnth.
      + right. destruct (In_nth _ _ 0 Hv') as (k3 & Hk3 & Hn3). exists k3. repeat split; try assumption.
        unfold I2. apply in_or_app. left. apply in_other_legs. repeat split; try assumption.
        unfold leg_eqb. cbn [fst snd]. rewrite Es. apply andb_false_r.
    - intros p' o' sd' -> Ho' _. left. rewrite Hl2. now rewrite Nat.eqb_refl.
    - intros p' o' sd' -> Ho' He'. congruence.
    - auto.
    - auto. }
  assert (HI3 : Inv b2 c fr ((p, (k, sd)) :: newl ++ rest)).
  { apply (Inv_ext b2 c fr I2); [|exact HI2]. intros l. unfold I2, I. rewrite !in_app_iff. cbn [In]. rewrite in_app_iff. tauto. }
  assert (HI4 : Inv b2 c fr (newl ++ rest)).
  { apply (drop_leg b2 c fr (newl ++ rest) p k sd o HI3 Hp).
    - rewrite Hl2. destruct (Nat.eqb p q); [reflexivity|exact Hl].
    - intros q' kq' Hq'. fold v in Hq'. rewrite Hnb in Hq'. inversion Hq'; subst q' kq'.
      left. rewrite Hl2. now rewrite Nat.eqb_refl. }
  apply (Inv_ext b2 c fr (newl ++ rest)); [|exact HI4].
  intros l. unfold push_all. rewrite !in_app_iff, <- in_rev. tauto.
Qed.

(* ---------- the inner loop ---------- *)
Theorem expand_loop_inv : forall fuel b c fr int b' fr',
  Inv b c fr int -> expand_loop fuel sl c b fr int = Some (b', fr') -> Inv b' c fr' [].
Proof.
  induction fuel as [|f IH]; intros b c fr int b' fr' HI Hx; cbn [expand_loop] in Hx; [discriminate|].
  destruct int as [|[p [k sd]] rest]; [inversion Hx; subst; exact HI|].
  destruct (g_get sl p) as [o|] eqn:Hp; [|discriminate].
  assert (Hin : In (p, (k, sd)) ((p, (k, sd)) :: rest)) by now left.
  destruct (inv_pend _ _ _ _ HI p k sd Hin) as [(o' & Hp' & Hk) _]. assert (o' = o) by congruence. subst o'.
  pose proof (actualise b c fr _ p k sd HI Hin) as HI1.
  set (b1 := fst (set_boundary p sd c b)) in *.
  assert (Hl1 : lab b1 p sd = Some c).
  { unfold b1. rewrite sb_lab by (rewrite (inv_len _ _ _ _ HI); now apply (HN p o)).
    now rewrite Nat.eqb_refl, eqb_side_refl. }
  change (if sd then g_next_wrap sk_vars sl p (nth k (sk_vars o) 0) else g_prev_wrap sk_vars sl p (nth k (sk_vars o) 0))
    with (nb p (nth k (sk_vars o) 0) sd) in Hx.
  destruct (nb p (nth k (sk_vars o) 0) sd) as [[q kq]|] eqn:Hnb; [|discriminate].
  destruct (g_get sl q) as [oq|] eqn:Hq; [|discriminate].
  destruct (sk_is_edge oq) eqn:Hedge.
  - pose proof (step_edge b1 c fr rest p k sd o q kq oq HI1 Hp Hk Hl1 Hnb Hq Hedge) as HI2.
    destruct (set_boundary q (negb sd) c b1) as [b2 both]. cbn [fst snd] in HI2.
    eapply IH; eauto.
  - destruct (discoverable (bget b1 q) c) eqn:Hd.
    + pose proof (step_discover b1 c fr rest p k sd o q kq oq HI1 Hp Hk Hl1 Hnb Hq Hedge Hd) as HI2.
      eapply IH; eauto.
    + pose proof (step_closed b1 c fr rest p k sd o q kq oq HI1 Hp Hk Hl1 Hnb Hq Hedge Hd) as HI2.
      eapply IH; eauto.
Qed.

(* ---------- starting a new cluster ---------- *)
Lemma start_edge b c fr rest p sd o :
  Inv b c fr [] -> g_get sl p = Some o -> sk_is_edge o = true -> lab b p sd = None ->
  (forall l, In l fr -> l <> (p, sd) -> In l rest) ->
  (forall p' sd', In (p', sd') rest -> In (p', sd') fr \/ (p' = p /\ sd' = negb sd)) ->
  (lab b p (negb sd) = None -> In (p, negb sd) rest) ->
  Inv b c rest [(p, (0, sd))].
Proof.
  intros HI Hp Hedge Hl HA HB HC. set (I := [(p, (0, sd))]).
  destruct (sk_edge_vars o Hedge) as [v0 Ev].
  assert (Hpd : forall p' sd', pend I p' sd' <-> p' = p /\ sd' = sd).
  { intros p' sd'. unfold pend, I. split.
    - intros [k [E|[]]]. inversion E; auto.
    - intros [-> ->]. exists 0. now left. }
  apply (Inv_transfer b c fr [] b rest I (fun p' sd' => p' = p /\ sd' = sd)); try assumption.
  - apply (inv_len _ _ _ _ HI).
  - apply (inv_unocc _ _ _ _ HI).
  - intros p' k' sd' [E|[]]. inversion E; subst. split; [|now left]. exists o. split; [exact Hp|]. rewrite Ev. cbn. lia.
  - intros p' sd' x He. apply EL_nil in He. now left.
  - intros p' sd' x [He|(He & Hq & ->)]; [left; now left|]. right. split; [now apply Hpd|reflexivity].
  - intros p' sd' [Hn Hq]. split; [split; [exact Hn|intros [k []]]|]. intros Hnew. apply Hq. now apply Hpd.
  - intros l [].
  - intros p' o' v' sd' [-> ->] Ho' Hv'. assert (o' = o) by congruence. subst o'. right. exists 0.
    rewrite Ev in *. destruct Hv' as [<-|[]]. cbn. repeat split; [lia|now left].
  - intros p' o' sd' [-> ->] Ho' He'. congruence.
  - intros p' o' sd' [-> ->] Ho' _ [Hn _]. now apply HC.
  - intros p' sd' Hin [Hn Hq]. apply HA; [exact Hin|]. intros E. inversion E; subst. apply Hq. now apply Hpd.
  - intros p' o' sd' Hin Ho' He'. destruct (HB p' sd' Hin) as [Hf|[-> ->]]; [now left|].
    right. exists c. rewrite negb_involutive. right. repeat split; [exact Hl|now apply Hpd].
Qed.

Lemma start_nonedge b c fr rest p o :
  Inv b c fr [] -> g_get sl p = Some o -> sk_is_edge o = false -> bget b p = (None, None) ->
  0 < length (sk_vars o) ->
  (forall l, In l rest -> In l fr \/ fst l = p) -> (forall l, In l fr -> In l rest \/ fst l = p) ->
  Inv b c rest (push_all (map (fun l => (p, l)) (all_legs (length (sk_vars o)))) []).
Proof.
  intros HI Hp Hedge Hb Hlen H1 H2.
  set (I := push_all (map (fun l => (p, l)) (all_legs (length (sk_vars o)))) []).
  assert (HinI : forall p' j sd', In (p', (j, sd')) I <-> p' = p /\ j < length (sk_vars o)).
  { intros p' j sd'. unfold I, push_all. rewrite app_nil_r, <- in_rev, in_map_iff. split.
    - intros ([j' s'] & E & Hin). inversion E; subst. apply in_all_legs in Hin. auto.
    - intros [-> Hj]. exists (j, sd'). split; [reflexivity|now apply in_all_legs]. }
  assert (Hpd : forall p' sd', pend I p' sd' <-> p' = p).
  { intros p' sd'. unfold pend. split.
    - intros [k Hk]. apply HinI in Hk. tauto.
    - intros ->. exists 0. now apply HinI. }
  assert (Hlab : forall sd', lab b p sd' = None) by (intros sd'; unfold lab; rewrite Hb; destruct sd'; reflexivity).
  apply (Inv_transfer b c fr [] b rest I (fun p' _ => p' = p)); try assumption.
  - apply (inv_len _ _ _ _ HI).
  - apply (inv_unocc _ _ _ _ HI).
  - intros p' k' sd' Hin. apply HinI in Hin. destruct Hin as [-> Hk]. split; [now exists o|left; apply Hlab].
  - intros p' sd' x He. apply EL_nil in He. now left.
  - intros p' sd' x [He|(He & Hq & ->)]; [left; now left|]. right. split; [now apply (Hpd p' sd')|reflexivity].
  - intros p' sd' [Hn Hq]. split; [split; [exact Hn|intros [k []]]|]. intros ->. apply Hq. now apply Hpd.
  - intros l [].
  - intros p' o' v' sd' -> Ho' Hv'. assert (o' = o) by congruence. subst o'. right.
    destruct (In_nth _ _ 0 Hv') as (k3 & Hk3 & Hn3). exists k3. repeat split; try assumption. now apply HinI.
  - intros p' o' sd' -> Ho' _. right. repeat split; [apply Hlab|now apply Hpd].
  - intros p' o' sd' -> Ho' He'. congruence.
  - intros p' sd' Hin [Hn Hq]. destruct (H2 _ Hin) as [Hr|Hf]; [exact Hr|]. cbn in Hf. subst p'.
    exfalso. apply Hq. now apply Hpd.
  - intros p' o' sd' Hin Ho' He'. destruct (H1 _ Hin) as [Hf|Hf]; [now left|]. cbn in Hf. subst p'. congruence.
Qed.

Lemma start_zero b c fr rest p o :
  Inv b c fr [] -> g_get sl p = Some o -> sk_is_edge o = false -> bget b p = (None, None) ->
  length (sk_vars o) = 0 ->
  (forall l, In l rest -> In l fr \/ fst l = p) -> (forall l, In l fr -> In l rest \/ fst l = p) ->
  Inv (set_boundaries p c b) c rest [].
Proof.
  intros HI Hp Hedge Hb Hlen H1 H2. set (b2 := set_boundaries p c b).
  assert (Hlt : p < length b) by (rewrite (inv_len _ _ _ _ HI); now apply (HN p o)).
  assert (Hl2 : forall p' sd', lab b2 p' sd' = if Nat.eqb p' p then Some c else lab b p' sd')
    by (intros; apply sbs_lab; exact Hlt).
  assert (Hlab : forall sd', lab b p sd' = None) by (intros sd'; unfold lab; rewrite Hb; destruct sd'; reflexivity).
  apply (Inv_transfer b c fr [] b2 rest [] (fun p' _ => p' = p)); try assumption.
  - unfold b2. rewrite sbs_len. apply (inv_len _ _ _ _ HI).
  - intros p' Hp'. unfold b2. rewrite sbs_bget_other by (intros ->; congruence). now apply (inv_unocc _ _ _ _ HI).
  - intros ? ? ? [].
  - intros p' sd' x He. apply EL_nil in He. apply EL_nil. rewrite Hl2.
    destruct (Nat.eqb_spec p' p) as [->|Hne]; [rewrite Hlab in He; discriminate|exact He].
  - intros p' sd' x He. apply EL_nil in He. rewrite Hl2 in He.
    destruct (Nat.eqb_spec p' p) as [->|Hne]; [right; split; [reflexivity|congruence]|left; now apply EL_nil].
  - intros p' sd' [Hn Hq]. rewrite Hl2 in Hn. destruct (Nat.eqb_spec p' p) as [->|Hne]; [discriminate|].
    split; [split; [exact Hn|intros [k []]]|exact Hne].
  - intros l [].
  - intros p' o' v' sd' -> Ho' Hv'. assert (o' = o) by congruence. subst o'.
    destruct (sk_vars o); [contradiction|discriminate].
  - intros p' o' sd' -> Ho' _. left. rewrite Hl2. now rewrite Nat.eqb_refl.
  - intros p' o' sd' -> Ho' He'. congruence.
  - intros p' sd' Hin [Hn Hq]. destruct (H2 _ Hin) as [Hr|Hf]; [exact Hr|]. cbn in Hf. subst p'.
    rewrite Hl2, Nat.eqb_refl in Hn. discriminate.
  - intros p' o' sd' Hin Ho' He'. destruct (H1 _ Hin) as [Hf|Hf]; [now left|]. cbn in Hf. subst p'. congruence.
Qed.

(* one call of expand_whole_cluster from a popped frontier entry *)
Lemma expand_whole_inv fuel b c fr rest p sd o b' fr' :
  Inv b c fr [] -> g_get sl p = Some o ->
  (sk_is_edge o = true ->
     lab b p sd = None
     /\ (forall l, In l fr -> l <> (p, sd) -> In l rest)
     /\ (forall p' sd', In (p', sd') rest -> In (p', sd') fr \/ (p' = p /\ sd' = negb sd))
     /\ (lab b p (negb sd) = None -> In (p, negb sd) rest)) ->
  (sk_is_edge o = false ->
     bget b p = (None, None)
     /\ (forall l, In l rest -> In l fr \/ fst l = p) /\ (forall l, In l fr -> In l rest \/ fst l = p)) ->
  expand_whole fuel sl p (0, sd) c b rest = Some (b', fr') -> Inv b' c fr' [].
Proof.
  intros HI Hp He Hne Hx. unfold expand_whole in Hx. rewrite Hp in Hx.
  destruct (sk_is_edge o) eqn:Hedge.
  - cbn [negb andb] in Hx. destruct (He eq_refl) as (Hl & HA & HB & HC).
    refine (expand_loop_inv fuel b c rest _ b' fr' _ Hx).
    now apply (start_edge b c fr rest p sd o).
  - cbn [negb andb] in Hx. destruct (Hne eq_refl) as (Hb & H1 & H2).
    destruct (Nat.eqb_spec (length (sk_vars o)) 0) as [Hz|Hnz].
    + refine (expand_loop_inv fuel _ c rest _ b' fr' _ Hx).
      rewrite Hz. cbn [all_legs seq map app push_all rev].
      now apply (start_zero b c fr rest p o).
    + refine (expand_loop_inv fuel b c rest _ b' fr' _ Hx).
      apply (start_nonedge b c fr rest p o); try assumption. lia.
Qed.

(* ---------- the outer loop ---------- *)
Definition MInv (b : bounds) (fr : list (nat * side)) : Prop :=
  Inv b 0 fr []
  \/ (Inv b 0 [] [] /\ exists p o, fr = [(p, Inputs); (p, Outputs)] /\ g_get sl p = Some o /\ bget b p = (None, None)).

Definition Final (b : bounds) : Prop :=
  Inv b 0 [] [] /\ forall p o, g_get sl p = Some o -> bget b p <> (None, None).

Lemma fu_some b : forall r s p, first_unmapped_from s r b = Some p ->
  s <= p /\ exists o, nth_error r (p - s) = Some (Some o) /\ bget b p = (None, None).
Proof.
  induction r as [|x r IH]; intros s p H; cbn [first_unmapped_from] in H; [discriminate|].
  assert (Hrec : first_unmapped_from (S s) r b = Some p ->
                 s <= p /\ exists o, nth_error (x :: r) (p - s) = Some (Some o) /\ bget b p = (None, None)).
  { intros H'. destruct (IH _ _ H') as (Hs & o & Ho & Hb). split; [lia|]. exists o.
    replace (p - s) with (S (p - S s)) by lia. now split. }
  destruct x as [o|]; [|now apply Hrec].
  destruct (bget b s) as [[a|] [d|]] eqn:Eb; try (now apply Hrec).
  inversion H; subst. split; [lia|]. exists o. rewrite Nat.sub_diag. now split.
Qed.

Lemma fu_none b : forall r s, first_unmapped_from s r b = None ->
  forall p o, s <= p -> nth_error r (p - s) = Some (Some o) -> bget b p <> (None, None).
Proof.
  induction r as [|x r IH]; intros s H p o Hs Hn; cbn [first_unmapped_from] in H.
  - destruct (p - s); discriminate.
  - destruct (Nat.eq_dec p s) as [->|Hne].
    + rewrite Nat.sub_diag in Hn. cbn in Hn. inversion Hn; subst x.
      destruct (bget b s) as [[a|] [d|]]; try discriminate; congruence.
    + replace (p - s) with (S (p - S s)) in Hn by lia. cbn [nth_error] in Hn.
      assert (H' : first_unmapped_from (S s) r b = None).
      { destruct x as [o'|]; [|exact H]. destruct (bget b s) as [[a|] [d|]]; try exact H. discriminate. }
      apply (IH (S s) H' p o); [lia|exact Hn].
Qed.

Lemma g_get_nth_error p o : g_get sl p = Some o <-> nth_error sl p = Some (Some o).
Proof.
  unfold g_get. destruct (nth_error sl p) as [[x|]|]; split; intros H; try discriminate; congruence.
Qed.

Lemma both_labelled b p : (exists a d, bget b p = (Some a, Some d)) \/ (exists sd, lab b p sd = None).
Proof.
  unfold lab. destruct (bget b p) as [[a|] [d|]]; [left; eauto|right; exists Outputs|right; exists Inputs|right; exists Inputs]; reflexivity.
Qed.

Theorem main_loop_inv : forall fuel b fr c b' n,
  MInv b fr -> main_loop fuel sl b fr c = Some (b', n) -> Final b'.
Proof.
  induction fuel as [|f IH]; intros b fr c b' n HM Hx; cbn [main_loop] in Hx; [discriminate|].
  destruct fr as [|[p sd] rest].
  - (* frontier empty: look for an unmapped operator *)
    assert (HI : Inv b 0 [] []).
    { destruct HM as [HI|(_ & p & o & E & _)]; [exact HI|discriminate]. }
    destruct (first_unmapped_from 0 sl b) as [p|] eqn:Hfu.
    + destruct (fu_some b sl 0 p Hfu) as (_ & o & Ho & Hb). rewrite Nat.sub_0_r in Ho.
      apply (IH b [(p, Inputs); (p, Outputs)] c b' n); [|exact Hx].
      right. split; [exact HI|]. exists p, o. repeat split; [now apply g_get_nth_error|exact Hb].
    + inversion Hx; subst. split; [exact HI|]. intros p o Hp.
      apply (fu_none b' sl 0 Hfu p o); [lia|]. rewrite Nat.sub_0_r. now apply g_get_nth_error.
  - destruct (both_labelled b p) as [(a & d & Hb)|(sd0 & Hsd0)].
    + (* both sides labelled: skip *)
      rewrite Hb in Hx. apply (IH b rest c b' n); [|exact Hx].
      destruct HM as [HI|(_ & p' & o & E & _ & Hb')]; [|inversion E; subst; congruence].
      left. constructor.
      * apply (inv_len _ _ _ _ HI).
      * apply (inv_unocc _ _ _ _ HI).
      * intros ? ? ? [].
      * apply (inv_legs _ _ _ _ HI).
      * apply (inv_sides _ _ _ _ HI).
      * intros p' o' sd' x Hp' He' Hel Hn.
        destruct (inv_edge _ _ _ _ HI p' o' sd' x Hp' He' Hel Hn) as [E|Hin]; [|exact Hin].
        inversion E; subst. destruct Hn as [Hn _]. unfold lab in Hn. rewrite Hb in Hn. destruct (negb sd'); discriminate.
      * intros p' o' sd' Hin. apply (inv_front _ _ _ _ HI). now right.
    + (* start a new cluster from (p, sd) *)
      assert (Hx' : exists bf, expand_whole (S f) sl p (0, sd) c b rest = Some bf
                               /\ main_loop f sl (fst bf) (snd bf) (S c) = Some (b', n)).
      { unfold lab in Hsd0. destruct (bget b p) as [[a|] [d|]]; destruct sd0; try discriminate;
          (destruct (expand_whole (S f) sl p (0, sd) c b rest) as [[b1 fr1]|]; [|discriminate]);
          exists (b1, fr1); split; try reflexivity; exact Hx. }
      destruct Hx' as ([b1 fr1] & Hew & Hml). cbn [fst snd] in Hml.
      destruct (g_get sl p) as [o|] eqn:Hp; [|unfold expand_whole in Hew; rewrite Hp in Hew; discriminate].
      apply (IH b1 fr1 (S c) b' n); [|exact Hml]. left. apply (Inv_nil_c b1 c 0).
      destruct HM as [HI|(HI & p' & o' & E & Hp' & Hb')].
      * (* general frontier *)
        apply (expand_whole_inv (S f) b c ((p, sd) :: rest) rest p sd o b1 fr1); try assumption.
        -- now apply (Inv_nil_c b 0 c).
        -- intros Hedge.
           destruct (inv_front _ _ _ _ HI p o sd ltac:(now left) Hp Hedge) as [x Hxl]. apply EL_nil in Hxl.
           assert (Hl : lab b p sd = None).
           { destruct (side_cases sd sd0) as [-> | ->]; [exact Hsd0|congruence]. }
           repeat split.
           ++ exact Hl.
           ++ intros l [<-|Hin] Hne; [contradiction|exact Hin].
           ++ intros p' sd' Hin. left. now right.
           ++ intros Hn. congruence.
        -- intros Hedge.
           assert (Hb : bget b p = (None, None)).
           { assert (Hother : lab b p (negb sd0) = None).
             { destruct (lab b p (negb sd0)) as [x|] eqn:El; [|reflexivity].
               assert (He : EL b [] 0 p (negb sd0) x) by now left.
               pose proof (inv_sides _ _ _ _ HI p o (negb sd0) x Hp Hedge He) as He'.
               rewrite negb_involutive in He'. apply EL_nil in He'. congruence. }
             destruct sd0; cbn [negb] in Hother; now apply lab_none_pair. }
           repeat split; [exact Hb| |].
           ++ intros l Hin. left. now right.
           ++ intros l [<-|Hin]; [now right|now left].
      * (* fresh start: frontier = [(p, Inputs); (p, Outputs)] on a completely unlabelled operator *)
        inversion E; subst p' sd rest. assert (o' = o) by congruence. subst o'.
        assert (Hlab : forall sd', lab b p sd' = None) by (intros sd'; unfold lab; rewrite Hb'; destruct sd'; reflexivity).
        apply (expand_whole_inv (S f) b c [] [(p, Outputs)] p Inputs o b1 fr1); try assumption.
        -- now apply (Inv_nil_c b 0 c).
        -- intros Hedge. repeat split.
           ++ apply Hlab.
           ++ intros l [].
           ++ intros p' sd' [E'|[]]. inversion E'; subst. right. now split.
           ++ intros _. now left.
        -- intros Hedge. repeat split; [exact Hb'| |].
           ++ intros l [<-|[]]. now right.
           ++ intros l [].
Qed.

End Dec.

(* ================================================================== *)
(* what a finished decomposition satisfies, on the skeleton            *)
(* ================================================================== *)
Definition GoodLab (sl : skeleton_t) (b : bounds) : Prop :=
  (forall p, match g_get sl p with
             | Some _ => exists a d, bget b p = (Some a, Some d)
             | None => bget b p = (None, None)
             end)
  /\ (forall p o v q kq, g_get sl p = Some o -> In v (sk_vars o) ->
        g_next_wrap sk_vars sl p v = Some (q, kq) -> snd (bget b p) = fst (bget b q))
  /\ (forall p o, g_get sl p = Some o -> sk_is_edge o = false -> fst (bget b p) = snd (bget b p)).

Lemma final_good sl N b :
  (forall p o, g_get sl p = Some o -> p < N) -> Final sl N b -> GoodLab sl b.
Proof.
  intros HN [HI Hnz].
  assert (Hshape : forall p o, g_get sl p = Some o -> exists a d, bget b p = (Some a, Some d)).
  { intros p o Hp. specialize (Hnz p o Hp).
    assert (Hex : exists sd0 x, lab b p sd0 = Some x).
    { unfold lab. destruct (bget b p) as [[a|] [d|]]; [exists Inputs, a|exists Inputs, a|exists Outputs, d|congruence]; reflexivity. }
    destruct Hex as (sd0 & x & Hx).
    assert (Hother : exists y, lab b p (negb sd0) = Some y).
    { destruct (sk_is_edge o) eqn:Hedge.
      - destruct (lab b p (negb sd0)) as [y|] eqn:Ey; [eauto|]. exfalso.
        apply (inv_edge sl N _ _ _ _ HI p o sd0 x Hp Hedge); [now left|]. split; [exact Ey|intros [k []]].
      - exists x. apply (EL_nil b 0). apply (inv_sides sl N _ _ _ _ HI p o sd0 x Hp Hedge). now left. }
    destruct Hother as [y Hy]. unfold lab in Hx, Hy. destruct (bget b p) as [u w].
    destruct sd0; cbn [negb fst snd] in *; subst; eauto. }
  repeat split.
  - intros p. destruct (g_get sl p) as [o|] eqn:Hp; [now apply (Hshape p o)|now apply (inv_unocc sl N _ _ _ _ HI)].
  - intros p o v q kq Hp Hv Hn. destruct (Hshape p o Hp) as (a & d & Hb).
    assert (He : EL b [] 0 p Outputs d) by (left; unfold lab; now rewrite Hb).
    destruct (inv_legs sl N _ _ _ _ HI p o v Outputs d Hp Hv He) as [Hc|(k & _ & _ & [])].
    specialize (Hc q kq Hn). apply EL_nil in Hc. unfold lab in Hc. cbn [negb Outputs] in Hc. rewrite Hb. cbn [snd]. now rewrite Hc.
  - intros p o Hp Hedge. destruct (Hshape p o Hp) as (a & d & Hb).
    assert (He : EL b [] 0 p Inputs a) by (left; unfold lab; now rewrite Hb).
    pose proof (inv_sides sl N _ _ _ _ HI p o Inputs a Hp Hedge He) as He'. apply EL_nil in He'.
    unfold lab in He'. cbn [negb Inputs] in He'. rewrite Hb in *. cbn [fst snd] in *. congruence.
Qed.

Lemma g_get_nth {A} (sl : list (option A)) p : g_get sl p = nth p sl None.
Proof.
  unfold g_get. revert p. induction sl as [|x r IH]; intros [|p]; cbn; try reflexivity.
  - destruct x; reflexivity.
  - apply IH.
Qed.

Lemma g_get_occupied {A} (sl : list (option A)) p o : g_get sl p = Some o -> In p (g_occupied sl).
Proof.
  intros H. unfold g_occupied. apply NavProofs.occupied_from_spec. split; [lia|]. rewrite Nat.sub_0_r.
  unfold g_get in H. destruct (nth_error sl p) as [[x|]|]; try discriminate. eauto.
Qed.

Lemma nth_firstn {A} (l : list A) d : forall n p, nth p (firstn n l) d = if Nat.ltb p n then nth p l d else d.
Proof.
  induction l as [|x l IH]; intros n p.
  - rewrite firstn_nil. destruct p, (Nat.ltb _ n); reflexivity.
  - destruct n as [|n]; [cbn; destruct p; reflexivity|]. destruct p as [|p]; [reflexivity|].
    cbn [firstn nth]. rewrite IH. reflexivity.
Qed.

Lemma bget_repeat n p : bget (repeat (None, None) n) p = (None, None).
Proof.
  unfold bget. revert p. induction n as [|n IH]; intros [|p]; cbn; try reflexivity. apply IH.
Qed.

Theorem decompose_sk_good sl b n : decompose_sk sl = Some (b, n) -> GoodLab sl b.
Proof.
  unfold decompose_sk. destruct (g_last_p sl) as [lp|] eqn:Hlp.
  - assert (HN : forall p o, g_get sl p = Some o -> p < S lp).
    { intros p o Hp. apply g_get_occupied in Hp. unfold g_last_p in Hlp.
      destruct (NavProofs.sorted_last_max _ (NavProofs.occupied_from_sorted sl 0) lp Hlp) as [_ Hmax].
      specialize (Hmax p Hp). lia. }
    destruct (find_constant_op sl) as [cp|] eqn:Hcp.
    + intros Hm. apply (final_good sl (S lp) b HN).
      refine (main_loop_inv sl (S lp) HN _ _ _ _ _ _ _ Hm).
      assert (HI0 : Inv sl (S lp) (repeat (None, None) (S lp)) 0 [] []).
      { constructor.
        - apply repeat_length.
        - intros p _. apply bget_repeat.
        - intros ? ? ? [].
        - intros p o v sd x _ _ He. apply EL_nil in He. unfold lab in He. rewrite bget_repeat in He. destruct sd; discriminate.
        - intros p o sd x _ _ He. apply EL_nil in He. unfold lab in He. rewrite bget_repeat in He. destruct sd; discriminate.
        - intros p o sd x _ _ He. apply EL_nil in He. unfold lab in He. rewrite bget_repeat in He. destruct sd; discriminate.
        - intros ? ? ? []. }
      right. split; [exact HI0|]. unfold find_constant_op in Hcp. apply find_some in Hcp. destruct Hcp as [_ Hc].
      destruct (g_get sl cp) as [o|] eqn:Ho; [|discriminate]. exists cp, o. split; [reflexivity|]. split; [exact Ho|apply bget_repeat].
    + intros Hm. inversion Hm; subst b n. clear Hm.
      set (f := fun s : option skel => match s with Some _ => (Some 0, Some 0) | None => (None, None) end).
      assert (Hb : forall p, bget (map f (firstn (S lp) sl)) p
                             = match g_get sl p with Some _ => (Some 0, Some 0) | None => (None, None) end).
      { intros p. unfold bget. change (@None nat, @None nat) with (f None). rewrite map_nth, nth_firstn, g_get_nth.
        destruct (Nat.ltb_spec p (S lp)) as [Hlt|Hge]; [reflexivity|].
        destruct (nth p sl None) as [o|] eqn:E; [|reflexivity]. exfalso.
        specialize (HN p o). rewrite g_get_nth in HN. specialize (HN E). lia. }
      repeat split.
      * intros p. rewrite Hb. destruct (g_get sl p); eauto.
      * intros p o v q kq Hp Hv Hn. rewrite !Hb, Hp.
        destruct (nbr_inverse sk_vars sl p o v true q kq Hp Hv Hn) as (oq & Hq & _). now rewrite Hq.
      * intros p o Hp _. rewrite Hb, Hp. reflexivity.
  - intros Hm. inversion Hm; subst b n.
    assert (Hno : forall p, g_get sl p = None).
    { intros p. destruct (g_get sl p) as [o|] eqn:Hp; [|reflexivity]. apply g_get_occupied in Hp.
      unfold g_last_p in Hlp. destruct (g_occupied sl) as [|x l] eqn:E; [contradiction|].
      exfalso. clear -Hlp. destruct (DecomposeNav.rev_case (x :: l)) as [E|(l' & y & E)]; [discriminate|].
      rewrite E, rev_app_distr in Hlp. discriminate. }
    repeat split.
    + intros p. rewrite Hno. unfold bget. destruct p; reflexivity.
    + intros p o v q kq Hp. rewrite Hno in Hp. discriminate.
    + intros p o Hp. rewrite Hno in Hp. discriminate.
Qed.

(* ================================================================== *)
(* from the positional statement to the validators, on operator strings *)
(* ================================================================== *)
From QmcV Require Import Proofs.NavProofs Proofs.ClusterFlipProofs.

Definition GoodLabS (sl : slots) (b : bounds) : Prop :=
  (forall p, match get_op sl p with
             | Some _ => exists a d, bget b p = (Some a, Some d)
             | None => bget b p = (None, None)
             end)
  /\ (forall p o v q kq, get_op sl p = Some o -> In v (o_vars o) ->
        next_wrap sl p v = Some (q, kq) -> snd (bget b p) = fst (bget b q))
  /\ (forall p o, get_op sl p = Some o -> is_edge o = false -> fst (bget b p) = snd (bget b p)).

(* --- the skeleton has the same navigation as the string --- *)
Lemma skeleton_ops_on_var (sl : slots) v : forall s,
  g_ops_on_var_from sk_vars s (skeleton sl) v = g_ops_on_var_from o_vars s sl v.
Proof.
  induction sl as [|x r IH]; intros s; cbn [skeleton map g_ops_on_var_from]; [reflexivity|].
  destruct x as [o|]; cbn [option_map]; [|apply IH].
  change (sk_vars (skel_of o)) with (o_vars o). destruct (index_of v (o_vars o)); now rewrite IH.
Qed.

Lemma skeleton_get (sl : slots) p : g_get (skeleton sl) p = option_map skel_of (get_op sl p).
Proof.
  unfold get_op, g_get, skeleton. rewrite nth_error_map. destruct (nth_error sl p) as [[o|]|]; reflexivity.
Qed.

Lemma skeleton_next_wrap (sl : slots) p v : g_next_wrap sk_vars (skeleton sl) p v = next_wrap sl p v.
Proof.
  unfold next_wrap, g_next_wrap, g_next_for_var, g_first_for_var, g_ops_on_var. now rewrite skeleton_ops_on_var.
Qed.

Lemma good_skeleton (sl : slots) b : GoodLab (skeleton sl) b -> GoodLabS sl b.
Proof.
  intros (H1 & H2 & H3). repeat split.
  - intros p. specialize (H1 p). rewrite skeleton_get in H1. destruct (get_op sl p); exact H1.
  - intros p o v q kq Hp Hv Hn. apply (H2 p (skel_of o) v q kq).
    + rewrite skeleton_get, Hp. reflexivity.
    + exact Hv.
    + now rewrite skeleton_next_wrap.
  - intros p o Hp He. apply (H3 p (skel_of o)); [rewrite skeleton_get, Hp; reflexivity|exact He].
Qed.

(* --- sides_ok --- *)
Lemma sides_ok_complete : forall (sl : slots) b,
  (forall p o, get_op sl p = Some o -> is_edge o = false -> fst (bget b p) = snd (bget b p)) ->
  sides_ok sl b = true.
Proof.
  induction sl as [|x r IH]; intros b H; cbn [sides_ok]; [reflexivity|].
  assert (Hr : sides_ok r (tl b) = true).
  { apply IH. intros p o Hp He. rewrite bget_tl. apply (H (S p) o); [exact Hp|exact He]. }
  destruct x as [o|]; [|exact Hr]. rewrite Hr, andb_true_r.
  destruct (is_edge o) eqn:He; [reflexivity|]. cbn [orb]. apply onat_eqb_eq. rewrite <- bget_0.
  apply (H 0 o); [reflexivity|exact He].
Qed.

(* --- links_ok --- *)
Definition lastq (l : list (nat * nat)) : option (nat * nat) := hd_error (rev l).

Lemma lastq_snoc l x : lastq (l ++ [x]) = Some x.
Proof. unfold lastq. now rewrite rev_app_distr. Qed.

Lemma lastq_cons x l : lastq (x :: l) = match lastq l with Some y => Some y | None => Some x end.
Proof.
  unfold lastq. destruct (DecomposeNav.rev_case l) as [->|(l' & y & ->)]; [reflexivity|].
  change (x :: l' ++ [y]) with ((x :: l') ++ [y]). now rewrite !rev_app_distr.
Qed.

Lemma ops_on_var_snoc (pre : slots) x v :
  g_ops_on_var_from o_vars 0 (pre ++ [x]) v
  = g_ops_on_var_from o_vars 0 pre v
    ++ match x with
       | Some o => match index_of v (o_vars o) with Some k => [(length pre, k)] | None => [] end
       | None => []
       end.
Proof.
  rewrite ops_on_var_app. cbn [Nat.add g_ops_on_var_from]. destruct x as [o|]; [|reflexivity].
  destruct (index_of v (o_vars o)); reflexivity.
Qed.

Lemma prev_for_var_lastq (pre suf : slots) v :
  prev_for_var (pre ++ suf) (length pre) v = lastq (g_ops_on_var_from o_vars 0 pre v).
Proof.
  unfold prev_for_var, g_prev_for_var, g_ops_on_var, last_lt. rewrite ops_on_var_app, fold_left_app. cbn [Nat.add].
  rewrite (fold_last_lt_ge (length pre) (g_ops_on_var_from o_vars (length pre) suf v)).
  - rewrite (fold_last_lt_lt (length pre) (g_ops_on_var_from o_vars 0 pre v)).
    + unfold lastq. destruct (hd_error (rev (g_ops_on_var_from o_vars 0 pre v))); reflexivity.
    + intros [q k] Hin. apply ops_on_var_bounds in Hin. cbn [fst]. lia.
  - intros [q k] Hin. apply ops_on_var_bounds in Hin. cbn [fst]. lia.
Qed.

Section Links.
Variable sl0 : slots.
Variable b0 : bounds.
Hypothesis Hshape : forall p, match get_op sl0 p with
                              | Some _ => exists a d, bget b0 p = (Some a, Some d)
                              | None => bget b0 p = (None, None)
                              end.
Hypothesis Hlinks : forall p o v q kq, get_op sl0 p = Some o -> In v (o_vars o) ->
        next_wrap sl0 p v = Some (q, kq) -> snd (bget b0 p) = fst (bget b0 q).

Definition outlab (x : option (nat * nat)) (dflt : option nat) : option nat :=
  match x with Some (q, _) => snd (bget b0 q) | None => dflt end.

(* the wrap-around labels: the output label of the last operator on each variable *)
Lemma out_labels_spec : forall (r pre : slots) b L v,
  sl0 = pre ++ r -> (forall i, bget b i = bget b0 (length pre + i)) ->
  lget (out_labels r b L) v = outlab (lastq (g_ops_on_var_from o_vars (length pre) r v)) (lget L v).
Proof.
  induction r as [|x r IH]; intros pre b L v Hsl Hb; cbn [out_labels g_ops_on_var_from]; [reflexivity|].
  assert (Hsl' : sl0 = (pre ++ [x]) ++ r) by (now rewrite <- app_assoc).
  assert (Hb' : forall i, bget (tl b) i = bget b0 (length (pre ++ [x]) + i)).
  { intros i. rewrite bget_tl, Hb, app_length. cbn [length]. f_equal. lia. }
  assert (Hlen : length (pre ++ [x]) = S (length pre)) by (rewrite app_length; cbn; lia).
  destruct x as [o|].
  - assert (Hop : get_op sl0 (length pre) = Some o) by (rewrite Hsl; apply get_op_mid).
    pose proof (Hshape (length pre)) as Hs. rewrite Hop in Hs. destruct Hs as (a & d & Hs).
    assert (Hhd : bhd b = (Some a, Some d)) by (rewrite <- bget_0, Hb, Nat.add_0_r; exact Hs).
    rewrite Hhd. cbn [snd].
    rewrite (IH (pre ++ [Some o]) (tl b) _ v Hsl' Hb'), Hlen, lget_lput_all, inb_index_of.
    destruct (index_of v (o_vars o)) as [k|]; [|reflexivity].
    rewrite lastq_cons. destruct (lastq (g_ops_on_var_from o_vars (S (length pre)) r v)) as [[q kq]|]; [reflexivity|].
    cbn [outlab]. now rewrite Hs.
  - rewrite (IH (pre ++ [None]) (tl b) L v Hsl' Hb'), Hlen. reflexivity.
Qed.

Lemma links_walk_complete : forall (r pre : slots) b lab,
  sl0 = pre ++ r -> (forall i, bget b i = bget b0 (length pre + i)) ->
  (forall v, lget lab v = outlab (lastq (g_ops_on_var_from o_vars 0 pre v))
                                 (outlab (last_for_var sl0 v) None)) ->
  links_walk r b lab <> None.
Proof.
  induction r as [|x r IH]; intros pre b lab Hsl Hb Hlab; cbn [links_walk].
  - assert (Hall : forallb unlabelled b = true).
    { apply forallb_forall. intros e He. destruct (In_nth _ _ (None, None) He) as (i & Hi & <-).
      change (nth i b (None, None)) with (bget b i). rewrite Hb.
      pose proof (Hshape (length pre + i)) as Hs. rewrite Hsl, app_nil_r in Hs.
      rewrite get_op_beyond in Hs by lia. now rewrite Hs. }
    rewrite Hall. discriminate.
  - assert (Hsl' : sl0 = (pre ++ [x]) ++ r) by (now rewrite <- app_assoc).
    assert (Hb' : forall i, bget (tl b) i = bget b0 (length (pre ++ [x]) + i)).
    { intros i. rewrite bget_tl, Hb, app_length. cbn [length]. f_equal. lia. }
    pose proof (Hshape (length pre)) as Hs.
    assert (Hop : get_op sl0 (length pre) = x) by (rewrite Hsl; apply get_op_mid).
    rewrite Hop in Hs. pose proof (Hb 0) as Hb0. rewrite bget_0, Nat.add_0_r in Hb0.
    destruct x as [o|].
    + destruct Hs as (a & d & Hs). rewrite Hb0, Hs.
      assert (Hchk : forallb (fun w => onat_eqb (lget lab w) (Some a)) (o_vars o) = true).
      { apply forallb_forall. intros v Hv. apply onat_eqb_eq. rewrite Hlab.
        (* the label carried for v is the output label of the periodic predecessor of this operator *)
        assert (Hpw : outlab (lastq (g_ops_on_var_from o_vars 0 pre v)) (outlab (last_for_var sl0 v) None)
                      = outlab (prev_wrap sl0 (length pre) v) None).
        { unfold prev_wrap, g_prev_wrap. fold (prev_for_var sl0 (length pre) v). rewrite Hsl at 2.
          rewrite prev_for_var_lastq. destruct (lastq (g_ops_on_var_from o_vars 0 pre v)) as [[q kq]|]; reflexivity. }
        rewrite Hpw.
        destruct (prev_wrap sl0 (length pre) v) as [[q kq]|] eqn:Epw.
        - cbn [outlab].
          destruct (nbr_inverse o_vars sl0 (length pre) o v false q kq Hop Hv Epw) as (oq & Hq & Hix & kp & Hback).
          cbn [negb nbr] in Hback.
          rewrite (Hlinks q oq v (length pre) kp Hq (index_of_some_in _ _ _ Hix) Hback), Hs. reflexivity.
        - exfalso. destruct (index_of_in v (o_vars o) Hv) as [k Hk].
          assert (Hin : In (length pre, k) (g_ops_on_var o_vars sl0 v)) by (apply g_ops_spec; eauto).
          unfold prev_wrap, g_prev_wrap, g_last_for_var in Epw.
          destruct (g_prev_for_var o_vars sl0 (length pre) v); [discriminate|].
          destruct (DecomposeNav.rev_case (g_ops_on_var o_vars sl0 v)) as [E|(l' & y & E)]; rewrite E in *; [contradiction|].
          rewrite rev_app_distr in Epw. discriminate. }
      rewrite Hchk. apply (IH (pre ++ [Some o]) (tl b) _ Hsl' Hb').
      intros v. rewrite lget_lput_all, inb_index_of, ops_on_var_snoc.
      destruct (index_of v (o_vars o)) as [k|]; [|now rewrite app_nil_r].
      rewrite lastq_snoc. cbn [outlab]. now rewrite Hs.
    + rewrite Hb0, Hs. apply (IH (pre ++ [None]) (tl b) _ Hsl' Hb').
      intros v. rewrite ops_on_var_snoc, app_nil_r. apply Hlab.
Qed.

Theorem links_ok_complete : links_ok sl0 b0 = true.
Proof.
  unfold links_ok.
  destruct (links_walk sl0 b0 (out_labels sl0 b0 [])) eqn:E; [reflexivity|]. exfalso.
  apply (links_walk_complete sl0 [] b0 (out_labels sl0 b0 []) eq_refl (fun i => eq_refl)); [|exact E].
  intros v. cbn [g_ops_on_var_from lastq rev hd_error outlab].
  rewrite (out_labels_spec sl0 [] b0 [] v eq_refl (fun i => eq_refl)). rewrite lget_nil. reflexivity.
Qed.
End Links.

(* ================================================================== *)
(* the theorem                                                          *)
(* ================================================================== *)
Theorem decompose_valid (sl : slots) b n :
  decompose sl = Some (b, n) -> links_ok sl b = true /\ sides_ok sl b = true.
Proof.
  intros Hd. unfold decompose in Hd. apply decompose_sk_good, good_skeleton in Hd.
  destruct Hd as (H1 & H2 & H3). split.
  - now apply links_ok_complete.
  - now apply sides_ok_complete.
Qed.

(* the premise is satisfiable: a string with a two-site operator between two spin flips decomposes into
   two clusters, and the labelling found is accepted (by evaluation, independently of the theorem) *)
Example decompose_example :
  let sl := [Some (mkOp [0] 1 [true] [false] true); None;
             Some (mkOp [0; 1] 0 [false; true] [false; true] false);
             Some (mkOp [0] 1 [false] [true] true); Some (mkOp [1] 2 [true] [true] true)] in
  exists b, decompose sl = Some (b, 2) /\ links_ok sl b = true /\ sides_ok sl b = true.
Proof. cbv zeta. eexists. split; [vm_compute; reflexivity|split; vm_compute; reflexivity]. Qed.

(* ================================================================== *)
(* corollaries about the ACTUAL decomposition (no validator hypothesis) *)
(* ================================================================== *)
From Coq Require Import QArith.
From QmcV Require Import Model.Ham.
Corollary decomposed_flip_wf sl st b n flips :
  decompose sl = Some (b, n) -> vars_in_range (length st) sl = true -> wf st sl = true ->
  let '(sl', st') := apply_flips sl st b flips in wf st' sl' = true.
Proof. intros Hd Hr Hw. destruct (decompose_valid sl b n Hd) as [Hl _]. now apply cluster_flip_wf. Qed.

Corollary decomposed_flip_involutive sl st b n flips :
  decompose sl = Some (b, n) -> vars_in_range (length st) sl = true -> wf st sl = true ->
  let '(sl', st') := apply_flips sl st b flips in apply_flips sl' st' b flips = (sl, st).
Proof. intros Hd Hr Hw. destruct (decompose_valid sl b n Hd) as [Hl _]. now apply cluster_flip_involutive. Qed.

Corollary decomposed_flip_weight H sl st b n flips :
  decompose sl = Some (b, n) ->
  (forall o, In (Some o) sl -> is_edge o = false -> flip_sym H o) ->
  (forall o, In (Some o) sl -> is_edge o = true -> edge_free H o) ->
  (weight_product H (fst (apply_flips sl st b flips)) == weight_product H sl)%Q.
Proof. intros Hd H1 H2. destruct (decompose_valid sl b n Hd) as [_ Hs]. now apply cluster_flip_weight. Qed.
