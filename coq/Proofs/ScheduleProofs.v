(* Independent per-replica updates give the same result under every execution order (C13). *)
From Coq Require Import List Arith Lia Permutation.
From QmcV Require Import Model.Sse.
Import ListNotations.

(* update cell i of a vector with f *)
Definition upd {A} (f : A -> A) (l : list A) (i : nat) : list A :=
  match nth_error l i with Some x => set_nth l i (f x) | None => l end.

Lemma nth_error_set_nth {A} (l : list A) i k x :
  nth_error (set_nth l i x) k = if Nat.eqb i k then (match nth_error l k with Some _ => Some x | None => None end) else nth_error l k.
Proof.
  revert i k. induction l as [|h t IH]; intros i k; cbn [set_nth].
  - destruct (Nat.eqb i k); destruct k; reflexivity.
  - destruct i, k; cbn [set_nth nth_error Nat.eqb]; try reflexivity. apply IH.
Qed.

Lemma set_nth_set_nth_comm {A} (l : list A) i j x y : i <> j -> set_nth (set_nth l i x) j y = set_nth (set_nth l j y) i x.
Proof.
  revert i j. induction l as [|h t IH]; intros i j Hne; cbn; [reflexivity|].
  destruct i, j; cbn; try reflexivity; try lia. f_equal. apply IH. lia.
Qed.

Lemma upd_comm {A} (f : A -> A) (l : list A) i j : i <> j -> upd f (upd f l i) j = upd f (upd f l j) i.
Proof.
  intros Hne. unfold upd.
  assert (Hij : Nat.eqb i j = false) by (apply Nat.eqb_neq; exact Hne).
  assert (Hji : Nat.eqb j i = false) by (apply Nat.eqb_neq; lia).
  destruct (nth_error l i) as [x|] eqn:Ei; destruct (nth_error l j) as [y|] eqn:Ej;
    rewrite ?nth_error_set_nth, ?Hij, ?Hji, ?Ei, ?Ej; try reflexivity.
  now apply set_nth_set_nth_comm.
Qed.

Lemma fold_upd_perm {A} (f : A -> A) s1 s2 : Permutation s1 s2 -> NoDup s1 ->
  forall l : list A, fold_left (upd f) s1 l = fold_left (upd f) s2 l.
Proof.
  induction 1 as [|x s1 s2 Hp IH|x y s|s1 s2 s3 H1 IH1 H2 IH2]; intros Hnd l; cbn [fold_left].
  - reflexivity.
  - inversion Hnd; subst. now apply IH.
  - inversion Hnd as [|? ? Hx Hnd']; subst. f_equal. apply upd_comm. intros ->. apply Hx. now left.
  - rewrite IH1 by exact Hnd. apply IH2. eapply Permutation_NoDup; eauto.
Qed.

Lemma fold_upd_seq {A} (f : A -> A) : forall (pre l : list A),
  fold_left (upd f) (seq (length pre) (length l)) (pre ++ l) = pre ++ map f l.
Proof.
  intros pre l. revert pre. induction l as [|x l IH]; intros pre; cbn [length seq fold_left map]; [reflexivity|].
  unfold upd at 2. rewrite nth_error_app2 by lia. rewrite Nat.sub_diag. cbn [nth_error].
  assert (E : set_nth (pre ++ x :: l) (length pre) (f x) = (pre ++ [f x]) ++ l).
  { clear IH. induction pre as [|h t IHp]; cbn; [reflexivity|]. now rewrite IHp. }
  rewrite E. specialize (IH (pre ++ [f x])). rewrite app_length in IH. cbn [length] in IH.
  rewrite Nat.add_1_r in IH. rewrite IH. rewrite <- app_assoc. reflexivity.
Qed.

(* any schedule that runs every replica's update exactly once yields map f — whatever the order *)
Theorem any_schedule_same_result {A} (f : A -> A) (l : list A) (sched : list nat) :
  Permutation sched (seq 0 (length l)) -> fold_left (upd f) sched l = map f l.
Proof.
  intros Hp. rewrite (fold_upd_perm f sched (seq 0 (length l)) Hp).
  - apply (fold_upd_seq f [] l).
  - eapply Permutation_NoDup; [apply Permutation_sym; exact Hp|apply seq_NoDup].
Qed.

(* ---- the same with a different closure per replica (each replica steps with its own beta / RNG) ---- *)
Definition updi {A} (g : nat -> A -> A) (l : list A) (i : nat) : list A :=
  match nth_error l i with Some x => set_nth l i (g i x) | None => l end.

Fixpoint mapi_from {A} (k : nat) (g : nat -> A -> A) (l : list A) : list A :=
  match l with [] => [] | x :: r => g k x :: mapi_from (S k) g r end.

Lemma updi_comm {A} (g : nat -> A -> A) (l : list A) i j : i <> j -> updi g (updi g l i) j = updi g (updi g l j) i.
Proof.
  intros Hne. unfold updi.
  assert (Hij : Nat.eqb i j = false) by (apply Nat.eqb_neq; exact Hne).
  assert (Hji : Nat.eqb j i = false) by (apply Nat.eqb_neq; lia).
  destruct (nth_error l i) as [x|] eqn:Ei; destruct (nth_error l j) as [y|] eqn:Ej;
    rewrite ?nth_error_set_nth, ?Hij, ?Hji, ?Ei, ?Ej; try reflexivity.
  now apply set_nth_set_nth_comm.
Qed.

Lemma fold_updi_perm {A} (g : nat -> A -> A) s1 s2 : Permutation s1 s2 -> NoDup s1 ->
  forall l : list A, fold_left (updi g) s1 l = fold_left (updi g) s2 l.
Proof.
  induction 1 as [|x s1 s2 Hp IH|x y s|s1 s2 s3 H1 IH1 H2 IH2]; intros Hnd l; cbn [fold_left].
  - reflexivity.
  - inversion Hnd; subst. now apply IH.
  - inversion Hnd as [|? ? Hx Hnd']; subst. f_equal. apply updi_comm. intros ->. apply Hx. now left.
  - rewrite IH1 by exact Hnd. apply IH2. eapply Permutation_NoDup; eauto.
Qed.

Lemma fold_updi_seq {A} (g : nat -> A -> A) : forall (l pre : list A),
  fold_left (updi g) (seq (length pre) (length l)) (pre ++ l) = pre ++ mapi_from (length pre) g l.
Proof.
  induction l as [|x l IH]; intros pre; cbn [length seq fold_left mapi_from]; [reflexivity|].
  unfold updi at 2. rewrite nth_error_app2 by lia. rewrite Nat.sub_diag. cbn [nth_error].
  assert (E : set_nth (pre ++ x :: l) (length pre) (g (length pre) x) = (pre ++ [g (length pre) x]) ++ l).
  { clear IH. generalize (g (length pre) x) as y. intros y. induction pre as [|h t IHp]; cbn; [reflexivity|]. now rewrite IHp. }
  rewrite E. specialize (IH (pre ++ [g (length pre) x])). rewrite app_length in IH. cbn [length] in IH.
  rewrite Nat.add_1_r in IH. rewrite IH. rewrite <- app_assoc. reflexivity.
Qed.

(* any schedule that runs every replica's own closure exactly once yields the index-wise result *)
Theorem any_schedule_same_result_indexed {A} (g : nat -> A -> A) (l : list A) (sched : list nat) :
  Permutation sched (seq 0 (length l)) -> fold_left (updi g) sched l = mapi_from 0 g l.
Proof.
  intros Hp. rewrite (fold_updi_perm g sched (seq 0 (length l)) Hp).
  - apply (fold_updi_seq g l []).
  - eapply Permutation_NoDup; [apply Permutation_sym; exact Hp|apply seq_NoDup].
Qed.

Lemma mapi_from_length {A} (g : nat -> A -> A) (l : list A) : forall k, length (mapi_from k g l) = length l.
Proof. induction l as [|x l IH]; intros k; cbn; [reflexivity|now rewrite IH]. Qed.

(* a whole run: any number of parallel phases (closures may differ from phase to phase), each under
   its own arbitrary schedule, ends in the same vector as the serial in-order execution *)
Theorem any_schedules_same_run {A} : forall (phases : list ((nat -> A -> A) * list nat)) (l : list A),
  Forall (fun ph => Permutation (snd ph) (seq 0 (length l))) phases ->
  fold_left (fun v ph => fold_left (updi (fst ph)) (snd ph) v) phases l
  = fold_left (fun v ph => mapi_from 0 (fst ph) v) phases l.
Proof.
  induction phases as [|[g s] phases IH]; intros l H; cbn [fold_left fst snd]; [reflexivity|].
  inversion H as [|? ? Hs Hr]; subst. cbn [snd] in Hs.
  rewrite (any_schedule_same_result_indexed g l s Hs). apply IH.
  rewrite mapi_from_length. exact Hr.
Qed.
