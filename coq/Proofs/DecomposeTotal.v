(* Totality of the cluster decomposition: with the fuel that [decompose_sk] supplies, the transcribed
   algorithm always returns a labelling (never [None]).  Together with Proofs/DecomposeProofs.v this is
   total correctness of the model of the cluster decomposition.

   One potential drives everything: W(b) = sum over positions of
       4k  if the operator there is a non-edge that is not labelled on both sides   (its legs may still be pushed)
     + 4k  if it is a non-edge with no label at all                                  (it may still start a cluster)
     + the number of unlabelled sides + 3 if it has no label at all.
   One iteration of the inner loop lowers |interior| + W by at least one (a discovered operator pushes at most
   2k legs and loses its first 4k... in fact 2k are enough), one iteration of the outer loop lowers |frontier| + W. *)
From Coq Require Import List Bool Arith Lia.
From QmcV Require Import Model.Sse Model.Nav Model.Cluster Model.ClusterValid
     Proofs.FastOpsLemmas Proofs.DecomposeNav Proofs.DecomposeProofs.
Import ListNotations.

Section Tot.
Variable sl : skeleton_t.
Variable N : nat.
Hypothesis HN : forall p o, g_get sl p = Some o -> p < N.

Definition isnone {A} (x : option A) : bool := match x with None => true | Some _ => false end.
Definition kk (p : nat) : nat := match g_get sl p with Some o => length (sk_vars o) | None => 0 end.
Definition nonedge (p : nat) : bool := match g_get sl p with Some o => negb (sk_is_edge o) | None => false end.
Definition occp (p : nat) : bool := match g_get sl p with Some _ => true | None => false end.

Definition nIn (b : bounds) p := isnone (lab b p Inputs).
Definition nOut (b : bounds) p := isnone (lab b p Outputs).

Definition wt (b : bounds) (p : nat) : nat :=
  (if nonedge p && (nIn b p || nOut b p) then 2 * kk p else 0)
  + (if nonedge p && (nIn b p && nOut b p) then 2 * kk p else 0)
  + (if occp p then (if nIn b p then 1 else 0) + (if nOut b p then 1 else 0) else 0)
  + (if occp p && (nIn b p && nOut b p) then 3 else 0).

Definition W (b : bounds) : nat := list_sum (map (wt b) (seq 0 N)).

(* labels are only ever added *)
Definition LM (b b' : bounds) : Prop := forall p sd, lab b p sd <> None -> lab b' p sd <> None.

Lemma LM_refl b : LM b b. Proof. intros p sd H. exact H. Qed.
Lemma LM_trans b1 b2 b3 : LM b1 b2 -> LM b2 b3 -> LM b1 b3.
Proof. intros H1 H2 p sd H. apply H2, H1, H. Qed.

Lemma LM_isnone b b' p sd : LM b b' -> isnone (lab b' p sd) = true -> isnone (lab b p sd) = true.
Proof.
  intros H Hn. destruct (lab b p sd) eqn:E; [|reflexivity]. exfalso.
  assert (Hx : lab b p sd <> None) by congruence. apply H in Hx. destruct (lab b' p sd); [discriminate|congruence].
Qed.

Lemma wt_mono b b' p : LM b b' -> wt b' p <= wt b p.
Proof.
  intros H. unfold wt, nIn, nOut.
  pose proof (LM_isnone b b' p Inputs H) as Hi. pose proof (LM_isnone b b' p Outputs H) as Ho.
  destruct (isnone (lab b' p Inputs)) eqn:E1, (isnone (lab b' p Outputs)) eqn:E2,
           (isnone (lab b p Inputs)) eqn:E3, (isnone (lab b p Outputs)) eqn:E4;
    try (specialize (Hi eq_refl); discriminate); try (specialize (Ho eq_refl); discriminate);
    destruct (nonedge p), (occp p); cbn; lia.
Qed.

Lemma list_sum_cons' x l : list_sum (x :: l) = x + list_sum l.
Proof. reflexivity. Qed.

Lemma list_sum_le (f g : nat -> nat) l : (forall p, In p l -> f p <= g p) -> list_sum (map f l) <= list_sum (map g l).
Proof.
  induction l as [|x l IH]; intros H; cbn [map]; [cbn; lia|]. rewrite !list_sum_cons'.
  pose proof (H x (or_introl eq_refl)). assert (list_sum (map f l) <= list_sum (map g l)) by (apply IH; intros; apply H; now right). lia.
Qed.

Lemma list_sum_le_strict (f g : nat -> nat) l q d :
  NoDup l -> In q l -> (forall p, In p l -> f p <= g p) -> f q + d <= g q ->
  list_sum (map f l) + d <= list_sum (map g l).
Proof.
  induction l as [|x l IH]; intros Hnd Hq H Hd; [contradiction|]. cbn [map]. rewrite !list_sum_cons'.
  inversion Hnd as [|? ? Hnx Hnd']; subst.
  destruct Hq as [->|Hq].
  - assert (list_sum (map f l) <= list_sum (map g l)) by (apply list_sum_le; intros; apply H; now right). lia.
  - pose proof (H x (or_introl eq_refl)).
    assert (list_sum (map f l) + d <= list_sum (map g l)) by (apply IH; auto; intros; apply H; now right). lia.
Qed.

Lemma W_mono b b' : LM b b' -> W b' <= W b.
Proof. intros H. unfold W. apply list_sum_le. intros p _. now apply wt_mono. Qed.

Lemma W_drop b b' q d : LM b b' -> q < N -> wt b' q + d <= wt b q -> W b' + d <= W b.
Proof.
  intros H Hq Hd. unfold W. apply (list_sum_le_strict _ _ _ q d); [apply seq_NoDup|apply in_seq; lia| |exact Hd].
  intros p _. now apply wt_mono.
Qed.

(* --- how the labelling primitives act --- *)
Lemma LM_set_boundary p sd c b : p < length b -> LM b (fst (set_boundary p sd c b)).
Proof.
  intros Hp q sd' H. rewrite sb_lab by exact Hp. destruct (Nat.eqb q p && Bool.eqb sd' sd); [discriminate|exact H].
Qed.

Lemma LM_set_boundaries p c b : p < length b -> LM b (set_boundaries p c b).
Proof.
  intros Hp q sd' H. rewrite sbs_lab by exact Hp. destruct (Nat.eqb q p); [discriminate|exact H].
Qed.

(* a side of an occupied position that was unlabelled gets a label: at least one unit *)
Lemma wt_side_drop b b' p o sd :
  LM b b' -> g_get sl p = Some o -> lab b p sd = None -> lab b' p sd <> None -> wt b' p + 1 <= wt b p.
Proof.
  intros H Hp Hn Hs. unfold wt, nIn, nOut, occp, nonedge. rewrite Hp.
  pose proof (LM_isnone b b' p Inputs H) as Hi. pose proof (LM_isnone b b' p Outputs H) as Ho.
  destruct sd; unfold Inputs, Outputs in *.
  - rewrite Hn. destruct (lab b' p true); [|congruence]. cbn [isnone].
    destruct (isnone (lab b' p false)); try rewrite (Hi eq_refl);
      destruct (isnone (lab b p false)), (negb (sk_is_edge o)); cbn; lia.
  - rewrite Hn. destruct (lab b' p false); [|congruence]. cbn [isnone].
    destruct (isnone (lab b' p true)); try rewrite (Ho eq_refl);
      destruct (isnone (lab b p true)), (negb (sk_is_edge o)); cbn; lia.
Qed.

(* a completely unlabelled operator gets its first label *)
Lemma wt_first_drop b b' p o sd :
  LM b b' -> g_get sl p = Some o -> bget b p = (None, None) -> lab b' p sd <> None ->
  wt b' p + 4 + (if sk_is_edge o then 0 else 2 * length (sk_vars o)) <= wt b p.
Proof.
  intros H Hp Hb Hs. unfold wt, nIn, nOut, occp, nonedge, kk, lab in *. rewrite Hp, Hb. cbn [fst snd isnone].
  destruct sd; unfold Inputs, Outputs in *.
  - destruct (snd (bget b' p)); [|congruence]. cbn [isnone].
    destruct (isnone (fst (bget b' p))), (sk_is_edge o); cbn; lia.
  - destruct (fst (bget b' p)); [|congruence]. cbn [isnone].
    destruct (isnone (snd (bget b' p))), (sk_is_edge o); cbn; lia.
Qed.

(* a non-edge operator that was not labelled on both sides becomes so *)
Lemma wt_both_drop b b' q oq :
  LM b b' -> g_get sl q = Some oq -> sk_is_edge oq = false ->
  (lab b q Inputs = None \/ lab b q Outputs = None) ->
  lab b' q Inputs <> None -> lab b' q Outputs <> None ->
  wt b' q + 2 * length (sk_vars oq) <= wt b q.
Proof.
  intros H Hq He Hn Hi Ho. unfold wt, nIn, nOut, occp, nonedge, kk. rewrite Hq, He. cbn [negb andb].
  destruct (lab b' q Inputs); [|congruence]. destruct (lab b' q Outputs); [|congruence]. cbn [isnone orb andb].
  destruct Hn as [Hn|Hn]; rewrite Hn; cbn [isnone orb]; destruct (isnone _); cbn; lia.
Qed.
(* ================================================================== *)
(* the inner loop returns                                              *)
(* ================================================================== *)
Notation nb := (nbr sk_vars sl).

Definition FrOcc (fr : list (nat * side)) : Prop := forall p sd, In (p, sd) fr -> exists o, g_get sl p = Some o.

Definition hd_act (c : nat) (b : bounds) (int : list leg) : bounds :=
  match int with [] => b | (p, (k, sd)) :: _ => fst (set_boundary p sd c b) end.

Lemma pend_lt b c fr int p k sd : Inv sl N b c fr int -> In (p, (k, sd)) int -> p < length b.
Proof.
  intros HI Hin. destruct (inv_pend sl N _ _ _ _ HI p k sd Hin) as [(o & Hp & _) _].
  rewrite (inv_len sl N _ _ _ _ HI). now apply (HN p o).
Qed.

Lemma LM_hd_act b c fr int : Inv sl N b c fr int -> LM b (hd_act c b int).
Proof.
  intros HI. destruct int as [|[p [k sd]] rest]; [apply LM_refl|]. cbn [hd_act].
  apply LM_set_boundary. apply (pend_lt b c fr _ p k sd HI). now left.
Qed.

Lemma all_legs_length k : length (all_legs k) = 2 * k.
Proof. unfold all_legs. rewrite app_length, !map_length, seq_length. lia. Qed.

Lemma filter_len_le {A} (f : A -> bool) l : length (filter f l) <= length l.
Proof. induction l as [|x l IH]; cbn; [lia|]. destruct (f x); cbn; lia. Qed.

Lemma other_legs_length q k e : length (other_legs q k e) <= 2 * k.
Proof.
  unfold other_legs. rewrite map_length. rewrite <- all_legs_length. apply filter_len_le.
Qed.

Theorem expand_total : forall fuel b c fr int,
  Inv sl N b c fr int -> FrOcc fr -> length int + W (hd_act c b int) < fuel ->
  exists b' fr', expand_loop fuel sl c b fr int = Some (b', fr')
     /\ LM b b' /\ (forall p k sd, In (p, (k, sd)) int -> lab b' p sd <> None)
     /\ length fr' + W b' <= length fr + length int + W (hd_act c b int)
     /\ FrOcc fr'.
Proof.
  induction fuel as [|f IH]; intros b c fr int HI Hfo Hfuel; [lia|].
  destruct int as [|[p [k sd]] rest].
  - cbn [expand_loop hd_act length] in *. exists b, fr. repeat split; try assumption.
    + apply LM_refl.
    + intros ? ? ? [].
    + lia.
  - assert (Hin : In (p, (k, sd)) ((p, (k, sd)) :: rest)) by now left.
    destruct (inv_pend sl N _ _ _ _ HI p k sd Hin) as [(o & Hp & Hk) _].
    pose proof (actualise sl N HN b c fr _ p k sd HI Hin) as HI1.
    cbn [hd_act] in Hfuel |- *. set (b1 := fst (set_boundary p sd c b)) in *.
    assert (Hlt : p < length b) by (apply (pend_lt b c fr _ p k sd HI Hin)).
    assert (HLM1 : LM b b1) by (apply LM_set_boundary; exact Hlt).
    assert (Hl1 : lab b1 p sd = Some c).
    { unfold b1. rewrite sb_lab by exact Hlt. now rewrite Nat.eqb_refl, eqb_side_refl. }
    assert (Hv : In (nth k (sk_vars o) 0) (sk_vars o)) by (apply nth_In; exact Hk).
    destruct (nbr_exists sk_vars sl p o _ sd Hp Hv) as (q & kq & Hnb).
    destruct (nbr_inverse sk_vars sl p o _ sd q kq Hp Hv Hnb) as (oq & Hq & _).
    assert (Hqlt : q < length b1).
    { unfold b1. rewrite sb_len, (inv_len sl N _ _ _ _ HI). now apply (HN q oq). }
    cbn [expand_loop]. rewrite Hp.
    change (if sd then g_next_wrap sk_vars sl p (nth k (sk_vars o) 0) else g_prev_wrap sk_vars sl p (nth k (sk_vars o) 0))
      with (nb p (nth k (sk_vars o) 0) sd).
    rewrite Hnb, Hq. fold b1. cbn [length] in Hfuel.
    destruct (sk_is_edge oq) eqn:Hedge.
    + (* cluster edge *)
      pose proof (step_edge sl N HN b1 c fr rest p k sd o q kq oq HI1 Hp Hk Hl1 Hnb Hq Hedge) as HI2.
      assert (HLM2 : LM b1 (fst (set_boundary q (negb sd) c b1))) by (apply LM_set_boundary; exact Hqlt).
      destruct (set_boundary q (negb sd) c b1) as [b2 both] eqn:Esb. cbn [fst snd] in HI2, HLM2.
      set (fr2 := if both then fr else (q, sd) :: fr) in *.
      assert (Hfo2 : FrOcc fr2).
      { intros p' sd' Hin'. unfold fr2 in Hin'. destruct both; [now apply (Hfo p' sd')|].
        destruct Hin' as [E|Hin']; [inversion E; subst; eauto|now apply (Hfo p' sd')]. }
      assert (Hlen2 : length fr2 <= S (length fr)) by (unfold fr2; destruct both; cbn; lia).
      pose proof (W_mono _ _ HLM2) as Hw2. pose proof (W_mono _ _ (LM_hd_act b2 c fr2 rest HI2)) as Hw3.
      destruct (IH b2 c fr2 rest HI2 Hfo2 ltac:(lia)) as (b' & fr' & Hx & HLM & Hlegs & Hineq & Hfo').
      exists b', fr'. repeat split; try assumption.
      * eapply LM_trans; [exact HLM1|]. eapply LM_trans; [exact HLM2|exact HLM].
      * intros p' k' sd' [E|Hin']; [inversion E; subst; apply HLM, HLM2; congruence|now apply (Hlegs p' k' sd')].
      * cbn [length]. lia.
    + destruct (discoverable (bget b1 q) c) eqn:Hd.
      * (* the neighbour joins the cluster *)
        pose proof (step_discover sl N HN b1 c fr rest p k sd o q kq oq HI1 Hp Hk Hl1 Hnb Hq Hedge Hd) as HI2.
        set (b2 := set_boundaries q c b1) in *.
        set (int2 := push_all (other_legs q (length (sk_vars oq)) (kq, negb sd)) rest) in *.
        assert (HLM2 : LM b1 b2) by (apply LM_set_boundaries; exact Hqlt).
        assert (Hdrop : W b2 + 2 * length (sk_vars oq) <= W b1).
        { apply (W_drop b1 b2 q); [exact HLM2|now apply (HN q oq)|].
          apply (wt_both_drop b1 b2 q oq HLM2 Hq Hedge).
          - unfold lab. destruct (bget b1 q) as [[x|] [y|]]; cbn in Hd |- *; try discriminate; auto.
          - unfold b2. rewrite sbs_lab by exact Hqlt. rewrite Nat.eqb_refl. discriminate.
          - unfold b2. rewrite sbs_lab by exact Hqlt. rewrite Nat.eqb_refl. discriminate. }
        assert (Hlen2 : length int2 <= 2 * length (sk_vars oq) + length rest).
        { unfold int2, push_all. rewrite app_length, rev_length.
          pose proof (other_legs_length q (length (sk_vars oq)) (kq, negb sd)). lia. }
        pose proof (W_mono _ _ (LM_hd_act b2 c fr int2 HI2)) as Hw3.
        destruct (IH b2 c fr int2 HI2 Hfo ltac:(lia)) as (b' & fr' & Hx & HLM & Hlegs & Hineq & Hfo').
        exists b', fr'. repeat split; try assumption.
        -- eapply LM_trans; [exact HLM1|]. eapply LM_trans; [exact HLM2|exact HLM].
        -- intros p' k' sd' [E|Hin']; [inversion E; subst; apply HLM, HLM2; congruence|].
           apply (Hlegs p' k' sd'). unfold int2, push_all. apply in_or_app. now right.
        -- cbn [length]. lia.
      * (* the neighbour already belongs to the cluster *)
        pose proof (step_closed sl N b1 c fr rest p k sd o q kq oq HI1 Hp Hk Hl1 Hnb Hq Hedge Hd) as HI2.
        pose proof (W_mono _ _ (LM_hd_act b1 c fr rest HI2)) as Hw3.
        destruct (IH b1 c fr rest HI2 Hfo ltac:(lia)) as (b' & fr' & Hx & HLM & Hlegs & Hineq & Hfo').
        exists b', fr'. repeat split; try assumption.
        -- eapply LM_trans; [exact HLM1|exact HLM].
        -- intros p' k' sd' [E|Hin']; [inversion E; subst; apply HLM; congruence|now apply (Hlegs p' k' sd')].
        -- cbn [length]. lia.
Qed.
(* ================================================================== *)
(* one cluster: expand_whole_cluster returns                            *)
(* ================================================================== *)
Definition nolabel (b : bounds) (p : nat) : bool :=
  match bget b p with (None, None) => true | _ => false end.

Lemma nolabel_spec b p : nolabel b p = true <-> bget b p = (None, None).
Proof. unfold nolabel. destruct (bget b p) as [[x|] [y|]]; split; intros H; try discriminate; try reflexivity; congruence. Qed.

Lemma lab_of_none b p sd : bget b p = (None, None) -> lab b p sd = None.
Proof. intros H. unfold lab. rewrite H. destruct sd; reflexivity. Qed.

(* the head leg of a start stack sits at the start position *)
Lemma start_first_drop b c p o int0 :
  g_get sl p = Some o -> p < length b -> bget b p = (None, None) ->
  int0 <> [] -> (forall l, In l int0 -> fst l = p) ->
  W (hd_act c b int0) + 4 + (if sk_is_edge o then 0 else 2 * length (sk_vars o)) <= W b.
Proof.
  intros Hp Hlt Hb Hne Hall. destruct int0 as [|[p' [k' sd']] r]; [congruence|].
  assert (p' = p) by (apply (Hall (p', (k', sd'))); now left). subst p'. cbn [hd_act].
  set (b1 := fst (set_boundary p sd' c b)).
  assert (HLM : LM b b1) by (apply LM_set_boundary; exact Hlt).
  assert (Hl1 : lab b1 p sd' <> None).
  { unfold b1. rewrite sb_lab by exact Hlt. rewrite Nat.eqb_refl, eqb_side_refl. discriminate. }
  pose proof (wt_first_drop b b1 p o sd' HLM Hp Hb Hl1) as Hd.
  pose proof (W_drop b b1 p (4 + (if sk_is_edge o then 0 else 2 * length (sk_vars o))) HLM (HN p o Hp) ltac:(lia)). lia.
Qed.

Theorem expand_whole_total fuel b c fr rest p sd o (s : nat) :
  Inv sl N b c fr [] -> FrOcc rest -> g_get sl p = Some o ->
  (sk_is_edge o = true ->
     lab b p sd = None
     /\ (forall l, In l fr -> l <> (p, sd) -> In l rest)
     /\ (forall p' sd', In (p', sd') rest -> In (p', sd') fr \/ (p' = p /\ sd' = negb sd))
     /\ (lab b p (negb sd) = None -> In (p, negb sd) rest)) ->
  (sk_is_edge o = false ->
     bget b p = (None, None)
     /\ (forall l, In l rest -> In l fr \/ fst l = p) /\ (forall l, In l fr -> In l rest \/ fst l = p)) ->
  (s = 0 \/ (bget b p = (None, None) /\ s = 1)) -> W b < fuel + s ->
  exists b' fr', expand_whole fuel sl p (0, sd) c b rest = Some (b', fr')
     /\ Inv sl N b' c fr' [] /\ FrOcc fr'
     /\ length fr' + W b' + (if nolabel b p then 3 else 0) <= length rest + W b.
Proof.
  intros HI Hfo Hp He Hne Hs Hfuel. unfold expand_whole. rewrite Hp.
  assert (Hlt : p < length b) by (rewrite (inv_len sl N _ _ _ _ HI); now apply (HN p o)).
  destruct (sk_is_edge o) eqn:Hedge; cbn [negb andb].
  - (* a cluster edge *)
    destruct (He eq_refl) as (Hl & HA & HB & HC).
    pose proof (start_edge sl N b c fr rest p sd o HI Hp Hedge Hl HA HB HC) as HI0.
    set (b1 := fst (set_boundary p sd c b)).
    assert (HLM : LM b b1) by (apply LM_set_boundary; exact Hlt).
    assert (Hl1 : lab b1 p sd <> None).
    { unfold b1. rewrite sb_lab by exact Hlt. rewrite Nat.eqb_refl, eqb_side_refl. discriminate. }
    assert (Hd1 : W b1 + 1 <= W b).
    { apply (W_drop b b1 p 1 HLM (HN p o Hp)). now apply (wt_side_drop b b1 p o sd). }
    assert (Hd4 : nolabel b p = true -> W b1 + 4 <= W b).
    { intros Hn. apply nolabel_spec in Hn. apply (W_drop b b1 p 4 HLM (HN p o Hp)).
      pose proof (wt_first_drop b b1 p o sd HLM Hp Hn Hl1) as Hx. rewrite Hedge in Hx. cbn iota in Hx. lia. }
    assert (Hfu : length [(p, (0, sd))] + W (hd_act c b [(p, (0, sd))]) < fuel).
    { cbn [length hd_act]. fold b1. destruct Hs as [->|[Hn ->]]; [lia|]. apply nolabel_spec in Hn. specialize (Hd4 Hn). lia. }
    destruct (expand_total fuel b c rest _ HI0 Hfo Hfu) as (b' & fr' & Hx & _ & _ & Hineq & Hfo').
    exists b', fr'. split; [exact Hx|]. split; [apply (expand_loop_inv sl N HN fuel b c rest _ b' fr' HI0 Hx)|].
    split; [exact Hfo'|]. cbn [length hd_act] in Hineq. fold b1 in Hineq.
    destruct (nolabel b p) eqn:En; [specialize (Hd4 eq_refl)|]; lia.
  - destruct (Hne eq_refl) as (Hb & H1 & H2).
    assert (Hnl : nolabel b p = true) by now apply nolabel_spec.
    rewrite Hnl.
    destruct (Nat.eqb_spec (length (sk_vars o)) 0) as [Hz|Hnz].
    + (* an operator on no variables: a cluster by itself *)
      rewrite Hz. cbn [all_legs seq map app push_all rev].
      pose proof (start_zero sl N HN b c fr rest p o HI Hp Hedge Hb Hz H1 H2) as HI0.
      set (b0 := set_boundaries p c b) in *.
      assert (HLM : LM b b0) by (apply LM_set_boundaries; exact Hlt).
      assert (Hl0 : lab b0 p Inputs <> None).
      { unfold b0. rewrite sbs_lab by exact Hlt. rewrite Nat.eqb_refl. discriminate. }
      assert (Hd : W b0 + 4 <= W b).
      { apply (W_drop b b0 p 4 HLM (HN p o Hp)).
        pose proof (wt_first_drop b b0 p o Inputs HLM Hp Hb Hl0) as Hx. lia. }
      destruct fuel as [|f]; [destruct Hs as [->|[_ ->]]; lia|].
      cbn [expand_loop]. exists b0, rest. split; [reflexivity|]. split; [exact HI0|]. split; [exact Hfo|]. lia.
    + pose proof (start_nonedge sl N b c fr rest p o HI Hp Hedge Hb ltac:(lia) H1 H2) as HI0.
      set (int0 := push_all (map (fun l => (p, l)) (all_legs (length (sk_vars o)))) []) in *.
      assert (Hlen0 : length int0 = 2 * length (sk_vars o)).
      { unfold int0, push_all. rewrite app_nil_r, rev_length, map_length. apply all_legs_length. }
      assert (Hall : forall l, In l int0 -> fst l = p).
      { intros l Hin. unfold int0, push_all in Hin. rewrite app_nil_r, <- in_rev, in_map_iff in Hin.
        destruct Hin as (x & <- & _). reflexivity. }
      assert (Hne0 : int0 <> []) by (intros E; rewrite E in Hlen0; cbn in Hlen0; lia).
      pose proof (start_first_drop b c p o int0 Hp Hlt Hb Hne0 Hall) as Hd. rewrite Hedge in Hd. cbn iota in Hd.
      assert (Hfu : length int0 + W (hd_act c b int0) < fuel) by (destruct Hs as [->|[_ ->]]; lia).
      destruct (expand_total fuel b c rest int0 HI0 Hfo Hfu) as (b' & fr' & Hx & _ & _ & Hineq & Hfo').
      exists b', fr'. split; [exact Hx|]. split; [apply (expand_loop_inv sl N HN fuel b c rest int0 b' fr' HI0 Hx)|].
      split; [exact Hfo'|]. clear - Hineq Hlen0 Hd. clearbody int0. unfold leg in *. lia.
Qed.
(* ================================================================== *)
(* the outer loop returns                                              *)
(* ================================================================== *)
Definition MT (fuel : nat) (b : bounds) (fr : list (nat * side)) : Prop :=
  (Inv sl N b 0 fr [] /\ FrOcc fr /\ length fr + W b < fuel)
  \/ (Inv sl N b 0 [] [] /\ exists p o, fr = [(p, Inputs); (p, Outputs)] /\ g_get sl p = Some o
                                        /\ bget b p = (None, None) /\ W b <= fuel).

Lemma W_ge4 b p o : length b = N -> g_get sl p = Some o -> bget b p = (None, None) -> 4 <= W b.
Proof.
  intros Hlen Hp Hb. assert (Hlt : p < length b) by (rewrite Hlen; now apply (HN p o)).
  pose proof (start_first_drop b 0 p o [(p, (0, Inputs))] Hp Hlt Hb ltac:(discriminate)) as H.
  assert (Hall : forall l, In l [(p, (0, Inputs))] -> fst l = p) by (intros l [<-|[]]; reflexivity).
  specialize (H Hall). lia.
Qed.

Lemma Inv_skip b c p sd rest a d :
  Inv sl N b c ((p, sd) :: rest) [] -> bget b p = (Some a, Some d) -> Inv sl N b c rest [].
Proof.
  intros HI Hb. constructor.
  - apply (inv_len sl N _ _ _ _ HI).
  - apply (inv_unocc sl N _ _ _ _ HI).
  - intros ? ? ? [].
  - apply (inv_legs sl N _ _ _ _ HI).
  - apply (inv_sides sl N _ _ _ _ HI).
  - intros p' o' sd' x Hp' He' Hel Hn.
    destruct (inv_edge sl N _ _ _ _ HI p' o' sd' x Hp' He' Hel Hn) as [E|Hin]; [|exact Hin].
    inversion E; subst. destruct Hn as [Hn _]. unfold lab in Hn. rewrite Hb in Hn. destruct (negb sd'); discriminate.
  - intros p' o' sd' Hin. apply (inv_front sl N _ _ _ _ HI). now right.
Qed.

Lemma main_unfold_notboth f b p sd rest c sd0 :
  lab b p sd0 = None ->
  main_loop (S f) sl b ((p, sd) :: rest) c
  = match expand_whole (S f) sl p (0, sd) c b rest with
    | Some (b', fr') => main_loop f sl b' fr' (S c)
    | None => None
    end.
Proof.
  intros H. cbn [main_loop]. unfold lab in H. destruct (bget b p) as [[x|] [y|]]; destruct sd0; cbn in H; try discriminate; reflexivity.
Qed.

Theorem main_total : forall fuel b fr c, MT fuel b fr -> exists b' n, main_loop fuel sl b fr c = Some (b', n).
Proof.
  induction fuel as [|f IH]; intros b fr c HM.
  - destruct HM as [(_ & _ & H)|(HI & p & o & _ & Hp & Hb & Hw)]; [lia|].
    pose proof (W_ge4 b p o (inv_len sl N _ _ _ _ HI) Hp Hb). lia.
  - destruct HM as [(HI & Hfo & Hfuel)|(HI & p & o & -> & Hp & Hb & Hw)].
    + destruct fr as [|[p sd] rest].
      * cbn [main_loop]. destruct (first_unmapped_from 0 sl b) as [p|] eqn:Hfu; [|eauto].
        destruct (fu_some b sl 0 p Hfu) as (_ & o & Ho & Hb). rewrite Nat.sub_0_r in Ho.
        apply IH. right. split; [exact HI|]. exists p, o. repeat split; [now apply g_get_nth_error|exact Hb|].
        cbn [length] in Hfuel. lia.
      * destruct (Hfo p sd ltac:(now left)) as [o Hp].
        assert (Hfo' : FrOcc rest) by (intros p' sd' Hin; apply (Hfo p' sd'); now right).
        cbn [length] in Hfuel.
        destruct (both_labelled b p) as [(a & d & Hb)|(sd0 & Hsd0)].
        -- cbn [main_loop]. rewrite Hb. apply IH. left. split; [now apply (Inv_skip b 0 p sd rest a d)|]. split; [exact Hfo'|lia].
        -- rewrite (main_unfold_notboth f b p sd rest c sd0 Hsd0).
           destruct (expand_whole_total (S f) b c ((p, sd) :: rest) rest p sd o 0) as (b1 & fr1 & Hx & HI1 & Hfo1 & Hineq);
             try assumption.
           ++ now apply (Inv_nil_c sl N b 0 c).
           ++ intros Hedge.
              destruct (inv_front sl N _ _ _ _ HI p o sd ltac:(now left) Hp Hedge) as [x Hxl]. apply EL_nil in Hxl.
              assert (Hl : lab b p sd = None).
              { destruct (side_cases sd sd0) as [-> | ->]; [exact Hsd0|congruence]. }
              repeat split.
              ** exact Hl.
              ** intros l [<-|Hin] Hne; [contradiction|exact Hin].
              ** intros p' sd' Hin. left. now right.
              ** intros Hn. congruence.
           ++ intros Hedge.
              assert (Hb : bget b p = (None, None)).
              { assert (Hother : lab b p (negb sd0) = None).
                { destruct (lab b p (negb sd0)) as [x|] eqn:El; [|reflexivity].
                  assert (He : EL b [] 0 p (negb sd0) x) by now left.
                  pose proof (inv_sides sl N _ _ _ _ HI p o (negb sd0) x Hp Hedge He) as He'.
                  rewrite negb_involutive in He'. apply EL_nil in He'. congruence. }
                destruct sd0; cbn [negb] in Hother; now apply lab_none_pair. }
              repeat split; [exact Hb| |].
              ** intros l Hin. left. now right.
              ** intros l [<-|Hin]; [now right|now left].
           ++ now left.
           ++ lia.
           ++ rewrite Hx. apply IH. left. split; [now apply (Inv_nil_c sl N b1 c 0)|]. split; [exact Hfo1|].
              destruct (nolabel b p); lia.
    + (* fresh start on a completely unlabelled operator *)
      assert (Hlab : forall sd', lab b p sd' = None) by (intros; now apply lab_of_none).
      rewrite (main_unfold_notboth f b p Inputs [(p, Outputs)] c Inputs (Hlab Inputs)).
      assert (Hfo : FrOcc [(p, Outputs)]) by (intros p' sd' [E|[]]; inversion E; subst; eauto).
      destruct (expand_whole_total (S f) b c [] [(p, Outputs)] p Inputs o 1) as (b1 & fr1 & Hx & HI1 & Hfo1 & Hineq);
        try assumption.
      * now apply (Inv_nil_c sl N b 0 c).
      * intros Hedge. repeat split.
        -- apply Hlab.
        -- intros l [].
        -- intros p' sd' [E'|[]]. inversion E'; subst. right. now split.
        -- intros _. now left.
      * intros Hedge. repeat split; [exact Hb| |].
        -- intros l [<-|[]]. now right.
        -- intros l [].
      * right. now split.
      * lia.
      * rewrite Hx. apply IH. left. split; [now apply (Inv_nil_c sl N b1 c 0)|]. split; [exact Hfo1|].
        assert (Hn : nolabel b p = true) by now apply nolabel_spec. rewrite Hn in Hineq. cbn [length] in Hineq. lia.
Qed.

(* a bound for the potential of any labelling *)
Lemma wt_bound b p : wt b p <= 4 * kk p + 5.
Proof.
  unfold wt. destruct (nonedge p), (occp p), (nIn b p), (nOut b p); cbn; lia.
Qed.
End Tot.

(* ================================================================== *)
(* the fuel of decompose_sk is enough                                  *)
(* ================================================================== *)
Lemma map_nth_seq {A} (l : list A) d : map (fun p => nth p l d) (seq 0 (length l)) = l.
Proof.
  induction l as [|x l IH]; [reflexivity|]. cbn [length seq map nth]. f_equal.
  rewrite <- seq_shift, map_map. exact IH.
Qed.

Definition legs_of (s : option skel) : nat := match s with Some o => 2 * length (sk_vars o) | None => 0 end.

Lemma total_legs_sum sl : total_legs sl = list_sum (map legs_of sl).
Proof.
  unfold total_legs. induction sl as [|s sl IH]; [reflexivity|]. cbn [fold_right map]. rewrite list_sum_cons', <- IH.
  destruct s; reflexivity.
Qed.

Lemma kk_legs sl p : 2 * kk sl p = legs_of (nth p sl None).
Proof. unfold kk. rewrite g_get_nth. destruct (nth p sl None); reflexivity. Qed.

Lemma list_sum_seq_le (f : nat -> nat) n m : n <= m -> list_sum (map f (seq 0 n)) <= list_sum (map f (seq 0 m)).
Proof.
  intros H. replace m with (n + (m - n)) by lia. rewrite seq_app, map_app, list_sum_app. lia.
Qed.

Lemma W_bound sl N b : N <= length sl -> W sl N b <= 2 * total_legs sl + 5 * length sl.
Proof.
  intros HN. unfold W.
  assert (H1 : list_sum (map (wt sl b) (seq 0 N)) <= list_sum (map (fun p => 2 * legs_of (nth p sl None) + 5) (seq 0 N))).
  { apply list_sum_le. intros p _. pose proof (wt_bound sl b p). rewrite <- kk_legs. lia. }
  assert (H2 : list_sum (map (fun p => 2 * legs_of (nth p sl None) + 5) (seq 0 N))
               <= list_sum (map (fun p => 2 * legs_of (nth p sl None) + 5) (seq 0 (length sl)))) by (now apply list_sum_seq_le).
  assert (Haff : forall l, list_sum (map (fun p => 2 * legs_of (nth p sl None) + 5) l)
                           = 2 * list_sum (map (fun p => legs_of (nth p sl None)) l) + 5 * length l).
  { induction l as [|x l IH]; [reflexivity|]. cbn [map length]. rewrite !list_sum_cons', IH. lia. }
  assert (H3 : list_sum (map (fun p => 2 * legs_of (nth p sl None) + 5) (seq 0 (length sl))) = 2 * total_legs sl + 5 * length sl).
  { rewrite Haff, seq_length, total_legs_sum.
    rewrite <- (map_map (fun p => nth p sl None) legs_of), map_nth_seq. reflexivity. }
  lia.
Qed.

Lemma g_last_p_lt {A} (sl : list (option A)) lp : g_last_p sl = Some lp -> lp < length sl.
Proof.
  intros H. unfold g_last_p in H.
  destruct (NavProofs.sorted_last_max _ (NavProofs.occupied_from_sorted sl 0) lp H) as [Hin _].
  apply NavProofs.occupied_from_spec in Hin. destruct Hin as [_ [o Ho]]. rewrite Nat.sub_0_r in Ho.
  apply nth_error_Some. congruence.
Qed.

(* TOTALITY: the transcribed decomposition always returns *)
Theorem decompose_sk_total sl : decompose_sk sl <> None.
Proof.
  unfold decompose_sk. destruct (g_last_p sl) as [lp|] eqn:Hlp; [|discriminate].
  destruct (find_constant_op sl) as [cp|] eqn:Hcp; [|discriminate].
  assert (HN : forall p o, g_get sl p = Some o -> p < S lp).
  { intros p o Hp. apply g_get_occupied in Hp. unfold g_last_p in Hlp.
    destruct (NavProofs.sorted_last_max _ (NavProofs.occupied_from_sorted sl 0) lp Hlp) as [_ Hmax].
    specialize (Hmax p Hp). lia. }
  set (b0 := repeat (@None nat, @None nat) (S lp)).
  assert (HI0 : Inv sl (S lp) b0 0 [] []).
  { constructor.
    - apply repeat_length.
    - intros p _. apply bget_repeat.
    - intros ? ? ? [].
    - intros p o v sd x _ _ He. apply EL_nil in He. unfold lab, b0 in He. rewrite bget_repeat in He. destruct sd; discriminate.
    - intros p o sd x _ _ He. apply EL_nil in He. unfold lab, b0 in He. rewrite bget_repeat in He. destruct sd; discriminate.
    - intros p o sd x _ _ He. apply EL_nil in He. unfold lab, b0 in He. rewrite bget_repeat in He. destruct sd; discriminate.
    - intros ? ? ? []. }
  unfold find_constant_op in Hcp. apply find_some in Hcp. destruct Hcp as [_ Hc].
  destruct (g_get sl cp) as [o|] eqn:Ho; [|discriminate].
  destruct (main_total sl (S lp) HN (64 + 8 * total_legs sl + 8 * length sl) b0 [(cp, Inputs); (cp, Outputs)] 0) as (b' & n & Hx).
  - right. split; [exact HI0|]. exists cp, o. repeat split; [exact Ho|apply bget_repeat|].
    pose proof (W_bound sl (S lp) b0 ltac:(apply g_last_p_lt in Hlp; lia)). lia.
  - fold b0. rewrite Hx. discriminate.
Qed.

Theorem decompose_total (sl : slots) : decompose sl <> None.
Proof. apply decompose_sk_total. Qed.

(* total correctness in one statement *)
Theorem decompose_correct (sl : slots) :
  exists b n, decompose sl = Some (b, n) /\ links_ok sl b = true /\ sides_ok sl b = true.
Proof.
  destruct (decompose sl) as [[b n]|] eqn:Ed; [|exfalso; now apply (decompose_total sl)].
  destruct (decompose_valid sl b n Ed) as [Hl Hs]. eauto.
Qed.
