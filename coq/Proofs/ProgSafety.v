(* Safety reasoning for probabilistic programs: [all_out P m] says that EVERY leaf of the program
   tree satisfies P, whatever the random draws are.  It transfers to both interpretations: every
   outcome in the support of the exact distribution, and every result of a tape replay. *)
From Coq Require Import List QArith ZArith NArith Bool Arith Lia.
From QmcV Require Import Model.Prog Proofs.ProgLemmas Proofs.DiagonalProofs Proofs.TapeLemmas.
Import ListNotations.

Fixpoint all_out {A} (P : A -> Prop) (m : prog A) : Prop :=
  match m with
  | Ret a => P a
  | Unif _ f => forall i, all_out P (f i)
  | Unif8 _ f => forall i, all_out P (f i)
  | Bern _ f => forall b, all_out P (f b)
  | BernRatio _ _ f => forall b, all_out P (f b)
  | Bit f => forall b, all_out P (f b)
  | Choose _ f => forall i, all_out P (f i)
  | ChooseAcc _ f => forall i, all_out P (f i)
  | BernF _ _ f => forall b, all_out P (f b)
  | TrailOnes f => forall n, all_out P (f n)
  | BernX _ _ f => forall b, all_out P (f b)
  end.

Lemma all_out_bind {A B} (Q : A -> Prop) (P : B -> Prop) (m : prog A) (k : A -> prog B) :
  all_out Q m -> (forall a, Q a -> all_out P (k a)) -> all_out P (bind m k).
Proof.
  induction m as [a|n f IH|n f IH|q f IH|x y f IH|f IH|ws f IH|cs f IH|lo hi f IH|f IH|sure q f IH];
    cbn [bind all_out]; intros Hm Hk; auto.
Qed.

Lemma all_out_weaken {A} (P Q : A -> Prop) (m : prog A) :
  (forall a, P a -> Q a) -> all_out P m -> all_out Q m.
Proof.
  intros HPQ.
  induction m as [a|n f IH|n f IH|q f IH|x y f IH|f IH|ws f IH|cs f IH|lo hi f IH|f IH|sure q f IH];
    cbn [all_out]; intros Hm; auto.
Qed.

Lemma in_dscale' {A} q (d : dist A) p a : In (p, a) (dscale q d) -> exists p', In (p', a) d.
Proof.
  unfold dscale. intros H. apply in_map_iff in H. destruct H as [[p' a'] [E Hin]].
  inversion E; subst. eauto.
Qed.

(* every outcome in the support of the exact distribution *)
Theorem all_out_denote {A} (P : A -> Prop) (m : prog A) :
  all_out P m -> forall p a, In (p, a) (denote m) -> P a.
Proof.
  induction m as [a|n f IH|n f IH|q f IH|x y f IH|f IH|ws f IH|cs f IH|lo hi f IH|f IH|sure q f IH];
    cbn [all_out denote]; intros Hm p r0 Hin.
  - destruct Hin as [E|[]]. now inversion E; subst.
  - apply in_flat_map in Hin. destruct Hin as [i [_ Hin]]. apply in_dscale' in Hin. destruct Hin as [p' Hin].
    eapply IH; eauto.
  - apply in_flat_map in Hin. destruct Hin as [i [_ Hin]]. apply in_dscale' in Hin. destruct Hin as [p' Hin].
    eapply IH; eauto.
  - apply in_app_or in Hin. destruct Hin as [Hin|Hin]; apply in_dscale' in Hin; destruct Hin as [p' Hin];
      eapply IH; eauto.
  - apply in_app_or in Hin. destruct Hin as [Hin|Hin]; apply in_dscale' in Hin; destruct Hin as [p' Hin];
      eapply IH; eauto.
  - apply in_app_or in Hin. destruct Hin as [Hin|Hin]; apply in_dscale' in Hin; destruct Hin as [p' Hin];
      eapply IH; eauto.
  - apply in_flat_map in Hin. destruct Hin as [i [_ Hin]]. apply in_dscale' in Hin. destruct Hin as [p' Hin].
    eapply IH; eauto.
  - apply in_flat_map in Hin. destruct Hin as [i [_ Hin]]. destruct (nth i cs (0%Q, 0%Q)) as [mw w].
    apply in_app_or in Hin. destruct Hin as [Hin|Hin]; apply in_dscale' in Hin; destruct Hin as [p' Hin];
      eapply IH; eauto.
  - apply in_app_or in Hin. destruct Hin as [Hin|Hin]; apply in_dscale' in Hin; destruct Hin as [p' Hin];
      eapply IH; eauto.
  - apply in_app_or in Hin. destruct Hin as [Hin|Hin].
    + apply in_flat_map in Hin. destruct Hin as [i [_ Hin]]. apply in_dscale' in Hin. destruct Hin as [p' Hin].
      eapply IH; eauto.
    + apply in_dscale' in Hin. destruct Hin as [p' Hin]. eapply IH; eauto.
  - apply in_app_or in Hin. destruct Hin as [Hin|Hin]; apply in_dscale' in Hin; destruct Hin as [p' Hin];
      eapply IH; eauto.
Qed.

(* every completed replay on raw RNG words *)
Theorem all_out_tape {A} (P : A -> Prop) (m : prog A) :
  all_out P m -> forall tape a rest, run_tape m tape = RDone a rest -> P a.
Proof.
  induction m as [a|n f IH|n f IH|q f IH|x y f IH|f IH|ws f IH|cs f IH|lo hi f IH|f IH|sure q f IH];
    cbn [all_out run_tape]; intros Hm tape r0 rest Hr.
  - now inversion Hr; subst.
  - destruct (unif64 n tape) as [[[i r]|]|c]; try discriminate. eapply IH; eauto.
  - destruct (unif8 n tape) as [[[i r]|]|c]; try discriminate. eapply IH; eauto.
  - destruct (Qle_bool 1 q); [eapply IH; eauto|].
    destruct tape as [|[v|v] r]; try discriminate.
    destruct (cmp_tol (u64_to_unit v) q); try discriminate; eapply IH; eauto.
  - destruct (negb (Qle_bool x y)); [eapply IH; eauto|]. destruct (Qeq_bool x y); [eapply IH; eauto|].
    destruct tape as [|[v|v] r]; try discriminate.
    destruct (cmp_tol (u64_to_unit v) (x / y)); try discriminate; eapply IH; eauto.
  - destruct tape as [|[v|v] r]; try discriminate. eapply IH; eauto.
  - destruct tape as [|[v|v] r]; try discriminate.
    destruct (cum_index ws (u52_to_unit v * Qsum ws) 0) as [[i|]|]; try discriminate. eapply IH; eauto.
  - destruct tape as [|[vp|vp] [|[vb|vb] r]]; try discriminate.
    destruct (cum_index (map fst cs) (u52_to_unit vb * Qsum (map fst cs)) 0) as [[i|]|]; try discriminate.
    destruct (nth i cs (0%Q, 0%Q)) as [mw w].
    destruct (cmp_tol (u52_to_unit vp * mw) w); try discriminate; eapply IH; eauto.
  - destruct tape as [|[v|v] r]; try discriminate.
    destruct (cmp_tol (u53_to_unit v) lo), (cmp_tol (u53_to_unit v) hi); try discriminate; eapply IH; eauto.
  - destruct tape as [|[v|v] r]; try discriminate. eapply IH; eauto.
  - destruct (Qle_bool 1 q).
    + destruct (sure || Qle_bool (1 + tolden) q); try discriminate. eapply IH; eauto.
    + destruct (negb sure && Qlt_bool (1 - tolden) q); try discriminate.
      destruct tape as [|[v|v] r]; try discriminate.
      destruct (cmp_tol (u64_to_unit v) q); try discriminate; eapply IH; eauto.
Qed.

(* ------------------------------------------------------------------ *)
(* The same with draws restricted to their ranges (what the exact distribution can produce). *)
Fixpoint all_out_r {A} (P : A -> Prop) (m : prog A) : Prop :=
  match m with
  | Ret a => P a
  | Unif k f => forall i, (i < k)%N -> all_out_r P (f i)
  | Unif8 k f => forall i, (i < k)%N -> all_out_r P (f i)
  | Bern _ f => forall b, all_out_r P (f b)
  | BernRatio _ _ f => forall b, all_out_r P (f b)
  | Bit f => forall b, all_out_r P (f b)
  | Choose ws f => forall i, (i < length ws)%nat -> all_out_r P (f i)
  | ChooseAcc cs f => (forall i, (i < length cs)%nat -> all_out_r P (f (Some i))) /\ all_out_r P (f None)
  | BernF _ _ f => forall b, all_out_r P (f b)
  | TrailOnes f => forall n, (n <= 64)%N -> all_out_r P (f n)
  | BernX _ _ f => forall b, all_out_r P (f b)
  end.

Lemma all_out_r_bind {A B} (Q : A -> Prop) (P : B -> Prop) (m : prog A) (k : A -> prog B) :
  all_out_r Q m -> (forall a, Q a -> all_out_r P (k a)) -> all_out_r P (bind m k).
Proof.
  induction m as [a|n f IH|n f IH|q f IH|x y f IH|f IH|ws f IH|cs f IH|lo hi f IH|f IH|sure q f IH];
    cbn [bind all_out_r]; intros Hm Hk; auto.
  destruct Hm as [H1 H2]. split; auto.
Qed.

Lemma all_out_r_weaken {A} (P Q : A -> Prop) (m : prog A) :
  (forall a, P a -> Q a) -> all_out_r P m -> all_out_r Q m.
Proof.
  intros HPQ.
  induction m as [a|n f IH|n f IH|q f IH|x y f IH|f IH|ws f IH|cs f IH|lo hi f IH|f IH|sure q f IH];
    cbn [all_out_r]; intros Hm; auto.
  destruct Hm as [H1 H2]. split; auto.
Qed.

Lemma all_out_is_all_out_r {A} (P : A -> Prop) (m : prog A) : all_out P m -> all_out_r P m.
Proof.
  induction m as [a|n f IH|n f IH|q f IH|x y f IH|f IH|ws f IH|cs f IH|lo hi f IH|f IH|sure q f IH];
    cbn [all_out all_out_r]; intros Hm; auto.
Qed.

Theorem all_out_r_denote {A} (P : A -> Prop) (m : prog A) :
  all_out_r P m -> forall p a, In (p, a) (denote m) -> P a.
Proof.
  induction m as [a|n f IH|n f IH|q f IH|x y f IH|f IH|ws f IH|cs f IH|lo hi f IH|f IH|sure q f IH];
    cbn [all_out_r denote]; intros Hm p r0 Hin.
  - destruct Hin as [E|[]]. now inversion E; subst.
  - apply in_flat_map in Hin. destruct Hin as [i [Hi Hin]]. apply in_dscale' in Hin. destruct Hin as [p' Hin].
    apply in_seq in Hi. eapply IH; [|exact Hin]; apply Hm; lia.
  - apply in_flat_map in Hin. destruct Hin as [i [Hi Hin]]. apply in_dscale' in Hin. destruct Hin as [p' Hin].
    apply in_seq in Hi. eapply IH; [|exact Hin]; apply Hm; lia.
  - apply in_app_or in Hin. destruct Hin as [Hin|Hin]; apply in_dscale' in Hin; destruct Hin as [p' Hin];
      eapply IH; eauto.
  - apply in_app_or in Hin. destruct Hin as [Hin|Hin]; apply in_dscale' in Hin; destruct Hin as [p' Hin];
      eapply IH; eauto.
  - apply in_app_or in Hin. destruct Hin as [Hin|Hin]; apply in_dscale' in Hin; destruct Hin as [p' Hin];
      eapply IH; eauto.
  - apply in_flat_map in Hin. destruct Hin as [i [Hi Hin]]. apply in_dscale' in Hin. destruct Hin as [p' Hin].
    apply in_seq in Hi. eapply IH; [|exact Hin]; apply Hm; lia.
  - destruct Hm as [Hs Hn]. apply in_flat_map in Hin. destruct Hin as [i [Hi Hin]]. apply in_seq in Hi.
    destruct (nth i cs (0%Q, 0%Q)) as [mw w].
    apply in_app_or in Hin. destruct Hin as [Hin|Hin]; apply in_dscale' in Hin; destruct Hin as [p' Hin].
    + eapply IH; [|exact Hin]; apply Hs; lia.
    + eapply IH; [|exact Hin]; exact Hn.
  - apply in_app_or in Hin. destruct Hin as [Hin|Hin]; apply in_dscale' in Hin; destruct Hin as [p' Hin];
      eapply IH; eauto.
  - apply in_app_or in Hin. destruct Hin as [Hin|Hin].
    + apply in_flat_map in Hin. destruct Hin as [i [Hi Hin]]. apply in_dscale' in Hin. destruct Hin as [p' Hin].
      apply in_seq in Hi. eapply IH; [|exact Hin]; apply Hm; lia.
    + apply in_dscale' in Hin. destruct Hin as [p' Hin]. eapply IH; [|exact Hin]; apply Hm; lia.
  - apply in_app_or in Hin. destruct Hin as [Hin|Hin]; apply in_dscale' in Hin; destruct Hin as [p' Hin];
      eapply IH; eauto.
Qed.

(* an event that holds on every leaf has the whole mass *)
Lemma mass_all_out_r {A} (P : A -> bool) (m : prog A) :
  all_out_r (fun a => P a = true) m -> mass P (denote m) == total (denote m).
Proof.
  intros H. unfold total, mass.
  assert (Hall : forall p a, In (p, a) (denote m) -> P a = true) by (apply all_out_r_denote; exact H).
  induction (denote m) as [|[p a] d IH]; cbn [map Qsum fold_right]; [reflexivity|].
  rewrite (Hall p a) by now left.
  change (fold_right Qplus 0 (map (fun '(p0, a0) => if P a0 then p0 else 0) d))
    with (Qsum (map (fun '(p0, a0) => if P a0 then p0 else 0) d)).
  change (fold_right Qplus 0 (map (fun '(p0, _) => if true then p0 else 0) d))
    with (Qsum (map (fun '(p0, _) => if true then p0 else 0) d)).
  rewrite IH; [reflexivity|]. intros p' a' Hin. apply (Hall p' a'). now right.
Qed.

(* ------------------------------------------------------------------ *)
(* Reflection: decide [all_out_r] by enumerating every draw with concrete values. *)
Fixpoint check_all {A} (P : A -> bool) (m : prog A) : bool :=
  match m with
  | Ret a => P a
  | Unif k f => forallb (fun i => check_all P (f (N.of_nat i))) (seq 0 (N.to_nat k))
  | Unif8 k f => forallb (fun i => check_all P (f (N.of_nat i))) (seq 0 (N.to_nat k))
  | Bern _ f => check_all P (f true) && check_all P (f false)
  | BernRatio _ _ f => check_all P (f true) && check_all P (f false)
  | Bit f => check_all P (f true) && check_all P (f false)
  | Choose ws f => forallb (fun i => check_all P (f i)) (seq 0 (length ws))
  | ChooseAcc cs f => forallb (fun i => check_all P (f (Some i))) (seq 0 (length cs)) && check_all P (f None)
  | BernF _ _ f => check_all P (f true) && check_all P (f false)
  | TrailOnes f => forallb (fun i => check_all P (f (N.of_nat i))) (seq 0 65)
  | BernX _ _ f => check_all P (f true) && check_all P (f false)
  end.

Theorem check_all_sound {A} (P : A -> bool) (m : prog A) :
  check_all P m = true -> all_out_r (fun a => P a = true) m.
Proof.
  induction m as [a|n f IH|n f IH|q f IH|x y f IH|f IH|ws f IH|cs f IH|lo hi f IH|f IH|sure q f IH];
    cbn [check_all all_out_r]; intros H.
  - exact H.
  - intros i Hi. rewrite forallb_forall in H. rewrite <- (N2Nat.id i). apply IH, H, in_seq. lia.
  - intros i Hi. rewrite forallb_forall in H. rewrite <- (N2Nat.id i). apply IH, H, in_seq. lia.
  - apply andb_true_iff in H. destruct H. intros [|]; auto.
  - apply andb_true_iff in H. destruct H. intros [|]; auto.
  - apply andb_true_iff in H. destruct H. intros [|]; auto.
  - intros i Hi. rewrite forallb_forall in H. apply IH, H, in_seq. lia.
  - apply andb_true_iff in H. destruct H as [H1 H2]. split; [|auto].
    intros i Hi. rewrite forallb_forall in H1. apply IH, H1, in_seq. lia.
  - apply andb_true_iff in H. destruct H. intros [|]; auto.
  - intros i Hi. rewrite forallb_forall in H. rewrite <- (N2Nat.id i). apply IH, H, in_seq. lia.
  - apply andb_true_iff in H. destruct H. intros [|]; auto.
Qed.
