(* Directed loop: the heat-bath exit choice at a vertex satisfies detailed balance (C04). *)
From Coq Require Import List QArith ZArith NArith Bool Arith Lia Lqa.
From QmcV Require Import Model.Prog Model.Sse Model.Nav Model.Cluster Model.Loop Proofs.ProgLemmas Proofs.WorldLine.
Import ListNotations.
Open Scope Q_scope.

(* ---------------- toggling legs ---------------- *)
Lemma toggle_length l k : length (toggle l k) = length l.
Proof. unfold toggle. apply set_nth_length. Qed.

Lemma toggle_toggle l k : toggle (toggle l k) k = l.
Proof.
  unfold toggle. revert k. induction l as [|h t IH]; intros k; cbn; [reflexivity|].
  destruct k; cbn.
  - now rewrite negb_involutive.
  - f_equal. apply IH.
Qed.

Lemma toggle_comm l j k : toggle (toggle l j) k = toggle (toggle l k) j.
Proof.
  destruct (Nat.eq_dec j k) as [->|Hne]; [reflexivity|].
  unfold toggle. rewrite !nth_set_nth.
  replace (Nat.eqb j k) with false by (symmetry; apply Nat.eqb_neq; exact Hne).
  replace (Nat.eqb k j) with false by (symmetry; apply Nat.eqb_neq; lia).
  cbn [andb]. apply set_nth_comm. exact Hne.
Qed.

(* adjust twice with the same leg is the identity; adjusts with different legs commute *)
Lemma adjust_adjust ins outs leg :
  let '(i1, o1) := adjust ins outs leg in adjust i1 o1 leg = (ins, outs).
Proof. destruct leg as [k [|]]; cbn; now rewrite toggle_toggle. Qed.

Definition adj2 (io : list bool * list bool) (leg : nat * side) : list bool * list bool :=
  adjust (fst io) (snd io) leg.

Lemma adj2_invol io leg : adj2 (adj2 io leg) leg = io.
Proof.
  destruct io as [i o]. unfold adj2. cbn [fst snd].
  pose proof (adjust_adjust i o leg) as H. destruct (adjust i o leg) as [i1 o1]. cbn [fst snd]. exact H.
Qed.

Lemma adj2_comm io l1 l2 : adj2 (adj2 io l1) l2 = adj2 (adj2 io l2) l1.
Proof.
  destruct io as [i o]. destruct l1 as [k1 [|]], l2 as [k2 [|]]; unfold adj2, adjust; cbn [fst snd];
    try reflexivity; now rewrite toggle_comm.
Qed.

(* the operator after entering at [e] and leaving at [x] *)
Definition io_of (o : op) : list bool * list bool := (o_in o, o_out o).

Lemma pass_through_io o e x : io_of (pass_through o e x) = adj2 (adj2 (io_of o) e) x.
Proof.
  unfold pass_through, io_of, adj2. cbn [fst snd].
  destruct (adjust (o_in o) (o_out o) e) as [i1 o1]. cbn [fst snd].
  destruct (adjust i1 o1 x) as [i2 o2]. reflexivity.
Qed.

Lemma pass_through_bond o e x : o_bond (pass_through o e x) = o_bond o.
Proof.
  unfold pass_through. destruct (adjust (o_in o) (o_out o) e) as [i1 o1]. destruct (adjust i1 o1 x). reflexivity.
Qed.

Definition w_io (H : ham) (b : nat) (io : list bool * list bool) : Q := h_weight H b (fst io) (snd io).

Lemma leg_weight_io H o e x : leg_weight H o e x = w_io H (o_bond o) (adj2 (adj2 (io_of o) e) x).
Proof.
  unfold leg_weight, w_io, adj2, io_of. cbn [fst snd].
  destruct (adjust (o_in o) (o_out o) e) as [i1 o1]. cbn [fst snd].
  destruct (adjust i1 o1 x) as [i2 o2]. reflexivity.
Qed.

Lemma op_weight_io H o : op_weight H o = w_io H (o_bond o) (io_of o).
Proof. reflexivity. Qed.

(* the exit weight IS the weight of the resulting operator *)
Lemma leg_weight_is_new_weight H o e x : leg_weight H o e x = op_weight H (pass_through o e x).
Proof. rewrite leg_weight_io, op_weight_io, pass_through_bond, pass_through_io. reflexivity. Qed.

Definition exit_total (H : ham) (o : op) (e : nat * side) (legs : list (nat * side)) : Q :=
  Qsum (map (fun y => leg_weight H o e y) legs).

(* entering the new operator through the old exit offers exactly the same set of outcomes *)
Lemma reverse_total H o e x legs : exit_total H (pass_through o e x) x legs = exit_total H o e legs.
Proof.
  unfold exit_total. f_equal. apply map_ext. intros y.
  rewrite !leg_weight_io, pass_through_bond, pass_through_io.
  rewrite adj2_invol. reflexivity.
Qed.

Lemma reverse_leg H o e x : leg_weight H (pass_through o e x) x e = op_weight H o.
Proof.
  rewrite leg_weight_io, pass_through_bond, pass_through_io, op_weight_io.
  rewrite adj2_invol, adj2_invol. reflexivity.
Qed.

(* detailed balance of one vertex visit:  W(o) P(o; e -> x) = W(o') P(o'; x -> e) *)
Theorem vertex_balance H o e x legs :
  let o' := pass_through o e x in
  op_weight H o * (leg_weight H o e x / exit_total H o e legs)
  == op_weight H o' * (leg_weight H o' x e / exit_total H o' x legs).
Proof.
  cbv zeta. rewrite reverse_total, reverse_leg, leg_weight_is_new_weight.
  unfold Qdiv. ring.
Qed.

(* a bounce (exit = entrance) leaves the operator unchanged *)
Theorem bounce_unchanged o e : io_of (pass_through o e e) = io_of o.
Proof. rewrite pass_through_io. apply adj2_invol. Qed.

(* ---------------- parity of the off-diagonal part (the C04 known finding) ---------------- *)
(* number of legs whose value is 'up', modulo 2, over inputs and outputs *)
Definition xorfold (l : list bool) : bool := fold_right xorb false l.
Definition leg_parity (io : list bool * list bool) : bool := xorb (xorfold (fst io)) (xorfold (snd io)).

Lemma xorfold_toggle l k : (k < length l)%nat -> xorfold (toggle l k) = negb (xorfold l).
Proof.
  unfold toggle. revert k. induction l as [|h t IH]; intros k Hk; cbn [length] in Hk; [lia|].
  destruct k as [|k]; cbn [set_nth nth xorfold fold_right].
  - destruct h, (fold_right xorb false t); reflexivity.
  - change (fold_right xorb false (set_nth t k (negb (nth k t false)))) with (xorfold (set_nth t k (negb (nth k t false)))).
    rewrite IH by lia. unfold xorfold. destruct h, (fold_right xorb false t); reflexivity.
Qed.

Definition leg_in_range (io : list bool * list bool) (leg : nat * side) : Prop :=
  (fst leg < length (if snd leg then snd io else fst io))%nat.

Lemma adj2_parity io leg : leg_in_range io leg -> leg_parity (adj2 io leg) = negb (leg_parity io).
Proof.
  destruct io as [i o]. destruct leg as [k [|]]; unfold leg_in_range, adj2, adjust, leg_parity; cbn [fst snd]; intros Hk.
  - rewrite xorfold_toggle by exact Hk. destruct (xorfold i), (xorfold o); reflexivity.
  - rewrite xorfold_toggle by exact Hk. destruct (xorfold i), (xorfold o); reflexivity.
Qed.

Lemma adj2_lengths io leg : length (fst (adj2 io leg)) = length (fst io) /\ length (snd (adj2 io leg)) = length (snd io).
Proof. destruct io as [i o]. destruct leg as [k [|]]; unfold adj2, adjust; cbn [fst snd]; rewrite ?toggle_length; split; reflexivity. Qed.

(* a vertex visit toggles two legs: the parity of an operator's legs never changes in a loop update.
   A single-site spin-flip element <up|H|down> has odd parity, every diagonal element even parity:
   loop updates alone can never create the former from operators inserted by the diagonal update. *)
Theorem pass_through_parity o e x :
  leg_in_range (io_of o) e -> leg_in_range (io_of o) x ->
  leg_parity (io_of (pass_through o e x)) = leg_parity (io_of o).
Proof.
  intros He Hx. rewrite pass_through_io.
  rewrite adj2_parity.
  - rewrite adj2_parity by exact He. apply negb_involutive.
  - unfold leg_in_range in *. destruct (adj2_lengths (io_of o) e) as [L1 L2].
    destruct (snd x); [rewrite L2|rewrite L1]; exact Hx.
Qed.

Theorem diagonal_even_parity (l : list bool) : leg_parity (l, l) = false.
Proof. unfold leg_parity. cbn [fst snd]. apply xorb_nilpotent. Qed.

Example single_site_flip_odd : leg_parity ([false], [true]) = true.
Proof. reflexivity. Qed.
