(* Detailed balance of the diagonal update, slot by slot (C08). *)
From Coq Require Import List QArith ZArith NArith Bool Arith Lia Lqa.
From QmcV Require Import Model.Prog Model.Sse Model.Diagonal Proofs.ProgLemmas Proofs.HamProofs.
Import ListNotations.
Open Scope Q_scope.

(* outcome predicate: the slot now holds exactly [o] *)
Definition is_slot (o : option op) (r : option op * state) : bool := oop_eqb (fst r) o.

(* ---------------- operator equality ---------------- *)
Lemma nats_eqb_refl l : nats_eqb l l = true.
Proof. unfold nats_eqb. induction l; cbn; [reflexivity|]. now rewrite Nat.eqb_refl. Qed.

Lemma bools_eqb_refl l : bools_eqb l l = true.
Proof. apply bools_eqb_eq. reflexivity. Qed.

Lemma op_eqb_refl o : op_eqb o o = true.
Proof.
  unfold op_eqb. rewrite nats_eqb_refl, Nat.eqb_refl, !bools_eqb_refl, eqb_reflx. reflexivity.
Qed.

Lemma op_eqb_bond a b : op_eqb a b = true -> o_bond a = o_bond b.
Proof.
  unfold op_eqb. rewrite !andb_true_iff. intros [[[[_ H] _] _] _]. now apply Nat.eqb_eq.
Qed.

Lemma mk_diag_neq H i b st : i <> b -> op_eqb (mk_diag H i st) (mk_diag H b st) = false.
Proof.
  intros Hne. destruct (op_eqb _ _) eqn:E; [|reflexivity].
  apply op_eqb_bond in E. cbn in E. contradiction.
Qed.

Lemma mk_diag_is_diag H b st : is_diag (mk_diag H b st) = true.
Proof. unfold is_diag, mk_diag. cbn. apply bools_eqb_refl. Qed.

(* ---------------- arithmetic on slot counts ---------------- *)
Lemma Qnat_pos n : (0 < n)%nat -> 0 < Qnat n.
Proof. intros H. unfold Qnat, Qlt. cbn. lia. Qed.

Lemma Qnat_succ_sub L n : (n < L)%nat -> Qnat (L - S n) + 1 = Qnat (L - n).
Proof.
  intros H. unfold Qnat, Qplus. cbn [Qnum Qden]. f_equal. lia.
Qed.

(* ---------------- Metropolis ---------------- *)
Definition p_ins_met (H : ham) (L n : nat) (beta : Q) (st : state) (b : nat) : Q :=
  1 / Qnat (h_nbonds H)
  * ratio_prob (beta * Qnat (h_nbonds H) * diag_weight H b st) (Qnat (L - n)).

Definition p_rem_met (H : ham) (L n : nat) (beta : Q) (st : state) (b : nat) : Q :=
  ratio_prob (Qnat (L - n) + 1) (beta * Qnat (h_nbonds H) * diag_weight H b st).

Lemma met_insert_mass H L n beta st b :
  (b < h_nbonds H)%nat ->
  mass (is_slot (Some (mk_diag H b st))) (denote (met_slot H L n beta st None))
  == p_ins_met H L n beta st b.
Proof.
  intros Hb. unfold met_slot. rewrite mass_unif.
  rewrite (Qsum_single _ (seq 0 (h_nbonds H)) b).
  - rewrite Nnat.Nat2N.id, mass_bernratio, !mass_ret.
    unfold is_slot; cbn [fst oop_eqb]. rewrite op_eqb_refl.
    unfold p_ins_met, Qnat. lra.
  - apply seq_NoDup.
  - apply in_seq. lia.
  - intros i Hi Hne. rewrite Nnat.Nat2N.id, mass_bernratio, !mass_ret.
    unfold is_slot; cbn [fst oop_eqb]. rewrite (mk_diag_neq H i b st Hne). lra.
Qed.

Lemma met_remove_mass H L n beta st b :
  mass (is_slot None) (denote (met_slot H L n beta st (Some (mk_diag H b st))))
  == p_rem_met H L n beta st b.
Proof.
  unfold met_slot. rewrite mk_diag_is_diag. cbn [o_bond mk_diag].
  rewrite mass_bernratio, !mass_ret. unfold is_slot; cbn [fst oop_eqb].
  unfold p_rem_met. lra.
Qed.

Lemma met_balance_closed H L n beta st b :
  (n < L)%nat -> (0 < h_nbonds H)%nat -> 0 < beta -> 0 < diag_weight H b st ->
  p_ins_met H L n beta st b * Qnat (L - n)
  == beta * diag_weight H b st * p_rem_met H L (S n) beta st b
  /\ 0 < p_rem_met H L (S n) beta st b.
Proof.
  intros Hn Hnb Hbeta Hw. unfold p_ins_met, p_rem_met.
  set (w := diag_weight H b st) in *. set (nb := Qnat (h_nbonds H)).
  assert (Hnbq : 0 < nb) by (apply Qnat_pos; exact Hnb).
  assert (Hd : 0 < Qnat (L - n)) by (apply Qnat_pos; lia).
  assert (Hx : 0 < beta * nb * w).
  { apply Qmult_lt_0_compat; [apply Qmult_lt_0_compat|]; assumption. }
  rewrite (Qnat_succ_sub L n Hn). split.
  - rewrite <- Qmult_assoc. rewrite (ratio_balance (beta * nb * w) (Qnat (L - n)) Hx Hd).
    field. lra.
  - now apply ratio_prob_pos.
Qed.

(* off-diagonal operators are never altered; the state is propagated through them *)
Lemma met_offdiag H L n beta st o :
  is_diag o = false -> met_slot H L n beta st (Some o) = Ret (Some o, apply_op st o).
Proof. intros E. unfold met_slot. now rewrite E. Qed.

Lemma hb_offdiag H bw L n beta st o :
  is_diag o = false -> hb_slot H bw L n beta st (Some o) = Ret (Some o, apply_op st o).
Proof. intros E. unfold hb_slot. now rewrite E. Qed.

(* ---------------- heat bath ---------------- *)
Lemma all_substates_complete k s : length s = k -> In s (all_substates k).
Proof.
  revert s. induction k as [|k IH]; intros s Hl.
  - destruct s; [now left|discriminate].
  - destruct s as [|x s]; [discriminate|]. cbn [all_substates].
    apply in_flat_map. exists s. split; [apply IH; cbn in Hl; lia|].
    destruct x; cbn; tauto.
Qed.

Lemma qmax_fold_ge l acc : acc <= fold_left (fun a w => if Qlt_bool a w then w else a) l acc.
Proof.
  revert acc. induction l as [|x l IH]; intros acc; cbn [fold_left]; [lra|].
  destruct (Qlt_bool acc x) eqn:E.
  - unfold Qlt_bool in E. apply negb_true_iff in E.
    assert (~ x <= acc) by (intros H; apply Qle_bool_iff in H; congruence).
    specialize (IH x). lra.
  - apply IH.
Qed.

Lemma qmax_fold_elem l acc x :
  In x l -> x <= fold_left (fun a w => if Qlt_bool a w then w else a) l acc.
Proof.
  revert acc. induction l as [|y l IH]; intros acc Hin; [contradiction|]. cbn [fold_left].
  destruct Hin as [->|Hin]; [|now apply IH].
  destruct (Qlt_bool acc x) eqn:E.
  - apply qmax_fold_ge.
  - unfold Qlt_bool in E. apply negb_false_iff in E. apply Qle_bool_iff in E.
    pose proof (qmax_fold_ge l acc). lra.
Qed.

Lemma qmax_list_ge l x : In x l -> x <= qmax_list l.
Proof. apply qmax_fold_elem. Qed.

Lemma qmax_list_nonneg l : 0 <= qmax_list l.
Proof. apply qmax_fold_ge. Qed.

Lemma read_vals_length st vs : length (read_vals st vs) = length vs.
Proof. unfold read_vals. apply map_length. Qed.

(* w_b(state) <= maxweight_b : the heat-bath rejection ratio is a probability *)
Lemma max_weight_dominates H b st : diag_weight H b st <= max_weight H b.
Proof.
  unfold diag_weight, max_weight. apply qmax_list_ge.
  apply in_map_iff. exists (read_vals st (h_vars H b)). split; [reflexivity|].
  apply all_substates_complete. apply read_vals_length.
Qed.

Lemma bond_weights_length H : length (bond_weights H) = h_nbonds H.
Proof. unfold bond_weights. now rewrite map_length, seq_length. Qed.

Lemma bond_weights_nth H b : (b < h_nbonds H)%nat -> nth b (bond_weights H) 0 = max_weight H b.
Proof. intros Hb. unfold bond_weights. now rewrite nth_map_seq. Qed.

Lemma bond_weights_nonneg H : Forall (fun q => 0 <= q) (bond_weights H).
Proof.
  unfold bond_weights. apply Forall_forall. intros x Hx. apply in_map_iff in Hx.
  destruct Hx as [b [<- _]]. apply qmax_list_nonneg.
Qed.

Definition hb_cands (H : ham) (bw : list Q) (st : state) : list (Q * Q) :=
  map (fun '(b, mw) => (mw, diag_weight H b st)) (combine (seq 0 (length bw)) bw).

Lemma hb_cands_length H bw st : length (hb_cands H bw st) = length bw.
Proof. unfold hb_cands. rewrite map_length, combine_length, seq_length. lia. Qed.

Lemma combine_seq_nth (bw : list Q) i :
  (i < length bw)%nat -> nth i (combine (seq 0 (length bw)) bw) (0%nat, 0) = (i, nth i bw 0).
Proof.
  intros Hi. rewrite combine_nth by (now rewrite seq_length). now rewrite seq_nth.
Qed.

Lemma nth_map_lt {A B} (f : A -> B) l i d d' : (i < length l)%nat -> nth i (map f l) d = f (nth i l d').
Proof.
  revert i. induction l as [|x l IH]; intros i Hi; cbn in Hi; [lia|].
  destruct i; cbn; [reflexivity|]. apply IH. lia.
Qed.

Lemma hb_cands_nth H bw st i :
  (i < length bw)%nat -> nth i (hb_cands H bw st) (0, 0) = (nth i bw 0, diag_weight H i st).
Proof.
  intros Hi. unfold hb_cands.
  rewrite (nth_map_lt _ _ i (0, 0) (0%nat, 0)) by (rewrite combine_length, seq_length; lia).
  now rewrite combine_seq_nth.
Qed.

Lemma hb_cands_fst H bw st : map fst (hb_cands H bw st) = bw.
Proof.
  unfold hb_cands. rewrite map_map.
  assert (G : forall (l : list Q) k, map (fun x : nat * Q => fst (let '(b, mw) := x in (mw, diag_weight H b st)))
                                 (combine (seq k (length l)) l) = l).
  { induction l as [|x l IH]; intros k; cbn; [reflexivity|]. now rewrite IH. }
  apply G.
Qed.

Definition p_ins_hb (H : ham) (L n : nat) (beta : Q) (st : state) (b : nat) : Q :=
  let W := Qsum (bond_weights H) in
  qclip (beta * W / (Qnat (L - n) + beta * W))
  * (max_weight H b / W * qclip (diag_weight H b st / max_weight H b)).

Definition p_rem_hb (H : ham) (L n : nat) (beta : Q) : Q :=
  let W := Qsum (bond_weights H) in
  qclip ((Qnat (L - n) + 1) / (Qnat (L - n) + 1 + beta * W)).

Lemma hb_insert_mass H L n beta st b :
  (b < h_nbonds H)%nat -> 0 < max_weight H b ->
  mass (is_slot (Some (mk_diag H b st))) (denote (hb_slot H (bond_weights H) L n beta st None))
  == p_ins_hb H L n beta st b.
Proof.
  intros Hb Hmw. unfold hb_slot. rewrite mass_bern. rewrite mass_ret.
  change (is_slot (Some (mk_diag H b st)) (None, st)) with false.
  fold (hb_cands H (bond_weights H) st).
  rewrite mass_chooseacc, hb_cands_length, bond_weights_length, hb_cands_fst.
  rewrite (Qsum_single _ (seq 0 (h_nbonds H)) b).
  - rewrite hb_cands_nth by (rewrite bond_weights_length; exact Hb).
    rewrite bond_weights_nth by exact Hb.
    destruct (Qle_bool (max_weight H b) 0) eqn:E.
    { apply Qle_bool_iff in E. lra. }
    cbv zeta. rewrite !mass_ret. unfold is_slot; cbn [fst oop_eqb]. rewrite op_eqb_refl.
    unfold p_ins_hb. cbv zeta. lra.
  - apply seq_NoDup.
  - apply in_seq. lia.
  - intros i Hi Hne. apply in_seq in Hi.
    rewrite hb_cands_nth by (rewrite bond_weights_length; lia).
    cbv zeta. rewrite !mass_ret. unfold is_slot; cbn [fst oop_eqb].
    rewrite (mk_diag_neq H i b st Hne). lra.
Qed.

Lemma hb_remove_mass H L n beta st o :
  is_diag o = true ->
  mass (is_slot None) (denote (hb_slot H (bond_weights H) L n beta st (Some o)))
  == p_rem_hb H L n beta.
Proof.
  intros E. unfold hb_slot. rewrite E, mass_bern, !mass_ret.
  unfold is_slot; cbn [fst oop_eqb]. unfold p_rem_hb. cbv zeta. lra.
Qed.

Lemma hb_balance_closed H L n beta st b :
  (n < L)%nat -> (b < h_nbonds H)%nat -> 0 < beta -> 0 < diag_weight H b st ->
  p_ins_hb H L n beta st b * Qnat (L - n)
  == beta * diag_weight H b st * p_rem_hb H L (S n) beta
  /\ 0 < p_rem_hb H L (S n) beta.
Proof.
  intros Hn Hb Hbeta Hw. unfold p_ins_hb, p_rem_hb. cbv zeta.
  set (w := diag_weight H b st) in *. set (mw := max_weight H b).
  set (W := Qsum (bond_weights H)). set (d := Qnat (L - n)).
  assert (Hmw : w <= mw) by apply max_weight_dominates.
  assert (Hmw0 : 0 < mw) by lra.
  assert (HW : mw <= W).
  { apply Qsum_ge_elem; [apply bond_weights_nonneg|].
    unfold mw. rewrite <- (bond_weights_nth H b Hb). apply nth_In.
    rewrite bond_weights_length. exact Hb. }
  assert (HW0 : 0 < W) by lra.
  assert (Hd : 0 < d) by (apply Qnat_pos; lia).
  assert (HbW : 0 < beta * W) by (apply Qmult_lt_0_compat; assumption).
  rewrite (Qnat_succ_sub L n Hn). fold d.
  rewrite (qclip_unit (beta * W / (d + beta * W))).
  2:{ apply Qdiv_pos; lra. }
  2:{ apply Qdiv_le1; lra. }
  rewrite (qclip_unit (w / mw)).
  2:{ apply Qdiv_pos; assumption. }
  2:{ apply Qdiv_le1; assumption. }
  rewrite (qclip_unit (d / (d + beta * W))).
  2:{ apply Qdiv_pos; lra. }
  2:{ apply Qdiv_le1; lra. }
  split.
  - field. repeat split; lra.
  - apply Qdiv_pos; lra.
Qed.

(* ---------------- the live operator count ---------------- *)
(* [sweep] hands slot p the count n_p = n - (occupied old prefix) + (occupied new prefix):
   stated on the support of the denotation *)
Lemma in_dscale {A} q (d : dist A) p a : In (p, a) (dscale q d) -> exists p', In (p', a) d.
Proof.
  unfold dscale. intros H. apply in_map_iff in H. destruct H as [[p' a'] [E Hin]].
  inversion E; subst. eauto.
Qed.

Lemma support_bind {A B} (m : prog A) (k : A -> prog B) p b :
  In (p, b) (denote (bind m k)) ->
  exists a p1 p2, In (p1, a) (denote m) /\ In (p2, b) (denote (k a)).
Proof.
  revert p. induction m as [a|n f IH|n f IH|q f IH|x y f IH|f IH|ws f IH|cs f IH|lo hi f IH|f IH|sure q f IH];
    intros p Hin; cbn [bind denote] in *.
  - exists a, 1, p. split; [now left|assumption].
  - apply in_flat_map in Hin. destruct Hin as [i [Hi Hin]]. apply in_dscale in Hin.
    destruct Hin as [p' Hin]. apply IH in Hin. destruct Hin as (a & p1 & p2 & H1 & H2).
    exists a, (1 / (Z.of_N n # 1) * p1), p2. split; [|assumption].
    apply in_flat_map. exists i. split; [assumption|].
    unfold dscale. apply in_map_iff. exists (p1, a). split; [reflexivity|assumption].
  - apply in_flat_map in Hin. destruct Hin as [i [Hi Hin]]. apply in_dscale in Hin.
    destruct Hin as [p' Hin]. apply IH in Hin. destruct Hin as (a & p1 & p2 & H1 & H2).
    exists a, (1 / (Z.of_N n # 1) * p1), p2. split; [|assumption].
    apply in_flat_map. exists i. split; [assumption|].
    unfold dscale. apply in_map_iff. exists (p1, a). split; [reflexivity|assumption].
  - apply in_app_or in Hin. destruct Hin as [Hin|Hin]; apply in_dscale in Hin;
      destruct Hin as [p' Hin]; apply IH in Hin; destruct Hin as (a & p1 & p2 & H1 & H2).
    + exists a, (qclip q * p1), p2. split; [|assumption]. apply in_or_app. left.
      unfold dscale. apply in_map_iff. exists (p1, a). split; [reflexivity|assumption].
    + exists a, ((1 - qclip q) * p1), p2. split; [|assumption]. apply in_or_app. right.
      unfold dscale. apply in_map_iff. exists (p1, a). split; [reflexivity|assumption].
  - apply in_app_or in Hin. destruct Hin as [Hin|Hin]; apply in_dscale in Hin;
      destruct Hin as [p' Hin]; apply IH in Hin; destruct Hin as (a & p1 & p2 & H1 & H2).
    + exists a, (ratio_prob x y * p1), p2. split; [|assumption]. apply in_or_app. left.
      unfold dscale. apply in_map_iff. exists (p1, a). split; [reflexivity|assumption].
    + exists a, ((1 - ratio_prob x y) * p1), p2. split; [|assumption]. apply in_or_app. right.
      unfold dscale. apply in_map_iff. exists (p1, a). split; [reflexivity|assumption].
  - apply in_app_or in Hin. destruct Hin as [Hin|Hin]; apply in_dscale in Hin;
      destruct Hin as [p' Hin]; apply IH in Hin; destruct Hin as (a & p1 & p2 & H1 & H2).
    + exists a, ((1 # 2) * p1), p2. split; [|assumption]. apply in_or_app. left.
      unfold dscale. apply in_map_iff. exists (p1, a). split; [reflexivity|assumption].
    + exists a, ((1 # 2) * p1), p2. split; [|assumption]. apply in_or_app. right.
      unfold dscale. apply in_map_iff. exists (p1, a). split; [reflexivity|assumption].
  - apply in_flat_map in Hin. destruct Hin as [i [Hi Hin]]. apply in_dscale in Hin.
    destruct Hin as [p' Hin]. apply IH in Hin. destruct Hin as (a & p1 & p2 & H1 & H2).
    exists a, (nth i ws 0 / Qsum ws * p1), p2. split; [|assumption].
    apply in_flat_map. exists i. split; [assumption|].
    unfold dscale. apply in_map_iff. exists (p1, a). split; [reflexivity|assumption].
  - apply in_flat_map in Hin. destruct Hin as [i [Hi Hin]].
    destruct (nth i cs (0, 0)) as [mw w] eqn:En.
    apply in_app_or in Hin. destruct Hin as [Hin|Hin]; apply in_dscale in Hin;
      destruct Hin as [p' Hin]; apply IH in Hin; destruct Hin as (a & p1 & p2 & H1 & H2).
    + eexists a, _, p2. split; [|eassumption].
      apply in_flat_map. exists i. split; [assumption|]. rewrite En. apply in_or_app. left.
      unfold dscale. apply in_map_iff. exists (p1, a). split; [reflexivity|assumption].
    + eexists a, _, p2. split; [|eassumption].
      apply in_flat_map. exists i. split; [assumption|]. rewrite En. apply in_or_app. right.
      unfold dscale. apply in_map_iff. exists (p1, a). split; [reflexivity|assumption].
  - apply in_app_or in Hin. destruct Hin as [Hin|Hin]; apply in_dscale in Hin;
      destruct Hin as [p' Hin]; apply IH in Hin; destruct Hin as (a & p1 & p2 & H1 & H2).
    + exists a, (qclip lo * p1), p2. split; [|assumption]. apply in_or_app. left.
      unfold dscale. apply in_map_iff. exists (p1, a). split; [reflexivity|assumption].
    + exists a, ((1 - qclip lo) * p1), p2. split; [|assumption]. apply in_or_app. right.
      unfold dscale. apply in_map_iff. exists (p1, a). split; [reflexivity|assumption].
  - apply in_app_or in Hin. destruct Hin as [Hin|Hin].
    + apply in_flat_map in Hin. destruct Hin as [i [Hi Hin]]. apply in_dscale in Hin.
      destruct Hin as [p' Hin]. apply IH in Hin. destruct Hin as (a & p1 & p2 & H1 & H2).
      eexists a, _, p2. split; [|eassumption]. apply in_or_app. left.
      apply in_flat_map. exists i. split; [assumption|].
      unfold dscale. apply in_map_iff. exists (p1, a). split; [reflexivity|assumption].
    + apply in_dscale in Hin.
      destruct Hin as [p' Hin]. apply IH in Hin. destruct Hin as (a & p1 & p2 & H1 & H2).
      eexists a, _, p2. split; [|eassumption]. apply in_or_app. right.
      unfold dscale. apply in_map_iff. exists (p1, a). split; [reflexivity|assumption].
  - apply in_app_or in Hin. destruct Hin as [Hin|Hin]; apply in_dscale in Hin;
      destruct Hin as [p' Hin]; apply IH in Hin; destruct Hin as (a & p1 & p2 & H1 & H2).
    + exists a, (qclip q * p1), p2. split; [|assumption]. apply in_or_app. left.
      unfold dscale. apply in_map_iff. exists (p1, a). split; [reflexivity|assumption].
    + exists a, ((1 - qclip q) * p1), p2. split; [|assumption]. apply in_or_app. right.
      unfold dscale. apply in_map_iff. exists (p1, a). split; [reflexivity|assumption].
Qed.

Lemma count_ops_cons o sl : count_ops (o :: sl) = (occ o + count_ops sl)%nat.
Proof. unfold count_ops. cbn [filter]. destruct o; reflexivity. Qed.

(* every outcome of a sweep reports the exact number of stored operators, provided it
   started from the exact number; since each slot is handed the running value, the count
   used at slot p is the one current at that slot *)
Lemma sweep_count slot sl : forall k n st p sl' n' st',
  n = (k + count_ops sl)%nat ->
  In (p, (sl', n', st')) (denote (sweep slot n st sl)) ->
  n' = (k + count_ops sl')%nat /\ length sl' = length sl.
Proof.
  induction sl as [|o sl IH]; intros k n st p sl' n' st' Hn Hin; cbn [sweep] in Hin.
  - cbn in Hin. destruct Hin as [E|[]]. inversion E; subst. split; reflexivity.
  - apply support_bind in Hin. destruct Hin as ([o1 st1] & p1 & p2 & _ & Hin).
    apply support_bind in Hin. destruct Hin as ([[r1 n1] st2] & p3 & p4 & Hin & Hret).
    cbn in Hret. destruct Hret as [E|[]]. inversion E; subst.
    apply (IH (k + occ o1)%nat) in Hin.
    + destruct Hin as [Hc Hl]. split.
      * rewrite count_ops_cons. rewrite Hc. lia.
      * cbn. now rewrite Hl.
    + rewrite count_ops_cons. destruct o; cbn [occ]; lia.
Qed.

(* ---------------- the property statements ---------------- *)
Lemma metropolis_balance H L n beta st b :
  (n < L)%nat -> (b < h_nbonds H)%nat -> 0 < beta -> 0 < diag_weight H b st ->
  let P_ins := mass (is_slot (Some (mk_diag H b st))) (denote (met_slot H L n beta st None)) in
  let P_rem := mass (is_slot None) (denote (met_slot H L (S n) beta st (Some (mk_diag H b st)))) in
  P_ins * Qnat (L - n) == beta * diag_weight H b st * P_rem /\ 0 < P_rem.
Proof.
  intros Hn Hb Hbeta Hw. cbv zeta.
  rewrite met_insert_mass by exact Hb. rewrite met_remove_mass.
  apply met_balance_closed; try assumption. lia.
Qed.

Lemma heatbath_balance H L n beta st b :
  (n < L)%nat -> (b < h_nbonds H)%nat -> 0 < beta -> 0 < diag_weight H b st ->
  let bw := bond_weights H in
  let P_ins := mass (is_slot (Some (mk_diag H b st))) (denote (hb_slot H bw L n beta st None)) in
  let P_rem := mass (is_slot None) (denote (hb_slot H bw L (S n) beta st (Some (mk_diag H b st)))) in
  P_ins * Qnat (L - n) == beta * diag_weight H b st * P_rem /\ 0 < P_rem.
Proof.
  intros Hn Hb Hbeta Hw. cbv zeta.
  assert (Hmw : 0 < max_weight H b).
  { pose proof (max_weight_dominates H b st). lra. }
  rewrite hb_insert_mass by assumption. rewrite hb_remove_mass by apply mk_diag_is_diag.
  now apply hb_balance_closed.
Qed.

(* an empty slot implies n < L, so the Metropolis denominator L - n is at least 1 *)
Lemma filter_len_le {A} (f : A -> bool) l : (length (filter f l) <= length l)%nat.
Proof. induction l as [|x l IH]; cbn; [lia|]. destruct (f x); cbn; lia. Qed.

Lemma empty_slot_headroom (sl : slots) : In None sl -> (count_ops sl < length sl)%nat.
Proof.
  unfold count_ops. induction sl as [|o sl IH]; intros Hin; [contradiction|].
  cbn [filter length]. destruct o as [o|].
  - cbn [length]. destruct Hin as [E|Hin]; [discriminate|]. specialize (IH Hin). lia.
  - pose proof (filter_len_le (fun s : option op => match s with Some _ => true | None => false end) sl). lia.
Qed.
