(* Kernels of the form "draw one fair bit per cluster, apply the chosen flips":

       K x  =  draw_flips [1/2; ...; 1/2] (fun fl => Ret (act x fl))          (k x bits)

   If, on an enumeration xs of the configuration space, the action keeps the space, keeps the number
   of clusters, is an involution for every bit vector and keeps the weight, then K is in detailed
   balance with the weight and the weight is stationary.  Used for the cluster update (clusters of
   the decomposition) and for the free-spin refresh (one "cluster" per variable without operators). *)
From Coq Require Import List QArith ZArith NArith Bool Arith Lia Lqa.
From QmcV Require Import Model.Prog Model.Sse Model.Diagonal Model.Cluster
     Proofs.ProgLemmas Proofs.DiagonalProofs Proofs.SseWeight Proofs.Expect.
Import ListNotations.
Open Scope Q_scope.

Lemma qclip_half : qclip (1 # 2) == 1 # 2.
Proof. reflexivity. Qed.

Lemma Qsum_flat_map2 {B} (g : list bool -> Q) (h : B -> list bool) (l : list B) :
  Qsum (map g (flat_map (fun s => [false :: h s; true :: h s]) l))
  == Qsum (map (fun s => g (false :: h s) + g (true :: h s)) l).
Proof.
  induction l as [|x l IH]; cbn [flat_map map app Qsum fold_right]; [reflexivity|].
  change (fold_right Qplus 0 (map g (flat_map (fun s => [false :: h s; true :: h s]) l)))
    with (Qsum (map g (flat_map (fun s => [false :: h s; true :: h s]) l))).
  change (fold_right Qplus 0 (map (fun s => g (false :: h s) + g (true :: h s)) l))
    with (Qsum (map (fun s => g (false :: h s) + g (true :: h s)) l)).
  rewrite IH. ring.
Qed.

Fixpoint qhalf (n : nat) : Q := match n with O => 1 | S k => (1 # 2) * qhalf k end.

(* the expectation of a fair draw of n bits is the average over all 2^n bit vectors *)
Lemma expect_draw_flips_uniform {A} (k : list bool -> prog A) (f : A -> Q) : forall n acc,
  expect (draw_flips (repeat (1 # 2) n) acc k) f
  == Qsum (map (fun fl => qhalf n * expect (k (rev acc ++ fl)) f) (all_substates n)).
Proof.
  induction n as [|n IH]; intros acc; cbn [repeat draw_flips all_substates qhalf].
  - cbn [map Qsum fold_right]. rewrite app_nil_r. ring.
  - unfold expect at 1. cbn [denote]. rewrite emass_app, !emass_dscale.
    change (emass f (denote ?m)) with (expect m f).
    rewrite (IH (true :: acc)), (IH (false :: acc)).
    rewrite (Qsum_flat_map2 (fun fl => (1 # 2) * qhalf n * expect (k (rev acc ++ fl)) f) (fun s => s)).
    rewrite <- !Qsum_map_scale, <- Qsum_map_plus. apply Qsum_ext. intros s _.
    cbn [rev]. rewrite <- !app_assoc. cbn [app]. rewrite qclip_half. ring.
Qed.

Lemma all_substates_length n s : In s (all_substates n) -> length s = n.
Proof.
  revert s. induction n as [|n IH]; intros s Hin; cbn [all_substates] in Hin.
  - destruct Hin as [<-|[]]. reflexivity.
  - apply in_flat_map in Hin. destruct Hin as [t [Ht [<-|[<-|[]]]]]; cbn; now rewrite (IH t Ht).
Qed.

(* every entry of the distribution of a draw is an image of a bit vector of the right length *)
Lemma draw_flips_support {A} (k : list bool -> A) (P : A -> Prop) : forall probs acc,
  (forall fl, length fl = length probs -> P (k (rev acc ++ fl))) ->
  Forall (fun '(p, a) => p == 0 \/ P a) (denote (draw_flips probs acc (fun fl => Ret (k fl)))).
Proof.
  induction probs as [|q r IH]; intros acc Hk; cbn [draw_flips denote].
  - constructor; [|constructor]. right. specialize (Hk [] eq_refl). now rewrite app_nil_r in Hk.
  - apply Forall_app. split.
    + unfold dscale. apply Forall_forall. intros [p a] Hin. apply in_map_iff in Hin.
      destruct Hin as [[p' a'] [E Hin]]. inversion E; subst.
      assert (HF := IH (true :: acc)). rewrite Forall_forall in HF.
      destruct (HF (fun fl Hl => ltac:(cbn [rev]; rewrite <- app_assoc; apply (Hk (true :: fl)); cbn; now rewrite Hl)) (p', a) Hin) as [Hz|HP].
      * left. rewrite Hz. ring.
      * now right.
    + unfold dscale. apply Forall_forall. intros [p a] Hin. apply in_map_iff in Hin.
      destruct Hin as [[p' a'] [E Hin]]. inversion E; subst.
      assert (HF := IH (false :: acc)). rewrite Forall_forall in HF.
      destruct (HF (fun fl Hl => ltac:(cbn [rev]; rewrite <- app_assoc; apply (Hk (false :: fl)); cbn; now rewrite Hl)) (p', a) Hin) as [Hz|HP].
      * left. rewrite Hz. ring.
      * now right.
Qed.

Lemma draw_flips_total {A} (k : list bool -> prog A) : forall probs acc,
  (forall fl, total (denote (k fl)) == 1) -> total (denote (draw_flips probs acc k)) == 1.
Proof.
  induction probs as [|q r IH]; intros acc Hk; cbn [draw_flips]; [apply Hk|].
  unfold total. rewrite mass_bern. change (mass (fun _ => true) (denote ?m)) with (total (denote m)).
  rewrite !IH by exact Hk. ring.
Qed.

Section Group.
  Context {X : Type} (eqb : X -> X -> bool).
  Hypothesis eqb_ok : forall x y, eqb x y = true <-> x = y.
  Variable act : X -> list bool -> X.
  Variable kk : X -> nat.
  Variable Wt : X -> Q.
  Variable xs : list X.
  Hypothesis Hnd : NoDup xs.
  Hypothesis Hin : forall x fl, In x xs -> length fl = kk x -> In (act x fl) xs.
  Hypothesis Hk : forall x fl, In x xs -> length fl = kk x -> kk (act x fl) = kk x.
  Hypothesis Hinv : forall x fl, In x xs -> length fl = kk x -> act (act x fl) fl = x.
  Hypothesis HW : forall x fl, In x xs -> length fl = kk x -> Wt (act x fl) == Wt x.

  Definition gkernel (x : X) : prog X := draw_flips (repeat (1 # 2) (kk x)) [] (fun fl => Ret (act x fl)).

  Lemma gkernel_mass x y :
    mass (eqb y) (denote (gkernel x))
    == Qsum (map (fun fl => qhalf (kk x) * (if eqb y (act x fl) then 1 else 0)) (all_substates (kk x))).
  Proof.
    rewrite mass_as_emass. change (emass ?f (denote ?m)) with (expect m f). unfold gkernel.
    rewrite expect_draw_flips_uniform. apply Qsum_ext. intros fl _. cbn [rev app]. rewrite expect_ret. reflexivity.
  Qed.

  Lemma gkernel_detailed_balance x y :
    In x xs -> In y xs ->
    Wt x * mass (eqb y) (denote (gkernel x)) == Wt y * mass (eqb x) (denote (gkernel y)).
  Proof.
    intros Hx Hy. rewrite !gkernel_mass, <- !Qsum_map_scale.
    destruct (Nat.eq_dec (kk x) (kk y)) as [E|NE].
    - rewrite <- E. apply Qsum_ext. intros fl Hfl. apply all_substates_length in Hfl.
      destruct (eqb y (act x fl)) eqn:E1.
      + apply eqb_ok in E1. subst y.
        replace (eqb x (act (act x fl) fl)) with true by (symmetry; apply eqb_ok; symmetry; now apply Hinv).
        rewrite (HW x fl Hx Hfl). reflexivity.
      + replace (eqb x (act y fl)) with false; [ring|].
        symmetry. destruct (eqb x (act y fl)) eqn:E2; [|reflexivity]. apply eqb_ok in E2.
        assert (E3 : act x fl = y) by (rewrite E2; apply Hinv; [exact Hy|congruence]).
        assert (E4 : eqb y (act x fl) = true) by (apply eqb_ok; now symmetry). congruence.
    - (* different cluster counts: neither can be reached from the other *)
      rewrite !Qsum_all_zero; [reflexivity| |].
      + intros fl Hfl. apply all_substates_length in Hfl.
        destruct (eqb x (act y fl)) eqn:E2; [|ring]. apply eqb_ok in E2. exfalso. apply NE.
        rewrite E2. now apply Hk.
      + intros fl Hfl. apply all_substates_length in Hfl.
        destruct (eqb y (act x fl)) eqn:E1; [|ring]. apply eqb_ok in E1. exfalso. apply NE.
        rewrite E1. symmetry. now apply Hk.
  Qed.

  Theorem gkernel_stationary : wstat xs Wt gkernel.
  Proof.
    apply (wstat_of_detailed_balance eqb eqb_ok); [exact Hnd| | |].
    - intros x Hx. unfold gkernel, supp_in. apply (draw_flips_support (act x) (fun a => In a xs)).
      intros fl Hl. rewrite repeat_length in Hl. cbn [rev app]. now apply Hin.
    - intros x Hx. unfold gkernel. apply draw_flips_total. intros fl. unfold total. rewrite mass_ret. reflexivity.
    - intros x y Hx Hy. now apply gkernel_detailed_balance.
  Qed.
End Group.
