(* Kernels of the form "draw one fair bit per cluster, apply the chosen flips":

       K x  =  draw_flips [1/2; ...; 1/2] (fun fl => Ret (act x fl))          (k x bits)

   If, on an enumeration xs of the configuration space, the action keeps the space, keeps the number
   of clusters, is an involution for every bit vector and keeps the weight, then K is in detailed
   balance with the weight and the weight is stationary.  Used for the cluster update (clusters of
   the decomposition) and for the free-spin refresh (one "cluster" per variable without operators). *)
From Coq Require Import List QArith ZArith NArith Bool Arith Lia Lqa.
From QmcV Require Import Model.Prog Model.Sse Model.Diagonal Model.Cluster
     Proofs.ProgLemmas Proofs.DiagonalProofs Proofs.SseWeight Proofs.Expect.
Import ListNotations.
Open Scope Q_scope.

Lemma qclip_half : qclip (1 # 2) == 1 # 2.
Proof. reflexivity. Qed.

Lemma Qsum_flat_map2 {B} (g : list bool -> Q) (h : B -> list bool) (l : list B) :
  Qsum (map g (flat_map (fun s => [false :: h s; true :: h s]) l))
  == Qsum (map (fun s => g (false :: h s) + g (true :: h s)) l).
Proof.
  induction l as [|x l IH]; cbn [flat_map map app Qsum fold_right]; [reflexivity|].
  change (fold_right Qplus 0 (map g (flat_map (fun s => [false :: h s; true :: h s]) l)))
    with (Qsum (map g (flat_map (fun s => [false :: h s; true :: h s]) l))).
  change (fold_right Qplus 0 (map (fun s => g (false :: h s) + g (true :: h s)) l))
    with (Qsum (map (fun s => g (false :: h s) + g (true :: h s)) l)).
  rewrite IH. ring.
Qed.

Fixpoint qhalf (n : nat) : Q := match n with O => 1 | S k => (1 # 2) * qhalf k end.

(* the expectation of a fair draw of n bits is the average over all 2^n bit vectors *)
Lemma expect_draw_flips_uniform {A} (k : list bool -> prog A) (f : A -> Q) : forall n acc,
  expect (draw_flips (repeat (1 # 2) n) acc k) f
  == Qsum (map (fun fl => qhalf n * expect (k (rev acc ++ fl)) f) (all_substates n)).
Proof.
  induction n as [|n IH]; intros acc; cbn [repeat draw_flips all_substates qhalf].
  - cbn [map Qsum fold_right]. rewrite app_nil_r. ring.
  - unfold expect at 1. cbn [denote]. rewrite emass_app, !emass_dscale.
    change (emass f (denote ?m)) with (expect m f).
    rewrite (IH (true :: acc)), (IH (false :: acc)).
    rewrite (Qsum_flat_map2 (fun fl => (1 # 2) * qhalf n * expect (k (rev acc ++ fl)) f) (fun s => s)).
    rewrite <- !Qsum_map_scale, <- Qsum_map_plus. apply Qsum_ext. intros s _.
    cbn [rev]. rewrite <- !app_assoc. cbn [app]. rewrite qclip_half. ring.
Qed.

Lemma all_substates_length n s : In s (all_substates n) -> length s = n.
Proof.
  revert s. induction n as [|n IH]; intros s Hin; cbn [all_substates] in Hin.
  - destruct Hin as [<-|[]]. reflexivity.
  - apply in_flat_map in Hin. destruct Hin as [t [Ht [<-|[<-|[]]]]]; cbn; now rewrite (IH t Ht).
Qed.

(* every entry of the distribution of a draw is an image of a bit vector of the right length *)
Lemma draw_flips_support {A} (k : list bool -> A) (P : A -> Prop) : forall probs acc,
  (forall fl, length fl = length probs -> P (k (rev acc ++ fl))) ->
  Forall (fun '(p, a) => p == 0 \/ P a) (denote (draw_flips probs acc (fun fl => Ret (k fl)))).
Proof.
  induction probs as [|q r IH]; intros acc Hk; cbn [draw_flips denote].
  - constructor; [|constructor]. right. specialize (Hk [] eq_refl). now rewrite app_nil_r in Hk.
  - apply Forall_app. split.
    + unfold dscale. apply Forall_forall. intros [p a] Hin. apply in_map_iff in Hin.
      destruct Hin as [[p' a'] [E Hin]]. inversion E; subst.
      assert (HF := IH (true :: acc)). rewrite Forall_forall in HF.
      destruct (HF (fun fl Hl => ltac:(cbn [rev]; rewrite <- app_assoc; apply (Hk (true :: fl)); cbn; now rewrite Hl)) (p', a) Hin) as [Hz|HP].
      * left. rewrite Hz. ring.
      * now right.
    + unfold dscale. apply Forall_forall. intros [p a] Hin. apply in_map_iff in Hin.
      destruct Hin as [[p' a'] [E Hin]]. inversion E; subst.
      assert (HF := IH (false :: acc)). rewrite Forall_forall in HF.
      destruct (HF (fun fl Hl => ltac:(cbn [rev]; rewrite <- app_assoc; apply (Hk (false :: fl)); cbn; now rewrite Hl)) (p', a) Hin) as [Hz|HP].
      * left. rewrite Hz. ring.
      * now right.
Qed.

Lemma draw_flips_total {A} (k : list bool -> prog A) : forall probs acc,
  (forall fl, total (denote (k fl)) == 1) -> total (denote (draw_flips probs acc k)) == 1.
Proof.
  induction probs as [|q r IH]; intros acc Hk; cbn [draw_flips]; [apply Hk|].
  unfold total. rewrite mass_bern. change (mass (fun _ => true) (denote ?m)) with (total (denote m)).
  rewrite !IH by exact Hk. ring.
Qed.

Section Group.
  Context {X : Type} (eqb : X -> X -> bool).
  Hypothesis eqb_ok : forall x y, eqb x y = true <-> x = y.
  Variable act : X -> list bool -> X.
  Variable kk : X -> nat.
  Variable Wt : X -> Q.
  Variable xs : list X.
  Hypothesis Hnd : NoDup xs.
  Hypothesis Hin : forall x fl, In x xs -> length fl = kk x -> In (act x fl) xs.
  Hypothesis Hk : forall x fl, In x xs -> length fl = kk x -> kk (act x fl) = kk x.
  Hypothesis Hinv : forall x fl, In x xs -> length fl = kk x -> act (act x fl) fl = x.
  Hypothesis HW : forall x fl, In x xs -> length fl = kk x -> Wt (act x fl) == Wt x.

  Definition gkernel (x : X) : prog X := draw_flips (repeat (1 # 2) (kk x)) [] (fun fl => Ret (act x fl)).

  Lemma gkernel_mass x y :
    mass (eqb y) (denote (gkernel x))
    == Qsum (map (fun fl => qhalf (kk x) * (if eqb y (act x fl) then 1 else 0)) (all_substates (kk x))).
  Proof.
    rewrite mass_as_emass. change (emass ?f (denote ?m)) with (expect m f). unfold gkernel.
    rewrite expect_draw_flips_uniform. apply Qsum_ext. intros fl _. cbn [rev app]. rewrite expect_ret. reflexivity.
  Qed.

  Lemma gkernel_detailed_balance x y :
    In x xs -> In y xs ->
    Wt x * mass (eqb y) (denote (gkernel x)) == Wt y * mass (eqb x) (denote (gkernel y)).
  Proof.
    intros Hx Hy. rewrite !gkernel_mass, <- !Qsum_map_scale.
    destruct (Nat.eq_dec (kk x) (kk y)) as [E|NE].
    - rewrite <- E. apply Qsum_ext. intros fl Hfl. apply all_substates_length in Hfl.
      destruct (eqb y (act x fl)) eqn:E1.
      + apply eqb_ok in E1. subst y.
        replace (eqb x (act (act x fl) fl)) with true by (symmetry; apply eqb_ok; symmetry; now apply Hinv).
        rewrite (HW x fl Hx Hfl). reflexivity.
      + replace (eqb x (act y fl)) with false; [ring|].
        symmetry. destruct (eqb x (act y fl)) eqn:E2; [|reflexivity]. apply eqb_ok in E2.
        assert (E3 : act x fl = y) by (rewrite E2; apply Hinv; [exact Hy|congruence]).
        assert (E4 : eqb y (act x fl) = true) by (apply eqb_ok; now symmetry). congruence.
    - (* different cluster counts: neither can be reached from the other *)
      rewrite !Qsum_all_zero; [reflexivity| |].
      + intros fl Hfl. apply all_substates_length in Hfl.
        destruct (eqb x (act y fl)) eqn:E2; [|ring]. apply eqb_ok in E2. exfalso. apply NE.
        rewrite E2. now apply Hk.
      + intros fl Hfl. apply all_substates_length in Hfl.
        destruct (eqb y (act x fl)) eqn:E1; [|ring]. apply eqb_ok in E1. exfalso. apply NE.
        rewrite E1. symmetry. now apply Hk.
  Qed.

  Theorem gkernel_stationary : wstat xs Wt gkernel.
  Proof.
    apply (wstat_of_detailed_balance eqb eqb_ok); [exact Hnd| | |].
    - intros x Hx. unfold gkernel, supp_in. apply (draw_flips_support (act x) (fun a => In a xs)).
      intros fl Hl. rewrite repeat_length in Hl. cbn [rev app]. now apply Hin.
    - intros x Hx. unfold gkernel. apply draw_flips_total. intros fl. unfold total. rewrite mass_ret. reflexivity.
    - intros x y Hx Hy. now apply gkernel_detailed_balance.
  Qed.
End Group.

(* ------------------------------------------------------------------ *)
(* the same with one probability per cluster (weighted cluster update: clusters holding a symmetry-breaking
   operator have probability 0, the others 1/2); all conditions are asked only of bit vectors that have
   non-zero probability *)
Fixpoint pw (probs : list Q) (fl : list bool) : Q :=
  match probs, fl with
  | q :: r, b :: t => (if b then qclip q else 1 - qclip q) * pw r t
  | _, _ => 1
  end.

Lemma expect_draw_flips_weighted {A} (k : list bool -> prog A) (f : A -> Q) : forall probs acc,
  expect (draw_flips probs acc k) f
  == Qsum (map (fun fl => pw probs fl * expect (k (rev acc ++ fl)) f) (all_substates (length probs))).
Proof.
  induction probs as [|q r IH]; intros acc; cbn [draw_flips length all_substates].
  - cbn [map Qsum fold_right pw]. rewrite app_nil_r. ring.
  - unfold expect at 1. cbn [denote]. rewrite emass_app, !emass_dscale.
    change (emass f (denote ?m)) with (expect m f).
    rewrite (IH (true :: acc)), (IH (false :: acc)).
    rewrite (Qsum_flat_map2 (fun fl => pw (q :: r) fl * expect (k (rev acc ++ fl)) f) (fun s => s)).
    rewrite <- !Qsum_map_scale, <- Qsum_map_plus. apply Qsum_ext. intros s _.
    cbn [rev pw]. rewrite <- !app_assoc. cbn [app]. ring.
Qed.

Lemma draw_flips_support_w {A} (k : list bool -> A) (P : A -> Prop) : forall probs acc,
  (forall fl, length fl = length probs -> ~ pw probs fl == 0 -> P (k (rev acc ++ fl))) ->
  Forall (fun '(p, a) => p == 0 \/ P a) (denote (draw_flips probs acc (fun fl => Ret (k fl)))).
Proof.
  induction probs as [|q r IH]; intros acc Hk; cbn [draw_flips denote].
  - constructor; [|constructor]. right. specialize (Hk [] eq_refl). rewrite app_nil_r in Hk. apply Hk. cbn. lra.
  - apply Forall_app. split.
    + destruct (Qeq_dec (qclip q) 0) as [Hz|Hnz].
      * unfold dscale. apply Forall_forall. intros [p a] Hin. apply in_map_iff in Hin.
        destruct Hin as [[p' a'] [E _]]. inversion E; subst. left. rewrite Hz. ring.
      * unfold dscale. apply Forall_forall. intros [p a] Hin. apply in_map_iff in Hin.
        destruct Hin as [[p' a'] [E Hin]]. inversion E; subst.
        assert (HF := IH (true :: acc)). rewrite Forall_forall in HF.
        assert (Hk' : forall fl, length fl = length r -> ~ pw r fl == 0 -> P (k (rev (true :: acc) ++ fl))).
        { intros fl Hl Hp. cbn [rev]. rewrite <- app_assoc. apply (Hk (true :: fl)); [cbn; now rewrite Hl|].
          cbn [pw]. intros E0. apply Hp. apply Qmult_integral in E0. destruct E0; [contradiction|assumption]. }
        destruct (HF Hk' (p', a) Hin) as [Hz|HP]; [left; rewrite Hz; ring|now right].
    + destruct (Qeq_dec (1 - qclip q) 0) as [Hz|Hnz].
      * unfold dscale. apply Forall_forall. intros [p a] Hin. apply in_map_iff in Hin.
        destruct Hin as [[p' a'] [E _]]. inversion E; subst. left. rewrite Hz. ring.
      * unfold dscale. apply Forall_forall. intros [p a] Hin. apply in_map_iff in Hin.
        destruct Hin as [[p' a'] [E Hin]]. inversion E; subst.
        assert (HF := IH (false :: acc)). rewrite Forall_forall in HF.
        assert (Hk' : forall fl, length fl = length r -> ~ pw r fl == 0 -> P (k (rev (false :: acc) ++ fl))).
        { intros fl Hl Hp. cbn [rev]. rewrite <- app_assoc. apply (Hk (false :: fl)); [cbn; now rewrite Hl|].
          cbn [pw]. intros E0. apply Hp. apply Qmult_integral in E0. destruct E0; [contradiction|assumption]. }
        destruct (HF Hk' (p', a) Hin) as [Hz|HP]; [left; rewrite Hz; ring|now right].
Qed.

Section GroupW.
  Context {X : Type} (eqb : X -> X -> bool).
  Hypothesis eqb_ok : forall x y, eqb x y = true <-> x = y.
  Variable act : X -> list bool -> X.
  Variable pr : X -> list Q.
  Variable Wt : X -> Q.
  Variable xs : list X.
  Hypothesis Hnd : NoDup xs.
  Definition possible (x : X) (fl : list bool) : Prop := length fl = length (pr x) /\ ~ pw (pr x) fl == 0.
  Hypothesis Hin : forall x fl, In x xs -> possible x fl -> In (act x fl) xs.
  Hypothesis Hpr : forall x fl, In x xs -> possible x fl -> pr (act x fl) = pr x.
  Hypothesis Hinv : forall x fl, In x xs -> possible x fl -> act (act x fl) fl = x.
  Hypothesis HW : forall x fl, In x xs -> possible x fl -> Wt (act x fl) == Wt x.

  Definition gkernel_w (x : X) : prog X := draw_flips (pr x) [] (fun fl => Ret (act x fl)).

  Lemma gkernel_w_mass x y :
    mass (eqb y) (denote (gkernel_w x))
    == Qsum (map (fun fl => pw (pr x) fl * (if eqb y (act x fl) then 1 else 0)) (all_substates (length (pr x)))).
  Proof.
    rewrite mass_as_emass. change (emass ?f (denote ?m)) with (expect m f). unfold gkernel_w.
    rewrite expect_draw_flips_weighted. apply Qsum_ext. intros fl _. cbn [rev app]. rewrite expect_ret. reflexivity.
  Qed.

  Lemma term_zero x y fl : In x xs -> In y xs -> length fl = length (pr x) ->
    eqb y (act x fl) = false -> pw (pr y) fl * (if eqb x (act y fl) then 1 else 0) == 0 \/ length (pr y) <> length (pr x).
  Proof.
    intros Hx Hy Hl E1.
    destruct (Nat.eq_dec (length (pr y)) (length (pr x))) as [El|]; [|now right]. left.
    destruct (Qeq_dec (pw (pr y) fl) 0) as [Hz|Hnz]; [rewrite Hz; ring|].
    destruct (eqb x (act y fl)) eqn:E2; [|ring]. apply eqb_ok in E2. exfalso.
    assert (Hp : possible y fl) by (split; [congruence|exact Hnz]).
    assert (E3 : act x fl = y) by (rewrite E2; now apply Hinv).
    assert (E4 : eqb y (act x fl) = true) by (apply eqb_ok; now symmetry). congruence.
  Qed.

  Lemma gkernel_w_detailed_balance x y :
    In x xs -> In y xs ->
    Wt x * mass (eqb y) (denote (gkernel_w x)) == Wt y * mass (eqb x) (denote (gkernel_w y)).
  Proof.
    intros Hx Hy. rewrite !gkernel_w_mass, <- !Qsum_map_scale.
    destruct (Nat.eq_dec (length (pr x)) (length (pr y))) as [E|NE].
    - rewrite <- E. apply Qsum_ext. intros fl Hfl. apply all_substates_length in Hfl.
      destruct (eqb y (act x fl)) eqn:E1.
      + apply eqb_ok in E1.
        destruct (Qeq_dec (pw (pr x) fl) 0) as [Hz|Hnz].
        * (* impossible from x; then also impossible from y or not an inverse *)
          rewrite Hz.
          destruct (Qeq_dec (pw (pr y) fl) 0) as [Hzy|Hnzy]; [rewrite Hzy; ring|].
          destruct (eqb x (act y fl)) eqn:E2; [|ring]. apply eqb_ok in E2. exfalso.
          assert (Hp : possible y fl) by (split; [congruence|exact Hnzy]).
          apply Hnzy. rewrite <- (Hpr y fl Hy Hp), <- E2. exact Hz.
        * assert (Hp : possible x fl) by (split; assumption).
          subst y. rewrite (Hpr x fl Hx Hp).
          replace (eqb x (act (act x fl) fl)) with true by (symmetry; apply eqb_ok; symmetry; now apply Hinv).
          rewrite (HW x fl Hx Hp). reflexivity.
      + destruct (term_zero x y fl Hx Hy Hfl E1) as [Hz|Hne]; [|congruence].
        transitivity (Wt y * (pw (pr y) fl * (if eqb x (act y fl) then 1 else 0))); [rewrite Hz; ring|reflexivity].
    - rewrite !Qsum_all_zero; [reflexivity| |].
      + intros fl Hfl. apply all_substates_length in Hfl.
        destruct (Qeq_dec (pw (pr y) fl) 0) as [Hz|Hnz]; [rewrite Hz; ring|].
        destruct (eqb x (act y fl)) eqn:E2; [|ring]. apply eqb_ok in E2. exfalso. apply NE.
        assert (Hp : possible y fl) by (split; assumption). rewrite E2, (Hpr y fl Hy Hp). reflexivity.
      + intros fl Hfl. apply all_substates_length in Hfl.
        destruct (Qeq_dec (pw (pr x) fl) 0) as [Hz|Hnz]; [rewrite Hz; ring|].
        destruct (eqb y (act x fl)) eqn:E1; [|ring]. apply eqb_ok in E1. exfalso. apply NE.
        assert (Hp : possible x fl) by (split; assumption). rewrite E1, (Hpr x fl Hx Hp). reflexivity.
  Qed.

  Theorem gkernel_w_stationary : wstat xs Wt gkernel_w.
  Proof.
    apply (wstat_of_detailed_balance eqb eqb_ok); [exact Hnd| | |].
    - intros x Hx. unfold gkernel_w, supp_in. apply (draw_flips_support_w (act x) (fun a => In a xs)).
      intros fl Hl Hp. cbn [rev app]. apply Hin; [exact Hx|split; assumption].
    - intros x Hx. unfold gkernel_w. apply draw_flips_total. intros fl. unfold total. rewrite mass_ret. reflexivity.
    - intros x y Hx Hy. now apply gkernel_w_detailed_balance.
  Qed.
End GroupW.
