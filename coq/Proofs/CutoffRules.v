(* C12 on the code as it is written NOW: Generated/CutoffRules.v is re-translated on every run from
   the `self.cutoff = max(self.cutoff, <expr>)` assignments of qmc_ising.rs / qmc_runner.rs; the facts
   below are proved about whatever expression the translator found (any arithmetic rewrite that keeps
   them true keeps the proofs; a rule without a free slot breaks them). *)
From Coq Require Import List String Arith ZArith Lia.
From QmcV Require Import Generated.CutoffRules Model.Diagonal.
Import ListNotations.
Local Open Scope nat_scope.

Ltac Zify.zify_post_hook ::= Z.div_mod_to_equations.

(* never shrinks; leaves at least one free slot; leaves a margin of half the count *)
Definition rule_ok (f : nat -> nat -> nat) : Prop :=
  forall c n, c <= f c n /\ n < f c n /\ n + n / 2 < f c n.

Definition site_ok (s : string * option (nat -> nat -> nat)) : Prop :=
  match snd s with Some f => rule_ok f | None => False end.

Definition site_is_model (s : string * option (nat -> nat -> nat)) : Prop :=
  match snd s with Some f => forall c n, f c n = next_cutoff c n | None => False end.

Theorem source_rules_keep_headroom : Forall site_ok cutoff_rule_sites.
Proof.
  unfold cutoff_rule_sites.
  repeat (apply Forall_cons; [unfold site_ok, rule_ok; cbn [snd]; intros c n; repeat split; lia|]).
  apply Forall_nil.
Qed.

Theorem source_rules_are_the_model_rule : Forall site_is_model cutoff_rule_sites.
Proof.
  unfold cutoff_rule_sites.
  repeat (apply Forall_cons; [unfold site_is_model, next_cutoff; cbn [snd]; intros c n; lia|]).
  apply Forall_nil.
Qed.

(* timestep, single_diagonal_step (Ising) and diagonal_update (generic): all three sites were found *)
Theorem source_rule_sites_found : List.length cutoff_rule_sites = 3.
Proof. reflexivity. Qed.
