(* Replaying a composed program on a tape = replaying its parts in sequence; and drawing the swap
   uniforms of one phase ahead of time (rayon driver) decides exactly what drawing them lazily does (C13). *)
From Coq Require Import List QArith ZArith NArith Bool Arith Lia.
From QmcV Require Import Model.Prog Model.Tempering.
Import ListNotations.
Local Open Scope nat_scope.

Definition then_run {A B} (r : res A) (k : A -> list word -> res B) : res B :=
  match r with
  | RDone a rest => k a rest
  | RIndet => RIndet
  | RBad c => RBad c
  end.

Lemma unif64_bind_aux range tape :
  forall {A B} (f : N -> prog A) (k : A -> prog B)
    (IH : forall i t, run_tape (bind (f i) k) t = then_run (run_tape (f i) t) (fun a rest => run_tape (k a) rest)),
  match unif64 range tape with
  | inl (Some (i, rest)) => run_tape (bind (f i) k) rest
  | inl None => RBad 9
  | inr c => RBad c
  end
  = then_run (match unif64 range tape with
              | inl (Some (i, rest)) => run_tape (f i) rest
              | inl None => RBad 9
              | inr c => RBad c
              end) (fun a rest => run_tape (k a) rest).
Proof.
  intros A B f k IH. destruct (unif64 range tape) as [[[i rest]|]|c]; cbn [then_run]; auto.
Qed.

Theorem run_tape_bind {A B} (m : prog A) (k : A -> prog B) : forall tape,
  run_tape (bind m k) tape = then_run (run_tape m tape) (fun a rest => run_tape (k a) rest).
Proof.
  induction m as [a|n f IH|n f IH|q f IH|x y f IH|f IH|ws f IH|cs f IH|lo hi f IH|f IH|sure q f IH]; intros tape;
    cbn [bind run_tape then_run].
  - reflexivity.
  - destruct (unif64 n tape) as [[[i rest]|]|c]; cbn [then_run]; auto.
  - destruct (unif8 n tape) as [[[i rest]|]|c]; cbn [then_run]; auto.
  - destruct (Qle_bool 1 q); [apply IH|].
    destruct tape as [|[v|v] rest]; cbn [then_run]; auto.
    destruct (cmp_tol (u64_to_unit v) q); cbn [then_run]; auto.
  - destruct (negb (Qle_bool x y)); [apply IH|]. destruct (Qeq_bool x y); [apply IH|].
    destruct tape as [|[v|v] rest]; cbn [then_run]; auto.
    destruct (cmp_tol (u64_to_unit v) (x / y)); cbn [then_run]; auto.
  - destruct tape as [|[v|v] rest]; cbn [then_run]; auto.
  - destruct tape as [|[v|v] rest]; cbn [then_run]; auto.
    destruct (cum_index ws (u52_to_unit v * Qsum ws) 0) as [[i|]|]; cbn [then_run]; auto.
  - destruct tape as [|[vp|vp] [|[vb|vb] rest]]; cbn [then_run]; auto.
    destruct (cum_index (map fst cs) (u52_to_unit vb * Qsum (map fst cs)) 0) as [[i|]|]; cbn [then_run]; auto.
    destruct (nth i cs (0%Q, 0%Q)) as [mw w].
    destruct (cmp_tol (u52_to_unit vp * mw) w); cbn [then_run]; auto.
  - destruct tape as [|[v|v] rest]; cbn [then_run]; auto.
    destruct (cmp_tol (u53_to_unit v) lo), (cmp_tol (u53_to_unit v) hi); cbn [then_run]; auto.
  - destruct tape as [|[v|v] rest]; cbn [then_run]; auto.
  - destruct (Qle_bool 1 q).
    + destruct (sure || Qle_bool (1 + tolden) q); cbn [then_run]; auto.
    + destruct (negb sure && Qlt_bool (1 - tolden) q); cbn [then_run]; auto.
      destruct tape as [|[v|v] rest]; cbn [then_run]; auto.
      destruct (cmp_tol (u64_to_unit v) q); cbn [then_run]; auto.
Qed.

(* ---------------- pre-drawn swap decisions (parallel_perform_swaps) ---------------- *)
Fixpoint draw_decisions {A} (ps : A -> A -> Q) (l : list A) : prog (list bool) :=
  match l with
  | a :: b :: r =>
      let p := qmin1q (ps a b) in
      Choose [p; (1 - p)%Q] (fun k => bind (draw_decisions ps r) (fun ds => Ret (Nat.eqb k 0 :: ds)))
  | _ => Ret []
  end.

Fixpoint apply_decisions {A} (swp : A -> A -> A * A) (l : list A) (ds : list bool) : list A * nat :=
  match l, ds with
  | a :: b :: r, d :: ds' =>
      let '(a', b') := if d then swp a b else (a, b) in
      let '(r', c) := apply_decisions swp r ds' in
      (a' :: b' :: r', if d then S c else c)
  | _, _ => (l, 0)
  end.

Definition phase_predrawn {A} (ps : A -> A -> Q) (swp : A -> A -> A * A) (l : list A) : prog (list A * nat) :=
  bind (draw_decisions ps l) (fun ds => Ret (apply_decisions swp l ds)).

Lemma list_two_ind {A} (P : list A -> Prop) :
  P [] -> (forall a, P [a]) -> (forall a b r, P r -> P (a :: b :: r)) -> forall l, P l.
Proof.
  intros H0 H1 H2. fix IH 1. intros [|a [|b r]]; [exact H0|apply H1|apply H2; apply IH].
Qed.

(* drawing all uniforms of a phase first and deciding afterwards (the rayon driver) gives, on every
   tape, exactly the result of drawing each uniform right before its decision (the serial driver):
   the pairs are disjoint, so no decision influences another pair's probability *)
Theorem predrawn_equals_lazy {A} (ps : A -> A -> Q) (swp : A -> A -> A * A) : forall l tape,
  run_tape (phase_predrawn ps swp l) tape = run_tape (phase ps swp l) tape.
Proof.
  intros l. pattern l. apply list_two_ind; clear l.
  - intros tape. reflexivity.
  - intros a tape. reflexivity.
  - intros a b r IH tape. unfold phase_predrawn in *. cbn [draw_decisions phase bind run_tape].
    destruct tape as [|[v|v] rest]; auto.
    destruct (cum_index _ _ 0) as [[k|]|]; auto.
    specialize (IH rest). rewrite run_tape_bind in IH.
    destruct (if Nat.eqb k 0 then swp a b else (a, b)) as [a' b'] eqn:Esw.
    rewrite !run_tape_bind.
    destruct (run_tape (draw_decisions ps r) rest) as [ds rest'| |c] eqn:Ed; cbn [then_run run_tape] in *.
    + cbn [apply_decisions]. rewrite Esw.
      destruct (run_tape (phase ps swp r) rest) as [[r' c'] rest''| |c''] eqn:Ep; try discriminate.
      inversion IH as [[E1 E2]]. cbn [then_run run_tape]. rewrite E1. reflexivity.
    + destruct (run_tape (phase ps swp r) rest) as [[r' c'] rest''| |c''] eqn:Ep; try discriminate. reflexivity.
    + destruct (run_tape (phase ps swp r) rest) as [[r' c'] rest''| |c''] eqn:Ep; try discriminate.
      inversion IH; subst. reflexivity.
Qed.
