(* Periodic neighbours along a world line are mutually inverse (generic over the slot payload):
   if the next operator on variable v after p (with wrap-around) is q, then the previous operator on v
   before q (with wrap-around) is p, and conversely.  Used by the correctness proof of the cluster
   decomposition (Proofs/DecomposeProofs.v). *)
From Coq Require Import List Bool Arith Lia Sorted.
From QmcV Require Import Model.Sse Model.Nav.
Import ListNotations.

Definition ltk (x y : nat * nat) : Prop := fst x < fst y.

(* ---------------- cyclic successor / predecessor in a strictly sorted list ---------------- *)
Definition nextc (l : list (nat * nat)) (p : nat) : option (nat * nat) :=
  match first_gt fst p l with Some x => Some x | None => hd_error l end.
Definition prevc (l : list (nat * nat)) (p : nat) : option (nat * nat) :=
  match last_lt fst p l with Some x => Some x | None => hd_error (rev l) end.

Lemma sorted_app_inv (l1 l2 : list (nat * nat)) :
  StronglySorted ltk (l1 ++ l2) ->
  StronglySorted ltk l1 /\ StronglySorted ltk l2 /\ forall x y, In x l1 -> In y l2 -> fst x < fst y.
Proof.
  induction l1 as [|a l1 IH]; cbn [app]; intros Hs.
  - repeat split; [constructor|exact Hs|intros ? ? []].
  - inversion Hs as [|? ? Hs' Hall]; subst. destruct (IH Hs') as (H1 & H2 & H3).
    rewrite Forall_forall in Hall. repeat split.
    + constructor; [exact H1|]. apply Forall_forall. intros x Hx. apply Hall. apply in_or_app. now left.
    + exact H2.
    + intros x y [<-|Hx] Hy; [apply Hall; apply in_or_app; now right|now apply H3].
Qed.

Lemma first_gt_split (l1 l2 : list (nat * nat)) p k :
  StronglySorted ltk (l1 ++ (p, k) :: l2) ->
  first_gt fst p (l1 ++ (p, k) :: l2) = hd_error l2.
Proof.
  unfold first_gt. induction l1 as [|y l1 IH]; intros Hs; cbn [app find] in *.
  - cbn [fst]. rewrite Nat.ltb_irrefl. inversion Hs as [|? ? _ Hall]; subst.
    destruct l2 as [|z l2]; [reflexivity|]. cbn [find hd_error].
    inversion Hall as [|? ? Hz _]; subst. unfold ltk in Hz. cbn [fst] in Hz. apply Nat.ltb_lt in Hz. now rewrite Hz.
  - inversion Hs as [|? ? Hs' Hall]; subst. rewrite Forall_forall in Hall.
    specialize (Hall (p, k) ltac:(apply in_or_app; right; now left)). unfold ltk in Hall. cbn [fst] in Hall.
    replace (Nat.ltb p (fst y)) with false by (symmetry; apply Nat.ltb_ge; lia). now apply IH.
Qed.

Lemma fold_last_lt_ge (p : nat) (l : list (nat * nat)) : forall acc,
  (forall x, In x l -> p <= fst x) ->
  fold_left (fun acc x => if Nat.ltb (fst x) p then Some x else acc) l acc = acc.
Proof.
  induction l as [|x l IH]; intros acc H; cbn [fold_left]; [reflexivity|].
  rewrite IH by (intros; apply H; now right).
  replace (Nat.ltb (fst x) p) with false; [reflexivity|]. symmetry. apply Nat.ltb_ge. apply H. now left.
Qed.

Lemma fold_last_lt_lt (p : nat) (l : list (nat * nat)) : forall acc,
  (forall x, In x l -> fst x < p) ->
  fold_left (fun acc x => if Nat.ltb (fst x) p then Some x else acc) l acc
  = match hd_error (rev l) with Some x => Some x | None => acc end.
Proof.
  induction l as [|x l IH] using rev_ind; intros acc H; [reflexivity|].
  rewrite fold_left_app, rev_app_distr. cbn [fold_left rev app hd_error].
  replace (Nat.ltb (fst x) p) with true; [reflexivity|]. symmetry. apply Nat.ltb_lt. apply H. apply in_or_app. right. now left.
Qed.

Lemma last_lt_split (l1 l2 : list (nat * nat)) p k :
  StronglySorted ltk (l1 ++ (p, k) :: l2) ->
  last_lt fst p (l1 ++ (p, k) :: l2) = hd_error (rev l1).
Proof.
  intros Hs. destruct (sorted_app_inv _ _ Hs) as (_ & H2 & H3).
  unfold last_lt. rewrite fold_left_app.
  rewrite (fold_last_lt_ge p ((p, k) :: l2)).
  - rewrite (fold_last_lt_lt p l1); [destruct (hd_error (rev l1)); reflexivity|].
    intros x Hx. specialize (H3 x (p, k) Hx ltac:(now left)). exact H3.
  - intros x [<-|Hx]; [cbn; lia|]. inversion H2 as [|? ? _ Hall]; subst. rewrite Forall_forall in Hall.
    specialize (Hall x Hx). unfold ltk in Hall. cbn [fst] in Hall. lia.
Qed.

Lemma rev_case {A} (l : list A) : l = [] \/ exists l' x, l = l' ++ [x].
Proof. destruct l as [|x l _] using rev_ind; [now left|right; eauto]. Qed.

Lemma hd_error_rev_snoc {A} (l : list A) x : hd_error (rev (l ++ [x])) = Some x.
Proof. rewrite rev_app_distr. reflexivity. Qed.

Lemma nextc_prevc l p k q k' :
  StronglySorted ltk l -> In (p, k) l -> nextc l p = Some (q, k') ->
  In (q, k') l /\ prevc l q = Some (p, k).
Proof.
  intros Hs Hin Hn. destruct (in_split _ _ Hin) as (l1 & l2 & ->).
  unfold nextc in Hn. rewrite (first_gt_split l1 l2 p k Hs) in Hn.
  destruct l2 as [|[q2 k2] l2]; cbn [hd_error] in Hn.
  - (* wrap around to the head *)
    destruct l1 as [|[q1 k1] l1]; cbn [app hd_error] in Hn; inversion Hn; subst.
    + split; [now left|]. unfold prevc.
      pose proof (last_lt_split [] [] q k' Hs) as E. cbn [app rev hd_error] in E. cbn [app]. rewrite E. reflexivity.
    + split; [now left|]. unfold prevc.
      pose proof (last_lt_split [] (l1 ++ [(p, k)]) q k' Hs) as E. cbn [app rev hd_error] in E. cbn [app]. rewrite E.
      change ((q, k') :: l1 ++ [(p, k)]) with (((q, k') :: l1) ++ [(p, k)]). now rewrite hd_error_rev_snoc.
  - inversion Hn; subst. split; [apply in_or_app; right; right; now left|].
    unfold prevc.
    assert (El : l1 ++ (p, k) :: (q, k') :: l2 = (l1 ++ [(p, k)]) ++ (q, k') :: l2) by (now rewrite <- app_assoc).
    rewrite El in *.
    rewrite (last_lt_split (l1 ++ [(p, k)]) l2 q k' Hs). now rewrite hd_error_rev_snoc.
Qed.

Lemma prevc_nextc l p k q k' :
  StronglySorted ltk l -> In (p, k) l -> prevc l p = Some (q, k') ->
  In (q, k') l /\ nextc l q = Some (p, k).
Proof.
  intros Hs Hin Hn. destruct (in_split _ _ Hin) as (l1 & l2 & ->).
  unfold prevc in Hn. rewrite (last_lt_split l1 l2 p k Hs) in Hn.
  destruct (rev_case l1) as [->|(l1' & x & ->)].
  - (* wrap around to the last element *)
    change (hd_error (rev (@nil (nat * nat)))) with (@None (nat * nat)) in Hn. cbn iota in Hn. cbn [app] in *.
    destruct (rev_case l2) as [->|(l2' & y & ->)].
    + cbn in Hn. inversion Hn; subst. split; [now left|]. unfold nextc.
      pose proof (first_gt_split [] [] q k' Hs) as E. cbn [app] in E. rewrite E. reflexivity.
    + change ((p, k) :: l2' ++ [y]) with (((p, k) :: l2') ++ [y]) in Hn. rewrite hd_error_rev_snoc in Hn.
      inversion Hn; subst. split; [right; apply in_or_app; right; now left|].
      unfold nextc.
      pose proof (first_gt_split ((p, k) :: l2') [] q k' Hs) as E. cbn [app] in E. rewrite E. reflexivity.
  - rewrite hd_error_rev_snoc in Hn. inversion Hn; subst.
    split; [apply in_or_app; left; apply in_or_app; right; now left|].
    unfold nextc.
    assert (El : (l1' ++ [(q, k')]) ++ (p, k) :: l2 = l1' ++ (q, k') :: (p, k) :: l2) by (now rewrite <- app_assoc).
    rewrite El in *.
    rewrite (first_gt_split l1' ((p, k) :: l2) q k' Hs). reflexivity.
Qed.

(* ---------------- the per-variable lists of a slot array ---------------- *)
Section Gen.
Context {A : Type} (vf : A -> list nat).

Lemma g_from_bounds (sl : list (option A)) v : forall s q k,
  In (q, k) (g_ops_on_var_from vf s sl v) -> s <= q < s + length sl.
Proof.
  induction sl as [|x r IH]; intros s q k Hin; cbn [g_ops_on_var_from length] in *; [contradiction|].
  destruct x as [o|]; [destruct (index_of v (vf o))|].
  - destruct Hin as [E|Hin]; [inversion E; lia|]. apply IH in Hin. lia.
  - apply IH in Hin. lia.
  - apply IH in Hin. lia.
Qed.

Lemma g_from_sorted (sl : list (option A)) v : forall s,
  StronglySorted ltk (g_ops_on_var_from vf s sl v).
Proof.
  induction sl as [|x r IH]; intros s; cbn [g_ops_on_var_from]; [constructor|].
  destruct x as [o|]; [|apply IH]. destruct (index_of v (vf o)); [|apply IH].
  constructor; [apply IH|]. apply Forall_forall. intros [q k] Hin. apply g_from_bounds in Hin.
  unfold ltk. cbn [fst]. lia.
Qed.

Lemma g_from_spec (sl : list (option A)) v : forall s q k,
  In (q, k) (g_ops_on_var_from vf s sl v)
  <-> (s <= q /\ exists o, g_get sl (q - s) = Some o /\ index_of v (vf o) = Some k).
Proof.
  unfold g_get.
  induction sl as [|x r IH]; intros s q k; cbn [g_ops_on_var_from].
  - split; [intros []|]. intros [_ (o & Ho & _)]. destruct (q - s); discriminate.
  - assert (Hrec : In (q, k) (g_ops_on_var_from vf (S s) r v)
                   <-> (s <= q /\ q <> s /\ exists o, match nth_error (x :: r) (q - s) with Some (Some o) => Some o | _ => None end = Some o
                                                  /\ index_of v (vf o) = Some k)).
    { rewrite IH. split.
      - intros [Hq (o & Ho & Hk)]. repeat split; [lia|lia|]. exists o. replace (q - s) with (S (q - S s)) by lia. now split.
      - intros [Hq [Hne (o & Ho & Hk)]]. split; [lia|]. exists o. replace (q - s) with (S (q - S s)) in Ho by lia. now split. }
    destruct x as [o|].
    + destruct (index_of v (vf o)) as [k0|] eqn:E.
      * cbn [In]. rewrite Hrec. split.
        -- intros [Eq|[Hq [Hne Hex]]]; [inversion Eq; subst; split; [lia|]; exists o; rewrite Nat.sub_diag; now split|].
           split; [exact Hq|exact Hex].
        -- intros [Hq (o' & Ho & Hk)]. destruct (Nat.eq_dec q s) as [->|Hne].
           ++ left. rewrite Nat.sub_diag in Ho. cbn in Ho. inversion Ho; subst. congruence.
           ++ right. repeat split; [exact Hq|exact Hne|]. exists o'. now split.
      * rewrite Hrec. split.
        -- intros [Hq [Hne Hex]]. split; assumption.
        -- intros [Hq (o' & Ho & Hk)]. destruct (Nat.eq_dec q s) as [->|Hne].
           ++ rewrite Nat.sub_diag in Ho. cbn in Ho. inversion Ho; subst. congruence.
           ++ repeat split; [exact Hq|exact Hne|]. exists o'. now split.
    + rewrite Hrec. split.
      * intros [Hq [Hne Hex]]. split; assumption.
      * intros [Hq (o' & Ho & Hk)]. destruct (Nat.eq_dec q s) as [->|Hne].
        -- rewrite Nat.sub_diag in Ho. cbn in Ho. discriminate.
        -- repeat split; [exact Hq|exact Hne|]. exists o'. now split.
Qed.

Lemma g_ops_spec (sl : list (option A)) v q k :
  In (q, k) (g_ops_on_var vf sl v) <-> exists o, g_get sl q = Some o /\ index_of v (vf o) = Some k.
Proof.
  unfold g_ops_on_var. rewrite g_from_spec, Nat.sub_0_r. split; [intros [_ H]; exact H|intros H; split; [lia|exact H]].
Qed.

Lemma g_next_wrap_is_nextc sl p v : g_next_wrap vf sl p v = nextc (g_ops_on_var vf sl v) p.
Proof. reflexivity. Qed.
Lemma g_prev_wrap_is_prevc sl p v : g_prev_wrap vf sl p v = prevc (g_ops_on_var vf sl v) p.
Proof. reflexivity. Qed.

(* neighbour along the world line of v in direction sd (true = forwards in imaginary time) *)
Definition nbr (sl : list (option A)) (p v : nat) (sd : bool) : option (nat * nat) :=
  if sd then g_next_wrap vf sl p v else g_prev_wrap vf sl p v.

Lemma index_of_nth v : forall vs k, index_of v vs = Some k -> k < length vs /\ nth k vs 0 = v.
Proof.
  induction vs as [|x r IH]; intros k H; cbn [index_of] in H; [discriminate|].
  destruct (Nat.eqb x v) eqn:E.
  - inversion H; subst. apply Nat.eqb_eq in E. cbn. split; [lia|exact E].
  - destruct (index_of v r) as [j|]; [|discriminate]. cbn in H. inversion H; subst.
    destruct (IH j eq_refl). cbn [length nth]. split; [lia|assumption].
Qed.

Lemma index_of_in v : forall vs, In v vs -> exists k, index_of v vs = Some k.
Proof.
  induction vs as [|x r IH]; intros H; [contradiction|]. cbn [index_of].
  destruct (Nat.eqb x v) eqn:E; [eauto|].
  destruct H as [->|H]; [rewrite Nat.eqb_refl in E; discriminate|].
  destruct (IH H) as [k ->]. cbn. eauto.
Qed.

(* the neighbour is an operator on v, and p is its neighbour in the opposite direction *)
Theorem nbr_inverse sl p o v sd q kq :
  g_get sl p = Some o -> In v (vf o) -> nbr sl p v sd = Some (q, kq) ->
  exists oq, g_get sl q = Some oq /\ index_of v (vf oq) = Some kq
             /\ exists kp, nbr sl q v (negb sd) = Some (p, kp).
Proof.
  intros Hp Hv Hn. destruct (index_of_in v (vf o) Hv) as [kp Hkp].
  assert (Hin : In (p, kp) (g_ops_on_var vf sl v)) by (apply g_ops_spec; eauto).
  pose proof (g_from_sorted sl v 0) as Hs. fold (g_ops_on_var vf sl v) in Hs.
  unfold nbr in *. destruct sd; cbn [negb].
  - rewrite g_next_wrap_is_nextc in Hn. destruct (nextc_prevc _ _ _ _ _ Hs Hin Hn) as [Hq Hback].
    apply g_ops_spec in Hq. destruct Hq as (oq & Hoq & Hk). exists oq. repeat split; try assumption.
    exists kp. now rewrite g_prev_wrap_is_prevc.
  - rewrite g_prev_wrap_is_prevc in Hn. destruct (prevc_nextc _ _ _ _ _ Hs Hin Hn) as [Hq Hback].
    apply g_ops_spec in Hq. destruct Hq as (oq & Hoq & Hk). exists oq. repeat split; try assumption.
    exists kp. now rewrite g_next_wrap_is_nextc.
Qed.
(* a neighbour always exists: the list of operators on v contains p itself *)
Lemma nextc_exists l p k : In (p, k) l -> exists x, nextc l p = Some x.
Proof.
  intros Hin. unfold nextc. destruct (first_gt fst p l); [eauto|]. destruct l; [contradiction|]. cbn. eauto.
Qed.
Lemma prevc_exists l p k : In (p, k) l -> exists x, prevc l p = Some x.
Proof.
  intros Hin. unfold prevc. destruct (last_lt fst p l); [eauto|].
  destruct (rev_case l) as [->|(l' & y & ->)]; [contradiction|]. rewrite hd_error_rev_snoc. eauto.
Qed.

Theorem nbr_exists sl p o v sd :
  g_get sl p = Some o -> In v (vf o) -> exists q kq, nbr sl p v sd = Some (q, kq).
Proof.
  intros Hp Hv. destruct (index_of_in v (vf o) Hv) as [kp Hkp].
  assert (Hin : In (p, kp) (g_ops_on_var vf sl v)) by (apply g_ops_spec; eauto).
  unfold nbr. destruct sd.
  - rewrite g_next_wrap_is_nextc. destruct (nextc_exists _ _ _ Hin) as [[q kq] E]. eauto.
  - rewrite g_prev_wrap_is_prevc. destruct (prevc_exists _ _ _ Hin) as [[q kq] E]. eauto.
Qed.
End Gen.
