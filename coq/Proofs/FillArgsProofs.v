(* DiagonalSubsection::fill_args_at_p (SubvarAccess::All), transcribed in Model/FastOpsNav.v as a
   backward walk over the links with early termination on an "unfilled" counter, builds exactly the
   cursor a scan yields — for every well-formed string.  (Before fix 5d805dc the `unfilled == 0`
   shortcut returned last_p = None although operators preceded p, whenever no selected variable carried
   operators; the statement then needed the side condition that every stored operator acts on at least
   one variable, and was refuted without it.) *)
From Coq Require Import List Bool Arith Lia Sorted.
From QmcV Require Import Model.Sse Model.Nav Model.FastOps Model.FastOpsNav
     Proofs.NavProofs Proofs.ChainLemmas Proofs.FastOpsLemmas Proofs.FastOpsProofs Proofs.FastOpsNavProofs.
Import ListNotations.

Definition isnone {A} (x : option A) : bool := match x with None => true | Some _ => false end.

Lemma filter_drop_one (P Q : nat -> bool) (l : list nat) v :
  NoDup l -> In v l -> P v = true -> Q v = false -> (forall x, x <> v -> Q x = P x) ->
  length (filter Q l) + 1 = length (filter P l).
Proof.
  induction l as [|a l IH]; intros Hnd Hin HP HQ Hext; [contradiction|].
  inversion Hnd as [|? ? Hna Hnd']; subst. cbn [filter].
  destruct (Nat.eq_dec a v) as [->|Hne].
  - rewrite HP, HQ. cbn [length].
    assert (E : filter Q l = filter P l).
    { apply filter_ext_in. intros x Hx. apply Hext. intros ->. contradiction. }
    rewrite E. lia.
  - destruct Hin as [->|Hin]; [congruence|].
    rewrite (Hext a Hne). destruct (P a); cbn [length]; specialize (IH Hnd' Hin HP HQ Hext); lia.
Qed.

Lemma match_pred {A} (p : nat) (x : A) (f : nat -> A) :
  match p with 0 => x | S p' => f p' end = if Nat.eqb p 0 then x else f (pred p).
Proof. destruct p; reflexivity. Qed.

Section Fill.
Variables (nv : nat) (nb : option nat) (sl : slots) (p : nat).
Hypothesis Hwf : wf_slots nv nb sl.
Hypothesis Hp : p < length sl.

Let PV (v : nat) : option prel := prev_for_var sl p v.
Let has (v : nat) : bool := var_has_ops sl v.

Definition missing (L : list (option prel)) : nat :=
  length (filter (fun v => has v && isnone (nth v L None)) (seq 0 nv)).

Lemma missing_set L v x :
  v < nv -> length L = nv -> nth v L None = None -> has v = true ->
  missing (set_nth L v (Some x)) + 1 = missing L.
Proof.
  intros Hv HL Hn Hh. unfold missing.
  apply filter_drop_one with (v := v).
  - apply seq_NoDup.
  - apply in_seq. lia.
  - now rewrite Hh, Hn.
  - rewrite nth_set_nth_eq by lia. now rewrite andb_false_r.
  - intros x0 Hx. now rewrite nth_set_nth_neq by congruence.
Qed.

Lemma PV_spec v : is_nb fst false (Mvar sl v) p (PV v).
Proof. exact (nav_v_spec false sl p v). Qed.

Lemma Mvar_occ v a : Mvar sl v a -> Mocc sl (fst a).
Proof. intros (o & Ho & _). exists o. exact Ho. Qed.

Lemma wf_index o q relv v :
  nth_error sl q = Some (Some o) -> nth_error (o_vars o) relv = Some v -> index_of v (o_vars o) = Some relv /\ v < nv.
Proof.
  intros Ho Hr. destruct (Hwf q o Ho) as (Hnd & Hlt & _). split.
  - now apply nth_error_index_of.
  - apply Hlt. eapply nth_error_In; eauto.
Qed.

Lemma has_of_op o q v : nth_error sl q = Some (Some o) -> In v (o_vars o) -> has v = true.
Proof.
  intros Ho Hin. unfold has. apply var_has_ops_spec. exists o. split; [|exact Hin].
  eapply nth_error_In; eauto.
Qed.

(* the invariant of the walk at frontier q: every occupied position in [q, p) has been visited *)
Record Inv (q : nat) (L : list (option prel)) (u : nat) : Prop := mkInv {
  inv_len : length L = nv;
  inv_sound : forall v, v < nv -> nth v L None = None \/ nth v L None = PV v;
  inv_done : forall v r k, v < nv -> PV v = Some (r, k) -> q <= r -> nth v L None = Some (r, k);
  inv_count : missing L <= u
}.

(* visiting the occupied position q0 = prev_p sl q: an unset entry of one of its variables is its predecessor *)
Lemma visit_gives_prev q q0 o relv v L u :
  Inv q L u -> q <= p -> prev_p sl q = Some q0 ->
  nth_error sl q0 = Some (Some o) -> nth_error (o_vars o) relv = Some v ->
  nth v L None = None -> PV v = Some (q0, relv).
Proof.
  intros HI Hqp Hprev Ho Hr Hn.
  destruct (wf_index o q0 relv v Ho Hr) as [Hidx Hv].
  assert (HM : Mvar sl v (q0, relv)) by (exists o; cbn; split; assumption).
  pose proof (nav_p_spec false sl q) as Hq. cbn [nav_p] in Hq. rewrite Hprev in Hq. cbn [is_nb dlt dle idk] in Hq.
  destruct Hq as (_ & Hq0 & Hmax). unfold idk in *.
  pose proof (PV_spec v) as HS. destruct (PV v) as [[r k]|] eqn:E; cbn [is_nb dlt dle fst] in HS.
  - destruct HS as (HMr & Hrp & Hgr).
    assert (Hq0r : q0 <= r) by (apply (Hgr (q0, relv) HM); cbn; lia).
    destruct (le_lt_dec q r) as [Hge|Hlt].
    + rewrite (inv_done q L u HI v r k Hv E Hge) in Hn. discriminate.
    + assert (r <= q0) by (apply (Hmax r (Mvar_occ v _ HMr)); lia).
      assert (r = q0) by lia. subst r.
      f_equal. apply (Mvar_inj sl v (q0, k) (q0, relv) HMr HM eq_refl).
  - specialize (HS (q0, relv) HM). cbn in HS. lia.
Qed.

(* ---------------- the inner loop of above_step ---------------- *)
Definition fill_step (q0 : nat) : list (option prel) * nat -> nat * nat -> list (option prel) * nat :=
  fun '(last, unf) '(relv, v) =>
    match nth v last None with
    | None => (set_nth last v (Some (q0, relv)), unf - 1)
    | Some _ => (last, unf)
    end.

Lemma fill_fold q q0 o : q <= p -> prev_p sl q = Some q0 -> nth_error sl q0 = Some (Some o) ->
  forall rvs L u,
    (forall relv v, In (relv, v) rvs -> nth_error (o_vars o) relv = Some v) ->
    Inv q L u ->
    let '(L', u') := fold_left (fill_step q0) rvs (L, u) in
    Inv q L' u'
    /\ (forall relv v, In (relv, v) rvs -> nth v L' None <> None)
    /\ (forall v, nth v L None <> None -> nth v L' None = nth v L None).
Proof.
  intros Hqp Hprev Ho. induction rvs as [|[relv v] rvs IH]; intros L u Hrvs HI; cbn [fold_left].
  - split; [exact HI|]. split; [intros ? ? []|reflexivity].
  - assert (Hr : nth_error (o_vars o) relv = Some v) by (apply Hrvs; now left).
    destruct (wf_index o q0 relv v Ho Hr) as [Hidx Hv].
    assert (Hrvs' : forall relv0 v0, In (relv0, v0) rvs -> nth_error (o_vars o) relv0 = Some v0)
      by (intros; apply Hrvs; now right).
    unfold fill_step at 2. cbn beta iota. destruct (nth v L None) as [x|] eqn:En.
    + specialize (IH L u Hrvs' HI).
      destruct (fold_left (fill_step q0) rvs (L, u)) as [L' u'].
      destruct IH as (HI' & Hproc & Hkeep). split; [exact HI'|]. split; [|exact Hkeep].
      intros r0 v0 [E|Hin]; [|exact (Hproc r0 v0 Hin)]. inversion E; subst.
      rewrite Hkeep by (rewrite En; discriminate). rewrite En. discriminate.
    + pose proof (visit_gives_prev q q0 o relv v L u HI Hqp Hprev Ho Hr En) as HPV.
      assert (Hh : has v = true) by (eapply has_of_op; [exact Ho|eapply nth_error_In; eauto]).
      pose proof (missing_set L v (q0, relv) Hv (inv_len q L u HI) En Hh) as Hm.
      assert (HI1 : Inv q (set_nth L v (Some (q0, relv))) (u - 1)).
      { constructor.
        - rewrite length_set_nth. exact (inv_len q L u HI).
        - intros w Hw. destruct (Nat.eq_dec v w) as [<-|Hne].
          + right. rewrite nth_set_nth_eq by (rewrite (inv_len q L u HI); exact Hv). now rewrite HPV.
          + rewrite nth_set_nth_neq by exact Hne. exact (inv_sound q L u HI w Hw).
        - intros w r k Hw E Hge. destruct (Nat.eq_dec v w) as [<-|Hne].
          + rewrite nth_set_nth_eq by (rewrite (inv_len q L u HI); exact Hv). now rewrite <- HPV, E.
          + rewrite nth_set_nth_neq by exact Hne. exact (inv_done q L u HI w r k Hw E Hge).
        - pose proof (inv_count q L u HI) as Hc0. unfold prel in *. lia. }
      specialize (IH _ _ Hrvs' HI1).
      destruct (fold_left (fill_step q0) rvs (set_nth L v (Some (q0, relv)), u - 1)) as [L' u'].
      destruct IH as (HI' & Hproc & Hkeep). split; [exact HI'|]. split.
      * intros r0 v0 [E|Hin]; [|exact (Hproc r0 v0 Hin)]. inversion E; subst.
        rewrite Hkeep; rewrite nth_set_nth_eq by (rewrite (inv_len q L u HI); exact Hv); discriminate.
      * intros w Hw. destruct (Nat.eq_dec v w) as [<-|Hne]; [congruence|].
        rewrite Hkeep by (rewrite nth_set_nth_neq by exact Hne; exact Hw).
        now rewrite nth_set_nth_neq by exact Hne.
Qed.

Lemma in_enumerate {A} (l : list A) i x : In (i, x) (enumerate l) <-> nth_error l i = Some x.
Proof.
  split.
  - intros H. apply In_nth_error in H. destruct H as [n Hn]. rewrite nth_error_enumerate in Hn.
    destruct (nth_error l n) eqn:E; cbn in Hn; [|discriminate]. inversion Hn; subst. exact E.
  - intros H. apply nth_error_In with (n := i). rewrite nth_error_enumerate, H. reflexivity.
Qed.

Lemma above_step_unfold q0 nd lp L u :
  above_step q0 nd (mkFargs (mkArgs lp L) u)
  = let '(last, unf) := fold_left (fill_step q0) (enumerate (o_vars (n_op nd))) (L, u) in
    (mkFargs (mkArgs (match lp with Some n => Some n | None => Some q0 end) last) unf, Nat.ltb 0 unf).
Proof. reflexivity. Qed.

(* after the visit of q0 the frontier is q0 *)
Lemma above_step_inv q q0 o L u lp :
  q <= p -> prev_p sl q = Some q0 -> nth_error sl q0 = Some (Some o) -> Inv q L u ->
  let '(a', c) := above_step q0 (build_node sl q0 o) (mkFargs (mkArgs lp L) u) in
  Inv q0 (a_last (fa_args a')) (fa_unfilled a')
  /\ a_last_p (fa_args a') = (match lp with Some n => Some n | None => Some q0 end)
  /\ c = Nat.ltb 0 (fa_unfilled a').
Proof.
  intros Hqp Hprev Ho HI. rewrite above_step_unfold. cbn [build_node n_op].
  pose proof (fill_fold q q0 o Hqp Hprev Ho (enumerate (o_vars o)) L u
                (fun relv v H => proj1 (in_enumerate _ _ _) H) HI) as HF.
  destruct (fold_left (fill_step q0) (enumerate (o_vars o)) (L, u)) as [L' u'].
  destruct HF as (HI' & Hproc & Hkeep). cbn [fa_args fa_unfilled a_last a_last_p].
  split; [|split; reflexivity].
  pose proof (nav_p_spec false sl q) as Hq. cbn [nav_p] in Hq. rewrite Hprev in Hq. cbn [is_nb dlt dle idk] in Hq.
  destruct Hq as (_ & Hq0 & Hmax). unfold idk in *.
  constructor.
  - exact (inv_len q L' u' HI').
  - exact (inv_sound q L' u' HI').
  - intros v r k Hv E Hge. destruct (le_lt_dec q r) as [Hqr|Hrq]; [exact (inv_done q L' u' HI' v r k Hv E Hqr)|].
    pose proof (PV_spec v) as HS. unfold PV in E. fold (PV v) in E. rewrite E in HS. cbn [is_nb dlt dle fst] in HS.
    destruct HS as (HMr & Hrp & _).
    assert (r <= q0) by (apply (Hmax r (Mvar_occ v _ HMr)); lia).
    assert (r = q0) by lia. subst r.
    destruct HMr as (o' & Ho' & Hi'). cbn [fst snd] in Ho', Hi'. assert (o' = o) by congruence. subst o'.
    assert (Hin : In (k, v) (enumerate (o_vars o))) by (apply in_enumerate; now apply index_of_nth_error).
    specialize (Hproc k v Hin).
    destruct (inv_sound q L' u' HI' v Hv) as [Hn|Hs]; [contradiction|]. now rewrite Hs, E.
  - exact (inv_count q L' u' HI').
Qed.

(* ---------------- reading off the result ---------------- *)
Lemma has_false_PV v : v < nv -> has v = false -> PV v = None.
Proof.
  intros Hv Hh. pose proof (PV_spec v) as HS. destruct (PV v) as [[r k]|]; [|reflexivity].
  cbn [is_nb] in HS. destruct HS as ((o & Ho & Hi) & _). cbn [fst snd] in Ho, Hi.
  assert (has v = true); [|congruence].
  eapply has_of_op; [exact Ho|]. eapply index_of_some_in; eauto.
Qed.

Lemma inv_result_unfilled q L : Inv q L 0 -> L = map (prev_for_var sl p) (seq 0 nv).
Proof.
  intros HI. apply nth_ext with (d := None) (d' := None).
  - rewrite map_length, seq_length. exact (inv_len q L 0 HI).
  - intros v Hv. rewrite (inv_len q L 0 HI) in Hv. rewrite nth_map_seq by exact Hv. fold (PV v).
    destruct (inv_sound q L 0 HI v Hv) as [Hn|Hs]; [|exact Hs].
    destruct (has v) eqn:Hh.
    + (* v has operators and is unset: it would be counted *)
      exfalso. pose proof (inv_count q L 0 HI) as Hc. unfold missing in Hc.
      assert (Hin : In v (filter (fun v0 => has v0 && isnone (nth v0 L None)) (seq 0 nv))).
      { apply filter_In. split; [apply in_seq; lia|]. now rewrite Hh, Hn. }
      destruct (filter _ (seq 0 nv)); [contradiction|cbn in Hc; lia].
    + now rewrite Hn, (has_false_PV v Hv Hh).
Qed.

Lemma inv_result_bottom q L u : Inv q L u -> prev_p sl q = None -> L = map (prev_for_var sl p) (seq 0 nv).
Proof.
  intros HI Hbot. apply nth_ext with (d := None) (d' := None).
  - rewrite map_length, seq_length. exact (inv_len q L u HI).
  - intros v Hv. rewrite (inv_len q L u HI) in Hv. rewrite nth_map_seq by exact Hv. fold (PV v).
    destruct (PV v) as [[r k]|] eqn:E.
    + apply (inv_done q L u HI v r k Hv E).
      pose proof (PV_spec v) as HS. rewrite E in HS. cbn [is_nb] in HS. destruct HS as (HMr & _).
      pose proof (nav_p_spec false sl q) as Hq. cbn [nav_p] in Hq. rewrite Hbot in Hq. cbn [is_nb dle idk] in Hq.
      exact (Hq r (Mvar_occ v _ HMr)).
    + destruct (inv_sound q L u HI v Hv) as [Hn|Hs]; [exact Hn|now rewrite Hs, E].
Qed.

(* ---------------- the walk ---------------- *)
Lemma prev_p_lt q q0 : prev_p sl q = Some q0 -> q0 < q /\ exists o, nth_error sl q0 = Some (Some o).
Proof.
  intros H. pose proof (nav_p_spec false sl q) as Hq. cbn [nav_p] in Hq. rewrite H in Hq. cbn [is_nb dlt idk] in Hq.
  destruct Hq as (Ho & Hlt & _). split; [exact Hlt|exact Ho].
Qed.

Lemma walk_above_correct : forall fuel q L u lp,
  q <= p -> q < fuel -> Inv q L u ->
  (lp = prev_p sl p \/ (lp = None /\ prev_p sl q = prev_p sl p)) ->
  fa_args (walk_above fuel (build nv nb sl) (prev_p sl q) (mkFargs (mkArgs lp L) u)) = scan_cursor nv sl p.
Proof.
  induction fuel as [|fuel IH]; intros q L u lp Hqp Hf HI Hlp; [lia|].
  cbn [walk_above]. destruct (prev_p sl q) as [q0|] eqn:Hprev.
  - destruct (prev_p_lt q q0 Hprev) as [Hlt [o Ho]].
    rewrite (build_node_at nv nb sl q0 o Ho).
    pose proof (above_step_inv q q0 o L u lp Hqp Hprev Ho HI) as HS.
    destruct (above_step q0 (build_node sl q0 o) (mkFargs (mkArgs lp L) u)) as [a' c].
    destruct HS as (HI' & Hlp' & Hc).
    assert (Hlast : a_last_p (fa_args a') = prev_p sl p).
    { rewrite Hlp'. destruct Hlp as [->|[-> E]]; [|now rewrite <- E].
      destruct (prev_p sl p) as [pp|] eqn:Epp; [reflexivity|]. exfalso.
      pose proof (nav_p_spec false sl p) as Hsp. cbn [nav_p] in Hsp. rewrite Epp in Hsp. cbn [is_nb dle idk] in Hsp.
      specialize (Hsp q0 (ex_intro _ o Ho)). unfold idk in Hsp. lia. }
    destruct a' as [[lp' L'] u']. cbn [fa_args fa_unfilled a_last a_last_p] in *. subst c.
    destruct (Nat.ltb_spec 0 u') as [Hpos|Hzero].
    + unfold build_node at 1. cbn [n_prev].
      apply (IH q0 L' u' lp'); [lia|lia|exact HI'|left; exact Hlast].
    + cbn [fa_args]. assert (u' = 0) by lia. subst u'. unfold scan_cursor. f_equal; [exact Hlast|].
      exact (inv_result_unfilled q0 L' HI').
  - cbn [fa_args]. unfold scan_cursor. f_equal.
    + destruct Hlp as [->|[-> E]]; [reflexivity|exact E].
    + exact (inv_result_bottom q L u HI Hprev).
Qed.

(* ---------------- the initial cursor ---------------- *)
Lemma build_var_ends_length : length (f_var_ends (build nv nb sl)) = nv.
Proof. unfold build. cbn [f_var_ends]. now rewrite map_length, seq_length. Qed.

Lemma inv_initial u : missing (repeat None nv) <= u -> Inv p (repeat None nv) u.
Proof.
  intros Hu. constructor.
  - apply repeat_length.
  - intros v Hv. left. apply nth_repeat.
  - intros v r k Hv E Hge. pose proof (PV_spec v) as HS. unfold PV in E. fold (PV v) in E. rewrite E in HS.
    cbn [is_nb dlt fst] in HS. destruct HS as (_ & Hlt & _). lia.
  - exact Hu.
Qed.

Lemma var_end_some v : v < nv ->
  (match nth v (f_var_ends (build nv nb sl)) None with Some _ => true | None => false end) = has v.
Proof. intros Hv. exact (does_var_have_ops_is_scan nv nb sl v Hv). Qed.

Lemma unfilled_initial :
  fa_unfilled (empty_args (build nv nb sl)) = missing (repeat None nv).
Proof.
  unfold empty_args, missing. cbn [fa_unfilled].
  assert (E : forall l,
             (forall v, In v l -> v < nv) ->
             length (filter (fun e => match e with Some _ => true | None => false end)
                            (map (fun v => nth v (f_var_ends (build nv nb sl)) None) l))
             = length (filter (fun v => has v && isnone (nth v (repeat None nv) (@None prel))) l)).
  { induction l as [|a l IHl]; intros Hl; [reflexivity|]. cbn [map filter].
    rewrite (var_end_some a) by (apply Hl; now left). rewrite nth_repeat. cbn [isnone]. rewrite andb_true_r.
    destruct (has a); cbn [length]; rewrite IHl by (intros; apply Hl; now right); reflexivity. }
  rewrite <- (E (seq 0 nv)) by (intros v Hv; apply in_seq in Hv; lia).
  f_equal. f_equal.
  apply nth_ext with (d := None) (d' := None).
  - now rewrite map_length, seq_length, build_var_ends_length.
  - intros v Hv. rewrite build_var_ends_length in Hv. now rewrite nth_map_seq.
Qed.

(* the at-p closure: take the predecessors recorded in the node at p *)
Definition atp_step : list (option prel) * nat -> nat * option prel -> list (option prel) * nat :=
  fun '(last, unf) '(v, prel) =>
    match prel with
    | Some pr => match nth v last None with
                 | None => (set_nth last v (Some pr), unf - 1)
                 | Some _ => (last, unf)
                 end
    | None => (last, unf)
    end.

Lemma at_p_step_unfold nd lp L u :
  at_p_step nd (mkFargs (mkArgs lp L) u)
  = let '(last, unf) := fold_left atp_step (combine (o_vars (n_op nd)) (n_prev_v nd)) (L, u) in
    (mkFargs (mkArgs (n_prev nd) last) unf, Nat.ltb 0 unf).
Proof. reflexivity. Qed.

Lemma atp_fold o : nth_error sl p = Some (Some o) ->
  forall vps L u,
    (forall v pr, In (v, pr) vps -> In v (o_vars o) /\ pr = PV v) ->
    Inv p L u ->
    let '(L', u') := fold_left atp_step vps (L, u) in Inv p L' u'.
Proof.
  intros Ho. induction vps as [|[v pr] vps IH]; intros L u Hvps HI; cbn [fold_left]; [exact HI|].
  destruct (Hvps v pr (or_introl eq_refl)) as [Hin ->].
  assert (Hv : v < nv) by (destruct (Hwf p o Ho) as (_ & Hlt & _); now apply Hlt).
  unfold atp_step at 2. cbn beta iota. destruct (PV v) as [x|] eqn:E.
  - destruct (nth v L None) eqn:En.
    + apply IH; [intros; apply Hvps; now right|exact HI].
    + apply IH; [intros; apply Hvps; now right|].
      assert (Hh : has v = true) by (eapply has_of_op; eauto).
      pose proof (missing_set L v x Hv (inv_len p L u HI) En Hh) as Hm.
      constructor.
      * rewrite length_set_nth. exact (inv_len p L u HI).
      * intros w Hw. destruct (Nat.eq_dec v w) as [<-|Hne].
        -- right. rewrite nth_set_nth_eq by (rewrite (inv_len p L u HI); exact Hv). now rewrite E.
        -- rewrite nth_set_nth_neq by exact Hne. exact (inv_sound p L u HI w Hw).
      * intros w r k Hw Ew Hge. pose proof (PV_spec w) as HS. rewrite Ew in HS. cbn [is_nb dlt fst] in HS.
        destruct HS as (_ & Hlt & _). lia.
      * pose proof (inv_count p L u HI) as Hc0. unfold prel in *. lia.
  - apply IH; [intros; apply Hvps; now right|exact HI].
Qed.

Lemma atp_fold' o vps L u L' u' : nth_error sl p = Some (Some o) ->
  (forall v pr, In (v, pr) vps -> In v (o_vars o) /\ pr = PV v) ->
  Inv p L u -> fold_left atp_step vps (L, u) = (L', u') -> Inv p L' u'.
Proof. intros Ho Hv HI E. pose proof (atp_fold o Ho vps L u Hv HI) as HF. rewrite E in HF. exact HF. Qed.

Lemma nearest_below_is_prev : forall q, nearest_below (build nv nb sl) q = prev_p sl (S q).
Proof.
  induction q as [|q IH]; cbn [nearest_below].
  - destruct (nth_error sl 0) as [[o|]|] eqn:E.
    + rewrite (build_node_at nv nb sl 0 o E). symmetry. apply (nav_p_eq false).
      cbn [is_nb dlt dle idk]. unfold idk. split; [exists o; exact E|split; [lia|intros b _ Hb; lia]].
    + rewrite build_node_at_none by (intros o; rewrite E; discriminate). symmetry. apply (nav_p_eq false).
      cbn [is_nb dle idk]. unfold idk. intros b (o & Hb). destruct b; [rewrite E in Hb; discriminate|lia].
    + rewrite build_node_at_none by (intros o; rewrite E; discriminate). symmetry. apply (nav_p_eq false).
      cbn [is_nb dle idk]. unfold idk. intros b (o & Hb). destruct b; [rewrite E in Hb; discriminate|lia].
  - destruct (nth_error sl (S q)) as [[o|]|] eqn:E.
    + rewrite (build_node_at nv nb sl (S q) o E). symmetry. apply (nav_p_eq false).
      cbn [is_nb dlt dle idk]. unfold idk. split; [exists o; exact E|split; [lia|intros b _ Hb; lia]].
    + rewrite build_node_at_none by (intros o; rewrite E; discriminate). rewrite IH.
      symmetry. apply (nav_p_eq false).
      pose proof (nav_p_spec false sl (S q)) as HS. cbn [nav_p] in HS.
      destruct (prev_p sl (S q)) as [r|]; cbn [is_nb dlt dle idk] in *; unfold idk in *.
      * destruct HS as (Hr & Hlt & Hmax). split; [exact Hr|split; [lia|]].
        intros b Hb Hlt'. apply Hmax; [exact Hb|]. destruct (Nat.eq_dec b (S q)) as [->|]; [|lia].
        destruct Hb as (o & Hb). rewrite E in Hb. discriminate.
      * intros b Hb. destruct (Nat.eq_dec b (S q)) as [->|]; [destruct Hb as (o & Hb); rewrite E in Hb; discriminate|].
        specialize (HS b Hb). lia.
    + rewrite build_node_at_none by (intros o; rewrite E; discriminate). rewrite IH.
      symmetry. apply (nav_p_eq false).
      pose proof (nav_p_spec false sl (S q)) as HS. cbn [nav_p] in HS.
      destruct (prev_p sl (S q)) as [r|]; cbn [is_nb dlt dle idk] in *; unfold idk in *.
      * destruct HS as (Hr & Hlt & Hmax). split; [exact Hr|split; [lia|]].
        intros b Hb Hlt'. apply Hmax; [exact Hb|]. destruct (Nat.eq_dec b (S q)) as [->|]; [|lia].
        destruct Hb as (o & Hb). rewrite E in Hb. discriminate.
      * intros b Hb. destruct (Nat.eq_dec b (S q)) as [->|]; [destruct Hb as (o & Hb); rewrite E in Hb; discriminate|].
        specialize (HS b Hb). lia.
Qed.

Theorem fill_args_refines : fill_args_at_p (build nv nb sl) p = scan_cursor nv sl p.
Proof.
  unfold fill_args_at_p.
  pose proof unfilled_initial as Hu0.
  remember (empty_args (build nv nb sl)) as a0 eqn:Ea0.
  assert (Hargs : fa_args a0 = mkArgs None (repeat None nv)).
  { subst a0. unfold empty_args. cbn [fa_args]. now rewrite build_var_ends_length. }
  destruct (Nat.eqb_spec (fa_unfilled a0) 0) as [Hz|Hnz].
  - (* no variable has operators: the global predecessor is looked up directly *)
    rewrite Hargs. cbn [a_last]. unfold scan_cursor. rewrite Hu0 in Hz.
    f_equal.
    + rewrite (match_pred p _ (fun p' => nearest_below (build nv nb sl) p')).
      destruct (Nat.eqb_spec p 0) as [E0|En0].
      * symmetry. apply (nav_p_eq false). cbn [is_nb dle idk]. unfold idk. intros b _. lia.
      * rewrite nearest_below_is_prev. replace (S (pred p)) with p by lia. reflexivity.
    + apply (inv_result_unfilled p). rewrite <- Hz. apply inv_initial. lia.
  - assert (HI0 : Inv p (repeat None nv) (fa_unfilled a0)) by (apply inv_initial; rewrite Hu0; lia).
    destruct (nth_error sl p) as [[o|]|] eqn:Ep.
    + (* an operator sits at p: start from its recorded predecessors *)
      rewrite (build_node_at nv nb sl p o Ep).
      destruct a0 as [[lp0 L0] u0]. cbn [fa_args fa_unfilled] in *. inversion Hargs; subst lp0 L0.
      rewrite at_p_step_unfold.
      cbn [build_node n_op n_prev_v n_prev].
      assert (Hvps : forall v pr, In (v, pr) (combine (o_vars o) (map (prev_for_var sl p) (o_vars o))) ->
                                  In v (o_vars o) /\ pr = PV v).
      { intros v pr Hin. apply In_nth_error in Hin. destruct Hin as [n Hn].
        assert (Hl : n < length (o_vars o)).
        { apply nth_error_Some. intros Hnone.
          assert (nth_error (combine (o_vars o) (map (prev_for_var sl p) (o_vars o))) n = None).
          { apply nth_error_None. rewrite combine_length, map_length. apply nth_error_None in Hnone. lia. }
          congruence. }
        destruct (nth_error (o_vars o) n) as [v'|] eqn:Ev; [|apply nth_error_None in Ev; lia].
        assert (Hc : nth_error (combine (o_vars o) (map (prev_for_var sl p) (o_vars o))) n = Some (v', prev_for_var sl p v')).
        { clear -Ev. revert n Ev. induction (o_vars o) as [|a l IHl]; intros [|n] Ev; cbn in *; try discriminate.
          - now inversion Ev.
          - now apply IHl. }
        rewrite Hc in Hn. inversion Hn; subst. split; [eapply nth_error_In; eauto|reflexivity]. }
      match goal with |- context [fold_left atp_step ?l ?a] => destruct (fold_left atp_step l a) as [L1 u1] eqn:Ef end.
      pose proof (atp_fold' o _ _ _ L1 u1 Ep Hvps HI0 Ef) as HF.
      cbn [fa_args fa_unfilled].
      destruct (Nat.ltb_spec 0 u1) as [Hpos|Hzero].
      * apply (walk_above_correct (S p) p L1 u1 (prev_p sl p)); [lia|lia|exact HF|now left].
      * cbn [fa_args]. assert (u1 = 0) by lia. subst u1. unfold scan_cursor. f_equal.
        exact (inv_result_unfilled p L1 HF).
    + (* slot p is empty *)
      rewrite build_node_at_none by (intros o; rewrite Ep; discriminate).
      destruct a0 as [[lp0 L0] u0]. cbn [fa_args fa_unfilled] in *. inversion Hargs; subst lp0 L0.
      rewrite (match_pred p _ (fun p' => walk_above (S p) (build nv nb sl) (nearest_below (build nv nb sl) p')
                                                     (mkFargs (mkArgs None (repeat None nv)) u0))).
      destruct (Nat.eqb_spec p 0) as [E0|En0].
      * cbn [fa_args]. unfold scan_cursor. f_equal.
        -- symmetry. apply (nav_p_eq false). cbn [is_nb dle idk]. unfold idk. intros b _. lia.
        -- apply (inv_result_bottom p _ _ HI0). apply (nav_p_eq false). cbn [is_nb dle idk]. unfold idk. intros b _. lia.
      * rewrite nearest_below_is_prev. replace (S (pred p)) with p by lia.
        apply (walk_above_correct (S p) p (repeat None nv) u0 None); [lia|lia|exact HI0|].
        right. split; reflexivity.
    + apply nth_error_None in Ep. lia.
Qed.
End Fill.

(* ------------------------------------------------------------------ *)
(* DiagonalSubsection::mutate_subsection(pstart, pend, f, None) as a whole: grow the slot array, build
   the cursor by the backward walk, fold mutate_p over pstart..pend — equals re-building from scratch *)
Lemma wf_slots_app_none nv nb sl k : wf_slots nv nb sl -> wf_slots nv nb (sl ++ repeat None k).
Proof.
  intros H q o Hq. destruct (Nat.lt_ge_cases q (length sl)) as [Hlt|Hge].
  - rewrite nth_error_app1 in Hq by exact Hlt. exact (H q o Hq).
  - rewrite nth_error_app2 in Hq by exact Hge. apply nth_error_In, repeat_spec in Hq. discriminate.
Qed.

Theorem mutate_subsection_refines nv nb sl pstart decs :
  wf_slots nv nb sl -> Forall (wf_decision nv nb) decs ->
  0 < length decs ->
  let sl1 := sl ++ repeat None (pstart + length decs - length sl) in
  mutate_subsection (build nv nb sl) pstart decs = build nv nb (apply_decs sl1 pstart decs).
Proof.
  intros Hwf Hdecs Hpos sl1. unfold mutate_subsection.
  rewrite resize_refines. fold sl1.
  assert (Hwf1 : wf_slots nv nb sl1) by (apply wf_slots_app_none; exact Hwf).
  assert (Hlen1 : pstart + length decs <= length sl1).
  { unfold sl1. rewrite app_length, repeat_length. lia. }
  rewrite (fill_args_refines nv nb sl1 pstart Hwf1 ltac:(lia)).
  rewrite sweep_refines by assumption. reflexivity.
Qed.
