(* The pipeline theorem with the model's OWN cluster update (no validation wrapper).

   Proofs/DecomposeProofs.v proves that every labelling returned by [decompose] passes the validators.
   Hence, on every configuration whose operators act on variables in range, the validated cluster stage
   of Proofs/ValidatedPipeline.v and the model's cluster update have the same law (if [decompose] returns
   [None] — fuel exhausted — both leave the configuration alone), and the stationarity theorems hold for
   [cluster_cfg] and [pipeline_cfg], the terms identified with [ising_timestep] in
   Proofs/TimestepStationary.v. *)
From Coq Require Import List QArith ZArith NArith Bool Arith Lia Lqa.
From QmcV Require Import Model.Prog Model.Sse Model.Nav Model.Ham Model.Diagonal Model.Cluster Model.ClusterValid Model.Steps
     Proofs.ProgLemmas Proofs.FastOpsLemmas Proofs.DiagonalProofs Proofs.SseWeight Proofs.ClusterProofs
     Proofs.ClusterFlipProofs Proofs.HamProofs Proofs.Expect Proofs.SweepStationary Proofs.GroupKernel
     Proofs.TimestepStationary Proofs.ValidatedPipeline Proofs.DecomposeProofs.
Import ListNotations.
Open Scope Q_scope.

(* every bond of the table acts on variables below nv *)
Definition ham_vars_ok (H : ham) (nv : nat) : Prop :=
  forall b, (b < h_nbonds H)%nat -> forallb (fun v => Nat.ltb v nv) (h_vars H b) = true.

Lemma legal_in_range H nv sl : ham_vars_ok H nv -> all_legal H sl = true -> vars_in_range nv sl = true.
Proof.
  intros Hok Hl. unfold all_legal in Hl. rewrite forallb_forall in Hl.
  unfold vars_in_range. apply forallb_forall. intros [o|] Hin; [|reflexivity].
  specialize (Hl (Some o) Hin). cbn in Hl. unfold op_legal in Hl. rewrite !andb_true_iff in Hl.
  destruct Hl as [[[[[Hb Hv] _] _] _] _]. apply Nat.ltb_lt in Hb. apply nats_eqb_eq in Hv. rewrite Hv. now apply Hok.
Qed.

(* the validity test succeeds whenever the decomposition returns at all *)
Theorem cluster_valid_iff c :
  vars_in_range (length (fst c)) (snd c) = true ->
  cluster_valid c = (Nat.eqb (count_ops (snd c)) 0 || match decompose (snd c) with Some _ => true | None => false end)%bool.
Proof.
  destruct c as [st sl]. cbn [fst snd]. intros Hr. unfold cluster_valid. cbn [fst snd].
  destruct (Nat.eqb (count_ops sl) 0); [reflexivity|]. cbn [orb].
  destruct (decompose sl) as [[b n]|] eqn:Ed; [|reflexivity].
  destruct (decompose_valid sl b n Ed) as [Hl Hs]. now rewrite Hl, Hs, Hr.
Qed.

(* the validated stage and the model's cluster update have the same law *)
Theorem cluster_cfg_v_is_cluster_cfg c (f : cfg -> Q) :
  vars_in_range (length (fst c)) (snd c) = true ->
  expect (cluster_cfg_v c) f == expect (cluster_cfg c) f.
Proof.
  intros Hr. unfold cluster_cfg_v. rewrite (cluster_valid_iff c Hr). destruct c as [st sl]. cbn [fst snd] in *.
  destruct (Nat.eqb (count_ops sl) 0) eqn:E0; [reflexivity|]. cbn [orb].
  destruct (decompose sl) as [[b n]|] eqn:Ed; [reflexivity|].
  unfold cluster_cfg, cluster_update. cbn [fst snd]. rewrite E0, Ed. cbn [bind]. reflexivity.
Qed.

Section Unconditional.
  Variable H : ham.
  Hypothesis Hsym : sym_ham H.
  Variable nv L : nat.
  Hypothesis Hrange : ham_vars_ok H nv.
  Let xs := canon H (all_substates nv) L.

  Lemma canon_in_range st sl : In (st, sl) xs -> vars_in_range (length st) sl = true.
  Proof.
    intros Hin. destruct (canon_facts H nv L st sl Hin) as (Hg & _ & Hn).
    unfold good in Hg. cbn [fst snd] in Hg. apply andb_true_iff in Hg. destruct Hg as [_ Hleg].
    rewrite Hn. now apply (legal_in_range H nv sl).
  Qed.

  (* the model's cluster update leaves the SSE weight stationary on the complete configuration space *)
  Theorem cluster_stationary_canon beta : wstat xs (W H beta) cluster_cfg.
  Proof.
    apply (wstat_ext_in xs (W H beta) cluster_cfg_v).
    - intros [st sl] f Hin. apply cluster_cfg_v_is_cluster_cfg. cbn [fst snd]. now apply canon_in_range.
    - now apply cluster_v_stationary.
  Qed.

  Theorem pipeline_stationary_canon beta (upd : cfg -> prog cfg) :
    wstat xs (W H beta) upd -> wstat xs (W H beta) (pipeline_cfg upd).
  Proof.
    intros Hupd. unfold pipeline_cfg.
    apply (wstat_comp xs (W H beta) upd (fun c1 => bind (cluster_cfg c1) refresh_cfg)); [exact Hupd|].
    apply (wstat_comp xs (W H beta) cluster_cfg refresh_cfg); [apply cluster_stationary_canon|].
    apply (wstat_ext_in xs (W H beta) (refresh_sweep 0 nv)).
    - intros [st sl] f Hc. destruct (canon_facts H nv L st sl Hc) as (_ & _ & Hn).
      rewrite refresh_cfg_is_sweep. cbn [fst]. rewrite Hn. reflexivity.
    - apply (refresh_sweep_stationary H beta xs (sp_nodup H L xs (canon_space_ok H (all_substates nv) L))).
      intros st sl v. now apply (canon_free H nv L).
  Qed.

  Theorem metropolis_pipeline_stationary_canon beta :
    0 < beta -> (0 < h_nbonds H)%nat -> wstat xs (W H beta) (pipeline_cfg (update_cfg (met_update H beta))).
  Proof. intros Hb Hk. apply pipeline_stationary_canon. now apply metropolis_update_stationary_canon. Qed.

  Theorem heatbath_pipeline_stationary_canon beta :
    0 < beta -> wstat xs (W H beta) (pipeline_cfg (update_cfg (hb_update H (bond_weights H) beta))).
  Proof. intros Hb. apply pipeline_stationary_canon. now apply heatbath_update_stationary_canon. Qed.
End Unconditional.

(* ---------------- Ising instance ---------------- *)
Definition ising_edges_ok (g : ising) : bool :=
  forallb (fun e => match e with (x, y, _) => Nat.ltb x (i_nvars g) && Nat.ltb y (i_nvars g) end) (i_edges g).

Lemma ising_vars_ok g : has_long g = false -> ising_edges_ok g = true -> ham_vars_ok (ising_ham g) (i_nvars g).
Proof.
  intros Hh He b Hb. cbn [ising_ham h_nbonds h_vars] in *. unfold ising_nbonds in Hb. rewrite Hh in Hb.
  unfold ising_vars. destruct (Nat.ltb b (length (i_edges g))) eqn:E1.
  - destruct (nth_error (i_edges g) b) as [[[x y] j]|] eqn:En; [|reflexivity].
    unfold ising_edges_ok in He. rewrite forallb_forall in He. specialize (He _ (nth_error_In _ _ En)). change (Nat.ltb x (i_nvars g) && Nat.ltb y (i_nvars g) = true)%bool in He.
    apply andb_true_iff in He. destruct He as [Hx Hy]. cbn [forallb]. now rewrite Hx, Hy.
  - apply Nat.ltb_ge in E1.
    replace (Nat.ltb b (length (i_edges g) + i_nvars g)) with true by (symmetry; apply Nat.ltb_lt; lia).
    cbn [forallb]. rewrite andb_true_r. apply Nat.ltb_lt. lia.
Qed.

(* THE HEADLINE, now for the model's own timestep pipeline: for every Ising model without longitudinal field
   whose edges name existing spins, every beta > 0 and every cutoff, diagonal update -> cluster update ->
   free-spin refresh leaves the SSE weight stationary on the space of ALL consistent legal configurations *)
Theorem ising_model_pipeline_stationary g beta L :
  has_long g = false -> ising_edges_ok g = true -> 0 < beta -> (0 < ising_nbonds g)%nat ->
  wstat (canon (ising_ham g) (all_substates (i_nvars g)) L) (W (ising_ham g) beta)
        (pipeline_cfg (update_cfg (met_update (ising_ham g) beta))).
Proof.
  intros Hh He Hb Hk.
  apply (metropolis_pipeline_stationary_canon (ising_ham g) (ising_sym_ham g Hh) (i_nvars g) L (ising_vars_ok g Hh He) beta Hb).
  exact Hk.
Qed.

Theorem ising_model_heatbath_pipeline_stationary g beta L :
  has_long g = false -> ising_edges_ok g = true -> 0 < beta ->
  wstat (canon (ising_ham g) (all_substates (i_nvars g)) L) (W (ising_ham g) beta)
        (pipeline_cfg (update_cfg (hb_update (ising_ham g) (bond_weights (ising_ham g)) beta))).
Proof.
  intros Hh He Hb.
  apply (heatbath_pipeline_stationary_canon (ising_ham g) (ising_sym_ham g Hh) (i_nvars g) L (ising_vars_ok g Hh He) beta Hb).
Qed.

(* ---------------- with totality of the decomposition (Proofs/DecomposeTotal.v) ---------------- *)
From QmcV Require Import Proofs.DecomposeTotal.

(* the identification of the model's timestep with the pipeline needs no hypothesis about the decomposition *)
Theorem ising_timestep_is_pipeline_total g beta st sl (f : cfg -> Q) :
  has_long g = false -> wf st sl = true ->
  expect (ising_timestep g false beta (length sl) st sl) (obs_of f)
  == expect (pipeline_cfg (update_cfg (met_update (ising_ham g) beta)) (st, sl)) f.
Proof.
  intros Hh Hwf. apply ising_timestep_is_pipeline; try assumption. intros p r _ _. apply decompose_total.
Qed.

Theorem ising_timestep_is_pipeline_w_total g beta st sl (f : cfg -> Q) :
  has_long g = true -> wf st sl = true ->
  expect (ising_timestep g false beta (length sl) st sl) (obs_of f)
  == expect (pipeline_cfg_w (long_wf g) (update_cfg (met_update (ising_ham g) beta)) (st, sl)) f.
Proof.
  intros Hh Hwf. apply ising_timestep_is_pipeline_w; try assumption. intros p r _ _. apply decompose_total.
Qed.

Theorem cluster_cfg_is_gkernel_total c (f : cfg -> Q) :
  expect (cluster_cfg c) f == expect (gkernel cl_act cl_k c) f.
Proof. apply cluster_cfg_is_gkernel. intros _. apply decompose_total. Qed.

(* the validity test is decided by the operators' variables alone *)
Theorem cluster_valid_total c : vars_in_range (length (fst c)) (snd c) = true -> cluster_valid c = true.
Proof.
  intros Hr. rewrite (cluster_valid_iff c Hr). destruct (Nat.eqb (count_ops (snd c)) 0); [reflexivity|]. cbn [orb].
  destruct (decompose (snd c)) eqn:E; [reflexivity|]. exfalso. now apply (decompose_total (snd c)).
Qed.

(* legality is kept by the cluster update with the labelling the decomposition actually returns *)
From QmcV Require Import Proofs.LegalityProofs.
Corollary decomposed_flip_legal H sl st b n flips :
  decompose sl = Some (b, n) ->
  (forall o, In (Some o) sl -> is_edge o = false -> flip_sym H o) ->
  (forall o, In (Some o) sl -> is_edge o = true -> edge_free H o) ->
  all_legal H sl = true ->
  all_legal H (fst (apply_flips sl st b flips)) = true.
Proof.
  intros Hd H1 H2 Hl. destruct (decompose_valid sl b n Hd) as [_ Hs].
  exact (cluster_flip_legal_uniform H sl st b flips H1 H2 Hs Hl).
Qed.
