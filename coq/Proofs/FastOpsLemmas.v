(* Plumbing for the FastOps refinement proof: vectors, the observable link fields of a node
   vector, what the primitive writes do to them, and batches of per-variable writes. *)
From Coq Require Import List Bool Arith Lia.
From QmcV Require Import Model.Sse Model.Nav Model.FastOps Proofs.NavProofs.
Import ListNotations.

(* ---------------- vectors ---------------- *)
Lemma length_set_nth {A} (l : list A) i x : length (set_nth l i x) = length l.
Proof. revert i; induction l as [|a l IH]; intros [|i]; cbn; auto. Qed.

Lemma nth_error_set_nth_eq {A} (l : list A) i x : i < length l -> nth_error (set_nth l i x) i = Some x.
Proof. revert i; induction l as [|a l IH]; intros [|i] H; cbn in *; try lia; auto. apply IH. lia. Qed.

Lemma nth_error_set_nth_neq {A} (l : list A) i j x : i <> j -> nth_error (set_nth l i x) j = nth_error l j.
Proof. revert i j; induction l as [|a l IH]; intros [|i] [|j] H; cbn; try congruence; auto. Qed.

Lemma nth_set_nth_eq {A} (l : list A) i x d : i < length l -> nth i (set_nth l i x) d = x.
Proof. revert i; induction l as [|a l IH]; intros [|i] H; cbn in *; try lia; auto. apply IH. lia. Qed.

Lemma nth_set_nth_neq {A} (l : list A) i j x d : i <> j -> nth j (set_nth l i x) d = nth j l d.
Proof. revert i j; induction l as [|a l IH]; intros [|i] [|j] H; cbn; try congruence; auto. Qed.

Lemma set_nth_same {A} (l : list A) i x : nth_error l i = Some x -> set_nth l i x = l.
Proof. revert i; induction l as [|a l IH]; intros [|i] H; cbn in *; try congruence. f_equal. auto. Qed.

Lemma length_upd_nth {A} (l : list A) i f : length (upd_nth l i f) = length l.
Proof. revert i; induction l as [|a l IH]; intros [|i]; cbn; auto. Qed.

Lemma nth_error_upd_nth {A} (l : list A) i j f :
  nth_error (upd_nth l i f) j = if Nat.eqb i j then option_map f (nth_error l j) else nth_error l j.
Proof.
  revert i j; induction l as [|a l IH]; intros [|i] [|j]; cbn; auto.
  destruct (Nat.eqb _ _); reflexivity.
Qed.

Lemma list_ext {A} (a b : list A) : (forall i, nth_error a i = nth_error b i) -> a = b.
Proof.
  revert b; induction a as [|x a IH]; intros [|y b] H; auto.
  - specialize (H 0); discriminate.
  - specialize (H 0); discriminate.
  - pose proof (H 0) as H0. cbn in H0. inversion H0; subst. f_equal. apply IH. intros i. exact (H (S i)).
Qed.

Lemma list_ext_nth {A} (a b : list A) d :
  length a = length b -> (forall i, i < length a -> nth i a d = nth i b d) -> a = b.
Proof.
  revert b; induction a as [|x a IH]; intros [|y b] L H; cbn in L; try discriminate; auto.
  f_equal; [exact (H 0 ltac:(cbn; lia))|]. apply IH; [lia|]. intros i Hi. exact (H (S i) ltac:(cbn; lia)).
Qed.

Lemma nth_error_nth' {A} (l : list A) i d x : nth_error l i = Some x -> nth i l d = x.
Proof. apply nth_error_nth. Qed.

Lemma nth_map_seq {A} (f : nat -> A) n v d : v < n -> nth v (map f (seq 0 n)) d = f v.
Proof.
  intros H. rewrite nth_indep with (d' := f 0) by (rewrite map_length, seq_length; exact H).
  rewrite map_nth. now rewrite seq_nth.
Qed.

Lemma nth_error_seq n : forall a v, nth_error (seq a n) v = if Nat.ltb v n then Some (a + v) else None.
Proof.
  induction n as [|n IH]; intros a [|v]; cbn [seq nth_error]; auto.
  - now rewrite Nat.add_0_r.
  - rewrite IH. change (Nat.ltb (S v) (S n)) with (Nat.ltb v n). destruct (Nat.ltb v n); [|reflexivity].
    now rewrite Nat.add_succ_r.
Qed.

Lemma nth_error_map_seq {A} (f : nat -> A) n v :
  nth_error (map f (seq 0 n)) v = if Nat.ltb v n then Some (f v) else None.
Proof. rewrite nth_error_map, nth_error_seq. destruct (Nat.ltb v n); reflexivity. Qed.

Lemma nth_error_combine_seq {A} (l : list A) : forall k q,
  nth_error (combine (seq k (length l)) l) q = option_map (pair (k + q)) (nth_error l q).
Proof.
  induction l as [|a l IH]; intros k [|q]; cbn; auto.
  - now rewrite Nat.add_0_r.
  - rewrite IH. now rewrite Nat.add_succ_r.
Qed.

Lemma nth_error_enumerate {A} (l : list A) q :
  nth_error (enumerate l) q = option_map (pair q) (nth_error l q).
Proof. unfold enumerate. now rewrite nth_error_combine_seq. Qed.

Lemma In_enumerate {A} (l : list A) i x : In (i, x) (enumerate l) <-> nth_error l i = Some x.
Proof.
  split.
  - intros H. apply In_nth_error in H. destruct H as [q H]. rewrite nth_error_enumerate in H.
    destruct (nth_error l q) eqn:E; cbn in H; inversion H; subst. exact E.
  - intros H. apply nth_error_In with (n := i). rewrite nth_error_enumerate, H. reflexivity.
Qed.

Lemma enumerate_cons {A} (a : A) l :
  enumerate (a :: l) = (0, a) :: map (fun ix : nat * A => (S (fst ix), snd ix)) (enumerate l).
Proof.
  unfold enumerate. cbn [length seq combine]. f_equal.
  rewrite <- seq_shift. generalize (seq 0 (length l)) as s. revert l.
  induction l as [|b l IH]; intros [|i s]; cbn; auto. f_equal. apply IH.
Qed.

Lemma enumerate_combine_map {A B} (f : A -> B) (l : list A) :
  enumerate (combine (map f l) l) = map (fun ix : nat * A => (fst ix, (f (snd ix), snd ix))) (enumerate l).
Proof.
  apply list_ext. intros i. rewrite nth_error_enumerate, nth_error_map, nth_error_enumerate.
  assert (H : nth_error (combine (map f l) l) i = option_map (fun a => (f a, a)) (nth_error l i)).
  { revert i. induction l as [|a l IH]; intros [|i]; cbn; auto. }
  rewrite H. destruct (nth_error l i); reflexivity.
Qed.

(* ---------------- index_of ---------------- *)
Lemma index_of_nth_error v vs k : index_of v vs = Some k -> nth_error vs k = Some v.
Proof.
  revert k; induction vs as [|x vs IH]; intros k H; cbn [index_of] in H; [discriminate|].
  destruct (Nat.eqb_spec x v) as [->|Hne].
  - inversion H; subst. reflexivity.
  - destruct (index_of v vs) as [j|] eqn:E; cbn in H; inversion H; subst. cbn. now apply IH.
Qed.

Lemma nth_error_index_of v vs k : NoDup vs -> nth_error vs k = Some v -> index_of v vs = Some k.
Proof.
  revert k; induction vs as [|x vs IH]; intros k Hnd H; [destruct k; discriminate|].
  inversion Hnd as [|? ? Hnin Hnd']; subst. cbn [index_of]. destruct k as [|k]; cbn in H.
  - inversion H; subst. now rewrite Nat.eqb_refl.
  - destruct (Nat.eqb_spec x v) as [->|Hne].
    + exfalso. apply Hnin. eapply nth_error_In; eauto.
    + rewrite (IH k Hnd' H). reflexivity.
Qed.

Lemma index_of_none v vs : index_of v vs = None <-> ~ In v vs.
Proof.
  split.
  - intros H Hin. destruct (index_of_in_some v vs Hin) as [k Hk]. congruence.
  - intros H. destruct (index_of v vs) eqn:E; [|reflexivity]. exfalso. apply H. eapply index_of_some_in; eauto.
Qed.

Lemma index_of_lt v vs k : index_of v vs = Some k -> k < length vs.
Proof. intros H. apply index_of_nth_error in H. apply nth_error_Some. congruence. Qed.

Lemma nats_eqb_eq a b : nats_eqb a b = true <-> a = b.
Proof.
  unfold nats_eqb. revert b; induction a as [|x a IH]; intros [|y b]; cbn; split; intros H; try discriminate; auto.
  - apply andb_true_iff in H. destruct H as [H1 H2]. apply Nat.eqb_eq in H1. apply IH in H2. congruence.
  - inversion H; subst. rewrite Nat.eqb_refl. cbn. now apply IH.
Qed.

(* ---------------- folds of per-variable updates of a vector ---------------- *)
(* a fold over enumerate vars whose step for (relv, v) only touches entry v *)
Lemma fold_enum_pointwise {A} (step : list A -> nat * nat -> list A) (g : nat -> nat -> A -> A) :
  (forall l relv v v', nth_error (step l (relv, v)) v'
                       = if Nat.eqb v v' then option_map (g relv v) (nth_error l v') else nth_error l v') ->
  forall vars, NoDup vars -> forall l0 v',
  nth_error (fold_left step (enumerate vars) l0) v' =
  match index_of v' vars with
  | Some relv => option_map (g relv v') (nth_error l0 v')
  | None => nth_error l0 v'
  end.
Proof.
  intros Hstep vars.
  (* generalise the offset of the enumeration *)
  assert (G : forall k, NoDup vars -> forall l0 v',
    nth_error (fold_left step (combine (seq k (length vars)) vars) l0) v' =
    match index_of v' vars with
    | Some relv => option_map (g (k + relv) v') (nth_error l0 v')
    | None => nth_error l0 v'
    end).
  { induction vars as [|x vars IH]; intros k Hnd l0 v'; [reflexivity|].
    inversion Hnd as [|? ? Hnin Hnd']; subst. cbn [length seq combine fold_left index_of].
    rewrite (IH (S k) Hnd'). rewrite Hstep.
    destruct (Nat.eqb_spec x v') as [->|Hne].
    - replace (index_of v' vars) with (@None nat) by (symmetry; now apply index_of_none).
      now rewrite Nat.add_0_r.
    - destruct (index_of v' vars) as [j|]; cbn [option_map]; [|reflexivity].
      now rewrite Nat.add_succ_r. }
  intros Hnd l0 v'. exact (G 0 Hnd l0 v').
Qed.

Lemma fold_left_flat_map {A B C} (f : A -> C -> A) (g : B -> list C) (L : list B) : forall a,
  fold_left (fun a x => fold_left f (g x) a) L a = fold_left f (flat_map g L) a.
Proof. induction L as [|x L IH]; intros a; cbn; [reflexivity|]. now rewrite fold_left_app, IH. Qed.

Lemma fold_left_map {A B C} (f : A -> C -> A) (g : B -> C) (L : list B) : forall a,
  fold_left f (map g L) a = fold_left (fun a x => f a (g x)) L a.
Proof. induction L as [|x L IH]; intros a; cbn; auto. Qed.

Lemma fold_left_ext_in {A B} (f g : A -> B -> A) (L : list B) :
  (forall a x, In x L -> f a x = g a x) -> forall a, fold_left f L a = fold_left g L a.
Proof.
  induction L as [|x L IH]; intros H a; cbn; [reflexivity|].
  rewrite H by now left. apply IH. intros; apply H; now right.
Qed.

(* ---------------- observables of a node vector ---------------- *)
Definition links (d : bool) (nd : node) : list (option prel) := if d then n_next_v nd else n_prev_v nd.
Definition plink (d : bool) (nd : node) : option nat := if d then n_next nd else n_prev nd.
Definition set_v (d : bool) ops q r x := if d then set_next_v ops q r x else set_prev_v ops q r x.
Definition set_p (d : bool) ops q x := if d then set_next_p ops q x else set_prev_p ops q x.

Definition vlk (d : bool) (ops : list (option node)) (q r : nat) : option prel :=
  match node_at ops q with Some nd => nth r (links d nd) None | None => None end.
Definition plk (d : bool) (ops : list (option node)) (q : nat) : option nat :=
  match node_at ops q with Some nd => plink d nd | None => None end.
Definition nshape (nd : node) : op * nat * nat := (n_op nd, length (n_prev_v nd), length (n_next_v nd)).
Definition oshape (ops : list (option node)) (q : nat) := option_map (option_map nshape) (nth_error ops q).
Definition vlen (d : bool) (s : op * nat * nat) : nat := if d then snd s else snd (fst s).
Definition valid (d : bool) (ops : list (option node)) (q r : nat) : Prop :=
  exists s, oshape ops q = Some (Some s) /\ r < vlen d s.

Lemma node_ext na nb :
  nshape na = nshape nb -> (forall d, plink d na = plink d nb) ->
  (forall d r, r < vlen d (nshape na) -> nth r (links d na) None = nth r (links d nb) None) -> na = nb.
Proof.
  intros Hs Hp Hl. destruct na as [o1 p1 n1 pv1 nv1], nb as [o2 p2 n2 pv2 nv2].
  unfold nshape in *. cbn in *. inversion Hs as [[Ho Hlp Hln]].
  pose proof (Hp true) as H1. pose proof (Hp false) as H2. cbn in H1, H2. subst.
  f_equal.
  - apply list_ext_nth with (d := None); [exact Hlp|]. intros i Hi. exact (Hl false i Hi).
  - apply list_ext_nth with (d := None); [exact Hln|]. intros i Hi. exact (Hl true i Hi).
Qed.

Lemma oshape_node ops q s : oshape ops q = Some (Some s) -> exists nd, nth_error ops q = Some (Some nd) /\ nshape nd = s.
Proof.
  unfold oshape. destruct (nth_error ops q) as [[nd|]|]; cbn; intros H; inversion H; subst. eauto.
Qed.

Lemma node_at_some ops q nd : node_at ops q = Some nd <-> nth_error ops q = Some (Some nd).
Proof. unfold node_at. destruct (nth_error ops q) as [[x|]|]; split; congruence. Qed.

(* equality of slot q from equality of the observables *)
Lemma slot_ext a b q :
  oshape a q = oshape b q -> (forall d, plk d a q = plk d b q) ->
  (forall d r, valid d a q r -> vlk d a q r = vlk d b q r) -> nth_error a q = nth_error b q.
Proof.
  intros Hs Hp Hl. unfold oshape in Hs.
  destruct (nth_error a q) as [[na|]|] eqn:Ea, (nth_error b q) as [[nb|]|] eqn:Eb; cbn in Hs; try discriminate; auto.
  assert (Hs' : nshape na = nshape nb) by congruence. do 2 f_equal. apply node_ext; [exact Hs'| |].
  - intros d. specialize (Hp d). unfold plk, node_at in Hp. now rewrite Ea, Eb in Hp.
  - intros d r Hr. specialize (Hl d r). unfold vlk, node_at in Hl. rewrite Ea, Eb in Hl. apply Hl.
    exists (nshape na). split; [|exact Hr]. unfold oshape. now rewrite Ea.
Qed.

(* ---------------- primitive writes ---------------- *)
Lemma nth_error_upd_node ops q g q' :
  nth_error (upd_node ops q g) q' = if Nat.eqb q q' then option_map (option_map g) (nth_error ops q') else nth_error ops q'.
Proof. unfold upd_node. apply nth_error_upd_nth. Qed.

Lemma node_at_upd_node ops q g q' :
  node_at (upd_node ops q g) q' = if Nat.eqb q q' then option_map g (node_at ops q') else node_at ops q'.
Proof.
  unfold node_at. rewrite nth_error_upd_node. destruct (Nat.eqb q q'); [|reflexivity].
  destruct (nth_error ops q') as [[x|]|]; reflexivity.
Qed.

Lemma oshape_upd_node ops q g q' : (forall nd, nshape (g nd) = nshape nd) -> oshape (upd_node ops q g) q' = oshape ops q'.
Proof.
  intros Hg. unfold oshape. rewrite nth_error_upd_node. destruct (Nat.eqb q q'); [|reflexivity].
  destruct (nth_error ops q') as [[x|]|]; cbn; auto. now rewrite Hg.
Qed.

Lemma oshape_set_v d ops q r x q' : oshape (set_v d ops q r x) q' = oshape ops q'.
Proof.
  destruct d; cbn [set_v]; unfold set_next_v, set_prev_v; apply oshape_upd_node; intros nd;
    unfold nshape; cbn; now rewrite length_set_nth.
Qed.

Lemma oshape_set_p d ops q x q' : oshape (set_p d ops q x) q' = oshape ops q'.
Proof.
  destruct d; cbn [set_p]; unfold set_next_p, set_prev_p; apply oshape_upd_node; intros nd; reflexivity.
Qed.

Lemma plk_set_v d' d ops q r x q' : plk d' (set_v d ops q r x) q' = plk d' ops q'.
Proof.
  unfold plk. destruct d; cbn [set_v]; unfold set_next_v, set_prev_v; rewrite node_at_upd_node;
    destruct (Nat.eqb q q'); auto; destruct (node_at ops q'); cbn; auto; destruct d'; reflexivity.
Qed.

Lemma vlk_set_p d' d ops q x q' r' : vlk d' (set_p d ops q x) q' r' = vlk d' ops q' r'.
Proof.
  unfold vlk. destruct d; cbn [set_p]; unfold set_next_p, set_prev_p; rewrite node_at_upd_node;
    destruct (Nat.eqb q q'); auto; destruct (node_at ops q'); cbn; auto; destruct d'; reflexivity.
Qed.

Lemma plk_set_p_same d ops q x nd : node_at ops q = Some nd -> plk d (set_p d ops q x) q = x.
Proof.
  intros H. unfold plk. destruct d; cbn [set_p]; unfold set_next_p, set_prev_p; rewrite node_at_upd_node, Nat.eqb_refl, H; reflexivity.
Qed.

Lemma plk_set_p_other d' d ops q x q' : (d, q) <> (d', q') -> plk d' (set_p d ops q x) q' = plk d' ops q'.
Proof.
  intros H. unfold plk. destruct d; cbn [set_p]; unfold set_next_p, set_prev_p; rewrite node_at_upd_node;
    destruct (Nat.eqb_spec q q') as [->|]; auto; destruct (node_at ops q'); cbn; auto; destruct d'; cbn; congruence.
Qed.

Lemma valid_node d ops q r : valid d ops q r -> exists nd, node_at ops q = Some nd /\ r < length (links d nd).
Proof.
  intros (s & Hs & Hr). apply oshape_node in Hs. destruct Hs as (nd & Hn & <-). exists nd.
  split; [now apply node_at_some|]. destruct d; exact Hr.
Qed.

Lemma vlk_set_v_same d ops q r x : valid d ops q r -> vlk d (set_v d ops q r x) q r = x.
Proof.
  intros Hv. destruct (valid_node _ _ _ _ Hv) as (nd & Hn & Hr). unfold vlk.
  destruct d; cbn [set_v]; unfold set_next_v, set_prev_v; rewrite node_at_upd_node, Nat.eqb_refl, Hn; cbn;
    now apply nth_set_nth_eq.
Qed.

Lemma vlk_set_v_other d' d ops q r x q' r' : (d, q, r) <> (d', q', r') -> vlk d' (set_v d ops q r x) q' r' = vlk d' ops q' r'.
Proof.
  intros H. unfold vlk. destruct d; cbn [set_v]; unfold set_next_v, set_prev_v; rewrite node_at_upd_node;
    destruct (Nat.eqb_spec q q') as [->|]; auto; destruct (node_at ops q'); cbn; auto; destruct d'; cbn; auto;
    apply nth_set_nth_neq; congruence.
Qed.

Lemma valid_shape d a b q r : oshape a q = oshape b q -> valid d a q r -> valid d b q r.
Proof. intros E (s & Hs & Hr). exists s. split; [congruence|exact Hr]. Qed.

(* ---------------- batches of per-variable link writes ---------------- *)
Definition vwr := (bool * nat * nat * option prel)%type.
Definition apply_vwr (ops : list (option node)) (w : vwr) : list (option node) :=
  let '(d, q, r, x) := w in set_v d ops q r x.
Definition apply_vwrs (W : list vwr) (ops : list (option node)) := fold_left apply_vwr W ops.

Lemma oshape_apply_vwrs W : forall ops q, oshape (apply_vwrs W ops) q = oshape ops q.
Proof.
  unfold apply_vwrs. induction W as [|[[[d q0] r] x] W IH]; intros ops q; cbn [fold_left apply_vwr]; [reflexivity|].
  rewrite IH. apply oshape_set_v.
Qed.

Lemma plk_apply_vwrs W : forall d ops q, plk d (apply_vwrs W ops) q = plk d ops q.
Proof.
  unfold apply_vwrs. induction W as [|[[[d0 q0] r] x] W IH]; intros d ops q; cbn [fold_left apply_vwr]; [reflexivity|].
  rewrite IH. apply plk_set_v.
Qed.

Lemma vlk_apply_vwrs_miss W : forall d ops q r,
  (forall x, ~ In (d, q, r, x) W) -> vlk d (apply_vwrs W ops) q r = vlk d ops q r.
Proof.
  unfold apply_vwrs. induction W as [|[[[d0 q0] r0] x0] W IH]; intros d ops q r H; cbn [fold_left apply_vwr]; [reflexivity|].
  rewrite IH by (intros x Hx; apply (H x); now right).
  apply vlk_set_v_other. intros E. inversion E; subst. apply (H x0). now left.
Qed.

Lemma vlk_apply_vwrs_hit W : forall d ops q r x,
  In (d, q, r, x) W -> (forall x', In (d, q, r, x') W -> x' = x) -> valid d ops q r ->
  vlk d (apply_vwrs W ops) q r = x.
Proof.
  unfold apply_vwrs. induction W as [|w W IH] using rev_ind; intros d ops q r x Hin Hall Hv; [destruct Hin|].
  rewrite fold_left_app. cbn [fold_left]. destruct w as [[[d0 q0] r0] x0]. cbn [apply_vwr].
  destruct (Bool.bool_dec d0 d) as [Ed|Ed]; [destruct (Nat.eq_dec q0 q) as [Eq|Eq]; [destruct (Nat.eq_dec r0 r) as [Er|Er]|]|].
  - subst. rewrite (Hall x0) by (apply in_or_app; right; now left).
    apply vlk_set_v_same. eapply valid_shape; [|exact Hv]. symmetry. apply (oshape_apply_vwrs W).
  - rewrite vlk_set_v_other by congruence. apply IH; auto.
    + apply in_app_or in Hin. destruct Hin as [Hin|[Hin|[]]]; [exact Hin|]. inversion Hin; subst. congruence.
    + intros x' Hx'. apply Hall. apply in_or_app. now left.
  - rewrite vlk_set_v_other by congruence. apply IH; auto.
    + apply in_app_or in Hin. destruct Hin as [Hin|[Hin|[]]]; [exact Hin|]. inversion Hin; subst. congruence.
    + intros x' Hx'. apply Hall. apply in_or_app. now left.
  - rewrite vlk_set_v_other by congruence. apply IH; auto.
    + apply in_app_or in Hin. destruct Hin as [Hin|[Hin|[]]]; [exact Hin|]. inversion Hin; subst. congruence.
    + intros x' Hx'. apply Hall. apply in_or_app. now left.
Qed.

(* slot replacement *)
Lemma node_at_set_nth_neq ops p s q : p <> q -> node_at (set_nth ops p s) q = node_at ops q.
Proof. intros H. unfold node_at. now rewrite nth_error_set_nth_neq. Qed.
Lemma oshape_set_nth_neq ops p s q : p <> q -> oshape (set_nth ops p s) q = oshape ops q.
Proof. intros H. unfold oshape. now rewrite nth_error_set_nth_neq. Qed.
Lemma plk_set_nth_neq d ops p s q : p <> q -> plk d (set_nth ops p s) q = plk d ops q.
Proof. intros H. unfold plk. now rewrite node_at_set_nth_neq. Qed.
Lemma vlk_set_nth_neq d ops p s q r : p <> q -> vlk d (set_nth ops p s) q r = vlk d ops q r.
Proof. intros H. unfold vlk. now rewrite node_at_set_nth_neq. Qed.

(* conditional form: links only matter where there is a node *)
Lemma slot_ext' a b q :
  oshape a q = oshape b q ->
  (forall s, oshape a q = Some (Some s) ->
     (forall d, plk d a q = plk d b q) /\ (forall d r, valid d a q r -> vlk d a q r = vlk d b q r)) ->
  nth_error a q = nth_error b q.
Proof.
  intros Hs H. destruct (oshape a q) as [[s|]|] eqn:E.
  - destruct (H s eq_refl) as (Hp & Hl). apply slot_ext; [congruence|exact Hp|exact Hl].
  - unfold oshape in *. destruct (nth_error a q) as [[x|]|], (nth_error b q) as [[y|]|]; cbn in *; congruence.
  - unfold oshape in *. destruct (nth_error a q) as [[x|]|], (nth_error b q) as [[y|]|]; cbn in *; congruence.
Qed.

(* ---------------- head/tail pairs ---------------- *)
Lemma ends_remove {A} (Fi La P N : option A) f l :
  Fi = Some f -> La = Some l ->
  (let e := ends_of Fi La in
   let e1 := match P with Some _ => e | None => ends_drop_head e N end in
   match N with Some _ => e1 | None => ends_drop_tail e1 P end)
  = ends_of (match P with None => N | Some _ => Fi end) (match N with None => P | Some _ => La end).
Proof. intros -> ->. destruct P, N; reflexivity. Qed.

Lemma ends_insert {A} (Fi La P N : option A) x :
  ((P <> None \/ N <> None) -> exists f l, Fi = Some f /\ La = Some l) ->
  (P = None -> N = None -> Fi = None /\ La = None) ->
  (let e := ends_of Fi La in
   let e1 := match P with Some _ => e | None => ends_new_head e x end in
   match N with Some _ => e1 | None => ends_new_tail e1 x end)
  = ends_of (match P with None => Some x | Some _ => Fi end) (match N with None => Some x | Some _ => La end).
Proof.
  intros H1 H2. destruct P as [c|], N as [n|].
  - reflexivity.
  - destruct H1 as (f & l & -> & ->); [left; discriminate|]. reflexivity.
  - destruct H1 as (f & l & -> & ->); [right; discriminate|]. reflexivity.
  - destruct (H2 eq_refl eq_refl) as (-> & ->). reflexivity.
Qed.

(* ---------------- counting ---------------- *)
Definition b2n (b : bool) : nat := if b then 1 else 0.

Lemma filter_count_set_nth {A} (f : A -> bool) (l : list A) : forall p y x,
  nth_error l p = Some y ->
  length (filter f (set_nth l p x)) + b2n (f y) = length (filter f l) + b2n (f x).
Proof.
  induction l as [|h l IH]; intros [|p] y x H; cbn in H; try discriminate.
  - inversion H; subst. cbn [set_nth filter]. destruct (f y), (f x); cbn; lia.
  - cbn [set_nth filter]. specialize (IH p y x H). destruct (f h); cbn [length]; lia.
Qed.

Lemma count_ops_set_nth sl p y x : nth_error sl p = Some y ->
  count_ops (set_nth sl p x) + b2n (match y with Some _ => true | None => false end)
  = count_ops sl + b2n (match x with Some _ => true | None => false end).
Proof.
  intros H. unfold count_ops.
  exact (filter_count_set_nth (fun s : option op => match s with Some _ => true | None => false end) sl p y x H).
Qed.

Lemma count_bond_set_nth b sl p y x : nth_error sl p = Some y ->
  count_bond b (set_nth sl p x) + b2n (match y with Some o => Nat.eqb (o_bond o) b | None => false end)
  = count_bond b sl + b2n (match x with Some o => Nat.eqb (o_bond o) b | None => false end).
Proof.
  intros H. unfold count_bond.
  exact (filter_count_set_nth (fun s : option op => match s with Some o => Nat.eqb (o_bond o) b | None => false end) sl p y x H).
Qed.

Lemma upd_counters (c c' : nat -> nat) n bond g :
  (forall b, b < n -> (if Nat.eqb bond b then g (c b) else c b) = c' b) ->
  upd_nth (map c (seq 0 n)) bond g = map c' (seq 0 n).
Proof.
  intros H. apply list_ext. intros b. rewrite nth_error_upd_nth, !nth_error_map_seq.
  destruct (Nat.ltb_spec b n) as [Hb|Hb]; [|destruct (Nat.eqb bond b); reflexivity].
  specialize (H b Hb). destruct (Nat.eqb bond b); cbn; congruence.
Qed.

Lemma set_nth_upd_nth {A} (l : list A) i x : set_nth l i x = upd_nth l i (fun _ => x).
Proof. revert i; induction l as [|a l IH]; intros [|i]; cbn; auto. now rewrite IH. Qed.

Lemma nth_error_set_nth {A} (l : list A) i j x :
  nth_error (set_nth l i x) j = if Nat.eqb i j then option_map (fun _ => x) (nth_error l j) else nth_error l j.
Proof. rewrite set_nth_upd_nth. apply nth_error_upd_nth. Qed.

Lemma set_nth_set_nth {A} (l : list A) i x y : set_nth (set_nth l i x) i y = set_nth l i y.
Proof. revert i; induction l as [|a l IH]; intros [|i]; cbn; auto. now rewrite IH. Qed.
