(* Executable checks of the mutate_p model on concrete 3-variable operator strings: one example per
   branch of the Rust function, each compared with the structure and cursor a scan of the updated
   slots yields, two of them also against literal expected values; an exhaustive check over all
   strings of length <= 4 over a 7-letter alphabet; negative controls for the checker. *)
From Coq Require Import List Bool Arith.
From QmcV Require Import Model.Sse Model.Nav Model.FastOps Proofs.FastOpsProofs.
Import ListNotations.

Definition mk (vs : list nat) (b : nat) : op :=
  mkOp vs b (map (fun _ => false) vs) (map (fun _ => false) vs) false.

Definition A := mk [0; 1] 0.
Definition Bo := mk [1; 2] 1.
Definition C := mk [2] 2.
Definition D := mk [0; 1] 3.      (* same variables as A, different bond *)
Definition E := mk [2; 0] 1.

Definition nv := 3.
Definition nbd := Some 4.

(*                 p =   0     1       2     3        4     5       6   *)
Definition s0 : slots := [None; Some A; None; Some Bo; None; Some C; None].

(* the statement of mutate_p_refines on one input *)
Definition refines (sl : slots) (p : nat) (dec : option (option op)) : Prop :=
  mutate_p (build nv nbd sl) p dec (scan_cursor nv sl p)
  = (build nv nbd (apply_dec sl p dec), scan_cursor nv (apply_dec sl p dec) (S p)).

(* a readable projection of a structure: per slot (vars, bond, previous_p, next_p, previous_for_vars,
   next_for_vars), then n, p_ends, var_ends, bond_counters *)
Definition strip (F : fops) :=
  (map (option_map (fun nd => (o_vars (n_op nd), o_bond (n_op nd), n_prev nd, n_next nd, n_prev_v nd, n_next_v nd))) (f_ops F),
   f_n F, f_ends F, f_var_ends F, f_counters F).

(* ---------------- (a) the callback returns None ---------------- *)
Example noop_on_op : refines s0 3 None.
Proof. vm_compute. reflexivity. Qed.
Example noop_on_empty : refines s0 2 None.
Proof. vm_compute. reflexivity. Qed.

(* ---------------- (c2) insert into an empty slot ---------------- *)
Example insert_head : refines s0 0 (Some (Some E)).
Proof. vm_compute. reflexivity. Qed.
Example insert_middle : refines s0 2 (Some (Some E)).
Proof. vm_compute. reflexivity. Qed.
Example insert_tail : refines s0 6 (Some (Some E)).
Proof. vm_compute. reflexivity. Qed.
Example insert_into_empty_string : refines [None; None; None] 1 (Some (Some Bo)).
Proof. vm_compute. reflexivity. Qed.

(* the same middle insertion against literal values: E = [2;0] goes between A = [0;1] and Bo = [1;2] *)
Example insert_middle_literal :
  let '(F, a) := mutate_p (build nv nbd s0) 2 (Some (Some E)) (scan_cursor nv s0 2) in
  strip F
  = ([None;
      Some ([0; 1], 0, None, Some 2, [None; None], [Some (2, 1); Some (3, 0)]);
      Some ([2; 0], 1, Some 1, Some 3, [None; Some (1, 0)], [Some (3, 1); None]);
      Some ([1; 2], 1, Some 2, Some 5, [Some (1, 1); Some (2, 0)], [None; Some (5, 0)]);
      None;
      Some ([2], 2, Some 3, None, [Some (3, 1)], [None]);
      None],
     4, Some (1, 5),
     [Some ((1, 0), (2, 1)); Some ((1, 1), (3, 0)); Some ((2, 0), (5, 0))],
     Some [1; 2; 1; 0])
  /\ a = mkArgs (Some 2) [Some (2, 1); Some (1, 1); Some (2, 0)].
Proof. vm_compute. split; reflexivity. Qed.

(* ---------------- (c1) remove ---------------- *)
Example remove_head : refines s0 1 (Some None).
Proof. vm_compute. reflexivity. Qed.
Example remove_middle : refines s0 3 (Some None).
Proof. vm_compute. reflexivity. Qed.
Example remove_tail : refines s0 5 (Some None).
Proof. vm_compute. reflexivity. Qed.
Example remove_only_op : refines [None; Some A; None] 1 (Some None).
Proof. vm_compute. reflexivity. Qed.
Example remove_from_empty_slot : refines s0 2 (Some None).
Proof. vm_compute. reflexivity. Qed.

Example remove_middle_literal :
  let '(F, a) := mutate_p (build nv nbd s0) 3 (Some None) (scan_cursor nv s0 3) in
  strip F
  = ([None; Some ([0; 1], 0, None, Some 5, [None; None], [None; None]);
      None; None; None; Some ([2], 2, Some 1, None, [None], [None]); None],
     2, Some (1, 5),
     [Some ((1, 0), (1, 0)); Some ((1, 1), (1, 1)); Some ((5, 0), (5, 0))],
     Some [1; 0; 1; 0])
  /\ a = mkArgs (Some 1) [Some (1, 0); Some (1, 1); None].
Proof. vm_compute. split; reflexivity. Qed.

Example remove_only_op_literal :
  fst (mutate_p (build nv nbd [None; Some A; None]) 1 (Some None) (scan_cursor nv [None; Some A; None] 1))
  = mkFops [None; None; None] 0 None [None; None; None] (Some [0; 0; 0; 0]).
Proof. vm_compute. reflexivity. Qed.

(* ---------------- (b) quick install: same variables, different bond ---------------- *)
Example same_vars_replace : refines s0 1 (Some (Some D)).
Proof. vm_compute. reflexivity. Qed.
Example same_vars_replace_counters :
  f_counters (fst (mutate_p (build nv nbd s0) 1 (Some (Some D)) (scan_cursor nv s0 1))) = Some [0; 1; 1; 1].
Proof. vm_compute. reflexivity. Qed.

(* ---------------- (c1)+(c2) replace by an operator on different variables ---------------- *)
Example replace_diff_vars_head : refines s0 1 (Some (Some E)).
Proof. vm_compute. reflexivity. Qed.
Example replace_diff_vars_middle : refines s0 3 (Some (Some E)).
Proof. vm_compute. reflexivity. Qed.
Example replace_diff_vars_tail : refines s0 5 (Some (Some A)).
Proof. vm_compute. reflexivity. Qed.
(* same variable set in a different order is NOT the quick-install branch (Vec equality) *)
Example replace_permuted_vars : refines s0 1 (Some (Some (mk [1; 0] 2))).
Proof. vm_compute. reflexivity. Qed.

(* ---------------- a sweep with one decision per slot ---------------- *)
Definition decs0 : list (option (option op)) :=
  [Some (Some E); Some None; None; Some (Some D); Some (Some C); Some (Some A); Some None].
Example sweep_example :
  sweep (build nv nbd s0) (scan_cursor nv s0 0) 0 decs0
  = (build nv nbd (apply_decs s0 0 decs0), scan_cursor nv (apply_decs s0 0 decs0) 7).
Proof. vm_compute. reflexivity. Qed.
Example sweep_example_contents :
  contents (fst (sweep (build nv nbd s0) (scan_cursor nv s0 0) 0 decs0))
  = [Some E; None; None; Some D; Some C; Some A; None].
Proof. vm_compute. reflexivity. Qed.

(* the hypotheses of the theorems are decidable and hold for these inputs *)
Example side_conditions :
  wf_slots_b nv nbd s0 = true /\ forallb (wf_decision_b nv nbd) decs0 = true.
Proof. vm_compute. split; reflexivity. Qed.

(* creation and growth *)
Example new_then_grow :
  resize_ops (new_fops nv nbd) 3 = build nv nbd [None; None; None].
Proof. vm_compute. reflexivity. Qed.

(* ---------------- exhaustive check on small inputs ---------------- *)
Definition alphabet : list (option op) :=
  [None; Some (mk [0] 0); Some (mk [1; 0] 1); Some (mk [1; 2] 2); Some (mk [2; 0; 1] 3);
   Some (mk [0; 1] 0); Some (mk [2] 1)].

Fixpoint strings (n : nat) : list slots :=
  match n with O => [[]] | S k => flat_map (fun s => map (fun x => x :: s) alphabet) (strings k) end.

Definition decisions : list (option (option op)) := None :: map Some alphabet.

Definition check_all (n : nat) (nb : option nat) : bool :=
  forallb (fun sl => forallb (fun p => forallb (fun d => refines_b 3 nb sl p d) decisions) (seq 0 n)) (strings n).

(* 7 + 2*49 + 3*343 strings-with-position, 8 decisions each *)
Example exhaustive_up_to_3 : check_all 1 (Some 4) && check_all 2 (Some 4) && check_all 3 (Some 4) = true.
Proof. vm_compute. reflexivity. Qed.
(* 2401 strings * 4 positions * 8 decisions = 76832 cases *)
Example exhaustive_4 : check_all 4 (Some 4) = true.
Proof. vm_compute. reflexivity. Qed.
Example exhaustive_3_no_counters : check_all 3 None = true.
Proof. vm_compute. reflexivity. Qed.

(* negative controls: the boolean checker does reject wrong answers *)
Example control_wrong_cursor :
  (* a cursor that claims no operator precedes slot 3 *)
  let '(F, _) := mutate_p (build nv nbd s0) 3 (Some None) (mkArgs None [None; None; None]) in
  fops_eqb F (build nv nbd (set_nth s0 3 None)) = false.
Proof. vm_compute. reflexivity. Qed.
Example control_wrong_expectation :
  let '(F, a) := mutate_p (build nv nbd s0) 2 (Some (Some E)) (scan_cursor nv s0 2) in
  fops_eqb F (build nv nbd s0) = false /\ margs_eqb a (scan_cursor nv s0 3) = false.
Proof. vm_compute. split; reflexivity. Qed.
