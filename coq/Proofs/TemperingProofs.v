(* Replica exchange: acceptance probability, what a swap moves, shared cutoff (C10). *)
From Coq Require Import List QArith Qminmax Qpower ZArith NArith Bool Arith Lia Lqa.
From QmcV Require Import Model.Prog Model.Sse Model.Ham Model.Diagonal Model.Tempering Proofs.ProgLemmas.
Import ListNotations.
Open Scope Q_scope.

Lemma qmin1q_range q : 0 <= qmin1q q /\ qmin1q q <= 1.
Proof.
  unfold qmin1q. destruct (Qle_bool 1 q) eqn:E1; [lra|].
  destruct (Qle_bool q 0) eqn:E0; [lra|].
  assert (~ 1 <= q) by (intros H; apply Qle_bool_iff in H; congruence).
  assert (~ q <= 0) by (intros H'; apply Qle_bool_iff in H'; congruence).
  lra.
Qed.

Lemma qmin1q_spec q : 0 <= q -> qmin1q q == Qmin 1 q.
Proof.
  intros Hq. unfold qmin1q. destruct (Qle_bool 1 q) eqn:E1.
  - apply Qle_bool_iff in E1. symmetry. apply Q.min_l. exact E1.
  - assert (H1 : ~ 1 <= q) by (intros H; apply Qle_bool_iff in H; congruence).
    destruct (Qle_bool q 0) eqn:E0.
    + apply Qle_bool_iff in E0. rewrite Q.min_r by lra. lra.
    + rewrite Q.min_r by lra. reflexivity.
Qed.

(* a single pair is exchanged with probability exactly min(1, p_swap) *)
Lemma pair_swap_probability {A} (ps : A -> A -> Q) (swp : A -> A -> A * A) a b :
  mass (fun r : list A * nat => Nat.eqb (snd r) 1) (denote (phase ps swp [a; b])) == qmin1q (ps a b).
Proof.
  cbn [phase]. set (p := qmin1q (ps a b)).
  pose proof (qmin1q_range (ps a b)) as Hr. fold p in Hr.
  cbn [denote length seq flat_map nth Qsum fold_right map app bind Nat.eqb].
  destruct (swp a b) as [a' b'].
  cbn [denote bind dscale map app].
  unfold mass. cbn [map snd Nat.eqb Qsum fold_right].
  field_simplify_eq; [reflexivity|lra].
Qed.

Lemma pair_swap_result {A} (ps : A -> A -> Q) (swp : A -> A -> A * A) a b p l c :
  In (p, (l, c)) (denote (phase ps swp [a; b])) ->
  (c = 1%nat /\ l = [fst (swp a b); snd (swp a b)]) \/ (c = 0%nat /\ l = [a; b]).
Proof.
  cbn [phase denote length seq flat_map nth bind Nat.eqb app].
  destruct (swp a b) as [a' b']. cbn [denote bind dscale map app fst snd].
  intros [H|[H|[]]]; inversion H; subst; auto.
Qed.

(* an exchange moves operator string and state only *)
Lemma swap_keeps_position a b :
  let '(a', b') := swap_replicas a b in
  rp_ham a' = rp_ham a /\ rp_beta a' = rp_beta a /\ rp_cutoff a' = rp_cutoff a
  /\ rp_ham b' = rp_ham b /\ rp_beta b' = rp_beta b /\ rp_cutoff b' = rp_cutoff b
  /\ rp_state a' = rp_state b /\ rp_slots a' = rp_slots b
  /\ rp_state b' = rp_state a /\ rp_slots b' = rp_slots a.
Proof. cbn. repeat split. Qed.

(* all replicas share the maximum cutoff afterwards; nothing else changes and no cutoff shrinks *)
Lemma fold_max_ge (l : list replica) r :
  In r l -> (rp_cutoff r <= fold_right (fun r acc => Nat.max (rp_cutoff r) acc) 0%nat l)%nat.
Proof.
  induction l as [|x l IH]; intros Hin; [contradiction|]. cbn [fold_right].
  destruct Hin as [->|Hin]; [lia|]. specialize (IH Hin). lia.
Qed.

Lemma equalise_spec l r' :
  In r' (equalise l) ->
  exists r, In r l /\ rp_ham r' = rp_ham r /\ rp_beta r' = rp_beta r /\ rp_state r' = rp_state r
            /\ rp_slots r' = pad (rp_cutoff r') (rp_slots r)
            /\ (rp_cutoff r <= rp_cutoff r')%nat
            /\ rp_cutoff r' = fold_right (fun r acc => Nat.max (rp_cutoff r) acc) 0%nat l.
Proof.
  unfold equalise. intros Hin. apply in_map_iff in Hin. destruct Hin as [r [<- Hr]].
  exists r. cbn. repeat split; auto. now apply fold_max_ge.
Qed.

Lemma equalise_shared l a b : In a (equalise l) -> In b (equalise l) -> rp_cutoff a = rp_cutoff b.
Proof.
  intros Ha Hb. apply equalise_spec in Ha. apply equalise_spec in Hb.
  destruct Ha as (_ & _ & _ & _ & _ & _ & _ & ->). destruct Hb as (_ & _ & _ & _ & _ & _ & _ & ->).
  reflexivity.
Qed.

(* the temperature factor is the ratio of beta^n factors of the four configuration weights *)
Lemma qpow_Qpower q n : qpow q n == Qpower q (Z.of_nat n).
Proof.
  induction n as [|n IH]; [reflexivity|].
  cbn [qpow]. rewrite IH. rewrite Nat2Z.inj_succ. unfold Z.succ.
  rewrite Qpower_plus' by lia. rewrite Qpower_1_r. ring.
Qed.

Lemma beta_factor ba bb (na nb : nat) : 0 < ba -> 0 < bb ->
  qpowz (ba / bb) (Z.of_nat nb - Z.of_nat na)
  == (qpow ba nb * qpow bb na) / (qpow ba na * qpow bb nb).
Proof.
  intros Ha Hb. unfold qpowz. rewrite !qpow_Qpower.
  assert (Hnz : ~ ba / bb == 0).
  { intros E. assert (0 < ba / bb) by (apply Qdiv_pos; assumption). lra. }
  rewrite Qpower_minus by exact Hnz. rewrite !Qdiv_power.
  pose proof (Qpower_0_lt ba (Z.of_nat na) Ha). pose proof (Qpower_0_lt ba (Z.of_nat nb) Ha).
  pose proof (Qpower_0_lt bb (Z.of_nat na) Hb). pose proof (Qpower_0_lt bb (Z.of_nat nb) Hb).
  field. repeat split; lra.
Qed.
