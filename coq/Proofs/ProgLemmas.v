(* Generic lemmas about exact distributions ([denote], [mass]) over Q. *)
From Coq Require Import List QArith ZArith NArith Bool Arith Lia Lqa.
From QmcV Require Import Model.Prog.
Import ListNotations.
Open Scope Q_scope.

Lemma Qsum_app l1 l2 : Qsum (l1 ++ l2) == Qsum l1 + Qsum l2.
Proof.
  unfold Qsum. induction l1 as [|x l1 IH]; cbn [app fold_right].
  - lra.
  - rewrite IH. lra.
Qed.

Lemma mass_nil {A} (P : A -> bool) : mass P [] == 0.
Proof. reflexivity. Qed.

Lemma mass_cons {A} (P : A -> bool) p a d :
  mass P ((p, a) :: d) == (if P a then p else 0) + mass P d.
Proof. reflexivity. Qed.

Lemma mass_app {A} (P : A -> bool) d1 d2 : mass P (d1 ++ d2) == mass P d1 + mass P d2.
Proof. unfold mass. rewrite map_app. apply Qsum_app. Qed.

Lemma mass_dscale {A} (P : A -> bool) q d : mass P (dscale q d) == q * mass P d.
Proof.
  induction d as [|[p a] d IH].
  - cbn. lra.
  - change (dscale q ((p, a) :: d)) with ((q * p, a) :: dscale q d).
    rewrite !mass_cons, IH. destruct (P a); lra.
Qed.

Lemma mass_flat_map {A B} (P : A -> bool) (g : B -> dist A) l :
  mass P (flat_map g l) == Qsum (map (fun i => mass P (g i)) l).
Proof.
  induction l as [|x l IH]; cbn [flat_map map].
  - reflexivity.
  - rewrite mass_app, IH. reflexivity.
Qed.

Lemma mass_ret {A} (P : A -> bool) a : mass P (denote (Ret a)) == (if P a then 1 else 0).
Proof. cbn. destruct (P a); lra. Qed.

Lemma Qsum_all_zero {B} (g : B -> Q) l :
  (forall i, In i l -> g i == 0) -> Qsum (map g l) == 0.
Proof.
  induction l as [|x l IH]; intros H; cbn [map Qsum fold_right].
  - reflexivity.
  - change (fold_right Qplus 0 (map g l)) with (Qsum (map g l)).
    rewrite IH by (intros; apply H; now right). rewrite (H x) by now left. lra.
Qed.

(* a sum with a single non-zero term *)
Lemma Qsum_single {B} (g : B -> Q) (l : list B) (b : B) :
  NoDup l -> In b l -> (forall i, In i l -> i <> b -> g i == 0) ->
  Qsum (map g l) == g b.
Proof.
  induction l as [|x l IH]; intros Hnd Hin Hz; [contradiction|].
  cbn [map Qsum fold_right]. change (fold_right Qplus 0 (map g l)) with (Qsum (map g l)).
  inversion Hnd as [|? ? Hx Hnd']; subst.
  destruct Hin as [->|Hin].
  - rewrite Qsum_all_zero; [lra|].
    intros i Hi. apply Hz; [now right|]. intros ->. contradiction.
  - rewrite IH; auto.
    + rewrite (Hz x); [lra|now left|]. intros ->. contradiction.
    + intros i Hi Hne. apply Hz; [now right|assumption].
Qed.

Lemma Qsum_ext {B} (g h : B -> Q) l :
  (forall i, In i l -> g i == h i) -> Qsum (map g l) == Qsum (map h l).
Proof.
  induction l as [|x l IH]; intros H; cbn [map Qsum fold_right]; [reflexivity|].
  change (fold_right Qplus 0 (map g l)) with (Qsum (map g l)).
  change (fold_right Qplus 0 (map h l)) with (Qsum (map h l)).
  rewrite IH by (intros; apply H; now right). rewrite (H x) by now left. reflexivity.
Qed.

Lemma Qsum_nonneg l : Forall (fun q => 0 <= q) l -> 0 <= Qsum l.
Proof.
  induction 1 as [|x l Hx Hl IH]; cbn [Qsum fold_right]; [lra|].
  change (fold_right Qplus 0 l) with (Qsum l). lra.
Qed.

Lemma Qsum_ge_elem l x : Forall (fun q => 0 <= q) l -> In x l -> x <= Qsum l.
Proof.
  induction 1 as [|y l Hy Hl IH]; intros Hin; [contradiction|].
  cbn [Qsum fold_right]. change (fold_right Qplus 0 l) with (Qsum l).
  pose proof (Qsum_nonneg l Hl). destruct Hin as [->|Hin]; [lra|].
  specialize (IH Hin). lra.
Qed.

(* ---------------- clipped probabilities ---------------- *)
Lemma qclip_unit q : 0 < q -> q <= 1 -> qclip q == q.
Proof.
  intros H0 H1. unfold qclip, qmin1.
  destruct (Qle_bool q 0) eqn:E0.
  - apply Qle_bool_iff in E0. lra.
  - destruct (Qle_bool 1 q) eqn:E1; [|reflexivity].
    apply Qle_bool_iff in E1. lra.
Qed.

Lemma qclip_range q : 0 <= qclip q /\ qclip q <= 1.
Proof.
  unfold qclip, qmin1. destruct (Qle_bool q 0) eqn:E0; [lra|].
  destruct (Qle_bool 1 q) eqn:E1; [lra|].
  assert (~ q <= 0) by (intros H; apply Qle_bool_iff in H; congruence).
  assert (~ 1 <= q) by (intros H'; apply Qle_bool_iff in H'; congruence).
  lra.
Qed.

Lemma Qdiv_pos a b : 0 < a -> 0 < b -> 0 < a / b.
Proof. intros Ha Hb. apply Qlt_shift_div_l; [assumption|lra]. Qed.

Lemma Qdiv_le1 a b : 0 < b -> a <= b -> a / b <= 1.
Proof. intros Hb H. apply Qle_shift_div_r; [assumption|lra]. Qed.

Lemma ratio_prob_le x d : 0 < x -> 0 < d -> x <= d -> ratio_prob x d == x / d.
Proof.
  intros Hx Hd Hle. unfold ratio_prob.
  destruct (Qle_bool x d) eqn:E.
  - destruct (Qle_bool d 0) eqn:E0.
    + apply Qle_bool_iff in E0. lra.
    + apply qclip_unit; [now apply Qdiv_pos|now apply Qdiv_le1].
  - assert (~ x <= d) by (intros H; apply Qle_bool_iff in H; congruence). contradiction.
Qed.

Lemma ratio_prob_gt x d : d < x -> ratio_prob x d == 1.
Proof.
  intros H. unfold ratio_prob. destruct (Qle_bool x d) eqn:E; [|reflexivity].
  apply Qle_bool_iff in E. lra.
Qed.

(* the heart of Metropolis detailed balance, in the comparison form the code uses *)
Lemma ratio_balance x d : 0 < x -> 0 < d -> ratio_prob x d * d == x * ratio_prob d x.
Proof.
  intros Hx Hd. destruct (Qlt_le_dec d x) as [Hgt|Hle].
  - rewrite (ratio_prob_gt x d Hgt). rewrite (ratio_prob_le d x Hd Hx) by lra. field. lra.
  - rewrite (ratio_prob_le x d Hx Hd Hle).
    destruct (Qlt_le_dec x d) as [Hlt|Hge].
    + rewrite (ratio_prob_gt d x Hlt). field. lra.
    + rewrite (ratio_prob_le d x Hd Hx Hge).
      assert (E : x == d) by lra.
      transitivity x; [field; lra|]. transitivity d; [exact E|field; lra].
Qed.

Lemma ratio_prob_pos x d : 0 < x -> 0 < d -> 0 < ratio_prob x d.
Proof.
  intros Hx Hd. destruct (Qlt_le_dec d x) as [Hgt|Hle].
  - rewrite (ratio_prob_gt x d Hgt). lra.
  - rewrite (ratio_prob_le x d Hx Hd Hle). now apply Qdiv_pos.
Qed.

Lemma ratio_prob_range x d : 0 <= ratio_prob x d /\ ratio_prob x d <= 1.
Proof.
  unfold ratio_prob. destruct (Qle_bool x d); [|lra].
  destruct (Qle_bool d 0); [lra|]. apply qclip_range.
Qed.

(* ---------------- primitive masses ---------------- *)
Lemma mass_bernratio {A} (P : A -> bool) a b (f : bool -> prog A) :
  mass P (denote (BernRatio a b f))
  == ratio_prob a b * mass P (denote (f true)) + (1 - ratio_prob a b) * mass P (denote (f false)).
Proof. cbn [denote]. rewrite mass_app, !mass_dscale. reflexivity. Qed.

Lemma mass_bern {A} (P : A -> bool) p (f : bool -> prog A) :
  mass P (denote (Bern p f))
  == qclip p * mass P (denote (f true)) + (1 - qclip p) * mass P (denote (f false)).
Proof. cbn [denote]. rewrite mass_app, !mass_dscale. reflexivity. Qed.

Lemma mass_unif {A} (P : A -> bool) k (f : N -> prog A) :
  mass P (denote (Unif (N.of_nat k) f))
  == Qsum (map (fun i => (1 / (Z.of_nat k # 1)) * mass P (denote (f (N.of_nat i)))) (seq 0 k)).
Proof.
  cbn [denote]. rewrite Nnat.Nat2N.id, mass_flat_map.
  apply Qsum_ext. intros i _. rewrite mass_dscale.
  rewrite nat_N_Z. reflexivity.
Qed.

Lemma mass_chooseacc {A} (P : A -> bool) cs (f : option nat -> prog A) :
  mass P (denote (ChooseAcc cs f))
  == Qsum (map (fun i =>
        let '(mw, w) := nth i cs (0, 0) in
        let acc := if Qle_bool mw 0 then 0 else qclip (w / mw) in
        mw / Qsum (map fst cs) * acc * mass P (denote (f (Some i)))
        + mw / Qsum (map fst cs) * (1 - acc) * mass P (denote (f None))) (seq 0 (length cs))).
Proof.
  cbn [denote]. rewrite mass_flat_map. apply Qsum_ext. intros i _.
  destruct (nth i cs (0, 0)) as [mw w]. rewrite mass_app, !mass_dscale. reflexivity.
Qed.
