(* Theorems about the transcribed RVB update (Model/Rvb.v):
   - util/bondcontainer.rs refines a finite map with weights; a draw returns key i with probability
     w_i / total, a zero-weight key with probability exactly 0;
   - util/vec_help.rs remove_doubles keeps exactly the elements of odd multiplicity;
   - contiguous_bits: cluster size k has probability 2^-k (k <= 64), a probability distribution;
   - structural contract of the whole update, for every sequence of random draws: the set of occupied
     imaginary-time slots, the operator count, the lengths of string and state never change. *)
From Coq Require Import List QArith ZArith NArith Bool Arith Lia Lqa Permutation Sorted.
From QmcV Require Import Model.Prog Model.Sse Model.Ham Model.Rvb
     Proofs.ProgLemmas Proofs.SseWeight Proofs.ClusterFlipProofs Proofs.LegalityProofs Proofs.ProgSafety.
Import ListNotations.

(* ================================================================== *)
(* BondContainer                                                      *)
Section BC.
  Variable T : Type.
  Variable idx : T -> nat.
  Notation bcT := (bc T).
  Definition keys_of (c : bcT) : list nat := map (fun kv => idx (fst kv)) c.

  Lemma bc_find_none c k i : bc_find T idx c k i = None <-> ~ In k (keys_of c).
  Proof.
    revert i. induction c as [|[t w] r IH]; intros i; cbn [bc_find keys_of map In fst]; [tauto|].
    destruct (Nat.eqb_spec (idx t) k) as [E|E].
    - split; [discriminate|]. intros H. exfalso. apply H. now left.
    - rewrite IH. unfold keys_of. tauto.
  Qed.

  Lemma bc_find_some c k i j :
    bc_find T idx c k i = Some j ->
    exists t w, nth_error c (j - i) = Some (t, w) /\ idx t = k /\ (i <= j)%nat.
  Proof.
    revert i. induction c as [|[t w] r IH]; intros i; cbn [bc_find]; [discriminate|].
    destruct (Nat.eqb_spec (idx t) k) as [E|E].
    - intros H. inversion H; subst. exists t, w. rewrite Nat.sub_diag. cbn. auto.
    - intros H. apply IH in H. destruct H as (t' & w' & Hn & Hk & Hle).
      exists t', w'. replace (j - i)%nat with (S (j - S i)) by lia. cbn. split; [exact Hn|split; [exact Hk|lia]].
  Qed.

  Lemma bc_contains_in c k : bc_contains idx c k = true <-> In k (keys_of c).
  Proof.
    unfold bc_contains. destruct (bc_find T idx c k 0) eqn:E.
    - split; [intros _|reflexivity].
      destruct (in_dec Nat.eq_dec k (keys_of c)) as [H|H]; [exact H|].
      pose proof (proj2 (bc_find_none c k 0%nat) H) as H'. rewrite H' in E. discriminate.
    - split; [discriminate|]. intros H. pose proof (proj1 (bc_find_none c k 0%nat) E). contradiction.
  Qed.

  Lemma keys_set_nth_same c i t0 w0 w :
    nth_error c i = Some (t0, w0) -> keys_of (set_nth c i (t0, w)) = keys_of c.
  Proof.
    revert i. induction c as [|[t' w'] r IH]; intros [|i]; cbn; try discriminate.
    - intros H. now inversion H; subst.
    - intros H. f_equal. now apply IH.
  Qed.

  Lemma keys_app c d : keys_of (c ++ d) = keys_of c ++ keys_of d.
  Proof. unfold keys_of. apply map_app. Qed.

  (* insert keeps keys distinct and has map semantics *)
  Theorem bc_insert_keys c t w :
    keys_of (bc_insert idx c t w) = if bc_contains idx c (idx t) then keys_of c else keys_of c ++ [idx t].
  Proof.
    unfold bc_insert, bc_contains. destruct (bc_find T idx c (idx t) 0) as [j|] eqn:E.
    - apply bc_find_some in E. destruct E as (t0 & w0 & Hn & _ & _). rewrite Nat.sub_0_r in Hn.
      rewrite Hn. now apply keys_set_nth_same with (w0 := w0).
    - rewrite keys_app. reflexivity.
  Qed.

  Theorem bc_insert_nodup c t w : NoDup (keys_of c) -> NoDup (keys_of (bc_insert idx c t w)).
  Proof.
    intros H. rewrite bc_insert_keys. destruct (bc_contains idx c (idx t)) eqn:E; [exact H|].
    assert (Hn : ~ In (idx t) (keys_of c)).
    { intros Hin. apply bc_contains_in in Hin. congruence. }
    eapply Permutation_NoDup; [apply Permutation_cons_append|]. constructor; assumption.
  Qed.

  Theorem bc_insert_contains c t w k :
    bc_contains idx (bc_insert idx c t w) k = Nat.eqb k (idx t) || bc_contains idx c k.
  Proof.
    apply eq_true_iff_eq. rewrite bc_contains_in, bc_insert_keys, orb_true_iff, bc_contains_in, Nat.eqb_eq.
    destruct (bc_contains idx c (idx t)) eqn:E.
    - apply bc_contains_in in E. split; [tauto|]. intros [->|H]; assumption.
    - rewrite in_app_iff. cbn. split; [intros [H|[H|[]]]; auto|intros [H|H]; auto].
  Qed.

  (* swap-remove: a permutation of the list without the removed key *)
  Lemma nth_error_last_app {A} (l : list A) x : nth_error (l ++ [x]) (length (l ++ [x]) - 1) = Some x.
  Proof. rewrite app_length. cbn. replace (length l + 1 - 1)%nat with (length l) by lia.
         rewrite nth_error_app2 by lia. now rewrite Nat.sub_diag. Qed.

  Theorem bc_remove_index_perm (c : bcT) i x :
    nth_error c i = Some x -> Permutation (x :: bc_remove_index c i) c.
  Proof.
    intros Hn. destruct (nth_error_split c i Hn) as (pre & suf & -> & Hlen). subst i.
    unfold bc_remove_index.
    destruct (exists_last (l := pre ++ x :: suf)) as (body & lastkv & Hb); [destruct pre; discriminate|].
    rewrite Hb at 1 2. rewrite nth_error_last_app.
    rewrite set_nth_mid.
    induction suf as [|y suf' _] using rev_ind.
    - (* the removed key is the last one *)
      apply app_inj_tail in Hb. destruct Hb as [-> ->]. rewrite removelast_last. apply Permutation_cons_append.
    - assert (Hb' : (pre ++ x :: suf') ++ [y] = body ++ [lastkv]) by (rewrite <- Hb, <- app_assoc; reflexivity).
      apply app_inj_tail in Hb'. destruct Hb' as [_ <-].
      replace (pre ++ y :: suf' ++ [y]) with ((pre ++ y :: suf') ++ [y]) by (rewrite <- app_assoc; reflexivity).
      rewrite removelast_last.
      eapply perm_trans; [apply Permutation_middle|]. apply Permutation_app_head. apply perm_skip.
      apply Permutation_cons_append.
  Qed.

  Lemma keys_perm c d : Permutation c d -> Permutation (keys_of c) (keys_of d).
  Proof. apply Permutation_map. Qed.

  Theorem bc_remove_spec c k :
    NoDup (keys_of c) ->
    NoDup (keys_of (bc_remove idx c k))
    /\ (forall k', In k' (keys_of (bc_remove idx c k)) <-> In k' (keys_of c) /\ k' <> k).
  Proof.
    intros Hnd. unfold bc_remove. destruct (bc_find T idx c k 0) as [j|] eqn:E.
    - apply bc_find_some in E. destruct E as (t & w & Hn & Hk & _). rewrite Nat.sub_0_r in Hn.
      pose proof (keys_perm _ _ (bc_remove_index_perm c j _ Hn)) as Hp. cbn [keys_of map fst] in Hp.
      fold (keys_of (bc_remove_index c j)) in Hp. rewrite Hk in Hp.
      assert (Hnd' : NoDup (k :: keys_of (bc_remove_index c j))).
      { eapply Permutation_NoDup; [apply Permutation_sym, Hp|exact Hnd]. }
      inversion Hnd' as [|? ? Hnotin Hnd'']; subst. split; [exact Hnd''|].
      intros k'. split.
      + intros Hin. split; [eapply Permutation_in; [exact Hp|now right]|]. intros E'. subst k'. contradiction.
      + intros [Hin Hne]. apply (Permutation_in _ (Permutation_sym Hp)) in Hin. destruct Hin as [E'|Hin]; [congruence|exact Hin].
    - split; [exact Hnd|]. intros k'. split; [|tauto].
      intros Hin. split; [exact Hin|]. intros ->. pose proof (proj1 (bc_find_none c k 0%nat) E). contradiction.
  Qed.

  Lemma Qsum_perm l l' : Permutation l l' -> Qsum l == Qsum l'.
  Proof.
    induction 1 as [|x l l' _ IH|x y l|l l' l'' _ IH1 _ IH2]; cbn [Qsum fold_right].
    - reflexivity.
    - change (fold_right Qplus 0 l) with (Qsum l). change (fold_right Qplus 0 l') with (Qsum l'). now rewrite IH.
    - ring.
    - now rewrite IH1.
  Qed.

  (* the running total after a removal is the old total minus the removed weight *)
  Theorem bc_remove_index_total (c : bcT) i t w :
    nth_error c i = Some (t, w) -> bc_total (bc_remove_index c i) == bc_total c - w.
  Proof.
    intros Hn. pose proof (bc_remove_index_perm c i _ Hn) as Hp.
    apply (Permutation_map snd) in Hp. apply Qsum_perm in Hp. unfold bc_total. cbn [map snd Qsum fold_right] in Hp.
    change (fold_right Qplus 0 (map snd (bc_remove_index c i))) with (Qsum (map snd (bc_remove_index c i))) in Hp.
    lra.
  Qed.
End BC.

(* get_random: key i is drawn with probability w_i / total *)
Theorem bc_draw_law (ws : list Q) (i : nat) :
  (i < length ws)%nat ->
  mass (fun j => Nat.eqb j i) (denote (Choose ws (fun j => Ret j))) == nth i ws 0 / Qsum ws.
Proof.
  intros Hi. rewrite mass_choose.
  rewrite (Qsum_single _ (seq 0 (length ws)) i).
  - rewrite mass_ret, Nat.eqb_refl. ring.
  - apply seq_NoDup.
  - apply in_seq. lia.
  - intros j _ Hne. rewrite mass_ret. destruct (Nat.eqb_spec j i); [contradiction|]. ring.
Qed.

(* a key of weight zero is never drawn: an operator is never rotated onto an unsatisfied bond *)
Theorem bc_zero_weight_never_drawn (ws : list Q) (i : nat) :
  nth i ws 0 == 0 -> mass (fun j => Nat.eqb j i) (denote (Choose ws (fun j => Ret j))) == 0.
Proof.
  intros Hz. rewrite mass_choose. apply Qsum_all_zero. intros j _.
  rewrite mass_ret. destruct (Nat.eqb_spec j i) as [->|]; [rewrite Hz|]; unfold Qdiv; ring.
Qed.

(* ================================================================== *)
(* remove_doubles                                                     *)
Definition sorted_le (l : list nat) : Prop := StronglySorted le l.

Lemma count_occ_sorted_head a l :
  sorted_le (a :: l) -> forall b r, l = b :: r -> a <> b -> count_occ Nat.eq_dec l a = 0%nat.
Proof.
  intros Hs b r -> Hne. inversion Hs as [|? ? Hs' Hall]; subst.
  apply count_occ_not_In. intros Hin.
  (* every element of b :: r is >= b > a *)
  inversion Hs' as [|? ? _ Hallb]; subst.
  inversion Hall as [|? ? Hab _]; subst.
  destruct Hin as [->|Hin]; [congruence|].
  rewrite Forall_forall in Hallb. specialize (Hallb _ Hin).
  rewrite Forall_forall in Hall. specialize (Hall a (or_intror Hin)). lia.
Qed.

Lemma remove_doubles_cons2 a b r :
  remove_doubles (a :: b :: r) = if Nat.eqb a b then remove_doubles r else a :: remove_doubles (b :: r).
Proof. reflexivity. Qed.

Theorem remove_doubles_parity : forall n l x,
  (length l <= n)%nat -> sorted_le l ->
  count_occ Nat.eq_dec (remove_doubles l) x = (count_occ Nat.eq_dec l x mod 2)%nat.
Proof.
  induction n as [|n IH]; intros l x Hlen Hs.
  - destruct l; [reflexivity|cbn in Hlen; lia].
  - destruct l as [|a [|b r]]; [reflexivity| |].
    + cbn [remove_doubles count_occ]. destruct (Nat.eq_dec a x); reflexivity.
    + rewrite remove_doubles_cons2. destruct (Nat.eqb_spec a b) as [->|Hne].
      * assert (Hs' : sorted_le r).
        { inversion Hs as [|? ? H1 _]; subst. now inversion H1. }
        rewrite IH; [|cbn in Hlen; lia|exact Hs'].
        cbn [count_occ]. destruct (Nat.eq_dec b x).
        -- replace (S (S (count_occ Nat.eq_dec r x))) with (count_occ Nat.eq_dec r x + 1 * 2)%nat by lia.
           now rewrite Nat.mod_add.
        -- reflexivity.
      * assert (Hs' : sorted_le (b :: r)) by (now inversion Hs).
        remember (b :: r) as br eqn:Ebr. cbn [count_occ].
        rewrite IH; [|subst br; cbn in Hlen |- *; lia|exact Hs'].
        destruct (Nat.eq_dec a x) as [->|Hax].
        -- rewrite (count_occ_sorted_head x br Hs b r Ebr Hne). reflexivity.
        -- reflexivity.
Qed.

(* ================================================================== *)
(* contiguous_bits: the region size 1 + trailing_ones is k with probability 2^-k          *)
Theorem trail_ones_is_distribution : total (denote (TrailOnes (fun n => Ret n))) == 1.
Proof. vm_compute. reflexivity. Qed.

Theorem trail_ones_law : forall k, (k < 64)%nat ->
  mass (fun n => N.eqb n (N.of_nat k)) (denote (TrailOnes (fun n => Ret n))) == 1 / qpow2 (S k).
Proof.
  intros k Hk.
  assert (H : forallb (fun k => Qeq_bool (mass (fun n => N.eqb n (N.of_nat k)) (denote (TrailOnes (fun n => Ret n))))
                                          (1 / qpow2 (S k))) (seq 0 64) = true) by (vm_compute; reflexivity).
  rewrite forallb_forall in H. apply Qeq_bool_iff. apply H. apply in_seq. lia.
Qed.

(* ================================================================== *)
(* Structural contract of the update, for every sequence of draws      *)
Definition occ (sl : slots) : list bool := map (fun s => match s with Some _ => true | None => false end) sl.

Lemma occ_set_nth_some sl p o no : nth p sl None = Some o -> occ (set_nth sl p (Some no)) = occ sl.
Proof.
  revert p. induction sl as [|s r IH]; intros [|p]; cbn; try discriminate.
  - intros ->. reflexivity.
  - intros H. f_equal. now apply IH.
Qed.

Lemma occ_count sl sl' : occ sl = occ sl' -> count_ops sl = count_ops sl'.
Proof.
  revert sl'. induction sl as [|s r IH]; intros [|s' r']; cbn [occ map]; try discriminate; [reflexivity|].
  intros H. inversion H as [[Hs Hr]]. unfold count_ops in *. cbn [filter].
  specialize (IH r' Hr). destruct s, s'; try discriminate; cbn [length]; congruence.
Qed.

Lemma occ_length sl sl' : occ sl = occ sl' -> length sl = length sl'.
Proof. intros H. apply (f_equal (@length bool)) in H. unfold occ in H. now rewrite !map_length in H. Qed.

Lemma mut_visit_occ g subvars flips p s :
  all_out (fun s' => occ (m_sl s') = occ (m_sl s)) (mut_visit g subvars flips p s).
Proof.
  unfold mut_visit. destruct (nth p (m_sl s) None) as [o|] eqn:Hn; [|reflexivity].
  destruct (bc_contains id_idx (m_bonds s) (o_bond o)).
  - cbn [all_out]. intros i. destruct (nth_error (m_bonds s) i) as [[nb w]|]; [|reflexivity].
    destruct (edge_vars g nb) as [na nbv]. cbn [all_out m_sl]. eapply occ_set_nth_some; eauto.
  - match goal with |- context [match ?e with pair _ _ => _ end] => destruct e as [[[newop nci1] sub1] cs1] end.
    destruct (upd_bonds_mut g subvars cs1 sub1 o (m_bonds s, m_err s)) as [bonds1 err1].
    cbn [all_out m_sl]. destruct newop; [eapply occ_set_nth_some; eauto|reflexivity].
Qed.

Lemma mut_visits_occ g subvars flips ps : forall s,
  all_out (fun s' => occ (m_sl s') = occ (m_sl s)) (mut_visits g subvars flips ps s).
Proof.
  induction ps as [|p r IH]; intros s; cbn [mut_visits]; [reflexivity|].
  eapply all_out_bind; [apply mut_visit_occ|]. intros s1 H1. cbn beta in H1.
  eapply all_out_weaken; [|apply IH]. intros s2 H2. cbn beta in H2. congruence.
Qed.

Lemma mut_segments_occ g st subvars flips segs : forall s,
  all_out (fun s' => occ (m_sl s') = occ (m_sl s)) (mut_segments g st subvars flips segs s).
Proof.
  induction segs as [|[from until] r IH]; intros s; cbn [mut_segments]; [reflexivity|].
  eapply all_out_bind; [apply mut_visits_occ|]. intros s1 H1. cbn [m_sl] in H1.
  eapply all_out_weaken; [|apply IH]. intros s2 H2. cbn beta in H2. congruence.
Qed.

Definition keeps_occ (sl : slots) (r : option slots) : Prop :=
  match r with Some sl' => occ sl' = occ sl | None => True end.

Lemma mutate_graph_occ g st sl subvars sub cs flips :
  all_out (keeps_occ sl) (mutate_graph g st sl subvars sub cs flips).
Proof.
  unfold mutate_graph.
  destruct (jumps subvars sl flips cs (count_true cs)
              (if negb (Nat.eqb (count_true cs) 0) then [0%nat] else []) []) as [[[jt cu] cs_end] count_end].
  match goal with |- context [if ?c then Ret None else _] => destruct c end; [exact I|].
  match goal with |- context [match ?e with pair _ _ => _ end] => destruct e as [bonds0 err0] end.
  eapply all_out_bind; [apply mut_segments_occ|].
  intros s H. cbn [m_sl] in H. destruct (m_err s); cbn; [exact I|exact H].
Qed.

Lemma fold_set_nth_length {B} (f : state -> B -> state) (l : list B) :
  (forall st b, length (f st b) = length st) -> forall st, length (fold_left f l st) = length st.
Proof. intros Hf. induction l as [|b r IH]; intros st; cbn [fold_left]; [reflexivity|]. now rewrite IH, Hf. Qed.

Definition keeps_shape (st : state) (sl : slots) (r : option (state * slots * bool)) : Prop :=
  match r with Some (st', sl', _) => occ sl' = occ sl /\ length st' = length st | None => True end.

Lemma rvb_one_shape g cs st sl : all_out (keeps_shape st sl) (rvb_one g cs st sl).
Proof.
  unfold rvb_one. cbn [all_out]. intros choiceN.
  match goal with |- context [match ?e with pair _ _ => _ end] => destruct e as [v flip] end.
  cbn [all_out]. intros bits.
  eapply all_out_bind with (Q := fun _ => True).
  { generalize (S (N.to_nat bits)) as size. intros size.
    generalize (push_adjacent wbm_new v flip None) as m. generalize (@nil nat) as cv. generalize (@nil (option nat)) as cf.
    induction size as [|k IH]; intros cf cv m; cbn [build_cluster]; [exact I|].
    destruct (wbm_empty m); [exact I|].
    eapply all_out_bind with (Q := fun _ => True).
    - unfold pop_index. destruct (Qle_bool _ 0); [exact I|]. cbn [all_out]. intros pick.
      destruct (if pick then w_flips m else w_noflips m); [exact I|]. cbn [all_out]. intros i.
      destruct (nth_error _ i) as [[vp w]|]; exact I.
    - intros [[[v' f'] m1]|] _; [apply IH|exact I]. }
  intros [[[cv cf] m]|] _; [|exact I].
  match goal with |- context [match ?e with pair _ _ => _ end] => destruct e as [css tog] end.
  match goal with |- context [match ?e with Some _ => _ | None => Ret None end] => destruct e as [[[[p exact] sub'] css']|] end;
    [|exact I].
  cbn [all_out]. intros [|]; [|cbn; auto].
  eapply all_out_bind; [apply mutate_graph_occ|].
  intros [sl'|] H; [|exact I]. cbn in H. cbn [all_out keeps_shape]. split; [exact H|].
  destruct (Nat.eqb (count_true css') 0); [reflexivity|].
  apply fold_set_nth_length. intros st0 [x c]. apply set_nth_len.
Qed.

Definition keeps_shape_n (st : state) (sl : slots) (r : option (state * slots * nat)) : Prop :=
  match r with Some (st', sl', _) => occ sl' = occ sl /\ length st' = length st | None => True end.

Lemma rvb_loop_shape g cs : forall updates st sl succ,
  all_out (keeps_shape_n st sl) (rvb_loop updates g cs st sl succ).
Proof.
  induction updates as [|k IH]; intros st sl succ; cbn [rvb_loop]; [cbn; auto|].
  eapply all_out_bind; [apply rvb_one_shape|].
  intros [[[st1 sl1] ok]|] H; [|exact I]. destruct H as [Ho Hl].
  eapply all_out_weaken; [|apply IH]. intros [[[st2 sl2] n2]|] H2; [|exact I].
  destruct H2 as [Ho2 Hl2]. cbn. split; congruence.
Qed.

(* whatever the random draws, an RVB sweep keeps every operator at its imaginary-time slot: the set of
   occupied slots, the operator count n (hence the headroom against the cutoff) and all lengths *)
Theorem rvb_update_keeps_shape g updates st sl :
  all_out (keeps_shape_n st sl) (rvb_update g updates st sl).
Proof. apply rvb_loop_shape. Qed.

Theorem rvb_sweep_count_unchanged g updates st sl : forall p st' sl' succ,
  In (p, Some (st', sl', succ)) (denote (single_rvb_sweep g updates st sl)) ->
  count_ops sl' = count_ops sl /\ length sl' = length sl /\ length st' = length st.
Proof.
  intros p st' sl' succ Hin.
  pose proof (all_out_denote _ _ (rvb_update_keeps_shape g _ st sl) _ _ Hin) as [Ho Hl].
  split; [now apply occ_count|split; [now apply occ_length|exact Hl]].
Qed.

Theorem rvb_sweep_count_unchanged_on_tape g updates st sl : forall tape st' sl' succ rest,
  run_tape (single_rvb_sweep g updates st sl) tape = RDone (Some (st', sl', succ)) rest ->
  count_ops sl' = count_ops sl /\ length sl' = length sl /\ length st' = length st.
Proof.
  intros tape st' sl' succ rest Hr.
  pose proof (all_out_tape _ _ (rvb_update_keeps_shape g _ st sl) _ _ _ Hr) as [Ho Hl].
  split; [now apply occ_count|split; [now apply occ_length|exact Hl]].
Qed.
