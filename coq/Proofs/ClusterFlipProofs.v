(* The cluster flip ([apply_flips]) preserves world-line consistency ([wf]) and the configuration
   weight, for labellings accepted by the validator of Model/ClusterValid.v (C09). *)
From Coq Require Import List QArith ZArith NArith Bool Arith Lia Lqa.
From QmcV Require Import Model.Prog Model.Sse Model.Nav Model.Cluster Model.ClusterValid
     Proofs.HamProofs Proofs.DiagonalProofs Proofs.NavProofs Proofs.WorldLine Proofs.ClusterProofs.
Import ListNotations.
Local Open Scope nat_scope.

(* ================================================================== *)
(* A. label maps                                                       *)
(* ================================================================== *)
Definition inb (v : nat) (vs : list nat) : bool := existsb (Nat.eqb v) vs.

Lemma inb_In v vs : inb v vs = true <-> In v vs.
Proof.
  unfold inb. rewrite existsb_exists. split.
  - intros [x [Hx E]]. apply Nat.eqb_eq in E. now subst.
  - intros H. exists v. split; [exact H|apply Nat.eqb_refl].
Qed.

Lemma nth_tl {A} (l : list A) k d : nth k (tl l) d = nth (S k) l d.
Proof. destruct l; [destruct k|]; reflexivity. Qed.

Lemma nth_0_hd {A} (l : list A) d : nth 0 l d = hd d l.
Proof. destruct l; reflexivity. Qed.

Lemma lget_lput lab : forall v x w, lget (lput lab v x) w = if Nat.eqb v w then Some x else lget lab w.
Proof.
  unfold lget. intros v. revert lab. induction v as [|j IH]; intros lab x w; cbn [lput].
  - destruct w as [|w]; cbn [nth Nat.eqb]; [reflexivity|]. apply nth_tl.
  - destruct w as [|w]; cbn [nth Nat.eqb].
    + symmetry. apply nth_0_hd.
    + rewrite IH. now rewrite nth_tl.
Qed.

Lemma lget_lput_all vs x : forall lab w,
  lget (lput_all lab vs x) w = if inb w vs then Some x else lget lab w.
Proof.
  unfold lput_all. induction vs as [|v vs IH]; intros lab w; cbn [fold_left inb existsb]; [reflexivity|].
  fold (inb w vs). rewrite IH, lget_lput. rewrite (Nat.eqb_sym w v).
  destruct (inb w vs), (Nat.eqb v w); reflexivity.
Qed.

Lemma onat_eqb_eq a b : onat_eqb a b = true <-> a = b.
Proof.
  destruct a as [x|], b as [y|]; cbn [onat_eqb]; try (split; congruence).
  rewrite Nat.eqb_eq. split; congruence.
Qed.

(* ================================================================== *)
(* B. XOR of a state with a per-variable mask                          *)
(* ================================================================== *)
Fixpoint xst (m : nat -> bool) (st : state) : state :=
  match st with
  | [] => []
  | x :: r => xorb x (m 0) :: xst (fun w => m (S w)) r
  end.

Lemma xst_length st : forall m, length (xst m st) = length st.
Proof. induction st as [|x r IH]; intros m; cbn [xst length]; [reflexivity|]. now rewrite IH. Qed.

Lemma nth_xst st : forall m k,
  nth k (xst m st) false = if Nat.ltb k (length st) then xorb (nth k st false) (m k) else false.
Proof.
  induction st as [|x r IH]; intros m k; cbn [xst length nth].
  - destruct k; reflexivity.
  - destruct k as [|k]; [reflexivity|]. rewrite IH. reflexivity.
Qed.

Lemma nth_xst_lt st m k : k < length st -> nth k (xst m st) false = xorb (nth k st false) (m k).
Proof. intros H. rewrite nth_xst. apply Nat.ltb_lt in H. now rewrite H. Qed.

Lemma xst_ext st m m' : (forall v, v < length st -> m v = m' v) -> xst m st = xst m' st.
Proof.
  intros H. apply (nth_ext _ _ false false); [now rewrite !xst_length|].
  intros k Hk. rewrite xst_length in Hk. rewrite !nth_xst_lt by exact Hk. now rewrite H.
Qed.

Lemma xst_false st : xst (fun _ => false) st = st.
Proof.
  apply (nth_ext _ _ false false); [apply xst_length|].
  intros k Hk. rewrite xst_length in Hk. rewrite nth_xst_lt by exact Hk. apply xorb_false_r.
Qed.

Lemma xst_xst st m : xst m (xst m st) = st.
Proof.
  apply (nth_ext _ _ false false); [now rewrite !xst_length|].
  intros k Hk. rewrite !xst_length in Hk. rewrite nth_xst_lt by (now rewrite xst_length).
  rewrite nth_xst_lt by exact Hk. destruct (nth k st false), (m k); reflexivity.
Qed.

(* overwriting entry v of the masked state = masking the overwritten state with the mask updated at v *)
Lemma set_nth_xst st m v x f :
  set_nth (xst m st) v (xorb x f) = xst (fun w => if Nat.eqb v w then f else m w) (set_nth st v x).
Proof.
  apply (nth_ext _ _ false false); [now rewrite set_nth_length, !xst_length, set_nth_length|].
  intros k Hk. rewrite set_nth_length, xst_length in Hk.
  rewrite nth_set_nth, xst_length.
  rewrite (nth_xst_lt (set_nth st v x)) by (now rewrite set_nth_length).
  rewrite nth_set_nth. rewrite (nth_xst_lt st) by exact Hk.
  destruct (Nat.eqb v k) eqn:E; cbn [andb]; [|reflexivity].
  apply Nat.eqb_eq in E. subst k. apply Nat.ltb_lt in Hk. rewrite Hk. reflexivity.
Qed.

Definition xmap (f : bool) (l : list bool) : list bool := map (xorb f) l.

Lemma xmap_false l : xmap false l = l.
Proof. unfold xmap. rewrite <- (map_id l) at 2. apply map_ext. intros []; reflexivity. Qed.

Lemma xmap_true l : xmap true l = flip_all l.
Proof. unfold xmap, flip_all. apply map_ext. intros []; reflexivity. Qed.

Lemma xmap_length f l : length (xmap f l) = length l.
Proof. apply map_length. Qed.

Lemma write_vals_length vs : forall st vals, length (write_vals st vs vals) = length st.
Proof.
  induction vs as [|v vs IH]; intros st vals; cbn [write_vals]; [reflexivity|].
  destruct vals as [|x vals]; [reflexivity|]. now rewrite IH, set_nth_length.
Qed.

Lemma nth_write_vals_other vs : forall st vals w,
  inb w vs = false -> nth w (write_vals st vs vals) false = nth w st false.
Proof.
  induction vs as [|v vs IH]; intros st vals w Hw; cbn [write_vals]; [reflexivity|].
  destruct vals as [|x vals]; [reflexivity|].
  cbn [inb existsb] in Hw. apply orb_false_iff in Hw. destruct Hw as [E Hw].
  rewrite IH by exact Hw. rewrite nth_set_nth. rewrite Nat.eqb_sym in E. now rewrite E.
Qed.

(* writing uniformly flipped outputs into a masked state *)
Lemma write_vals_xst vs : forall outs m st f,
  length outs = length vs ->
  write_vals (xst m st) vs (xmap f outs)
  = xst (fun w => if inb w vs then f else m w) (write_vals st vs outs).
Proof.
  induction vs as [|v vs IH]; intros outs m st f Hl; destruct outs as [|x outs]; cbn [length] in Hl; try discriminate.
  - reflexivity.
  - cbn [xmap map write_vals]. fold (xmap f outs).
    rewrite (xorb_comm f x), set_nth_xst, IH by lia.
    apply xst_ext. intros w _. cbn [inb existsb]. fold (inb w vs).
    rewrite (Nat.eqb_sym w v). destruct (inb w vs), (Nat.eqb v w); reflexivity.
Qed.

Lemma read_vals_xst vs : forall m st f,
  (forall v, In v vs -> v < length st /\ m v = f) ->
  read_vals (xst m st) vs = xmap f (read_vals st vs).
Proof.
  intros m st f H. unfold read_vals, xmap. rewrite map_map. apply map_ext_in. intros v Hv.
  destruct (H v Hv) as [Hlt Hm]. rewrite nth_xst_lt by exact Hlt. rewrite Hm. apply xorb_comm.
Qed.

(* ================================================================== *)
(* C. closed form of apply_flips                                       *)
(* ================================================================== *)
Definition flip_op (fin fout : bool) (o : op) : op :=
  let o1 := if fin then mkOp (o_vars o) (o_bond o) (flip_all (o_in o)) (o_out o) (o_const o) else o in
  if fout then mkOp (o_vars o1) (o_bond o1) (o_in o1) (flip_all (o_out o1)) (o_const o1) else o1.

Lemma flip_op_vars f g o : o_vars (flip_op f g o) = o_vars o.
Proof. destruct f, g; reflexivity. Qed.
Lemma flip_op_bond f g o : o_bond (flip_op f g o) = o_bond o.
Proof. destruct f, g; reflexivity. Qed.
Lemma flip_op_const f g o : o_const (flip_op f g o) = o_const o.
Proof. destruct f, g; reflexivity. Qed.
Lemma flip_op_in f g o : o_in (flip_op f g o) = xmap f (o_in o).
Proof. destruct f, g; cbn [flip_op o_in]; now rewrite ?xmap_true, ?xmap_false. Qed.
Lemma flip_op_out f g o : o_out (flip_op f g o) = xmap g (o_out o).
Proof. destruct f, g; cbn [flip_op o_out]; now rewrite ?xmap_true, ?xmap_false. Qed.
Lemma flip_op_skel f g o : skel_of (flip_op f g o) = skel_of o.
Proof. destruct f, g; reflexivity. Qed.
Lemma flip_op_edge f g o : is_edge (flip_op f g o) = is_edge o.
Proof. unfold is_edge. now rewrite flip_op_skel. Qed.

Definition flip_slot (flips : list bool) (ab : option nat * option nat) (x : option op) : option op :=
  match ab, x with
  | (Some a, Some c), Some o => Some (flip_op (nth a flips false) (nth c flips false) o)
  | _, _ => x
  end.

(* the flipped string *)
Fixpoint flip_zip (flips : list bool) (sl : slots) (b : bounds) : slots :=
  match sl with
  | [] => []
  | x :: r => flip_slot flips (bhd b) x :: flip_zip flips r (tl b)
  end.

(* the update of the p = 0 state made when the input side of the op at p is flipped *)
Definition first_upd (sl : slots) (p : nat) (vars : list nat) (ins : list bool) (s : state) : state :=
  fold_left (fun s '(k, v) =>
               match prev_for_var sl p v with
               | None => set_nth s v (nth k ins false)
               | Some _ => s
               end)
            (combine (seq 0 (length vars)) vars) s.

Definition st_upd (sl : slots) (flips : list bool) (p : nat) (ab : option nat * option nat)
           (x : option op) (s : state) : state :=
  match ab, x with
  | (Some a, Some c), Some o =>
      if nth a flips false then first_upd sl p (o_vars o) (flip_all (o_in o)) s else s
  | _, _ => s
  end.

Fixpoint flip_state (sl : slots) (flips : list bool) (p : nat) (suf : slots) (b : bounds) (s : state) : state :=
  match suf with
  | [] => s
  | x :: r => flip_state sl flips (S p) r (tl b) (st_upd sl flips p (bhd b) x s)
  end.

Lemma flip_slot_unlabelled flips x : flip_slot flips (None, None) x = x.
Proof. reflexivity. Qed.

Lemma flip_zip_nil flips sl : flip_zip flips sl [] = sl.
Proof. induction sl as [|x r IH]; cbn [flip_zip tl bhd hd]; [reflexivity|]. now rewrite IH. Qed.

Lemma flip_state_nil sl flips suf : forall p s, flip_state sl flips p suf [] s = s.
Proof. induction suf as [|x r IH]; intros p s; cbn [flip_state tl bhd hd st_upd]; [reflexivity|]. apply IH. Qed.

Lemma get_op_mid (pre : slots) x suf :
  get_op (pre ++ x :: suf) (length pre) = x.
Proof.
  unfold get_op, g_get. rewrite nth_error_app2 by lia. rewrite Nat.sub_diag. cbn [nth_error].
  destruct x; reflexivity.
Qed.

Lemma get_op_beyond (sl : slots) p : length sl <= p -> get_op sl p = None.
Proof.
  intros H. unfold get_op, g_get. apply nth_error_None in H. now rewrite H.
Qed.

Lemma set_nth_mid {A} (pre : list A) x y suf : set_nth (pre ++ x :: suf) (length pre) y = pre ++ y :: suf.
Proof. induction pre as [|h t IH]; cbn [app length set_nth]; [reflexivity|]. now rewrite IH. Qed.

Lemma flip_step_mid sl flips pre x suf s ab :
  flip_step sl flips (pre ++ x :: suf, s) (length pre, ab)
  = (pre ++ flip_slot flips ab x :: suf, st_upd sl flips (length pre) ab x s).
Proof.
  unfold flip_step. destruct ab as [[a|] [c|]]; cbn [flip_slot st_upd]; try (destruct x; reflexivity).
  rewrite get_op_mid. destruct x as [o|]; [|reflexivity].
  rewrite set_nth_mid. unfold flip_op, first_upd.
  destruct (nth a flips false), (nth c flips false); reflexivity.
Qed.

Lemma flip_step_beyond sl flips acc p ab :
  length (fst acc) <= p -> flip_step sl flips acc (p, ab) = acc.
Proof.
  destruct acc as [sl' s]. cbn [fst]. intros H. unfold flip_step.
  rewrite get_op_beyond by exact H. destruct ab as [[a|] [c|]]; reflexivity.
Qed.

Lemma fold_flip_beyond sl flips bs : forall p acc,
  length (fst acc) <= p ->
  fold_left (flip_step sl flips) (combine (seq p (length bs)) bs) acc = acc.
Proof.
  induction bs as [|ab bs IH]; intros p acc H; cbn [length seq combine fold_left]; [reflexivity|].
  rewrite flip_step_beyond by exact H. apply IH. lia.
Qed.

Lemma fold_flip_closed sl flips bs : forall suf pre s,
  fold_left (flip_step sl flips) (combine (seq (length pre) (length bs)) bs) (pre ++ suf, s)
  = (pre ++ flip_zip flips suf bs, flip_state sl flips (length pre) suf bs s).
Proof.
  induction bs as [|ab bs IH]; intros suf pre s.
  - cbn [length seq combine fold_left]. now rewrite flip_zip_nil, flip_state_nil.
  - destruct suf as [|x r].
    + rewrite fold_flip_beyond by (cbn [fst]; rewrite app_nil_r; lia). reflexivity.
    + cbn [length seq combine fold_left]. rewrite flip_step_mid.
      cbn [flip_zip flip_state bhd hd tl].
      replace (pre ++ flip_slot flips ab x :: r) with ((pre ++ [flip_slot flips ab x]) ++ r)
        by (now rewrite <- app_assoc).
      replace (S (length pre)) with (length (pre ++ [flip_slot flips ab x]))
        by (rewrite app_length; cbn [length]; lia).
      rewrite IH. rewrite <- app_assoc. reflexivity.
Qed.

Theorem apply_flips_closed sl st b flips :
  apply_flips sl st b flips = (flip_zip flips sl b, flip_state sl flips 0 sl b st).
Proof. unfold apply_flips. apply (fold_flip_closed sl flips b sl [] st). Qed.

(* ================================================================== *)
(* D. the per-slot step: the walk over the flipped string               *)
(* ================================================================== *)
Definition mask (flips : list bool) (lab : labels) (v : nat) : bool :=
  match lget lab v with
  | Some a => nth a flips false
  | None => false
  end.

Lemma mask_lput_all flips lab vs c w :
  mask flips (lput_all lab vs c) w = if inb w vs then nth c flips false else mask flips lab w.
Proof. unfold mask. rewrite lget_lput_all. destruct (inb w vs); reflexivity. Qed.

Lemma vars_in_range_cons n x r :
  vars_in_range n (x :: r) = true ->
  (forall o, x = Some o -> forall v, In v (o_vars o) -> v < n) /\ vars_in_range n r = true.
Proof.
  unfold vars_in_range. cbn [forallb]. intros H. apply andb_true_iff in H. destruct H as [H1 H2].
  split; [|exact H2]. intros o -> v Hv. rewrite forallb_forall in H1. apply Nat.ltb_lt. now apply H1.
Qed.

Lemma check_head_inv st o :
  (bools_eqb (read_vals st (o_vars o)) (o_in o)
   && Nat.eqb (length (o_in o)) (length (o_vars o))
   && Nat.eqb (length (o_out o)) (length (o_vars o)))%bool = true ->
  read_vals st (o_vars o) = o_in o /\ length (o_in o) = length (o_vars o) /\ length (o_out o) = length (o_vars o).
Proof.
  intros H. apply andb_true_iff in H. destruct H as [H H3]. apply andb_true_iff in H. destruct H as [H1 H2].
  apply bools_eqb_eq in H1. apply Nat.eqb_eq in H2. apply Nat.eqb_eq in H3. auto.
Qed.

(* the step lemma for one stored op *)
Lemma flip_op_step flips lab st o a c :
  (forall v, In v (o_vars o) -> v < length st) ->
  forallb (fun v => onat_eqb (lget lab v) (Some a)) (o_vars o) = true ->
  read_vals st (o_vars o) = o_in o ->
  length (o_in o) = length (o_vars o) ->
  length (o_out o) = length (o_vars o) ->
  let o' := flip_op (nth a flips false) (nth c flips false) o in
  let st' := xst (mask flips lab) st in
  read_vals st' (o_vars o') = o_in o'
  /\ length (o_in o') = length (o_vars o')
  /\ length (o_out o') = length (o_vars o')
  /\ apply_op st' o' = xst (mask flips (lput_all lab (o_vars o) c)) (apply_op st o).
Proof.
  intros Hrange Hlab Hread Hli Hlo o' st'. subst o' st'.
  rewrite flip_op_vars, flip_op_in, flip_op_out, !xmap_length.
  repeat split; try assumption.
  - rewrite <- Hread. apply read_vals_xst. intros v Hv. split; [now apply Hrange|].
    rewrite forallb_forall in Hlab. specialize (Hlab v Hv). apply onat_eqb_eq in Hlab.
    unfold mask. now rewrite Hlab.
  - unfold apply_op. rewrite flip_op_vars, flip_op_out. rewrite write_vals_xst by exact Hlo.
    apply xst_ext. intros w _. now rewrite mask_lput_all.
Qed.

(* the walk: propagated state of the flipped string = propagated state XOR running mask *)
Lemma walk_check flips : forall sl b lab lab' st fin,
  vars_in_range (length st) sl = true ->
  links_walk sl b lab = Some lab' ->
  check_line st sl = Some fin ->
  check_line (xst (mask flips lab) st) (flip_zip flips sl b) = Some (xst (mask flips lab') fin).
Proof.
  induction sl as [|x r IH]; intros b lab lab' st fin Hr Hw Hc.
  - cbn [links_walk] in Hw. destruct (forallb unlabelled b); [|discriminate].
    cbn [check_line] in Hc. inversion Hw; inversion Hc; subst. reflexivity.
  - apply vars_in_range_cons in Hr. destruct Hr as [Hx Hr].
    destruct x as [o|].
    + cbn [links_walk] in Hw. cbn [flip_zip].
      destruct (bhd b) as [[a|] [c|]]; try discriminate.
      destruct (forallb (fun v => onat_eqb (lget lab v) (Some a)) (o_vars o)) eqn:Hlab; [|discriminate].
      cbn [check_line] in Hc.
      destruct (bools_eqb (read_vals st (o_vars o)) (o_in o) && Nat.eqb (length (o_in o)) (length (o_vars o))
                && Nat.eqb (length (o_out o)) (length (o_vars o)))%bool eqn:Hchk; [|discriminate].
      apply check_head_inv in Hchk. destruct Hchk as (Hread & Hli & Hlo).
      destruct (flip_op_step flips lab st o a c (Hx o eq_refl) Hlab Hread Hli Hlo) as (E1 & E2 & E3 & E4).
      cbn [flip_slot check_line]. rewrite E1, E2, E3, bools_eqb_refl, !Nat.eqb_refl. cbn [andb].
      rewrite E4. apply IH; try assumption.
      unfold apply_op. now rewrite write_vals_length.
    + cbn [links_walk] in Hw. cbn [flip_zip].
      destruct (bhd b) as [[a|] [c|]]; try discriminate.
      cbn [flip_slot check_line]. cbn [check_line] in Hc. now apply IH.
Qed.

(* ================================================================== *)
(* E. periodicity of the label map                                     *)
(* ================================================================== *)
Lemma lget_nil v : lget [] v = None.
Proof. unfold lget. destruct v; reflexivity. Qed.

(* a successful walk ends with the labels computed by [out_labels] *)
Lemma links_walk_out : forall sl b lab lab',
  links_walk sl b lab = Some lab' -> lab' = out_labels sl b lab.
Proof.
  induction sl as [|x r IH]; intros b lab lab' Hw; cbn [links_walk out_labels] in *.
  - destruct (forallb unlabelled b); [|discriminate]. now inversion Hw.
  - destruct x as [o|]; destruct (bhd b) as [[a|] [c|]]; try discriminate; cbn [snd].
    + destruct (forallb _ (o_vars o)); [|discriminate]. now apply IH.
    + now apply IH.
Qed.

Lemma out_labels_from : forall sl b L v,
  lget (out_labels sl b L) v
  = match lget (out_labels sl b []) v with Some x => Some x | None => lget L v end.
Proof.
  induction sl as [|x r IH]; intros b L v; cbn [out_labels].
  - now rewrite lget_nil.
  - destruct x as [o|]; [|apply IH].
    destruct (snd (bhd b)) as [c|]; [|apply IH].
    rewrite (IH (tl b) (lput_all L (o_vars o) c)), (IH (tl b) (lput_all [] (o_vars o) c)).
    destruct (lget (out_labels r (tl b) []) v); [reflexivity|].
    rewrite !lget_lput_all, lget_nil. destruct (inb v (o_vars o)); reflexivity.
Qed.

(* the periodicity lemma: started from the wrap-around labels, the walk ends on them *)
Lemma links_ok_periodic sl b :
  links_ok sl b = true ->
  exists lab', links_walk sl b (out_labels sl b []) = Some lab'
               /\ forall v, lget lab' v = lget (out_labels sl b []) v.
Proof.
  unfold links_ok. destruct (links_walk sl b (out_labels sl b [])) as [lab'|] eqn:Hw; [|discriminate].
  intros _. exists lab'. split; [reflexivity|]. intros v.
  apply links_walk_out in Hw. subst lab'. rewrite out_labels_from.
  destruct (lget (out_labels sl b []) v); reflexivity.
Qed.

Lemma mask_ext flips lab lab' : (forall v, lget lab v = lget lab' v) -> forall v, mask flips lab v = mask flips lab' v.
Proof. intros H v. unfold mask. now rewrite H. Qed.

(* world-line consistency of the flipped string, from the explicitly masked state *)
Theorem flip_zip_wf sl st b flips :
  vars_in_range (length st) sl = true ->
  links_ok sl b = true ->
  wf st sl = true ->
  wf (xst (mask flips (out_labels sl b [])) st) (flip_zip flips sl b) = true.
Proof.
  intros Hr Hl Hwf. destruct (links_ok_periodic sl b Hl) as (lab' & Hw & Hper).
  unfold wf in Hwf. destruct (check_line st sl) as [fin|] eqn:Hc; [|discriminate].
  apply bools_eqb_eq in Hwf. subst fin.
  unfold wf. rewrite (walk_check flips sl b _ lab' st st Hr Hw Hc).
  apply bools_eqb_eq. apply xst_ext. intros v _. now apply mask_ext.
Qed.

(* ================================================================== *)
(* F. the p = 0 state written by flip_step                             *)
(* ================================================================== *)
Definition touchedb (sl : slots) (v : nat) : bool :=
  existsb (fun s => match s with Some o => inb v (o_vars o) | None => false end) sl.

Lemma touchedb_app a b v : touchedb (a ++ b) v = (touchedb a v || touchedb b v)%bool.
Proof. unfold touchedb. apply existsb_app. Qed.

Lemma touchedb_snoc a x v :
  touchedb (a ++ [x]) v = (touchedb a v || match x with Some o => inb v (o_vars o) | None => false end)%bool.
Proof. rewrite touchedb_app. unfold touchedb at 2. cbn [existsb]. now rewrite orb_false_r. Qed.

(* --- prev_for_var p v = None iff no op before p acts on v --- *)
Lemma ops_on_var_app (pre suf : slots) v : forall s,
  g_ops_on_var_from o_vars s (pre ++ suf) v
  = g_ops_on_var_from o_vars s pre v ++ g_ops_on_var_from o_vars (s + length pre) suf v.
Proof.
  induction pre as [|x r IH]; intros s; cbn [app g_ops_on_var_from length].
  - now rewrite Nat.add_0_r.
  - replace (s + S (length r)) with (S s + length r) by lia.
    destruct x as [o|]; [destruct (index_of v (o_vars o))|]; cbn [app]; now rewrite IH.
Qed.

Lemma ops_on_var_bounds (sl : slots) v : forall s q k,
  In (q, k) (g_ops_on_var_from o_vars s sl v) -> s <= q < s + length sl.
Proof.
  induction sl as [|x r IH]; intros s q k Hin; cbn [g_ops_on_var_from length] in *; [contradiction|].
  destruct x as [o|]; [destruct (index_of v (o_vars o))|].
  - destruct Hin as [E|Hin]; [inversion E; lia|]. apply IH in Hin. lia.
  - apply IH in Hin. lia.
  - apply IH in Hin. lia.
Qed.

Lemma ops_on_var_nil_iff (sl : slots) v : forall s,
  g_ops_on_var_from o_vars s sl v = [] <-> touchedb sl v = false.
Proof.
  induction sl as [|x r IH]; intros s; cbn [g_ops_on_var_from touchedb existsb]; [tauto|].
  fold (touchedb r v). destruct x as [o|]; [|cbn [orb]; apply IH].
  destruct (index_of v (o_vars o)) eqn:E.
  - apply index_of_some_in in E. apply inb_In in E. rewrite E. cbn [orb]. split; discriminate.
  - apply index_of_none_notin in E.
    assert (Hf : inb v (o_vars o) = false).
    { destruct (inb v (o_vars o)) eqn:F; [|reflexivity]. apply inb_In in F. contradiction. }
    rewrite Hf. cbn [orb]. apply IH.
Qed.

Section LastLt.
Context {A : Type} (key : A -> nat) (p : nat).
Let f := fun (acc : option A) (x : A) => if Nat.ltb (key x) p then Some x else acc.

Lemma last_lt_all_ge l : forall acc, (forall x, In x l -> p <= key x) -> fold_left f l acc = acc.
Proof.
  induction l as [|x l IH]; intros acc H; cbn [fold_left]; [reflexivity|].
  rewrite IH by (intros; apply H; now right). unfold f.
  replace (Nat.ltb (key x) p) with false; [reflexivity|]. symmetry. apply Nat.ltb_ge. apply H. now left.
Qed.

Lemma last_lt_some l : forall y, exists z, fold_left f l (Some y) = Some z.
Proof.
  induction l as [|x l IH]; intros y; cbn [fold_left]; [eauto|].
  unfold f at 2. destruct (Nat.ltb (key x) p); apply IH.
Qed.

Lemma last_lt_app_none l1 l2 :
  (forall x, In x l1 -> key x < p) -> (forall x, In x l2 -> p <= key x) ->
  (last_lt key p (l1 ++ l2) = None <-> l1 = []).
Proof.
  intros H1 H2. unfold last_lt. fold f. rewrite fold_left_app, last_lt_all_ge by exact H2.
  destruct l1 as [|x l1]; [cbn; tauto|]. cbn [fold_left]. unfold f at 2.
  replace (Nat.ltb (key x) p) with true by (symmetry; apply Nat.ltb_lt; apply H1; now left).
  destruct (last_lt_some l1 x) as [z ->]. split; discriminate.
Qed.
End LastLt.

Lemma prev_for_var_none (pre suf : slots) v :
  prev_for_var (pre ++ suf) (length pre) v = None <-> touchedb pre v = false.
Proof.
  unfold prev_for_var, g_prev_for_var, g_ops_on_var. rewrite ops_on_var_app. cbn [Nat.add].
  rewrite last_lt_app_none.
  - apply ops_on_var_nil_iff.
  - intros [q k] Hin. apply ops_on_var_bounds in Hin. cbn [fst]. lia.
  - intros [q k] Hin. apply ops_on_var_bounds in Hin. cbn [fst]. lia.
Qed.

(* --- the fold of first_upd --- *)
Lemma in_combine_seq (vars : list nat) : forall s k v,
  In (k, v) (combine (seq s (length vars)) vars) -> s <= k /\ k - s < length vars /\ nth (k - s) vars 0 = v.
Proof.
  induction vars as [|x r IH]; intros s k v Hin; cbn [length seq combine] in Hin; [contradiction|].
  destruct Hin as [E|Hin].
  - inversion E; subst. rewrite Nat.sub_diag. cbn [length nth]. repeat split; lia.
  - apply IH in Hin. destruct Hin as (H1 & H2 & H3).
    replace (k - s) with (S (k - S s)) by lia. cbn [length nth]. repeat split; lia.
Qed.

Lemma map_snd_combine_seq (vars : list nat) : forall s, map snd (combine (seq s (length vars)) vars) = vars.
Proof. induction vars as [|x r IH]; intros s; cbn [length seq combine map snd]; [reflexivity|]. now rewrite IH. Qed.

Lemma nth_flip_read cur vars : forall k,
  k < length vars -> nth k (flip_all (read_vals cur vars)) false = negb (nth (nth k vars 0) cur false).
Proof.
  unfold flip_all, read_vals. induction vars as [|x r IH]; intros k Hk; cbn [length] in Hk; [lia|].
  destruct k as [|k]; cbn [map nth]; [reflexivity|]. apply IH. lia.
Qed.

Section FirstUpd.
Context (tch : nat -> bool) (cur st : state).

Definition upd1 (s : state) (v : nat) : state :=
  if tch v then s else set_nth s v (negb (nth v cur false)).

Lemma fold_upd1_xst : forall vs M,
  (forall v, In v vs -> tch v = false -> nth v cur false = nth v st false) ->
  fold_left upd1 vs (xst M st) = xst (fun w => if (inb w vs && negb (tch w))%bool then true else M w) st.
Proof.
  induction vs as [|v vs IH]; intros M H.
  - cbn [fold_left]. apply xst_ext. intros w _. reflexivity.
  - cbn [fold_left]. destruct (tch v) eqn:T.
    + assert (E : upd1 (xst M st) v = xst M st) by (unfold upd1; now rewrite T).
      rewrite E, IH by (intros; apply H; [now right|assumption]).
      apply xst_ext. intros w _. cbn [inb existsb]. fold (inb w vs).
      destruct (Nat.eqb_spec w v) as [->|Hne]; cbn [orb]; [|reflexivity].
      rewrite T. cbn [negb]. now rewrite !andb_false_r.
    + assert (E : upd1 (xst M st) v = xst (fun w => if Nat.eqb v w then true else M w) st).
      { unfold upd1. rewrite T. rewrite (H v (or_introl eq_refl) T).
        replace (negb (nth v st false)) with (xorb (nth v st false) true) by (destruct (nth v st false); reflexivity).
        rewrite set_nth_xst. now rewrite set_nth_same. }
      rewrite E, IH by (intros; apply H; [now right|assumption]).
      apply xst_ext. intros w _. cbn [inb existsb]. fold (inb w vs). rewrite (Nat.eqb_sym w v).
      destruct (Nat.eqb_spec v w) as [->|Hne]; cbn [orb]; [|reflexivity].
      rewrite T. cbn [negb]. rewrite andb_true_r. destruct (inb w vs); reflexivity.
Qed.
End FirstUpd.

Lemma first_upd_as_upd1 (pre suf : slots) cur vars s :
  first_upd (pre ++ suf) (length pre) vars (flip_all (read_vals cur vars)) s
  = fold_left (upd1 (touchedb pre) cur) vars s.
Proof.
  unfold first_upd.
  rewrite <- (map_snd_combine_seq vars 0) at 3.
  assert (H : forall k v, In (k, v) (combine (seq 0 (length vars)) vars) -> k < length vars /\ nth k vars 0 = v).
  { intros k v Hin. apply in_combine_seq in Hin. rewrite Nat.sub_0_r in Hin. tauto. }
  revert s H. generalize (combine (seq 0 (length vars)) vars) as l.
  induction l as [|[k v] l IH]; intros s H; cbn [fold_left map snd]; [reflexivity|].
  rewrite IH by (intros; apply H; now right). f_equal.
  destruct (H k v (or_introl eq_refl)) as [Hk Hv].
  unfold upd1. rewrite nth_flip_read by exact Hk. rewrite Hv.
  destruct (touchedb pre v) eqn:T.
  - destruct (prev_for_var (pre ++ suf) (length pre) v) eqn:P; [reflexivity|].
    apply (proj1 (prev_for_var_none pre suf v)) in P. congruence.
  - apply (proj2 (prev_for_var_none pre suf v)) in T. now rewrite T.
Qed.

Lemma forallb_cons_range n o r :
  vars_in_range n (Some o :: r) = true -> forall v, In v (o_vars o) -> v < n.
Proof. intros H. apply vars_in_range_cons in H. destruct H as [H _]. now apply H. Qed.

Section FlipState.
Context (sl : slots) (st : state) (flips : list bool) (lab0 : labels).

Definition m0 (pre : slots) (v : nat) : bool := (touchedb pre v && mask flips lab0 v)%bool.

Lemma flip_state_spec : forall suf pre b lab cur lab' fin s,
  pre ++ suf = sl ->
  links_walk suf b lab = Some lab' ->
  check_line cur suf = Some fin ->
  (forall v, touchedb pre v = false -> nth v cur false = nth v st false /\ lget lab v = lget lab0 v) ->
  s = xst (m0 pre) st ->
  flip_state sl flips (length pre) suf b s = xst (m0 sl) st.
Proof.
  induction suf as [|x r IH]; intros pre b lab cur lab' fin s Hsl Hw Hc Hinv Hs.
  - rewrite app_nil_r in Hsl. subst pre. exact Hs.
  - assert (Hsl' : (pre ++ [x]) ++ r = sl) by (now rewrite <- app_assoc).
    assert (Hlen : S (length pre) = length (pre ++ [x])) by (rewrite app_length; cbn [length]; lia).
    cbn [flip_state]. rewrite Hlen. destruct x as [o|].
    + cbn [links_walk] in Hw. destruct (bhd b) as [[a|] [c|]]; try discriminate.
      destruct (forallb (fun v => onat_eqb (lget lab v) (Some a)) (o_vars o)) eqn:Hlab; [|discriminate].
      cbn [check_line] in Hc.
      destruct (bools_eqb (read_vals cur (o_vars o)) (o_in o) && Nat.eqb (length (o_in o)) (length (o_vars o))
                && Nat.eqb (length (o_out o)) (length (o_vars o)))%bool eqn:Hchk; [|discriminate].
      apply check_head_inv in Hchk. destruct Hchk as (Hread & Hli & Hlo).
      assert (Hfirst : forall v, In v (o_vars o) -> touchedb pre v = false ->
                                 nth v cur false = nth v st false /\ mask flips lab0 v = nth a flips false).
      { intros v Hv T. destruct (Hinv v T) as [E1 E2]. split; [exact E1|].
        rewrite forallb_forall in Hlab. specialize (Hlab v Hv). apply onat_eqb_eq in Hlab.
        unfold mask. now rewrite <- E2, Hlab. }
      apply (IH (pre ++ [Some o]) (tl b) (lput_all lab (o_vars o) c) (apply_op cur o) lab' fin); try assumption.
      * intros v T. rewrite touchedb_snoc in T. apply orb_false_iff in T. destruct T as [T1 T2].
        destruct (Hinv v T1) as [E1 E2]. split.
        -- unfold apply_op. now rewrite nth_write_vals_other.
        -- rewrite lget_lput_all, T2. exact E2.
      * cbn [st_upd]. destruct (nth a flips false) eqn:Fa.
        -- rewrite <- Hsl at 1. rewrite <- Hread. rewrite first_upd_as_upd1. rewrite Hs.
           rewrite fold_upd1_xst by (intros v Hv T; now apply Hfirst).
           apply xst_ext. intros w _. unfold m0. rewrite touchedb_snoc.
           destruct (touchedb pre w) eqn:T; cbn [negb orb andb].
           ++ now rewrite andb_false_r.
           ++ rewrite andb_true_r. destruct (inb w (o_vars o)) eqn:I; [|reflexivity].
              apply inb_In in I. destruct (Hfirst w I T) as [_ ->]. reflexivity.
        -- rewrite Hs. apply xst_ext. intros w _. unfold m0. rewrite touchedb_snoc.
           destruct (touchedb pre w) eqn:T; cbn [orb andb]; [reflexivity|].
           destruct (inb w (o_vars o)) eqn:I; [|reflexivity].
           apply inb_In in I. destruct (Hfirst w I T) as [_ ->]. reflexivity.
    + cbn [links_walk] in Hw. destruct (bhd b) as [[a|] [c|]]; try discriminate.
      cbn [check_line] in Hc. cbn [st_upd].
      apply (IH (pre ++ [None]) (tl b) lab cur lab' fin); try assumption.
      * intros v T. rewrite touchedb_snoc, orb_false_r in T. now apply Hinv.
      * rewrite Hs. apply xst_ext. intros w _. unfold m0. now rewrite touchedb_snoc, orb_false_r.
Qed.
End FlipState.

(* labels of variables no op acts on stay what they were *)
Lemma out_labels_untouched : forall sl b L v, touchedb sl v = false -> lget (out_labels sl b L) v = lget L v.
Proof.
  induction sl as [|x r IH]; intros b L v T; cbn [out_labels]; [reflexivity|].
  cbn [touchedb existsb] in T. fold (touchedb r v) in T. apply orb_false_iff in T. destruct T as [T1 T2].
  destruct x as [o|]; [|now apply IH]. destruct (snd (bhd b)); [|now apply IH].
  rewrite IH by exact T2. now rewrite lget_lput_all, T1.
Qed.

(* the state returned by apply_flips is the original one XOR the wrap-around mask *)
Theorem apply_flips_state sl st b flips :
  links_ok sl b = true ->
  wf st sl = true ->
  snd (apply_flips sl st b flips) = xst (mask flips (out_labels sl b [])) st.
Proof.
  intros Hl Hwf. rewrite apply_flips_closed. cbn [snd].
  destruct (links_ok_periodic sl b Hl) as (lab' & Hw & _).
  unfold wf in Hwf. destruct (check_line st sl) as [fin|] eqn:Hc; [|discriminate].
  pose proof (flip_state_spec sl st flips (out_labels sl b []) sl [] b (out_labels sl b []) st lab' fin st
                              eq_refl Hw Hc) as E.
  cbn [length] in E. rewrite E.
  - apply xst_ext. intros v _. unfold m0. destruct (touchedb sl v) eqn:T; [reflexivity|].
    cbn [andb]. unfold mask. now rewrite out_labels_untouched, lget_nil.
  - intros v _. split; reflexivity.
  - symmetry. rewrite <- (xst_false st) at 2. apply xst_ext. intros v _. reflexivity.
Qed.

(* ================================================================== *)
(* G. Theorem 1: the cluster flip preserves world-line consistency     *)
(* ================================================================== *)
Theorem cluster_flip_wf : forall sl st b flips,
  vars_in_range (length st) sl = true ->
  links_ok sl b = true ->
  wf st sl = true ->
  let '(sl', st') := apply_flips sl st b flips in wf st' sl' = true.
Proof.
  intros sl st b flips Hr Hl Hwf.
  pose proof (apply_flips_state sl st b flips Hl Hwf) as Hst.
  rewrite apply_flips_closed in *. cbn [snd] in Hst. rewrite Hst.
  now apply flip_zip_wf.
Qed.

(* The same under the bundled hypothesis [ops_wellformed] (range, NoDup, lengths): only the range
   part is used; the lengths are checked by [wf] itself and NoDup is not needed because all
   variables of one side of an op receive the same flip. *)
Lemma ops_wellformed_range n : forall sl, ops_wellformed n sl = true -> vars_in_range n sl = true.
Proof.
  unfold ops_wellformed, vars_in_range. induction sl as [|x r IH]; cbn [forallb]; [reflexivity|].
  intros H. apply andb_true_iff in H. destruct H as [H1 H2]. rewrite (IH H2), andb_true_r.
  destruct x as [o|]; [|reflexivity]. unfold op_wellformed in H1.
  repeat (apply andb_true_iff in H1; destruct H1 as [H1 ?]). exact H1.
Qed.

Corollary cluster_flip_wf_wellformed : forall sl st b flips,
  ops_wellformed (length st) sl = true ->
  links_ok sl b = true ->
  wf st sl = true ->
  let '(sl', st') := apply_flips sl st b flips in wf st' sl' = true.
Proof. intros sl st b flips Ho. apply cluster_flip_wf. now apply ops_wellformed_range. Qed.

(* The statement without any hypothesis on the variables is false: a variable that does not index
   into the state reads as false whatever is written (see also Examples.range_needed). *)
Definition cluster_flip_wf_unrestricted_stmt : Prop :=
  forall sl st b flips, links_ok sl b = true -> wf st sl = true ->
    let '(sl', st') := apply_flips sl st b flips in wf st' sl' = true.

Theorem cluster_flip_wf_unrestricted_false : ~ cluster_flip_wf_unrestricted_stmt.
Proof.
  intros H.
  specialize (H [Some (mkOp [0] 0 [false] [false] true)] [] [(Some 0, Some 0)] [true] eq_refl eq_refl).
  vm_compute in H. discriminate.
Qed.

(* ================================================================== *)
(* H. Theorem 2: the configuration weight                              *)
(* ================================================================== *)
(* flipping both sides of the op keeps its weight *)
Definition flip_sym (H : ham) (o : op) : Prop :=
  (h_weight H (o_bond o) (flip_all (o_in o)) (flip_all (o_out o)) == op_weight H o)%Q.

(* the weight of the op's bond does not depend on the values *)
Definition edge_free (H : ham) (o : op) : Prop :=
  forall i o', (h_weight H (o_bond o) i o' == op_weight H o)%Q.

(* per-op hypothesis: an edge has a value-independent weight; any other op either has a
   flip-symmetric weight or sits in a cluster that the chosen flips leave alone *)
Fixpoint weight_hyp (H : ham) (flips : list bool) (sl : slots) (b : bounds) : Prop :=
  match sl with
  | [] => True
  | None :: r => weight_hyp H flips r (tl b)
  | Some o :: r =>
      (if is_edge o then edge_free H o
       else flip_sym H o \/ match fst (bhd b) with
                            | Some a => nth a flips false = false
                            | None => True
                            end)
      /\ weight_hyp H flips r (tl b)
  end.

Lemma weight_product_cons H o r : weight_product H (Some o :: r) = (op_weight H o * weight_product H r)%Q.
Proof. reflexivity. Qed.

Lemma weight_product_none H r : weight_product H (None :: r) = weight_product H r.
Proof. reflexivity. Qed.

Lemma op_weight_flip H flips ab o :
  (is_edge o || onat_eqb (fst ab) (snd ab))%bool = true ->
  (if is_edge o then edge_free H o
   else flip_sym H o \/ match fst ab with Some a => nth a flips false = false | None => True end) ->
  (weight_product H [flip_slot flips ab (Some o)] == weight_product H [Some o])%Q.
Proof.
  intros Hs Hw. destruct ab as [[a|] [c|]]; cbn [flip_slot]; try reflexivity.
  rewrite !weight_product_cons. apply Qmult_comp; [|reflexivity].
  destruct (is_edge o) eqn:He.
  - unfold op_weight at 1. rewrite flip_op_bond. apply Hw.
  - cbn [orb fst snd onat_eqb] in Hs. apply Nat.eqb_eq in Hs. subst c. cbn [fst] in Hw.
    destruct (nth a flips false) eqn:Fa.
    + destruct Hw as [Hw|Hw]; [|discriminate]. exact Hw.
    + reflexivity.
Qed.

Lemma flip_zip_weight H flips : forall sl b,
  sides_ok sl b = true -> weight_hyp H flips sl b ->
  (weight_product H (flip_zip flips sl b) == weight_product H sl)%Q.
Proof.
  induction sl as [|x r IH]; intros b Hs Hw; cbn [flip_zip]; [reflexivity|].
  destruct x as [o|].
  - cbn [sides_ok] in Hs. apply andb_true_iff in Hs. destruct Hs as [Hs1 Hs2].
    cbn [weight_hyp] in Hw. destruct Hw as [Hw1 Hw2].
    pose proof (op_weight_flip H flips (bhd b) o Hs1 Hw1) as E.
    destruct (flip_slot flips (bhd b) (Some o)) as [o'|] eqn:F.
    + rewrite !weight_product_cons in *. rewrite (IH (tl b) Hs2 Hw2).
      cbn [weight_product fold_right] in E. rewrite !Qmult_1_r in E. now rewrite E.
    + destruct (bhd b) as [[a|] [c|]]; discriminate.
  - cbn [sides_ok] in Hs. cbn [weight_hyp] in Hw.
    replace (flip_slot flips (bhd b) None) with (@None op) by (destruct (bhd b) as [[a|] [c|]]; reflexivity).
    rewrite !weight_product_none. now apply IH.
Qed.

(* general form: per-op hypothesis, possibly depending on the chosen flips *)
Theorem cluster_flip_weight_gen H sl st b flips :
  sides_ok sl b = true -> weight_hyp H flips sl b ->
  (weight_product H (fst (apply_flips sl st b flips)) == weight_product H sl)%Q.
Proof. intros Hs Hw. rewrite apply_flips_closed. cbn [fst]. now apply flip_zip_weight. Qed.

Lemma weight_hyp_uniform H flips : forall sl b,
  (forall o, In (Some o) sl -> is_edge o = false -> flip_sym H o) ->
  (forall o, In (Some o) sl -> is_edge o = true -> edge_free H o) ->
  weight_hyp H flips sl b.
Proof.
  induction sl as [|x r IH]; intros b H1 H2; cbn [weight_hyp]; [exact I|].
  assert (Hr : weight_hyp H flips r (tl b)).
  { apply IH; intros o Hin; [apply H1|apply H2]; now right. }
  destruct x as [o|]; [|exact Hr]. split; [|exact Hr].
  destruct (is_edge o) eqn:He; [apply H2|left; apply H1]; auto; now left.
Qed.

(* Theorem 2 as stated: every non-edge op flip-symmetric, every edge value-independent *)
Theorem cluster_flip_weight H sl st b flips :
  (forall o, In (Some o) sl -> is_edge o = false -> flip_sym H o) ->
  (forall o, In (Some o) sl -> is_edge o = true -> edge_free H o) ->
  sides_ok sl b = true ->
  (weight_product H (fst (apply_flips sl st b flips)) == weight_product H sl)%Q.
Proof. intros H1 H2 Hs. apply cluster_flip_weight_gen; [exact Hs|]. now apply weight_hyp_uniform. Qed.

(* ================================================================== *)
(* I. Theorem 3: applying the same flips twice is the identity          *)
(* ================================================================== *)
Lemma flip_all_invol l : flip_all (flip_all l) = l.
Proof.
  unfold flip_all. rewrite map_map. rewrite <- (map_id l) at 2. apply map_ext. intros []; reflexivity.
Qed.

Lemma flip_op_invol f g o : flip_op f g (flip_op f g o) = o.
Proof. destruct o as [vs bd i o' cn]. destruct f, g; cbn [flip_op o_vars o_bond o_in o_out o_const]; now rewrite ?flip_all_invol. Qed.

Lemma flip_slot_invol flips ab x : flip_slot flips ab (flip_slot flips ab x) = x.
Proof. destruct ab as [[a|] [c|]], x as [o|]; cbn [flip_slot]; try reflexivity. now rewrite flip_op_invol. Qed.

Lemma flip_zip_invol flips : forall sl b, flip_zip flips (flip_zip flips sl b) b = sl.
Proof. induction sl as [|x r IH]; intros b; cbn [flip_zip]; [reflexivity|]. now rewrite flip_slot_invol, IH. Qed.

(* the validator only looks at which variables the ops act on *)
Lemma flip_slot_shape flips ab x :
  match flip_slot flips ab x, x with
  | Some o', Some o => o_vars o' = o_vars o /\ is_edge o' = is_edge o
  | None, None => True
  | _, _ => False
  end.
Proof.
  destruct ab as [[a|] [c|]], x as [o|]; cbn [flip_slot]; auto.
  split; [apply flip_op_vars|apply flip_op_edge].
Qed.

Lemma links_walk_flip_zip flips : forall sl b0 b lab,
  links_walk (flip_zip flips sl b0) b lab = links_walk sl b lab.
Proof.
  induction sl as [|x r IH]; intros b0 b lab; cbn [flip_zip]; [reflexivity|].
  pose proof (flip_slot_shape flips (bhd b0) x) as S.
  destruct (flip_slot flips (bhd b0) x) as [o'|], x as [o|]; try contradiction; cbn [links_walk].
  - destruct S as [-> _]. destruct (bhd b) as [[a|] [c|]]; try reflexivity.
    destruct (forallb _ (o_vars o)); [apply IH|reflexivity].
  - destruct (bhd b) as [[a|] [c|]]; try reflexivity. apply IH.
Qed.

Lemma out_labels_flip_zip flips : forall sl b0 b lab,
  out_labels (flip_zip flips sl b0) b lab = out_labels sl b lab.
Proof.
  induction sl as [|x r IH]; intros b0 b lab; cbn [flip_zip]; [reflexivity|].
  pose proof (flip_slot_shape flips (bhd b0) x) as S.
  destruct (flip_slot flips (bhd b0) x) as [o'|], x as [o|]; try contradiction; cbn [out_labels].
  - destruct S as [-> _]. destruct (snd (bhd b)); apply IH.
  - apply IH.
Qed.

Lemma links_ok_flip_zip flips sl b0 b : links_ok (flip_zip flips sl b0) b = links_ok sl b.
Proof. unfold links_ok. now rewrite out_labels_flip_zip, links_walk_flip_zip. Qed.

Lemma sides_ok_flip_zip flips : forall sl b0 b, sides_ok (flip_zip flips sl b0) b = sides_ok sl b.
Proof.
  induction sl as [|x r IH]; intros b0 b; cbn [flip_zip]; [reflexivity|].
  pose proof (flip_slot_shape flips (bhd b0) x) as S.
  destruct (flip_slot flips (bhd b0) x) as [o'|], x as [o|]; try contradiction; cbn [sides_ok].
  - destruct S as [_ ->]. now rewrite IH.
  - apply IH.
Qed.

Lemma vars_in_range_flip_zip flips n : forall sl b0, vars_in_range n (flip_zip flips sl b0) = vars_in_range n sl.
Proof.
  unfold vars_in_range. induction sl as [|x r IH]; intros b0; cbn [flip_zip forallb]; [reflexivity|].
  pose proof (flip_slot_shape flips (bhd b0) x) as S.
  destruct (flip_slot flips (bhd b0) x) as [o'|], x as [o|]; try contradiction.
  - destruct S as [-> _]. now rewrite IH.
  - now rewrite IH.
Qed.

Theorem cluster_flip_involutive : forall sl st b flips,
  vars_in_range (length st) sl = true ->
  links_ok sl b = true ->
  wf st sl = true ->
  let '(sl', st') := apply_flips sl st b flips in apply_flips sl' st' b flips = (sl, st).
Proof.
  intros sl st b flips Hr Hl Hwf.
  pose proof (apply_flips_state sl st b flips Hl Hwf) as Hst.
  pose proof (flip_zip_wf sl st b flips Hr Hl Hwf) as Hwf'.
  rewrite apply_flips_closed in *. cbn [snd] in Hst. rewrite Hst.
  set (sl' := flip_zip flips sl b) in *. set (st' := xst (mask flips (out_labels sl b [])) st) in *.
  assert (Hl' : links_ok sl' b = true) by (unfold sl'; now rewrite links_ok_flip_zip).
  pose proof (apply_flips_state sl' st' b flips Hl' Hwf') as Hst2.
  rewrite apply_flips_closed in *. cbn [snd] in Hst2. rewrite Hst2.
  unfold sl', st'. rewrite flip_zip_invol, out_labels_flip_zip, xst_xst. reflexivity.
Qed.

(* ================================================================== *)
(* K. what the validator means, in terms of [bget] and the navigation  *)
(* ================================================================== *)
Lemma bget_tl b p : bget (tl b) p = bget b (S p).
Proof. unfold bget. apply nth_tl. Qed.

Lemma bget_0 b : bget b 0 = bhd b.
Proof. unfold bget, bhd. apply nth_0_hd. Qed.

Lemma get_op_cons x (r : slots) p : get_op (x :: r) (S p) = get_op r p.
Proof. reflexivity. Qed.

(* (i) shape: occupied positions carry two labels, all other positions none *)
Lemma links_walk_shape : forall sl b lab lab',
  links_walk sl b lab = Some lab' ->
  forall p, match get_op sl p with
            | Some _ => exists a c, bget b p = (Some a, Some c)
            | None => bget b p = (None, None)
            end.
Proof.
  induction sl as [|x r IH]; intros b lab lab' Hw p.
  - cbn [links_walk] in Hw. destruct (forallb unlabelled b) eqn:F; [|discriminate].
    replace (get_op [] p) with (@None op) by (unfold get_op, g_get; destruct p; reflexivity).
    unfold bget. destruct (Nat.lt_ge_cases p (length b)) as [Hp|Hp].
    + rewrite forallb_forall in F. specialize (F (nth p b (None, None)) (nth_In _ _ Hp)).
      destruct (nth p b (None, None)) as [[a|] [c|]]; try discriminate. reflexivity.
    + now apply nth_overflow.
  - cbn [links_walk] in Hw. destruct p as [|p].
    + rewrite bget_0. destruct x as [o|]; destruct (bhd b) as [[a|] [c|]]; try discriminate; cbn; eauto.
    + rewrite get_op_cons, <- bget_tl.
      destruct x as [o|]; destruct (bhd b) as [[a|] [c|]]; try discriminate.
      * destruct (forallb _ (o_vars o)); [|discriminate]. eapply IH; eauto.
      * eapply IH; eauto.
Qed.

Theorem links_ok_shape sl b p :
  links_ok sl b = true ->
  match get_op sl p with
  | Some _ => exists a c, bget b p = (Some a, Some c)
  | None => bget b p = (None, None)
  end.
Proof.
  intros H. destruct (links_ok_periodic sl b H) as (lab' & Hw & _). eapply links_walk_shape; eauto.
Qed.

(* (ii) links: a chain of labels along the ops acting on one variable *)
Fixpoint chain (b : bounds) (x : option nat) (l : list (nat * nat)) (y : option nat) : Prop :=
  match l with
  | [] => y = x
  | (q, _) :: l' => x = fst (bget b q) /\ chain b (snd (bget b q)) l' y
  end.

Lemma chain_app b : forall l1 l2 x y,
  chain b x (l1 ++ l2) y -> exists z, chain b x l1 z /\ chain b z l2 y.
Proof.
  induction l1 as [|[q k] l1 IH]; intros l2 x y H; cbn [app chain] in *.
  - exists x. split; [reflexivity|exact H].
  - destruct H as [H1 H2]. destruct (IH _ _ _ H2) as (z & Hz1 & Hz2). exists z. repeat split; assumption.
Qed.

Lemma inb_index_of v vs : inb v vs = match index_of v vs with Some _ => true | None => false end.
Proof.
  destruct (index_of v vs) eqn:E.
  - apply index_of_some_in in E. now apply inb_In.
  - apply index_of_none_notin in E. destruct (inb v vs) eqn:F; [|reflexivity]. apply inb_In in F. contradiction.
Qed.

Lemma walk_chain b0 v : forall sl s b lab lab',
  (forall i, bget b i = bget b0 (s + i)) ->
  links_walk sl b lab = Some lab' ->
  chain b0 (lget lab v) (g_ops_on_var_from o_vars s sl v) (lget lab' v).
Proof.
  induction sl as [|x r IH]; intros s b lab lab' Hb Hw; cbn [links_walk g_ops_on_var_from] in *.
  - destruct (forallb unlabelled b); [|discriminate]. inversion Hw. reflexivity.
  - assert (Hb' : forall i, bget (tl b) i = bget b0 (S s + i)).
    { intros i. rewrite bget_tl, Hb. f_equal. lia. }
    pose proof (Hb 0) as Hb0. rewrite bget_0, Nat.add_0_r in Hb0.
    destruct x as [o|]; destruct (bhd b) as [[a|] [c|]]; try discriminate.
    + destruct (forallb (fun w => onat_eqb (lget lab w) (Some a)) (o_vars o)) eqn:Hlab; [|discriminate].
      pose proof (IH (S s) (tl b) _ _ Hb' Hw) as Hc. rewrite lget_lput_all, inb_index_of in Hc.
      destruct (index_of v (o_vars o)) eqn:E; [|exact Hc].
      cbn [chain]. rewrite <- Hb0. cbn [fst snd]. split; [|exact Hc].
      apply index_of_some_in in E. rewrite forallb_forall in Hlab. apply onat_eqb_eq. now apply Hlab.
    + eapply IH; eauto.
Qed.

Lemma ops_on_var_sorted (sl : slots) v : forall s,
  Sorted.StronglySorted (fun x y : nat * nat => fst x < fst y) (g_ops_on_var_from o_vars s sl v).
Proof.
  induction sl as [|x r IH]; intros s; cbn [g_ops_on_var_from]; [constructor|].
  destruct x as [o|]; [|apply IH]. destruct (index_of v (o_vars o)); [|apply IH].
  constructor; [apply IH|]. apply Forall_forall. intros [q k] Hin. apply ops_on_var_bounds in Hin. cbn [fst]. lia.
Qed.

Lemma sorted_split_find (l1 l2 : list (nat * nat)) p k :
  Sorted.StronglySorted (fun x y : nat * nat => fst x < fst y) (l1 ++ (p, k) :: l2) ->
  find (fun x => Nat.ltb p (fst x)) (l1 ++ (p, k) :: l2) = hd_error l2.
Proof.
  induction l1 as [|y l1 IH]; intros Hs; cbn [app find] in *.
  - cbn [fst]. rewrite Nat.ltb_irrefl. inversion Hs as [|? ? _ Hall]; subst.
    destruct l2 as [|z l2]; [reflexivity|]. cbn [find hd_error].
    inversion Hall as [|? ? Hz _]; subst. cbn [fst] in Hz. apply Nat.ltb_lt in Hz. now rewrite Hz.
  - inversion Hs as [|? ? Hs' Hall]; subst. rewrite Forall_forall in Hall.
    specialize (Hall (p, k) ltac:(apply in_or_app; right; now left)). cbn [fst] in Hall.
    replace (Nat.ltb p (fst y)) with false by (symmetry; apply Nat.ltb_ge; lia). now apply IH.
Qed.

(* the output-side label of an op on v equals the input-side label of the next op on v,
   periodically (the next op being found by the scan-based navigation of Model/Nav.v) *)
Theorem links_ok_next_wrap sl b v p k q k' :
  links_ok sl b = true ->
  In (p, k) (ops_on_var sl v) ->
  next_wrap sl p v = Some (q, k') ->
  snd (bget b p) = fst (bget b q).
Proof.
  intros Hl Hin Hn. destruct (links_ok_periodic sl b Hl) as (lab' & Hw & Hper).
  pose proof (walk_chain b v sl 0 b _ _ (fun i => eq_refl) Hw) as Hc. rewrite Hper in Hc.
  unfold next_wrap, g_next_wrap, next_for_var, g_next_for_var, g_first_for_var, first_gt in Hn.
  unfold ops_on_var, g_ops_on_var in *.
  pose proof (ops_on_var_sorted sl v 0) as Hs.
  destruct (in_split _ _ Hin) as (l1 & l2 & El). rewrite El in *.
  rewrite (sorted_split_find l1 l2 p k Hs) in Hn.
  apply chain_app in Hc. destruct Hc as (z & Hc1 & Hc2). cbn [chain] in Hc2. destruct Hc2 as [Hz Hc2].
  destruct l2 as [|[q2 k2] l2]; cbn [hd_error] in Hn.
  - cbn [chain] in Hc2. destruct l1 as [|[q1 k1] l1]; cbn [app hd_error] in Hn; inversion Hn; subst.
    + cbn [chain] in Hc1. congruence.
    + cbn [chain] in Hc1. destruct Hc1 as [Hx _]. congruence.
  - inversion Hn; subst. cbn [chain] in Hc2. tauto.
Qed.

(* sides_ok, positionally *)
Theorem sides_ok_spec : forall sl b p o,
  sides_ok sl b = true -> get_op sl p = Some o -> is_edge o = false -> fst (bget b p) = snd (bget b p).
Proof.
  induction sl as [|x r IH]; intros b p o Hs Hg He.
  - unfold get_op, g_get in Hg. destruct p; discriminate.
  - destruct p as [|p].
    + unfold get_op, g_get in Hg. cbn [nth_error] in Hg. destruct x as [o1|]; [|discriminate].
      inversion Hg; subst o1. cbn [sides_ok] in Hs. rewrite He in Hs. cbn [orb] in Hs.
      apply andb_true_iff in Hs. destruct Hs as [Hs _]. apply onat_eqb_eq in Hs. now rewrite bget_0.
    + rewrite get_op_cons in Hg. rewrite <- bget_tl. eapply IH; eauto.
      destruct x as [o1|]; cbn [sides_ok] in Hs; [|exact Hs]. apply andb_true_iff in Hs. tauto.
Qed.

(* Theorem 2 with the per-op hypothesis stated positionally: an op in a cluster that may not be
   flipped (e.g. it contains a symmetry-breaking op) only needs [nth a flips false = false] *)
Lemma weight_hyp_positional H flips : forall sl b,
  (forall p o, get_op sl p = Some o ->
     if is_edge o then edge_free H o
     else flip_sym H o \/ (forall a, fst (bget b p) = Some a -> nth a flips false = false)) ->
  weight_hyp H flips sl b.
Proof.
  induction sl as [|x r IH]; intros b Hp; cbn [weight_hyp]; [exact I|].
  assert (Hr : weight_hyp H flips r (tl b)).
  { apply IH. intros p o Hg. specialize (Hp (S p) o). rewrite get_op_cons in Hp. rewrite bget_tl. now apply Hp. }
  destruct x as [o|]; [|exact Hr]. split; [|exact Hr].
  specialize (Hp 0 o eq_refl). rewrite bget_0 in Hp.
  destruct (is_edge o); [exact Hp|]. destruct Hp as [Hp|Hp]; [now left|right].
  destruct (fst (bhd b)) as [a|]; [now apply Hp|exact I].
Qed.

Theorem cluster_flip_weight_positional H sl st b flips :
  (forall p o, get_op sl p = Some o ->
     if is_edge o then edge_free H o
     else flip_sym H o \/ (forall a, fst (bget b p) = Some a -> nth a flips false = false)) ->
  sides_ok sl b = true ->
  (weight_product H (fst (apply_flips sl st b flips)) == weight_product H sl)%Q.
Proof. intros Hp Hs. apply cluster_flip_weight_gen; [exact Hs|]. now apply weight_hyp_positional. Qed.

(* ================================================================== *)
(* J. examples                                                         *)
(* ================================================================== *)
Module Examples.
Definition e (v : nat) (i o : bool) : option op := Some (mkOp [v] (10 + v) [i] [o] true).
Definition d2 (u v : nat) (x y : bool) : option op := Some (mkOp [u; v] 0 [x; y] [x; y] false).

(* validator verdict, cluster count, and wf of the string flipped with [flips] *)
Definition run (sl : slots) (st : state) (flips : list bool) : option (bool * bool * nat * bool) :=
  match decompose sl with
  | Some (b, n) =>
      let '(sl', st') := apply_flips sl st b flips in
      Some (links_ok sl b, sides_ok sl b, n, wf st' sl')
  | None => None
  end.

(* three variables, edges on variables 0 and 1: two clusters *)
Definition s1 : slots :=
  [e 0 false true; None; d2 0 1 true false; e 1 false false; None; e 0 true false; d2 1 2 false true; None].
Definition st1 : state := [false; false; true].
Example s1_wf : wf st1 s1 = true. Proof. vm_compute. reflexivity. Qed.
Example s1_decompose :
  decompose s1 = Some ([(Some 0, Some 1); (None, None); (Some 1, Some 1); (Some 1, Some 1);
                        (None, None); (Some 1, Some 0); (Some 1, Some 1)], 2).
Proof. vm_compute. reflexivity. Qed.
Example s1_valid : run s1 st1 [true; false] = Some (true, true, 2, true). Proof. vm_compute. reflexivity. Qed.
Example s1_valid' : run s1 st1 [false; true] = Some (true, true, 2, true). Proof. vm_compute. reflexivity. Qed.

(* no edge at all: a single cluster *)
Definition s2 : slots := [d2 0 1 true true; None; d2 1 2 true false; d2 0 1 true true].
Definition st2 : state := [true; true; false].
Example s2_wf : wf st2 s2 = true. Proof. vm_compute. reflexivity. Qed.
Example s2_valid : run s2 st2 [true] = Some (true, true, 1, true). Proof. vm_compute. reflexivity. Qed.

(* edges on all three variables: three clusters *)
Definition s3 : slots :=
  [None; e 0 false true; e 1 true true; d2 0 1 true true; e 0 true false; d2 1 2 true false;
   e 2 false false; e 1 true true].
Definition st3 : state := [false; true; false].
Example s3_wf : wf st3 s3 = true. Proof. vm_compute. reflexivity. Qed.
Example s3_decompose :
  decompose s3 = Some ([(None, None); (Some 0, Some 1); (Some 2, Some 1); (Some 1, Some 1);
                        (Some 1, Some 0); (Some 1, Some 1); (Some 1, Some 1); (Some 1, Some 2)], 3).
Proof. vm_compute. reflexivity. Qed.
Example s3_valid : run s3 st3 [true; false; true] = Some (true, true, 3, true). Proof. vm_compute. reflexivity. Qed.
Example s3_valid' : run s3 st3 [false; true; false] = Some (true, true, 3, true). Proof. vm_compute. reflexivity. Qed.

(* the validator rejects a labelling whose links are broken (output of the op at 1 is labelled 1,
   input of the next op on variable 0, at 3, is labelled 2), and flipping cluster 1 then breaks wf *)
Definition bad3 : bounds :=
  [(None, None); (Some 0, Some 1); (Some 2, Some 1); (Some 2, Some 2);
   (Some 1, Some 0); (Some 1, Some 1); (Some 1, Some 1); (Some 1, Some 2)].
Example s3_bad_rejected : links_ok s3 bad3 = false. Proof. vm_compute. reflexivity. Qed.
Example s3_bad_breaks :
  (let '(sl', st') := apply_flips s3 st3 bad3 [false; true; false] in wf st' sl') = false.
Proof. vm_compute. reflexivity. Qed.

(* the range hypothesis of cluster_flip_wf cannot be dropped: a variable outside the state reads
   as false whatever is written, so an accepted labelling of a consistent string flips to an
   inconsistent one *)
Definition sc : slots := [Some (mkOp [0] 0 [false] [false] true)].
Example range_needed :
  wf [] sc = true /\ links_ok sc [(Some 0, Some 0)] = true /\ vars_in_range 0 sc = false
  /\ (let '(sl', st') := apply_flips sc [] [(Some 0, Some 0)] [true] in wf st' sl') = false.
Proof. vm_compute. repeat split; reflexivity. Qed.
End Examples.
