(* FastOps::mutate_p refines the scan-based navigation specification (C11).
   Main results: mutate_p_refines, sweep_refines (end of file). *)
From Coq Require Import List Bool Arith Lia.
From QmcV Require Import Model.Sse Model.Nav Model.FastOps Proofs.NavProofs Proofs.ChainLemmas Proofs.FastOpsLemmas.
Import ListNotations.

(* ------------------------------------------------------------------ *)
(* side conditions                                                     *)
(* An operator is well formed when its variables are pairwise distinct and smaller than the number
   of variables of the container, and (when bonds are counted) its bond index is smaller than the
   number of counters.  The proofs below use the first two conjuncts only; the third is what keeps
   `bond_counters[bond]` in range in the Rust code (the model treats an out-of-range counter update
   as the identity, where Rust would panic). *)
Definition wf_op (nvars : nat) (nb : option nat) (o : op) : Prop :=
  NoDup (o_vars o) /\ (forall v, In v (o_vars o) -> v < nvars)
  /\ match nb with Some n => o_bond o < n | None => True end.
Definition wf_slots (nvars : nat) (nb : option nat) (sl : slots) : Prop :=
  forall q o, nth_error sl q = Some (Some o) -> wf_op nvars nb o.
Definition wf_decision (nvars : nat) (nb : option nat) (dec : option (option op)) : Prop :=
  match dec with Some (Some o) => wf_op nvars nb o | _ => True end.

(* the side conditions are decidable: boolean versions, sound for the propositions *)
Fixpoint nodup_b (l : list nat) : bool :=
  match l with [] => true | x :: r => negb (existsb (Nat.eqb x) r) && nodup_b r end.
Definition wf_op_b (nvars : nat) (nb : option nat) (o : op) : bool :=
  nodup_b (o_vars o) && forallb (fun v => Nat.ltb v nvars) (o_vars o)
  && match nb with Some n => Nat.ltb (o_bond o) n | None => true end.
Definition wf_slots_b (nvars : nat) (nb : option nat) (sl : slots) : bool :=
  forallb (fun s => match s with Some o => wf_op_b nvars nb o | None => true end) sl.
Definition wf_decision_b (nvars : nat) (nb : option nat) (dec : option (option op)) : bool :=
  match dec with Some (Some o) => wf_op_b nvars nb o | _ => true end.

Lemma nodup_b_sound l : nodup_b l = true -> NoDup l.
Proof.
  induction l as [|x r IH]; cbn; intros H; constructor.
  - apply andb_true_iff in H. destruct H as [H _]. apply negb_true_iff in H. intros Hin.
    assert (existsb (Nat.eqb x) r = true) by (apply existsb_exists; exists x; split; [exact Hin|apply Nat.eqb_refl]).
    congruence.
  - apply IH. apply andb_true_iff in H. tauto.
Qed.

Lemma wf_op_b_sound nvars nb o : wf_op_b nvars nb o = true -> wf_op nvars nb o.
Proof.
  unfold wf_op_b, wf_op. intros H. apply andb_true_iff in H. destruct H as [H H3].
  apply andb_true_iff in H. destruct H as [H1 H2]. split; [now apply nodup_b_sound|]. split.
  - intros v Hv. rewrite forallb_forall in H2. apply Nat.ltb_lt. now apply H2.
  - destruct nb; [now apply Nat.ltb_lt|exact I].
Qed.

Lemma wf_slots_b_sound nvars nb sl : wf_slots_b nvars nb sl = true -> wf_slots nvars nb sl.
Proof.
  unfold wf_slots_b, wf_slots. intros H q o Hq. rewrite forallb_forall in H.
  apply wf_op_b_sound. apply (H (Some o)). eapply nth_error_In; eauto.
Qed.

Lemma wf_decision_b_sound nvars nb dec : wf_decision_b nvars nb dec = true -> wf_decision nvars nb dec.
Proof. destruct dec as [[o|]|]; cbn; auto. apply wf_op_b_sound. Qed.

Lemma fops_ext F G :
  f_ops F = f_ops G -> f_n F = f_n G -> f_ends F = f_ends G -> f_var_ends F = f_var_ends G ->
  f_counters F = f_counters G -> F = G.
Proof. destruct F, G; cbn; intros; subst; reflexivity. Qed.

(* ------------------------------------------------------------------ *)
(* the observables of the scan-built structure                         *)
Section Build.
Variables (nv : nat) (nb : option nat).

Lemma build_nth sl q :
  nth_error (f_ops (build nv nb sl)) q = option_map (option_map (build_node sl q)) (nth_error sl q).
Proof.
  unfold build. cbn [f_ops]. rewrite nth_error_map, nth_error_enumerate.
  destruct (nth_error sl q) as [s|]; reflexivity.
Qed.

Lemma build_length sl : length (f_ops (build nv nb sl)) = length sl.
Proof. unfold build, enumerate. cbn [f_ops]. rewrite map_length, combine_length, seq_length. lia. Qed.

Lemma build_node_at sl q o : nth_error sl q = Some (Some o) -> node_at (f_ops (build nv nb sl)) q = Some (build_node sl q o).
Proof. intros H. unfold node_at. now rewrite build_nth, H. Qed.

Lemma build_node_at_none sl q : (forall o, nth_error sl q <> Some (Some o)) -> node_at (f_ops (build nv nb sl)) q = None.
Proof.
  intros H. unfold node_at. rewrite build_nth. destruct (nth_error sl q) as [[o|]|]; cbn; auto. destruct (H o eq_refl).
Qed.

Lemma links_build_node d sl q o : links d (build_node sl q o) = map (nav_v d sl q) (o_vars o).
Proof. destruct d; reflexivity. Qed.

Lemma plink_build_node d sl q o : plink d (build_node sl q o) = nav_p d sl q.
Proof. destruct d; reflexivity. Qed.

Lemma build_oshape sl q :
  oshape (f_ops (build nv nb sl)) q
  = option_map (option_map (fun o => (o, length (o_vars o), length (o_vars o)))) (nth_error sl q).
Proof.
  unfold oshape. rewrite build_nth. destruct (nth_error sl q) as [[o|]|]; cbn; auto.
  unfold nshape. cbn. now rewrite !map_length.
Qed.

Lemma build_plk d sl q o : nth_error sl q = Some (Some o) -> plk d (f_ops (build nv nb sl)) q = nav_p d sl q.
Proof. intros H. unfold plk. rewrite (build_node_at _ _ _ H). apply plink_build_node. Qed.

Lemma nth_map_some {A B} (f : A -> option B) l r x : nth_error l r = Some x -> nth r (map f l) None = f x.
Proof. intros H. apply nth_error_nth'. now rewrite nth_error_map, H. Qed.

Lemma build_vlk d sl q o r v :
  nth_error sl q = Some (Some o) -> nth_error (o_vars o) r = Some v ->
  vlk d (f_ops (build nv nb sl)) q r = nav_v d sl q v.
Proof.
  intros H Hr. unfold vlk. rewrite (build_node_at _ _ _ H), links_build_node. now apply nth_map_some.
Qed.

Lemma build_valid d sl q o r :
  nth_error sl q = Some (Some o) -> (valid d (f_ops (build nv nb sl)) q r <-> r < length (o_vars o)).
Proof.
  intros H. unfold valid. rewrite build_oshape, H. cbn. split.
  - intros (s & Hs & Hr). inversion Hs; subst. destruct d; exact Hr.
  - intros Hr. eexists. split; [reflexivity|]. destruct d; exact Hr.
Qed.

(* the cursor *)
Lemma cursor_last_p sl p : a_last_p (scan_cursor nv sl p) = nav_p false sl p.
Proof. reflexivity. Qed.

Lemma cursor_last sl p v : v < nv -> nth v (a_last (scan_cursor nv sl p)) None = nav_v false sl p v.
Proof. intros H. unfold scan_cursor. cbn [a_last]. now rewrite nth_map_seq. Qed.

Lemma build_var_ends sl v : v < nv ->
  nth_error (f_var_ends (build nv nb sl)) v = Some (ends_of (end_v true sl v) (end_v false sl v)).
Proof.
  intros H. unfold build. cbn [f_var_ends]. rewrite nth_error_map_seq.
  apply Nat.ltb_lt in H. now rewrite H.
Qed.
End Build.

(* ------------------------------------------------------------------ *)
(* the chains of a slot array under replacement of one slot            *)
Lemma Mvar_agree sl p x v : agree_off fst p (Mvar sl v) (Mvar (set_nth sl p x) v).
Proof.
  intros [q r] Hq. cbn in Hq. unfold Mvar. cbn [fst snd]. rewrite nth_error_set_nth_neq by congruence. reflexivity.
Qed.

Lemma Mocc_agree sl p x : agree_off idk p (Mocc sl) (Mocc (set_nth sl p x)).
Proof.
  intros q Hq. unfold idk in Hq. unfold Mocc. rewrite nth_error_set_nth_neq by congruence. reflexivity.
Qed.

Lemma Mvar_empty sl p v :
  (forall o, nth_error sl p = Some (Some o) -> ~ In v (o_vars o)) -> empty_at fst p (Mvar sl v).
Proof.
  intros H [q r] (o & Ho & Hi) E. cbn in *. subst q. apply (H o Ho). eapply index_of_some_in; eauto.
Qed.

Lemma Mocc_empty sl p : (forall o, nth_error sl p <> Some (Some o)) -> empty_at idk p (Mocc sl).
Proof. intros H q (o & Ho) E. unfold idk in E. subst q. exact (H o Ho). Qed.

Lemma Mvar_at sl p o v r : nth_error sl p = Some (Some o) -> index_of v (o_vars o) = Some r -> Mvar sl v (p, r).
Proof. intros H Hi. exists o. cbn. split; assumption. Qed.

Lemma Mocc_at sl p o : nth_error sl p = Some (Some o) -> Mocc sl p.
Proof. intros H. exists o. exact H. Qed.

Lemma Mvar_var sl v q r o : Mvar sl v (q, r) -> nth_error sl q = Some (Some o) -> nth_error (o_vars o) r = Some v.
Proof.
  intros (o' & Ho & Hi) H. cbn in *. assert (o' = o) by congruence. subst. now apply index_of_nth_error.
Qed.

Lemma Mvar_same_vars sl p x v :
  option_map (option_map o_vars) (nth_error sl p) = Some (option_map o_vars x) ->
  forall a, Mvar sl v a <-> Mvar (set_nth sl p x) v a.
Proof.
  intros H [q r]. unfold Mvar. cbn [fst snd]. destruct (Nat.eq_dec p q) as [<-|Hne].
  - assert (Hlt : p < length sl) by (apply nth_error_Some; destruct (nth_error sl p); [congruence|discriminate]).
    rewrite nth_error_set_nth_eq by exact Hlt.
    destruct (nth_error sl p) as [[o1|]|], x as [o2|]; cbn in H; try discriminate; inversion H as [H'].
    + split; intros (o & Ho & Hi); inversion Ho; subst; eexists; (split; [reflexivity|congruence]).
    + split; intros (o & Ho & _); discriminate.
  - now rewrite nth_error_set_nth_neq.
Qed.

Lemma Mocc_same_occ sl p (x : option op) :
  option_map (option_map (fun _ : op => tt)) (nth_error sl p) = Some (option_map (fun _ => tt) x) ->
  forall a, Mocc sl a <-> Mocc (set_nth sl p x) a.
Proof.
  intros H q. unfold Mocc. destruct (Nat.eq_dec p q) as [<-|Hne].
  - assert (Hlt : p < length sl) by (apply nth_error_Some; destruct (nth_error sl p); [congruence|discriminate]).
    rewrite nth_error_set_nth_eq by exact Hlt.
    destruct (nth_error sl p) as [[o1|]|], x as [o2|]; cbn in H; try discriminate.
    + split; intros _; eauto.
    + split; intros (o & Ho); discriminate.
  - now rewrite nth_error_set_nth_neq.
Qed.

(* the prefix before p determines the cursor at p *)
Lemma nav_v_prefix sl p x v : nav_v false (set_nth sl p x) p v = nav_v false sl p v.
Proof. apply nav_v_eq. eapply nb_agree; [apply Mvar_agree|apply nav_v_spec]. Qed.
Lemma nav_p_prefix sl p x : nav_p false (set_nth sl p x) p = nav_p false sl p.
Proof. apply nav_p_eq. eapply nb_agree; [apply Mocc_agree|apply nav_p_spec]. Qed.
Lemma nav_v_suffix sl p x v : nav_v true (set_nth sl p x) p v = nav_v true sl p v.
Proof. apply nav_v_eq. eapply nb_agree; [apply Mvar_agree|apply nav_v_spec]. Qed.
Lemma nav_p_suffix sl p x : nav_p true (set_nth sl p x) p = nav_p true sl p.
Proof. apply nav_p_eq. eapply nb_agree; [apply Mocc_agree|apply nav_p_spec]. Qed.

Lemma scan_cursor_set_nth nv sl p x : scan_cursor nv (set_nth sl p x) p = scan_cursor nv sl p.
Proof.
  unfold scan_cursor. f_equal; [apply (nav_p_prefix sl p x)|].
  apply map_ext. intros v. apply (nav_v_prefix sl p x v).
Qed.

(* ------------------------------------------------------------------ *)
(* structure of `uninstall`: field by field                            *)
Definition unlink_wrs (nd : node) (a : margs) (rv : nat * nat) : list vwr :=
  let prev := nth (snd rv) (a_last a) None in
  let nxt := nth (fst rv) (n_next_v nd) None in
  (match prev with Some (pp, pr) => [(true, pp, pr, nxt)] | None => [] end)
  ++ (match nxt with Some (np, nr) => [(false, np, nr, prev)] | None => [] end).

Definition unlink_ve_g (nd : node) (a : margs) (relv v : nat) (e : option (prel * prel)) : option (prel * prel) :=
  let prev := nth v (a_last a) None in
  let nxt := nth relv (n_next_v nd) None in
  let e1 := match prev with Some _ => e | None => ends_drop_head e nxt end in
  match nxt with Some _ => e1 | None => ends_drop_tail e1 (nth relv (n_prev_v nd) None) end.

Definition unlink_ve (nd : node) (a : margs) (ve : list (option (prel * prel))) (rv : nat * nat) :=
  let prev := nth (snd rv) (a_last a) None in
  let nxt := nth (fst rv) (n_next_v nd) None in
  let ve1 := match prev with Some _ => ve | None => upd_nth ve (snd rv) (fun e => ends_drop_head e nxt) end in
  match nxt with
  | Some _ => ve1
  | None => upd_nth ve1 (snd rv) (fun e => ends_drop_tail e (nth (fst rv) (n_prev_v nd) None))
  end.

Lemma unlink_var_split nd a F rv :
  unlink_var nd a F rv
  = mkFops (apply_vwrs (unlink_wrs nd a rv) (f_ops F)) (f_n F) (f_ends F)
           (unlink_ve nd a (f_var_ends F) rv) (f_counters F).
Proof.
  destruct F as [ops n e ve c], rv as [relv v]. unfold unlink_var, unlink_wrs, unlink_ve. cbn [fst snd f_ops f_n f_ends f_var_ends f_counters].
  destruct (nth v (a_last a) None) as [[pp pr]|], (nth relv (n_next_v nd) None) as [[np nr]|]; reflexivity.
Qed.

Lemma unlink_fold nd a L : forall F,
  fold_left (unlink_var nd a) L F
  = mkFops (apply_vwrs (flat_map (unlink_wrs nd a) L) (f_ops F)) (f_n F) (f_ends F)
           (fold_left (unlink_ve nd a) L (f_var_ends F)) (f_counters F).
Proof.
  induction L as [|rv L IH]; intros F; cbn [fold_left flat_map].
  - destruct F; reflexivity.
  - rewrite IH, unlink_var_split. cbn [f_ops f_n f_ends f_var_ends f_counters].
    unfold apply_vwrs. now rewrite fold_left_app.
Qed.

Definition un_ops1 (ops : list (option node)) (nd : node) (a : margs) :=
  match a_last_p a with Some lp => set_next_p ops lp (n_next nd) | None => ops end.
Definition un_has_next (ops1 : list (option node)) (nd : node) : option nat :=
  match n_next nd with
  | Some np => match node_at ops1 np with Some _ => Some np | None => None end
  | None => None
  end.
Definition un_ops2 (ops : list (option node)) (nd : node) (a : margs) :=
  let ops1 := un_ops1 ops nd a in
  match un_has_next ops1 nd with Some np => set_prev_p ops1 np (a_last_p a) | None => ops1 end.
Definition un_ends (e : option (nat * nat)) (ops : list (option node)) (nd : node) (a : margs) :=
  let e1 := match a_last_p a with Some _ => e | None => ends_drop_head e (n_next nd) end in
  match un_has_next (un_ops1 ops nd a) nd with Some _ => e1 | None => ends_drop_tail e1 (n_prev nd) end.

Lemma uninstall_eq F nd a :
  uninstall F nd a
  = mkFops (apply_vwrs (flat_map (unlink_wrs nd a) (enumerate (o_vars (n_op nd)))) (un_ops2 (f_ops F) nd a))
           (f_n F - 1)
           (un_ends (f_ends F) (f_ops F) nd a)
           (fold_left (unlink_ve nd a) (enumerate (o_vars (n_op nd))) (f_var_ends F))
           (dec_counter (f_counters F) (o_bond (n_op nd))).
Proof.
  unfold uninstall. rewrite unlink_fold. destruct F as [ops n e ve c].
  unfold un_ops2, un_ends, un_ops1, un_has_next. cbn [f_ops f_n f_ends f_var_ends f_counters set_ops set_n set_ends set_counters].
  destruct (a_last_p a) as [lp|]; cbn [f_ops f_n f_ends f_var_ends f_counters set_ops set_ends];
    destruct (n_next nd) as [np|]; cbn [f_ops f_n f_ends f_var_ends f_counters set_ops set_ends]; try reflexivity;
    match goal with |- context [node_at ?o np] => destruct (node_at o np) end; reflexivity.
Qed.

(* ------------------------------------------------------------------ *)
(* removing the operator at p                                          *)
Section Uninstall.
Variables (nv : nat) (nb : option nat) (sl : slots) (p : nat) (old : op).
Hypothesis Hwf : wf_slots nv nb sl.
Hypothesis Hp : nth_error sl p = Some (Some old).
Let sl0 := set_nth sl p None.
Let B := f_ops (build nv nb sl).
Let nd := build_node sl p old.
Let a := scan_cursor nv sl p.
Let vars := o_vars old.
Let W := flat_map (unlink_wrs nd a) (enumerate vars).

Lemma un_plt : p < length sl.
Proof. apply nth_error_Some. congruence. Qed.

Lemma un_vars_lt v : In v vars -> v < nv.
Proof. intros H. destruct (Hwf p old Hp) as (_ & Hlt & _). now apply Hlt. Qed.

Lemma un_nodup : NoDup vars.
Proof. destruct (Hwf p old Hp) as (Hnd & _). exact Hnd. Qed.

Lemma un_wrs relv v : nth_error vars relv = Some v ->
  unlink_wrs nd a (relv, v)
  = (match nav_v false sl p v with Some (pp, pr) => [(true, pp, pr, nav_v true sl p v)] | None => [] end)
    ++ (match nav_v true sl p v with Some (np, nr) => [(false, np, nr, nav_v false sl p v)] | None => [] end).
Proof.
  intros H. unfold unlink_wrs. cbn [fst snd].
  assert (Hv : v < nv) by (apply un_vars_lt; eapply nth_error_In; eauto).
  unfold a. rewrite (cursor_last nv sl p v Hv).
  replace (nth relv (n_next_v nd) None) with (nav_v true sl p v); [reflexivity|].
  symmetry. unfold nd. change (n_next_v (build_node sl p old)) with (links true (build_node sl p old)).
  rewrite links_build_node. now apply nth_map_some.
Qed.

Lemma W_in d q r x :
  In (d, q, r, x) W <->
  exists relv v, nth_error vars relv = Some v /\ nav_v (negb d) sl p v = Some (q, r) /\ x = nav_v d sl p v.
Proof.
  unfold W. rewrite in_flat_map. split.
  - intros ([relv v] & Hin & Hw). apply In_enumerate in Hin. rewrite (un_wrs relv v Hin) in Hw.
    exists relv, v. split; [exact Hin|]. apply in_app_or in Hw. destruct Hw as [Hw|Hw].
    + destruct (nav_v false sl p v) as [[pp pr]|] eqn:E; [|destruct Hw]. destruct Hw as [Hw|[]].
      inversion Hw; subst. cbn [negb]. split; [exact E|reflexivity].
    + destruct (nav_v true sl p v) as [[np nr]|] eqn:E; [|destruct Hw]. destruct Hw as [Hw|[]].
      inversion Hw; subst. cbn [negb]. split; [exact E|reflexivity].
  - intros (relv & v & Hin & HP & Hx). exists (relv, v). split; [now apply In_enumerate|].
    rewrite (un_wrs relv v Hin). apply in_or_app. destruct d; cbn [negb] in HP.
    + left. rewrite HP. left. now subst.
    + right. rewrite HP. left. now subst.
Qed.

(* a write to link (q, r) can only concern the variable stored at (q, r) *)
Lemma nav_target_var d q' v q r oq :
  nav_v d sl q' v = Some (q, r) -> nth_error sl q = Some (Some oq) -> nth_error (o_vars oq) r = Some v.
Proof.
  intros H Hq. pose proof (nav_v_spec d sl q' v) as Hs. rewrite H in Hs. destruct Hs as (HM & _).
  eapply Mvar_var; eauto.
Qed.

Lemma un_agree_v v : agree_off fst p (Mvar sl v) (Mvar sl0 v).
Proof. apply Mvar_agree. Qed.
Lemma un_empty_v v : empty_at fst p (Mvar sl0 v).
Proof.
  apply Mvar_empty. intros o Ho. unfold sl0 in Ho. rewrite nth_error_set_nth_eq in Ho by apply un_plt. discriminate.
Qed.
Lemma un_agree_p : agree_off idk p (Mocc sl) (Mocc sl0).
Proof. apply Mocc_agree. Qed.
Lemma un_empty_p : empty_at idk p (Mocc sl0).
Proof.
  apply Mocc_empty. intros o Ho. unfold sl0 in Ho. rewrite nth_error_set_nth_eq in Ho by apply un_plt. discriminate.
Qed.

Lemma option_prel_dec (x y : option (nat * nat)) : {x = y} + {x <> y}.
Proof. decide equality. decide equality; apply Nat.eq_dec. Qed.

(* the per-variable links of every other node *)
Lemma un_vlk ops2 d q r oq v' :
  (forall d q r, q <> p -> vlk d ops2 q r = vlk d B q r) ->
  (forall q, q <> p -> oshape ops2 q = oshape B q) ->
  q <> p -> nth_error sl q = Some (Some oq) -> nth_error (o_vars oq) r = Some v' ->
  vlk d (apply_vwrs W ops2) q r = nav_v d sl0 q v'.
Proof.
  intros Hvl Hsh Hqp Hq Hr.
  assert (Hnd : NoDup (o_vars oq)) by (destruct (Hwf q oq Hq) as (H & _); exact H).
  assert (Maq : Mvar sl v' (q, r)) by (eapply Mvar_at; eauto; now apply nth_error_index_of).
  assert (Hvalid : valid d ops2 q r).
  { eapply valid_shape; [symmetry; apply (Hsh q Hqp)|]. unfold B. apply (build_valid nv nb d sl q oq r Hq).
    apply nth_error_Some. congruence. }
  assert (Hold : vlk d ops2 q r = nav_v d sl q v').
  { rewrite (Hvl d q r Hqp). unfold B. eapply build_vlk; eauto. }
  pose proof (nav_v_spec (negb d) sl p v') as HP.
  pose proof (nav_v_spec d sl p v') as HN.
  pose proof (nav_v_spec d sl q v') as HNq.
  (* every write aimed at (d, q, r) is about v' *)
  assert (Hwr : forall x, In (d, q, r, x) W -> In v' vars /\ nav_v (negb d) sl p v' = Some (q, r) /\ x = nav_v d sl p v').
  { intros x Hx. apply W_in in Hx. destruct Hx as (relv & v & Hin & HPv & Hx).
    assert (v = v') by (pose proof (nav_target_var _ _ _ _ _ _ HPv Hq); congruence). subst v.
    split; [eapply nth_error_In; eauto|]. split; assumption. }
  destruct (option_prel_dec (nav_v (negb d) sl p v') (Some (q, r))) as [E|E].
  - (* (q, r) is the neighbour of p on the far side: it inherits p's neighbour *)
    rewrite E in HP.
    transitivity (nav_v d sl p v'); [|symmetry; apply nav_v_eq;
      exact (R_hit fst d p _ _ (q, r) _ (un_agree_v v') (un_empty_v v') HP HN)].
    destruct (in_dec Nat.eq_dec v' vars) as [Hin|Hnin].
    + apply In_nth_error in Hin. destruct Hin as [relv Hrelv].
      apply vlk_apply_vwrs_hit; [| |exact Hvalid].
      * apply W_in. exists relv, v'. repeat split; auto.
      * intros x' Hx'. apply Hwr in Hx'. tauto.
    + rewrite vlk_apply_vwrs_miss by (intros x Hx; apply Hwr in Hx; tauto).
      rewrite Hold. symmetry. apply nav_v_eq.
      apply (skip_empty fst d p _ (q, r)); [|exact HP|exact HNq].
      apply Mvar_empty. intros o Ho. assert (o = old) by congruence. subst o. exact Hnin.
  - rewrite vlk_apply_vwrs_miss by (intros x Hx; apply Hwr in Hx; tauto).
    rewrite Hold. symmetry. apply nav_v_eq.
    refine (R_miss fst d p _ _ (q, r) _ _ (un_agree_v v') (un_empty_v v') Maq Hqp HP _ HNq).
    destruct (nav_v (negb d) sl p v') as [[q2 r2]|] eqn:EP; cbn; [|discriminate].
    intros Heq. inversion Heq; subst q2. apply E. f_equal.
    destruct HP as (HM & _). exact (Mvar_inj sl v' _ _ HM Maq eq_refl).
Qed.
(* the two p-link writes *)
Lemma un_ops2_oshape ops nd' a' q : oshape (un_ops2 ops nd' a') q = oshape ops q.
Proof.
  unfold un_ops2, un_ops1. destruct (un_has_next _ nd'); destruct (a_last_p a');
    repeat first [rewrite (oshape_set_p false) | rewrite (oshape_set_p true)]; reflexivity.
Qed.

Lemma un_ops2_vlk ops nd' a' d q r : vlk d (un_ops2 ops nd' a') q r = vlk d ops q r.
Proof.
  unfold un_ops2, un_ops1. destruct (un_has_next _ nd'); destruct (a_last_p a');
    repeat first [rewrite (vlk_set_p d false) | rewrite (vlk_set_p d true)]; reflexivity.
Qed.

Lemma oshape_node_at ops q s : oshape ops q = Some (Some s) -> exists n, node_at ops q = Some n.
Proof. intros H. apply oshape_node in H. destruct H as (n & H & _). exists n. now apply node_at_some. Qed.

Let ops0 := set_nth B p None.

Lemma un_ops0_oshape q : q <> p -> oshape ops0 q = oshape B q.
Proof. intros H. unfold ops0. apply oshape_set_nth_neq. congruence. Qed.

Lemma un_node_at_B q oq : nth_error sl q = Some (Some oq) -> q <> p -> exists n, node_at ops0 q = Some n.
Proof.
  intros Hq Hqp. apply oshape_node_at with (s := (oq, length (o_vars oq), length (o_vars oq))).
  rewrite un_ops0_oshape by exact Hqp. unfold B. now rewrite build_oshape, Hq.
Qed.

Lemma nav_p_occ d q x : nav_p d sl q = Some x -> x <> q /\ exists o, nth_error sl x = Some (Some o).
Proof.
  intros H. pose proof (nav_p_spec d sl q) as Hs. rewrite H in Hs. destruct Hs as (HM & Hlt & _).
  split; [unfold idk in Hlt; destruct d; cbn in Hlt; lia|exact HM].
Qed.

Lemma un_has_next_eq : un_has_next (un_ops1 ops0 nd a) nd = nav_p true sl p.
Proof.
  unfold un_has_next. change (n_next nd) with (nav_p true sl p).
  destruct (nav_p true sl p) as [np|] eqn:EN; [|reflexivity].
  destruct (nav_p_occ _ _ _ EN) as (Hne & o & Ho).
  assert (Hs : oshape (un_ops1 ops0 nd a) np = oshape ops0 np).
  { unfold un_ops1. destruct (a_last_p a); [apply (oshape_set_p true)|reflexivity]. }
  assert (exists n2, node_at (un_ops1 ops0 nd a) np = Some n2) as (n2 & ->); [|reflexivity].
  apply oshape_node_at with (s := (o, length (o_vars o), length (o_vars o))).
  rewrite Hs, un_ops0_oshape by exact Hne. unfold B. now rewrite build_oshape, Ho.
Qed.

Lemma un_plk_model d q oq : nth_error sl q = Some (Some oq) -> q <> p ->
  plk d (un_ops2 ops0 nd a) q
  = if option_prel_dec (option_map (fun x => (x, 0)) (nav_p (negb d) sl p)) (Some (q, 0))
    then nav_p d sl p else nav_p d sl q.
Proof.
  intros Hq Hqp. destruct (un_node_at_B q oq Hq Hqp) as (n0 & Hn0).
  assert (Hold : plk d ops0 q = nav_p d sl q).
  { unfold ops0. rewrite plk_set_nth_neq by congruence. unfold B. eapply build_plk; eauto. }
  unfold un_ops2. rewrite un_has_next_eq. unfold un_ops1. change (a_last_p a) with (nav_p false sl p).
  change (n_next nd) with (nav_p true sl p).
  destruct d; cbn [negb].
  - (* next links: only the first write matters *)
    assert (E1 : forall o x, plk true (match nav_p true sl p with Some np => set_prev_p o np x | None => o end) q = plk true o q).
    { intros o x. destruct (nav_p true sl p); [|reflexivity]. apply (plk_set_p_other true false). congruence. }
    rewrite E1. destruct (nav_p false sl p) as [lp|]; cbn [option_map].
    + destruct (option_prel_dec (Some (lp, 0)) (Some (q, 0))) as [E|E].
      * inversion E; subst lp. eapply (plk_set_p_same true); eauto.
      * rewrite (plk_set_p_other true true) by congruence. exact Hold.
    + destruct (option_prel_dec None (Some (q, 0))); [discriminate|exact Hold].
  - (* previous links: only the second write matters *)
    set (o1 := match nav_p false sl p with Some lp => set_next_p ops0 lp (nav_p true sl p) | None => ops0 end).
    assert (E1 : plk false o1 q = plk false ops0 q).
    { unfold o1. destruct (nav_p false sl p); [|reflexivity]. apply (plk_set_p_other false true). congruence. }
    assert (Hn1 : exists n1, node_at o1 q = Some n1).
    { unfold o1. destruct (nav_p false sl p); [|eauto].
      apply oshape_node_at with (s := nshape n0). rewrite (oshape_set_p true). unfold oshape.
      apply node_at_some in Hn0. now rewrite Hn0. }
    destruct Hn1 as (n1 & Hn1).
    destruct (nav_p true sl p) as [np|]; cbn [option_map].
    + destruct (option_prel_dec (Some (np, 0)) (Some (q, 0))) as [E|E].
      * inversion E; subst np. eapply (plk_set_p_same false); eauto.
      * rewrite (plk_set_p_other false false) by congruence. rewrite E1. exact Hold.
    + destruct (option_prel_dec None (Some (q, 0))); [discriminate|]. rewrite E1. exact Hold.
Qed.

Lemma un_plk d q oq : nth_error sl q = Some (Some oq) -> q <> p ->
  plk d (un_ops2 ops0 nd a) q = nav_p d sl0 q.
Proof.
  intros Hq Hqp. rewrite (un_plk_model d q oq Hq Hqp).
  pose proof (nav_p_spec (negb d) sl p) as HP.
  pose proof (nav_p_spec d sl p) as HN.
  pose proof (nav_p_spec d sl q) as HNq.
  destruct (option_prel_dec _ _) as [E|E]; symmetry; apply nav_p_eq.
  - destruct (nav_p (negb d) sl p) as [c|]; cbn in E; inversion E; subst c.
    exact (R_hit idk d p _ _ q _ un_agree_p un_empty_p HP HN).
  - refine (R_miss idk d p _ _ q _ _ un_agree_p un_empty_p (Mocc_at _ _ _ Hq) Hqp HP _ HNq).
    destruct (nav_p (negb d) sl p) as [c|]; cbn in *; [|discriminate]. unfold idk. congruence.
Qed.
Lemma un_sl0_neq q : q <> p -> nth_error sl0 q = nth_error sl q.
Proof. intros H. unfold sl0. apply nth_error_set_nth_neq. congruence. Qed.

Lemma un_sl0_eq : nth_error sl0 p = Some None.
Proof. unfold sl0. apply nth_error_set_nth_eq. apply un_plt. Qed.

(* all node slots *)
Lemma un_ops : apply_vwrs W (un_ops2 ops0 nd a) = f_ops (build nv nb sl0).
Proof.
  apply list_ext. intros q.
  assert (Hshape : oshape (apply_vwrs W (un_ops2 ops0 nd a)) q = oshape ops0 q)
    by (now rewrite oshape_apply_vwrs, un_ops2_oshape).
  assert (Hshape_p : oshape ops0 p = Some None).
  { unfold ops0, oshape. rewrite nth_error_set_nth_eq; [reflexivity|]. unfold B. rewrite build_length. apply un_plt. }
  apply slot_ext'.
  - rewrite Hshape, build_oshape. destruct (Nat.eq_dec q p) as [->|Hqp].
    + now rewrite Hshape_p, un_sl0_eq.
    + rewrite un_ops0_oshape by exact Hqp. unfold B. now rewrite build_oshape, un_sl0_neq.
  - intros s Hs. rewrite Hshape in Hs.
    assert (Hqp : q <> p) by (intros ->; congruence).
    rewrite un_ops0_oshape in Hs by exact Hqp. unfold B in Hs. rewrite build_oshape in Hs.
    destruct (nth_error sl q) as [[oq|]|] eqn:Hq; cbn in Hs; try discriminate.
    assert (Hq0 : nth_error sl0 q = Some (Some oq)) by (now rewrite un_sl0_neq).
    split.
    + intros d. rewrite plk_apply_vwrs, (un_plk d q oq Hq Hqp). symmetry. now apply build_plk with (o := oq).
    + intros d r Hv.
      assert (Hr : r < length (o_vars oq)).
      { apply (build_valid nv nb d sl q oq r Hq). eapply valid_shape; [|exact Hv].
        rewrite Hshape. now apply un_ops0_oshape. }
      destruct (nth_error (o_vars oq) r) as [v'|] eqn:Ev; [|apply nth_error_None in Ev; lia].
      rewrite (un_vlk (un_ops2 ops0 nd a) d q r oq v'); auto.
      * symmetry. eapply build_vlk; eauto.
      * intros d' q' r' Hq'. rewrite un_ops2_vlk. unfold ops0. apply vlk_set_nth_neq. congruence.
      * intros q' Hq'. rewrite un_ops2_oshape. now apply un_ops0_oshape.
Qed.

Lemma un_ends_eq : un_ends (f_ends (build nv nb sl)) ops0 nd a = f_ends (build nv nb sl0).
Proof.
  unfold un_ends. rewrite un_has_next_eq. change (a_last_p a) with (nav_p false sl p).
  change (n_next nd) with (nav_p true sl p). change (n_prev nd) with (nav_p false sl p).
  unfold build. cbn [f_ends]. change (first_p sl) with (end_p true sl). change (last_p sl) with (end_p false sl).
  change (first_p sl0) with (end_p true sl0). change (last_p sl0) with (end_p false sl0).
  destruct (is_end_some idk true _ p _ (Mocc_at _ _ _ Hp) (end_p_spec true sl)) as (f & Ef).
  destruct (is_end_some idk false _ p _ (Mocc_at _ _ _ Hp) (end_p_spec false sl)) as (l & El).
  pose proof (ends_remove (end_p true sl) (end_p false sl) (nav_p false sl p) (nav_p true sl p) f l Ef El) as H.
  cbn zeta in H. rewrite H. f_equal; symmetry; apply end_p_eq.
  - exact (R_end idk true p _ _ _ _ _ un_agree_p un_empty_p (nav_p_spec false sl p) (nav_p_spec true sl p) (end_p_spec true sl)).
  - exact (R_end idk false p _ _ _ _ _ un_agree_p un_empty_p (nav_p_spec true sl p) (nav_p_spec false sl p) (end_p_spec false sl)).
Qed.

Lemma unlink_ve_pointwise nd' a' l relv v v' :
  nth_error (unlink_ve nd' a' l (relv, v)) v'
  = if Nat.eqb v v' then option_map (unlink_ve_g nd' a' relv v) (nth_error l v') else nth_error l v'.
Proof.
  unfold unlink_ve, unlink_ve_g. cbn [fst snd].
  destruct (nth v (a_last a') None), (nth relv (n_next_v nd') None);
    repeat rewrite nth_error_upd_nth; destruct (Nat.eqb v v'); try reflexivity;
    destruct (nth_error l v'); reflexivity.
Qed.

Lemma un_var_ends :
  fold_left (unlink_ve nd a) (enumerate vars) (f_var_ends (build nv nb sl)) = f_var_ends (build nv nb sl0).
Proof.
  apply list_ext. intros v'.
  rewrite (fold_enum_pointwise (unlink_ve nd a) (unlink_ve_g nd a) (unlink_ve_pointwise nd a) vars un_nodup).
  destruct (Nat.ltb_spec v' nv) as [Hv|Hv].
  - rewrite !build_var_ends by exact Hv.
    destruct (index_of v' vars) as [relv|] eqn:Ei; cbn [option_map]; f_equal.
    + pose proof (index_of_nth_error _ _ _ Ei) as Hrelv.
      assert (HM : Mvar sl v' (p, relv)) by (eapply Mvar_at; eauto).
      destruct (is_end_some fst true _ _ _ HM (end_v_spec true sl v')) as (f & Ef).
      destruct (is_end_some fst false _ _ _ HM (end_v_spec false sl v')) as (l & El).
      unfold unlink_ve_g. unfold a. rewrite (cursor_last nv sl p v' Hv).
      replace (nth relv (n_next_v nd) None) with (nav_v true sl p v')
        by (symmetry; change (n_next_v nd) with (links true (build_node sl p old)); rewrite links_build_node; now apply nth_map_some).
      replace (nth relv (n_prev_v nd) None) with (nav_v false sl p v')
        by (symmetry; change (n_prev_v nd) with (links false (build_node sl p old)); rewrite links_build_node; now apply nth_map_some).
      pose proof (ends_remove (end_v true sl v') (end_v false sl v') (nav_v false sl p v') (nav_v true sl p v') f l Ef El) as H.
      cbn zeta in H. refine (eq_trans H _). f_equal; symmetry; apply end_v_eq.
      * exact (R_end fst true p _ _ _ _ _ (un_agree_v v') (un_empty_v v') (nav_v_spec false sl p v') (nav_v_spec true sl p v') (end_v_spec true sl v')).
      * exact (R_end fst false p _ _ _ _ _ (un_agree_v v') (un_empty_v v') (nav_v_spec true sl p v') (nav_v_spec false sl p v') (end_v_spec false sl v')).
    + assert (Heq : forall x, Mvar sl v' x <-> Mvar sl0 v' x).
      { apply (agree_empty_equiv fst p); [apply un_agree_v| |apply un_empty_v].
        apply Mvar_empty. intros o Ho. assert (o = old) by congruence. subst o. now apply index_of_none. }
      f_equal; symmetry; apply end_v_eq; (eapply is_end_equiv; [exact Heq|apply end_v_spec]).
  - assert (Hnone : nth_error (f_var_ends (build nv nb sl)) v' = None).
    { apply nth_error_None. unfold build. cbn [f_var_ends]. now rewrite map_length, seq_length. }
    assert (Hnone0 : nth_error (f_var_ends (build nv nb sl0)) v' = None).
    { apply nth_error_None. unfold build. cbn [f_var_ends]. now rewrite map_length, seq_length. }
    rewrite Hnone, Hnone0. destruct (index_of v' vars); reflexivity.
Qed.

Lemma un_n : count_ops sl - 1 = count_ops sl0.
Proof. pose proof (count_ops_set_nth sl p (Some old) None Hp) as H. cbn in H. fold sl0 in H. lia. Qed.

Lemma un_counters : dec_counter (f_counters (build nv nb sl)) (o_bond old) = f_counters (build nv nb sl0).
Proof.
  unfold build. cbn [f_counters]. destruct nb as [n|]; [|reflexivity]. cbn [dec_counter option_map]. f_equal.
  apply upd_counters. intros b Hb.
  pose proof (count_bond_set_nth b sl p (Some old) None Hp) as H. cbn in H. fold sl0 in H.
  destruct (Nat.eqb (o_bond old) b); cbn in H; lia.
Qed.

Theorem uninstall_refines :
  uninstall (set_ops (build nv nb sl) (set_nth (f_ops (build nv nb sl)) p None)) (build_node sl p old) (scan_cursor nv sl p)
  = build nv nb (set_nth sl p None).
Proof.
  rewrite uninstall_eq. cbn [f_ops f_n f_ends f_var_ends f_counters set_ops].
  change (n_op (build_node sl p old)) with old.
  fold B. fold ops0. fold nd. fold a. fold vars. fold W. fold sl0.
  rewrite un_ops, un_ends_eq, un_var_ends, un_counters.
  change (f_n (build nv nb sl)) with (count_ops sl). rewrite un_n. reflexivity.
Qed.
End Uninstall.

(* ------------------------------------------------------------------ *)
(* structure of `install`: field by field                              *)
Definition ends_new (d : bool) {A} (e : option (A * A)) (x : A) : option (A * A) :=
  if d then ends_new_head e x else ends_new_tail e x.
Definition link_step (d : bool) (p : nat) (F : fops) (x : nat * (option prel * nat)) : fops :=
  if d then link_prev p F x else link_next p F x.
Definition link_wrs (d : bool) (p : nat) (x : nat * (option prel * nat)) : list vwr :=
  match fst (snd x) with Some (tq, tr) => [(d, tq, tr, Some (p, fst x))] | None => [] end.
Definition link_ve (d : bool) (p : nat) (ve : list (option (prel * prel))) (x : nat * (option prel * nat)) :=
  match fst (snd x) with
  | Some _ => ve
  | None => upd_nth ve (snd (snd x)) (fun e => ends_new d e (p, fst x))
  end.

Lemma link_step_split d p F x :
  link_step d p F x
  = mkFops (apply_vwrs (link_wrs d p x) (f_ops F)) (f_n F) (f_ends F) (link_ve d p (f_var_ends F) x) (f_counters F).
Proof.
  destruct F as [ops n e ve c], x as [relv [t v]]. unfold link_step, link_prev, link_next, link_wrs, link_ve.
  cbn [fst snd f_ops f_n f_ends f_var_ends f_counters]. destruct d, t as [[tq tr]|]; reflexivity.
Qed.

Lemma link_fold d p L : forall F,
  fold_left (link_step d p) L F
  = mkFops (apply_vwrs (flat_map (link_wrs d p) L) (f_ops F)) (f_n F) (f_ends F)
           (fold_left (link_ve d p) L (f_var_ends F)) (f_counters F).
Proof.
  induction L as [|x L IH]; intros F; cbn [fold_left flat_map].
  - destruct F; reflexivity.
  - rewrite IH, link_step_split. cbn [f_ops f_n f_ends f_var_ends f_counters].
    unfold apply_vwrs. now rewrite fold_left_app.
Qed.

Definition in_next_p (ops2 : list (option node)) (e : option (nat * nat)) (a : margs) : option nat :=
  match a_last_p a with
  | Some last_p => match node_at ops2 last_p with Some nd => n_next nd | None => None end
  | None => match e with Some (head, _) => Some head | None => None end
  end.
Definition in_ops4 (ops2 : list (option node)) (p : nat) (a : margs) (nx : option nat) :=
  let ops3 := match a_last_p a with Some prev => set_next_p ops2 prev (Some p) | None => ops2 end in
  match nx with Some next => set_prev_p ops3 next (Some p) | None => ops3 end.
Definition in_ends (e : option (nat * nat)) (p : nat) (a : margs) (nx : option nat) :=
  let e1 := match a_last_p a with Some _ => e | None => ends_new_head e p end in
  match nx with Some _ => e1 | None => ends_new_tail e1 p end.

Lemma install_eq F p o a :
  let vars := o_vars o in
  let pn := map (link_targets F a) vars in
  let prevs := map fst pn in
  let nexts := map snd pn in
  let L1 := enumerate (combine prevs vars) in
  let L2 := enumerate (combine nexts vars) in
  let ops2 := apply_vwrs (flat_map (link_wrs true p) L1 ++ flat_map (link_wrs false p) L2) (f_ops F) in
  let nx := in_next_p ops2 (f_ends F) a in
  install F p o a
  = mkFops (set_nth (in_ops4 ops2 p a nx) p (Some (mkNode o (a_last_p a) nx prevs nexts)))
           (f_n F + 1)
           (in_ends (f_ends F) p a nx)
           (fold_left (link_ve false p) L2 (fold_left (link_ve true p) L1 (f_var_ends F)))
           (inc_counter (f_counters F) (o_bond o)).
Proof.
  intros vars pn prevs nexts L1 L2 ops2 nx. unfold install.
  change (link_prev p) with (link_step true p). change (link_next p) with (link_step false p).
  fold vars. fold pn. fold prevs. fold nexts. fold L1. fold L2.
  rewrite !link_fold. cbn [f_ops f_n f_ends f_var_ends f_counters].
  replace (apply_vwrs (flat_map (link_wrs false p) L2) (apply_vwrs (flat_map (link_wrs true p) L1) (f_ops F)))
    with ops2 by (unfold ops2, apply_vwrs; now rewrite fold_left_app).
  destruct F as [ops n e ve c]. cbn [f_ops f_n f_ends f_var_ends f_counters] in *.
  change (match a_last_p a with
          | Some last_p => match node_at ops2 last_p with Some nd => n_next nd | None => None end
          | None => match e with Some (head, _) => Some head | None => None end
          end) with nx.
  unfold in_ops4, in_ends.
  destruct (a_last_p a) as [lp|]; destruct nx as [nxp|]; reflexivity.
Qed.

Lemma ends_head {A} (key : A -> nat) (M : A -> Prop) (Fi La : option A) :
  is_end key true M Fi -> is_end key false M La ->
  match ends_of Fi La with Some (h, _) => Some h | None => None end = Fi.
Proof.
  intros HF HL. destruct Fi as [f|]; [|reflexivity]. destruct HF as (Mf & _).
  destruct (is_end_some key false M f La Mf HL) as (l & ->). reflexivity.
Qed.

(* ------------------------------------------------------------------ *)
(* putting an operator into the empty slot p                           *)
Section Install.
Variables (nv : nat) (nb : option nat) (sl : slots) (p : nat) (o : op).
Hypothesis Hwf : wf_slots nv nb sl.
Hypothesis Hwo : wf_op nv nb o.
Hypothesis Hp : nth_error sl p = Some None.
Let sl1 := set_nth sl p (Some o).
Let F := build nv nb sl.
Let B := f_ops F.
Let a := scan_cursor nv sl p.
Let vars := o_vars o.
Let hT (T : nat -> option prel) (ix : nat * nat) : nat * (option prel * nat) := (fst ix, (T (snd ix), snd ix)).
Let W := flat_map (link_wrs true p) (map (hT (nav_v false sl p)) (enumerate vars))
        ++ flat_map (link_wrs false p) (map (hT (nav_v true sl p)) (enumerate vars)).

Lemma in_plt : p < length sl.
Proof. apply nth_error_Some. congruence. Qed.
Lemma in_vars_lt v : In v vars -> v < nv.
Proof. destruct Hwo as (_ & H & _). apply H. Qed.
Lemma in_nodup : NoDup vars.
Proof. destruct Hwo as (H & _). exact H. Qed.
Lemma in_sl1_eq : nth_error sl1 p = Some (Some o).
Proof. unfold sl1. apply nth_error_set_nth_eq. apply in_plt. Qed.
Lemma in_sl1_neq q : q <> p -> nth_error sl1 q = nth_error sl q.
Proof. intros H. unfold sl1. apply nth_error_set_nth_neq. congruence. Qed.

Lemma in_agree_v v : agree_off fst p (Mvar sl v) (Mvar sl1 v).
Proof. apply Mvar_agree. Qed.
Lemma in_agree_p : agree_off idk p (Mocc sl) (Mocc sl1).
Proof. apply Mocc_agree. Qed.
Lemma in_empty_v v : empty_at fst p (Mvar sl v).
Proof. apply Mvar_empty. intros o' Ho. congruence. Qed.
Lemma in_empty_p : empty_at idk p (Mocc sl).
Proof. apply Mocc_empty. intros o' Ho. congruence. Qed.
Lemma in_member v relv : nth_error vars relv = Some v -> Mvar sl1 v (p, relv).
Proof. intros H. eapply Mvar_at; [apply in_sl1_eq|]. apply nth_error_index_of; [apply in_nodup|exact H]. Qed.

Lemma in_targets v : v < nv -> link_targets F a v = (nav_v false sl p v, nav_v true sl p v).
Proof.
  intros Hv. unfold link_targets. unfold a. rewrite (cursor_last nv sl p v Hv). f_equal.
  pose proof (nav_v_spec false sl p v) as HP.
  destruct (nav_v false sl p v) as [[pp pr]|] eqn:EP; cbn [option_map fst].
  - destruct (nb_some_member fst false _ _ _ HP) as (opp & Hopp & Hi). cbn [fst snd] in *.
    unfold F. rewrite (build_node_at nv nb sl pp opp Hopp). cbn [n_op build_node]. rewrite Hi.
    change (n_next_v (build_node sl pp opp)) with (links true (build_node sl pp opp)). rewrite links_build_node.
    etransitivity; [apply nth_map_some; apply index_of_nth_error; exact Hi|].
    symmetry. apply nav_v_eq.
    exact (skip_empty fst true p _ (pp, pr) _ (in_empty_v v) HP (nav_v_spec true sl pp v)).
  - unfold F. rewrite (nth_error_nth' _ _ None _ (build_var_ends nv nb sl v Hv)).
    etransitivity; [exact (ends_head fst (Mvar sl v) _ _ (end_v_spec true sl v) (end_v_spec false sl v))|].
    symmetry. apply nav_v_eq. exact (from_end fst true p _ _ (in_empty_v v) HP (end_v_spec true sl v)).
Qed.

Lemma in_prevs : map fst (map (link_targets F a) vars) = map (nav_v false sl p) vars.
Proof. rewrite map_map. apply map_ext_in. intros v Hv. now rewrite in_targets by (now apply in_vars_lt). Qed.
Lemma in_nexts : map snd (map (link_targets F a) vars) = map (nav_v true sl p) vars.
Proof. rewrite map_map. apply map_ext_in. intros v Hv. now rewrite in_targets by (now apply in_vars_lt). Qed.

Lemma link_wrs_in d' T d q r x :
  In (d, q, r, x) (flat_map (link_wrs d' p) (map (hT T) (enumerate vars)))
  <-> d = d' /\ exists relv v, nth_error vars relv = Some v /\ T v = Some (q, r) /\ x = Some (p, relv).
Proof.
  rewrite in_flat_map. split.
  - intros (y & Hy & Hw). apply in_map_iff in Hy. destruct Hy as ([relv v] & <- & Hin).
    apply In_enumerate in Hin. unfold link_wrs, hT in Hw. cbn [fst snd] in Hw.
    destruct (T v) as [[tq tr]|] eqn:ET; [|destruct Hw]. destruct Hw as [Hw|[]]. inversion Hw; subst.
    split; [reflexivity|]. exists relv, v. auto.
  - intros (-> & relv & v & Hin & HT & ->). exists (hT T (relv, v)). split.
    + apply in_map. now apply In_enumerate.
    + unfold link_wrs, hT. cbn [fst snd]. rewrite HT. now left.
Qed.

Lemma in_W_in d q r x :
  In (d, q, r, x) W <->
  exists relv v, nth_error vars relv = Some v /\ nav_v (negb d) sl p v = Some (q, r) /\ x = Some (p, relv).
Proof.
  unfold W. rewrite in_app_iff, !link_wrs_in. destruct d; cbn [negb]; split.
  - intros [(_ & H)|(E & _)]; [exact H|discriminate].
  - intros H. left. split; [reflexivity|exact H].
  - intros [(E & _)|(_ & H)]; [discriminate|exact H].
  - intros H. right. split; [reflexivity|exact H].
Qed.

Lemma in_nav_target_var d q' v q r oq :
  nav_v d sl q' v = Some (q, r) -> nth_error sl q = Some (Some oq) -> nth_error (o_vars oq) r = Some v.
Proof.
  intros H Hq. pose proof (nav_v_spec d sl q' v) as Hs. rewrite H in Hs. destruct Hs as (HM & _).
  eapply Mvar_var; eauto.
Qed.

(* the per-variable links of every other node *)
Lemma in_vlk d q r oq v' :
  q <> p -> nth_error sl q = Some (Some oq) -> nth_error (o_vars oq) r = Some v' ->
  vlk d (apply_vwrs W B) q r = nav_v d sl1 q v'.
Proof.
  intros Hqp Hq Hr.
  assert (Hnd : NoDup (o_vars oq)) by (destruct (Hwf q oq Hq) as (H & _); exact H).
  assert (Maq : Mvar sl v' (q, r)) by (eapply Mvar_at; eauto; now apply nth_error_index_of).
  assert (Hvalid : valid d B q r).
  { unfold B, F. apply (build_valid nv nb d sl q oq r Hq). apply nth_error_Some. congruence. }
  assert (Hold : vlk d B q r = nav_v d sl q v') by (unfold B, F; eapply build_vlk; eauto).
  pose proof (nav_v_spec (negb d) sl p v') as HP.
  pose proof (nav_v_spec d sl q v') as HNq.
  assert (Hwr : forall x, In (d, q, r, x) W ->
            exists relv, nth_error vars relv = Some v' /\ nav_v (negb d) sl p v' = Some (q, r) /\ x = Some (p, relv)).
  { intros x Hx. apply in_W_in in Hx. destruct Hx as (relv & v & Hin & HPv & Hx).
    assert (v = v') by (pose proof (in_nav_target_var _ _ _ _ _ _ HPv Hq); congruence). subst v. eauto. }
  destruct (index_of v' vars) as [relv|] eqn:Ei.
  - pose proof (index_of_nth_error _ _ _ Ei) as Hrelv.
    destruct (option_prel_dec (nav_v (negb d) sl p v') (Some (q, r))) as [E|E].
    + rewrite E in HP.
      transitivity (Some (p, relv)).
      * apply vlk_apply_vwrs_hit; [| |exact Hvalid].
        -- apply in_W_in. exists relv, v'. auto.
        -- intros x' Hx'. apply Hwr in Hx'. destruct Hx' as (relv' & Hr' & _ & ->).
           pose proof (nth_error_index_of _ _ _ in_nodup Hr'). congruence.
      * symmetry. apply nav_v_eq.
        exact (I_hit fst d p _ _ (q, r) (p, relv) (in_agree_v v') (in_empty_v v') (in_member v' relv Hrelv) eq_refl HP).
    + rewrite vlk_apply_vwrs_miss by (intros x Hx; apply Hwr in Hx; destruct Hx as (? & _ & ? & _); congruence).
      rewrite Hold. symmetry. apply nav_v_eq.
      refine (I_miss fst d p _ _ (q, r) _ _ (in_agree_v v') (in_empty_v v') Maq Hqp HP _ HNq).
      destruct (nav_v (negb d) sl p v') as [[q2 r2]|] eqn:EP; cbn; [|discriminate].
      intros Heq. inversion Heq; subst q2. apply E. f_equal.
      destruct HP as (HM & _). exact (Mvar_inj sl v' _ _ HM Maq eq_refl).
  - rewrite vlk_apply_vwrs_miss.
    2:{ intros x Hx. apply Hwr in Hx. destruct Hx as (relv & Hrelv & _).
        pose proof (nth_error_index_of _ _ _ in_nodup Hrelv). congruence. }
    rewrite Hold. symmetry. apply nav_v_eq.
    eapply is_nb_equiv; [|exact HNq].
    apply (agree_empty_equiv fst p); [apply in_agree_v|apply in_empty_v|].
    apply Mvar_empty. intros o' Ho'. rewrite in_sl1_eq in Ho'. inversion Ho'; subst o'. now apply index_of_none.
Qed.
Let ops2 := apply_vwrs W B.

Lemma in_ops2_oshape q : oshape ops2 q = oshape B q.
Proof. unfold ops2. apply oshape_apply_vwrs. Qed.

Lemma in_node_at q oq : nth_error sl q = Some (Some oq) -> exists n, node_at ops2 q = Some n.
Proof.
  intros Hq. apply oshape_node_at with (s := (oq, length (o_vars oq), length (o_vars oq))).
  rewrite in_ops2_oshape. unfold B, F. now rewrite build_oshape, Hq.
Qed.

Lemma in_nav_p_occ d q x : nav_p d sl q = Some x -> x <> q /\ exists o', nth_error sl x = Some (Some o').
Proof.
  intros H. pose proof (nav_p_spec d sl q) as Hs. rewrite H in Hs. destruct Hs as (HM & Hlt & _).
  split; [unfold idk in Hlt; destruct d; cbn in Hlt; lia|exact HM].
Qed.

Lemma in_next_p_eq : in_next_p ops2 (f_ends F) a = nav_p true sl p.
Proof.
  unfold in_next_p. change (a_last_p a) with (nav_p false sl p).
  pose proof (nav_p_spec false sl p) as HP.
  destruct (nav_p false sl p) as [lp|] eqn:EP.
  - destruct (in_nav_p_occ _ _ _ EP) as (_ & olp & Holp).
    change (match node_at ops2 lp with Some nd => n_next nd | None => None end) with (plk true ops2 lp).
    unfold ops2. rewrite plk_apply_vwrs. unfold B, F. rewrite (build_plk nv nb true sl lp olp Holp).
    symmetry. apply nav_p_eq. exact (skip_empty idk true p _ lp _ in_empty_p HP (nav_p_spec true sl lp)).
  - unfold F, build. cbn [f_ends].
    etransitivity; [exact (ends_head idk (Mocc sl) _ _ (end_p_spec true sl) (end_p_spec false sl))|].
    symmetry. apply nav_p_eq. exact (from_end idk true p _ _ in_empty_p HP (end_p_spec true sl)).
Qed.

Lemma in_plk_model d q oq : nth_error sl q = Some (Some oq) -> q <> p ->
  plk d (in_ops4 ops2 p a (nav_p true sl p)) q
  = if option_prel_dec (option_map (fun x => (x, 0)) (nav_p (negb d) sl p)) (Some (q, 0))
    then Some p else nav_p d sl q.
Proof.
  intros Hq Hqp. destruct (in_node_at q oq Hq) as (n0 & Hn0).
  assert (Hold : plk d ops2 q = nav_p d sl q).
  { unfold ops2. rewrite plk_apply_vwrs. unfold B, F. eapply build_plk; eauto. }
  unfold in_ops4. change (a_last_p a) with (nav_p false sl p).
  destruct d; cbn [negb].
  - assert (E1 : forall o' x, plk true (match nav_p true sl p with Some np => set_prev_p o' np x | None => o' end) q = plk true o' q).
    { intros o' x. destruct (nav_p true sl p); [|reflexivity]. apply (plk_set_p_other true false). congruence. }
    rewrite E1. destruct (nav_p false sl p) as [lp|]; cbn [option_map].
    + destruct (option_prel_dec (Some (lp, 0)) (Some (q, 0))) as [E|E].
      * inversion E; subst lp. eapply (plk_set_p_same true); eauto.
      * rewrite (plk_set_p_other true true) by congruence. exact Hold.
    + destruct (option_prel_dec None (Some (q, 0))); [discriminate|exact Hold].
  - set (o1 := match nav_p false sl p with Some lp => set_next_p ops2 lp (Some p) | None => ops2 end).
    assert (E1 : plk false o1 q = plk false ops2 q).
    { unfold o1. destruct (nav_p false sl p); [|reflexivity]. apply (plk_set_p_other false true). congruence. }
    assert (Hn1 : exists n1, node_at o1 q = Some n1).
    { unfold o1. destruct (nav_p false sl p); [|eauto].
      apply oshape_node_at with (s := nshape n0). rewrite (oshape_set_p true). unfold oshape.
      apply node_at_some in Hn0. now rewrite Hn0. }
    destruct Hn1 as (n1 & Hn1).
    destruct (nav_p true sl p) as [np|]; cbn [option_map].
    + destruct (option_prel_dec (Some (np, 0)) (Some (q, 0))) as [E|E].
      * inversion E; subst np. eapply (plk_set_p_same false); eauto.
      * rewrite (plk_set_p_other false false) by congruence. rewrite E1. exact Hold.
    + destruct (option_prel_dec None (Some (q, 0))); [discriminate|]. rewrite E1. exact Hold.
Qed.

Lemma in_plk d q oq : nth_error sl q = Some (Some oq) -> q <> p ->
  plk d (in_ops4 ops2 p a (nav_p true sl p)) q = nav_p d sl1 q.
Proof.
  intros Hq Hqp. rewrite (in_plk_model d q oq Hq Hqp).
  pose proof (nav_p_spec (negb d) sl p) as HP.
  pose proof (nav_p_spec d sl q) as HNq.
  assert (Mp : Mocc sl1 p) by (eapply Mocc_at; apply in_sl1_eq).
  destruct (option_prel_dec _ _) as [E|E]; symmetry; apply nav_p_eq.
  - destruct (nav_p (negb d) sl p) as [c|]; cbn in E; inversion E; subst c.
    exact (I_hit idk d p _ _ q p in_agree_p in_empty_p Mp eq_refl HP).
  - refine (I_miss idk d p _ _ q _ _ in_agree_p in_empty_p (Mocc_at _ _ _ Hq) Hqp HP _ HNq).
    destruct (nav_p (negb d) sl p) as [c|]; cbn in *; [|discriminate]. unfold idk. congruence.
Qed.

Lemma in_ops4_oshape ops x nx q : oshape (in_ops4 ops p x nx) q = oshape ops q.
Proof.
  unfold in_ops4. destruct nx; destruct (a_last_p x);
    repeat first [rewrite (oshape_set_p false) | rewrite (oshape_set_p true)]; reflexivity.
Qed.

Lemma in_ops4_vlk ops x nx d q r : vlk d (in_ops4 ops p x nx) q r = vlk d ops q r.
Proof.
  unfold in_ops4. destruct nx; destruct (a_last_p x);
    repeat first [rewrite (vlk_set_p d false) | rewrite (vlk_set_p d true)]; reflexivity.
Qed.

Lemma in_ops :
  set_nth (in_ops4 ops2 p a (nav_p true sl p)) p
          (Some (mkNode o (nav_p false sl p) (nav_p true sl p) (map (nav_v false sl p) vars) (map (nav_v true sl p) vars)))
  = f_ops (build nv nb sl1).
Proof.
  apply list_ext. intros q.
  assert (Hshape : forall q, oshape (in_ops4 ops2 p a (nav_p true sl p)) q = oshape B q)
    by (intros q'; now rewrite in_ops4_oshape, in_ops2_oshape).
  destruct (Nat.eq_dec q p) as [->|Hqp].
  - rewrite nth_error_set_nth_eq.
    2:{ apply nth_error_Some. intros E. pose proof (Hshape p) as Hs. unfold oshape in Hs. rewrite E in Hs.
        unfold B, F in Hs. rewrite build_nth, Hp in Hs. discriminate Hs. }
    rewrite build_nth, in_sl1_eq. cbn [option_map]. do 2 f_equal. unfold build_node. f_equal.
    + symmetry. apply (nav_p_prefix sl p (Some o)).
    + symmetry. apply (nav_p_suffix sl p (Some o)).
    + apply map_ext. intros v. symmetry. apply (nav_v_prefix sl p (Some o) v).
    + apply map_ext. intros v. symmetry. apply (nav_v_suffix sl p (Some o) v).
  - rewrite nth_error_set_nth_neq by congruence. apply slot_ext'.
    + rewrite Hshape. unfold B, F. now rewrite !build_oshape, in_sl1_neq.
    + intros s Hs. rewrite Hshape in Hs. unfold B, F in Hs. rewrite build_oshape in Hs.
      destruct (nth_error sl q) as [[oq|]|] eqn:Hq; cbn in Hs; try discriminate.
      assert (Hq1 : nth_error sl1 q = Some (Some oq)) by (now rewrite in_sl1_neq).
      split.
      * intros d. rewrite (in_plk d q oq Hq Hqp). symmetry. now apply build_plk with (o := oq).
      * intros d r Hv.
        assert (Hr : r < length (o_vars oq)).
        { apply (build_valid nv nb d sl q oq r Hq). eapply valid_shape; [|exact Hv]. apply Hshape. }
        destruct (nth_error (o_vars oq) r) as [v'|] eqn:Ev; [|apply nth_error_None in Ev; lia].
        rewrite in_ops4_vlk. unfold ops2. rewrite (in_vlk d q r oq v' Hqp Hq Ev).
        symmetry. eapply build_vlk; eauto.
Qed.

Lemma in_ends_eq : in_ends (f_ends F) p a (nav_p true sl p) = f_ends (build nv nb sl1).
Proof.
  unfold in_ends. change (a_last_p a) with (nav_p false sl p).
  unfold F, build. cbn [f_ends]. change (first_p sl) with (end_p true sl). change (last_p sl) with (end_p false sl).
  change (first_p sl1) with (end_p true sl1). change (last_p sl1) with (end_p false sl1).
  destruct (insert_ends_hyps idk p _ _ _ _ _ in_empty_p (nav_p_spec false sl p) (nav_p_spec true sl p)
              (end_p_spec true sl) (end_p_spec false sl)) as (H1 & H2).
  pose proof (ends_insert (end_p true sl) (end_p false sl) (nav_p false sl p) (nav_p true sl p) p H1 H2) as H.
  cbn zeta in H. refine (eq_trans H _).
  assert (Mp : Mocc sl1 p) by (eapply Mocc_at; apply in_sl1_eq).
  f_equal; symmetry; apply end_p_eq.
  - exact (I_end idk true p _ _ _ _ p in_agree_p Mp eq_refl (nav_p_spec false sl p) (end_p_spec true sl)).
  - exact (I_end idk false p _ _ _ _ p in_agree_p Mp eq_refl (nav_p_spec true sl p) (end_p_spec false sl)).
Qed.

Definition link_ve_g (d : bool) (p' : nat) (T : nat -> option prel) (relv v : nat) (e : option (prel * prel)) :=
  match T v with Some _ => e | None => ends_new d e (p', relv) end.

Lemma link_ve_pointwise d T l relv v v' :
  nth_error (link_ve d p l (hT T (relv, v))) v'
  = if Nat.eqb v v' then option_map (link_ve_g d p T relv v) (nth_error l v') else nth_error l v'.
Proof.
  unfold link_ve, link_ve_g, hT. cbn [fst snd]. destruct (T v).
  - destruct (Nat.eqb v v'); [|reflexivity]. destruct (nth_error l v'); reflexivity.
  - apply nth_error_upd_nth.
Qed.

Lemma in_var_ends :
  fold_left (link_ve false p) (map (hT (nav_v true sl p)) (enumerate vars))
    (fold_left (link_ve true p) (map (hT (nav_v false sl p)) (enumerate vars)) (f_var_ends F))
  = f_var_ends (build nv nb sl1).
Proof.
  apply list_ext. intros v'. rewrite !fold_left_map.
  rewrite (fold_enum_pointwise (fun l ix => link_ve false p l (hT (nav_v true sl p) ix)) (link_ve_g false p (nav_v true sl p))
             (link_ve_pointwise false (nav_v true sl p)) vars in_nodup).
  rewrite (fold_enum_pointwise (fun l ix => link_ve true p l (hT (nav_v false sl p) ix)) (link_ve_g true p (nav_v false sl p))
             (link_ve_pointwise true (nav_v false sl p)) vars in_nodup).
  destruct (Nat.ltb_spec v' nv) as [Hv|Hv].
  - unfold F. rewrite !build_var_ends by exact Hv.
    destruct (index_of v' vars) as [relv|] eqn:Ei; cbn [option_map]; f_equal.
    + pose proof (index_of_nth_error _ _ _ Ei) as Hrelv.
      unfold link_ve_g.
      destruct (insert_ends_hyps fst p _ _ _ _ _ (in_empty_v v') (nav_v_spec false sl p v') (nav_v_spec true sl p v')
                  (end_v_spec true sl v') (end_v_spec false sl v')) as (H1 & H2).
      pose proof (ends_insert (end_v true sl v') (end_v false sl v') (nav_v false sl p v') (nav_v true sl p v') (p, relv) H1 H2) as H.
      cbn zeta in H. unfold ends_new. refine (eq_trans H _).
      f_equal; symmetry; apply end_v_eq.
      * exact (I_end fst true p _ _ _ _ (p, relv) (in_agree_v v') (in_member v' relv Hrelv) eq_refl (nav_v_spec false sl p v') (end_v_spec true sl v')).
      * exact (I_end fst false p _ _ _ _ (p, relv) (in_agree_v v') (in_member v' relv Hrelv) eq_refl (nav_v_spec true sl p v') (end_v_spec false sl v')).
    + assert (Heq : forall x, Mvar sl v' x <-> Mvar sl1 v' x).
      { apply (agree_empty_equiv fst p); [apply in_agree_v|apply in_empty_v|].
        apply Mvar_empty. intros o' Ho'. rewrite in_sl1_eq in Ho'. inversion Ho'; subst o'. now apply index_of_none. }
      f_equal; symmetry; apply end_v_eq; (eapply is_end_equiv; [exact Heq|apply end_v_spec]).
  - assert (Hnone : nth_error (f_var_ends F) v' = None).
    { apply nth_error_None. unfold F, build. cbn [f_var_ends]. now rewrite map_length, seq_length. }
    assert (Hnone1 : nth_error (f_var_ends (build nv nb sl1)) v' = None).
    { apply nth_error_None. unfold build. cbn [f_var_ends]. now rewrite map_length, seq_length. }
    rewrite Hnone, Hnone1. destruct (index_of v' vars); reflexivity.
Qed.

Lemma in_n : count_ops sl + 1 = count_ops sl1.
Proof. pose proof (count_ops_set_nth sl p None (Some o) Hp) as H. cbn in H. fold sl1 in H. lia. Qed.

Lemma in_counters : inc_counter (f_counters F) (o_bond o) = f_counters (build nv nb sl1).
Proof.
  unfold F, build. cbn [f_counters]. destruct nb as [n|]; [|reflexivity]. cbn [inc_counter option_map]. f_equal.
  apply upd_counters. intros b Hb.
  pose proof (count_bond_set_nth b sl p None (Some o) Hp) as H. cbn in H. fold sl1 in H.
  destruct (Nat.eqb (o_bond o) b); cbn in H; lia.
Qed.

Theorem install_refines :
  install (build nv nb sl) p o (scan_cursor nv sl p) = build nv nb (set_nth sl p (Some o)).
Proof.
  pose proof (install_eq F p o a) as H. cbn zeta in H. unfold F, a in H. rewrite H. clear H.
  fold F. fold a. fold vars. fold B.
  rewrite in_prevs, in_nexts, !enumerate_combine_map.
  change (fun ix : nat * nat => (fst ix, (nav_v false sl p (snd ix), snd ix))) with (hT (nav_v false sl p)).
  change (fun ix : nat * nat => (fst ix, (nav_v true sl p (snd ix), snd ix))) with (hT (nav_v true sl p)).
  fold W. fold ops2. rewrite in_next_p_eq.
  change (a_last_p a) with (nav_p false sl p).
  rewrite in_ops, in_ends_eq, in_var_ends, in_counters.
  change (f_n F) with (count_ops sl). rewrite in_n. reflexivity.
Qed.
End Install.

(* ------------------------------------------------------------------ *)
(* replacing the operator at p by one on the same variables            *)
Section QuickInstall.
Variables (nv : nat) (nb : option nat) (sl : slots) (p : nat) (old o : op).
Hypothesis Hp : nth_error sl p = Some (Some old).
Hypothesis Hvars : o_vars old = o_vars o.
Let sl' := set_nth sl p (Some o).

Lemma qi_Mvar v x : Mvar sl v x <-> Mvar sl' v x.
Proof. apply Mvar_same_vars. rewrite Hp. cbn. now rewrite Hvars. Qed.
Lemma qi_Mocc x : Mocc sl x <-> Mocc sl' x.
Proof. apply Mocc_same_occ. rewrite Hp. reflexivity. Qed.

Lemma qi_nav_v d q v : nav_v d sl' q v = nav_v d sl q v.
Proof. apply nav_v_eq. eapply is_nb_equiv; [apply qi_Mvar|apply nav_v_spec]. Qed.
Lemma qi_end_v d v : end_v d sl' v = end_v d sl v.
Proof. apply end_v_eq. eapply is_end_equiv; [apply qi_Mvar|apply end_v_spec]. Qed.
Lemma qi_nav_p d q : nav_p d sl' q = nav_p d sl q.
Proof. apply nav_p_eq. eapply is_nb_equiv; [apply qi_Mocc|apply nav_p_spec]. Qed.
Lemma qi_end_p d : end_p d sl' = end_p d sl.
Proof. apply end_p_eq. eapply is_end_equiv; [apply qi_Mocc|apply end_p_spec]. Qed.

Lemma qi_build_node q x : build_node sl' q x = build_node sl q x.
Proof.
  unfold build_node. f_equal.
  - apply (qi_nav_p false q).
  - apply (qi_nav_p true q).
  - apply map_ext. intros v. apply (qi_nav_v false q v).
  - apply map_ext. intros v. apply (qi_nav_v true q v).
Qed.

Theorem quick_install_refines :
  quick_install (set_ops (build nv nb sl) (set_nth (f_ops (build nv nb sl)) p None)) p o (build_node sl p old)
  = build nv nb (set_nth sl p (Some o)).
Proof.
  assert (Hlt : p < length sl) by (apply nth_error_Some; congruence).
  unfold quick_install, set_ops, set_counters. cbn [f_ops f_n f_ends f_var_ends f_counters].
  rewrite set_nth_set_nth. fold sl'.
  assert (E1 : set_nth (f_ops (build nv nb sl)) p
                 (Some (mkNode o (n_prev (build_node sl p old)) (n_next (build_node sl p old))
                               (n_prev_v (build_node sl p old)) (n_next_v (build_node sl p old))))
               = f_ops (build nv nb sl')).
  { apply list_ext. intros q. rewrite nth_error_set_nth, !build_nth.
    destruct (Nat.eqb_spec p q) as [<-|Hne].
    - unfold sl'. rewrite nth_error_set_nth_eq by exact Hlt. rewrite Hp. cbn [option_map]. do 2 f_equal.
      fold sl'. rewrite qi_build_node. unfold build_node. cbn. now rewrite Hvars.
    - unfold sl'. rewrite nth_error_set_nth_neq by exact Hne. fold sl'.
      destruct (nth_error sl q) as [[x|]|]; cbn; auto. now rewrite qi_build_node. }
  rewrite E1. clear E1. apply fops_ext; cbn [f_ops f_n f_ends f_var_ends f_counters]; [reflexivity|..];
    unfold build; cbn [f_ops f_n f_ends f_var_ends f_counters].
  - pose proof (count_ops_set_nth sl p (Some old) (Some o) Hp) as H. cbn [b2n] in H. fold sl' in H. lia.
  - change (first_p sl) with (end_p true sl). change (last_p sl) with (end_p false sl).
    change (first_p sl') with (end_p true sl'). change (last_p sl') with (end_p false sl').
    now rewrite !qi_end_p.
  - apply map_ext. intros v. change (first_for_var sl v) with (end_v true sl v).
    change (last_for_var sl v) with (end_v false sl v). change (first_for_var sl' v) with (end_v true sl' v).
    change (last_for_var sl' v) with (end_v false sl' v). now rewrite !qi_end_v.
  - destruct nb as [n|]; [|reflexivity]. cbn [dec_counter inc_counter option_map]. f_equal.
    change (n_op (build_node sl p old)) with old.
    rewrite (upd_counters (fun b => count_bond b sl)
               (fun b => if Nat.eqb (o_bond old) b then pred (count_bond b sl) else count_bond b sl) n (o_bond old) pred)
      by (intros; reflexivity).
    apply upd_counters. intros b Hb.
    pose proof (count_bond_set_nth b sl p (Some old) (Some o) Hp) as H1.
    pose proof (count_bond_set_nth b sl p (Some old) None Hp) as H0.
    cbn in H1, H0. fold sl' in H1.
    destruct (Nat.eqb (o_bond old) b), (Nat.eqb (o_bond o) b); cbn in H1, H0; lia.
Qed.
End QuickInstall.

(* ------------------------------------------------------------------ *)
(* advancing the cursor                                                *)
Lemma wf_slots_set_nth nv nb sl p x :
  wf_slots nv nb sl -> (forall o, x = Some o -> wf_op nv nb o) -> wf_slots nv nb (set_nth sl p x).
Proof.
  intros Hwf Hx q o Hq. rewrite nth_error_set_nth in Hq. destruct (Nat.eqb p q).
  - destruct (nth_error sl q); cbn in Hq; inversion Hq. now apply Hx.
  - eapply Hwf; eauto.
Qed.

Theorem advance_refines nv nb sl p :
  wf_slots nv nb sl -> advance (build nv nb sl) p (scan_cursor nv sl p) = scan_cursor nv sl (S p).
Proof.
  intros Hwf. unfold advance. destruct (nth_error sl p) as [[o|]|] eqn:Hp.
  - rewrite (build_node_at nv nb sl p o Hp). cbn [n_op build_node].
    destruct (Hwf p o Hp) as (Hnd & Hlt & _).
    unfold scan_cursor. f_equal.
    + symmetry. apply (nav_p_eq false). apply (C_hit idk p (Mocc sl) p (Mocc_at _ _ _ Hp) eq_refl (Mocc_inj sl)).
    + cbn [a_last]. apply list_ext. intros v'.
      rewrite (fold_enum_pointwise
                 (fun l (rv : nat * nat) => let '(relv, v) := rv in set_nth l v (Some (p, relv)))
                 (fun relv v _ => Some (p, relv))
                 (fun l relv v v' => nth_error_set_nth l v v' (Some (p, relv))) (o_vars o) Hnd).
      rewrite !nth_error_map_seq.
      destruct (Nat.ltb_spec v' nv) as [Hv|Hv].
      * destruct (index_of v' (o_vars o)) as [relv|] eqn:Ei; cbn [option_map]; f_equal; symmetry.
        -- apply (nav_v_eq false). apply (C_hit fst p (Mvar sl v') (p, relv)); [|reflexivity|apply Mvar_inj].
           eapply Mvar_at; eauto.
        -- apply (nav_v_eq false). apply (C_miss fst p); [|apply (nav_v_spec false)].
           apply Mvar_empty. intros o' Ho'. assert (o' = o) by congruence. subst o'. now apply index_of_none.
      * destruct (index_of v' (o_vars o)); reflexivity.
  - rewrite build_node_at_none by (intros o Ho; congruence).
    unfold scan_cursor. f_equal.
    + symmetry. apply (nav_p_eq false). apply (C_miss idk p); [|apply (nav_p_spec false)].
      apply Mocc_empty. intros o Ho. congruence.
    + apply map_ext. intros v. symmetry. apply (nav_v_eq false). apply (C_miss fst p); [|apply (nav_v_spec false)].
      apply Mvar_empty. intros o Ho. congruence.
  - rewrite build_node_at_none by (intros o Ho; congruence).
    unfold scan_cursor. f_equal.
    + symmetry. apply (nav_p_eq false). apply (C_miss idk p); [|apply (nav_p_spec false)].
      apply Mocc_empty. intros o Ho. congruence.
    + apply map_ext. intros v. symmetry. apply (nav_v_eq false). apply (C_miss fst p); [|apply (nav_v_spec false)].
      apply Mvar_empty. intros o Ho. congruence.
Qed.

(* ------------------------------------------------------------------ *)
(* the main theorem                                                    *)
Lemma take_empty nv nb sl p :
  nth_error sl p = Some None ->
  set_ops (build nv nb sl) (set_nth (f_ops (build nv nb sl)) p None) = build nv nb sl.
Proof.
  intros Hp. unfold set_ops. rewrite set_nth_same; [reflexivity|]. now rewrite build_nth, Hp.
Qed.

(* the structure component, case by case *)
Theorem mutate_p_refines_noop nv nb sl p :
  fst (mutate_p (build nv nb sl) p None (scan_cursor nv sl p)) = build nv nb sl.
Proof. reflexivity. Qed.

Theorem mutate_p_refines_same_vars nv nb sl p old o :
  nth_error sl p = Some (Some old) -> o_vars old = o_vars o ->
  fst (mutate_p (build nv nb sl) p (Some (Some o)) (scan_cursor nv sl p)) = build nv nb (set_nth sl p (Some o)).
Proof.
  intros Hp Hv. unfold mutate_p. cbn [fst]. rewrite (build_node_at nv nb sl p old Hp). cbn [n_op build_node].
  replace (nats_eqb (o_vars old) (o_vars o)) with true by (symmetry; now apply nats_eqb_eq).
  now apply quick_install_refines.
Qed.

Theorem mutate_p_refines_remove nv nb sl p old :
  wf_slots nv nb sl -> nth_error sl p = Some (Some old) ->
  fst (mutate_p (build nv nb sl) p (Some None) (scan_cursor nv sl p)) = build nv nb (set_nth sl p None).
Proof.
  intros Hwf Hp. unfold mutate_p. cbn [fst]. rewrite (build_node_at nv nb sl p old Hp).
  now apply uninstall_refines.
Qed.

Theorem mutate_p_refines_insert_into_empty nv nb sl p o :
  wf_slots nv nb sl -> wf_op nv nb o -> nth_error sl p = Some None ->
  fst (mutate_p (build nv nb sl) p (Some (Some o)) (scan_cursor nv sl p)) = build nv nb (set_nth sl p (Some o)).
Proof.
  intros Hwf Hwo Hp. unfold mutate_p. cbn [fst].
  rewrite build_node_at_none by (intros o' Ho'; congruence). rewrite (take_empty nv nb sl p Hp).
  now apply install_refines.
Qed.

Theorem mutate_p_refines_replace_diff_vars nv nb sl p old o :
  wf_slots nv nb sl -> wf_op nv nb o -> nth_error sl p = Some (Some old) -> o_vars old <> o_vars o ->
  fst (mutate_p (build nv nb sl) p (Some (Some o)) (scan_cursor nv sl p)) = build nv nb (set_nth sl p (Some o)).
Proof.
  intros Hwf Hwo Hp Hv. unfold mutate_p. cbn [fst]. rewrite (build_node_at nv nb sl p old Hp). cbn [n_op build_node].
  destruct (nats_eqb (o_vars old) (o_vars o)) eqn:E; [apply nats_eqb_eq in E; contradiction|].
  rewrite (uninstall_refines nv nb sl p old Hwf Hp).
  rewrite <- (scan_cursor_set_nth nv sl p None).
  assert (Hlt : p < length sl) by (apply nth_error_Some; congruence).
  rewrite install_refines.
  - now rewrite set_nth_set_nth.
  - apply wf_slots_set_nth; [exact Hwf|discriminate].
  - exact Hwo.
  - now apply nth_error_set_nth_eq.
Qed.

Theorem mutate_p_refines_remove_empty nv nb sl p :
  nth_error sl p = Some None ->
  fst (mutate_p (build nv nb sl) p (Some None) (scan_cursor nv sl p)) = build nv nb (set_nth sl p None).
Proof.
  intros Hp. unfold mutate_p. cbn [fst].
  rewrite build_node_at_none by (intros o' Ho'; congruence). rewrite (take_empty nv nb sl p Hp).
  now rewrite (set_nth_same sl p None Hp).
Qed.

Lemma wf_slots_apply_dec nv nb sl p dec :
  wf_slots nv nb sl -> wf_decision nv nb dec -> wf_slots nv nb (apply_dec sl p dec).
Proof.
  intros Hwf Hd. destruct dec as [x|]; [|exact Hwf]. cbn [apply_dec]. apply wf_slots_set_nth; [exact Hwf|].
  intros o ->. exact Hd.
Qed.

Lemma scan_cursor_apply_dec nv sl p dec : scan_cursor nv (apply_dec sl p dec) p = scan_cursor nv sl p.
Proof. destruct dec; [apply scan_cursor_set_nth|reflexivity]. Qed.

Theorem mutate_p_fst_refines nv nb sl p dec :
  p < length sl -> wf_decision nv nb dec -> wf_slots nv nb sl ->
  fst (mutate_p (build nv nb sl) p dec (scan_cursor nv sl p)) = build nv nb (apply_dec sl p dec).
Proof.
  intros Hlt Hd Hwf. destruct dec as [[o|]|]; cbn [apply_dec].
  - destruct (nth_error sl p) as [[old|]|] eqn:Hp.
    + destruct (list_eq_dec Nat.eq_dec (o_vars old) (o_vars o)) as [E|E].
      * now apply mutate_p_refines_same_vars with (old := old).
      * now apply mutate_p_refines_replace_diff_vars with (old := old).
    + now apply mutate_p_refines_insert_into_empty.
    + apply nth_error_None in Hp. lia.
  - destruct (nth_error sl p) as [[old|]|] eqn:Hp.
    + now apply mutate_p_refines_remove with (old := old).
    + now apply mutate_p_refines_remove_empty.
    + apply nth_error_None in Hp. lia.
  - apply mutate_p_refines_noop.
Qed.

Theorem mutate_p_refines : forall nvars nb sl p dec,
  p < length sl -> wf_decision nvars nb dec -> wf_slots nvars nb sl ->
  mutate_p (build nvars nb sl) p dec (scan_cursor nvars sl p)
  = (build nvars nb (apply_dec sl p dec), scan_cursor nvars (apply_dec sl p dec) (S p)).
Proof.
  intros nv nb sl p dec Hlt Hd Hwf.
  pose proof (mutate_p_fst_refines nv nb sl p dec Hlt Hd Hwf) as H1.
  assert (H2 : snd (mutate_p (build nv nb sl) p dec (scan_cursor nv sl p))
               = advance (fst (mutate_p (build nv nb sl) p dec (scan_cursor nv sl p))) p (scan_cursor nv sl p))
    by reflexivity.
  rewrite H1 in H2. rewrite <- (scan_cursor_apply_dec nv sl p dec) in H2 at 2.
  rewrite advance_refines in H2 by (now apply wf_slots_apply_dec).
  rewrite (surjective_pairing (mutate_p _ _ _ _)). now rewrite H1, H2.
Qed.

(* ------------------------------------------------------------------ *)
(* a whole sweep (mutate_subsection's fold)                            *)
Lemma apply_dec_length sl p dec : length (apply_dec sl p dec) = length sl.
Proof. destruct dec; [apply length_set_nth|reflexivity]. Qed.

Theorem sweep_refines : forall nvars nb decs sl a,
  a + length decs <= length sl -> Forall (wf_decision nvars nb) decs -> wf_slots nvars nb sl ->
  sweep (build nvars nb sl) (scan_cursor nvars sl a) a decs
  = (build nvars nb (apply_decs sl a decs), scan_cursor nvars (apply_decs sl a decs) (a + length decs)).
Proof.
  intros nv nb decs. induction decs as [|d ds IH]; intros sl a Hlen Hds Hwf; cbn [sweep apply_decs length].
  - now rewrite Nat.add_0_r.
  - inversion Hds as [|? ? Hd Hds']; subst. cbn [length] in Hlen.
    rewrite mutate_p_refines by (auto; lia).
    rewrite IH.
    + now rewrite Nat.add_succ_r.
    + rewrite apply_dec_length. lia.
    + exact Hds'.
    + now apply wf_slots_apply_dec.
Qed.

(* the linked structure always equals what a scan of its own contents yields *)
Lemma contents_build nv nb sl : contents (build nv nb sl) = sl.
Proof.
  unfold contents. apply list_ext. intros q. rewrite nth_error_map, build_nth.
  destruct (nth_error sl q) as [[o|]|]; reflexivity.
Qed.

Corollary sweep_invariant nvars nb decs sl a :
  a + length decs <= length sl -> Forall (wf_decision nvars nb) decs -> wf_slots nvars nb sl ->
  let F := fst (sweep (build nvars nb sl) (scan_cursor nvars sl a) a decs) in
  contents F = apply_decs sl a decs /\ F = build nvars nb (contents F).
Proof.
  intros H1 H2 H3. cbn zeta. rewrite sweep_refines by assumption. cbn [fst].
  rewrite contents_build. split; reflexivity.
Qed.

(* ------------------------------------------------------------------ *)
(* the two other ways the structure changes around a sweep: creation and growth *)
Lemma map_const_seq {A} (c : A) n : forall a, map (fun _ => c) (seq a n) = repeat c n.
Proof. induction n as [|n IH]; intros a; cbn; [reflexivity|]. now rewrite IH. Qed.

Theorem new_fops_is_build nvars nb : new_fops nvars nb = build nvars nb [].
Proof.
  unfold new_fops, build. cbn [enumerate length seq combine map count_ops filter].
  f_equal.
  - symmetry. apply (map_const_seq None nvars 0).
  - destruct nb as [n|]; [|reflexivity]. cbn [option_map]. f_equal. symmetry. apply (map_const_seq 0 n 0).
Qed.

Section Resize.
Variables (nv : nat) (nb : option nat) (sl : slots) (k : nat).
Let sl' := sl ++ repeat None k.

Lemma rs_nth q o : nth_error sl' q = Some (Some o) <-> nth_error sl q = Some (Some o).
Proof.
  unfold sl'. destruct (Nat.lt_ge_cases q (length sl)) as [H|H].
  - now rewrite nth_error_app1.
  - rewrite nth_error_app2 by exact H. rewrite (proj2 (nth_error_None sl q) H). split; [|discriminate].
    intros E. apply nth_error_In in E. apply repeat_spec in E. discriminate.
Qed.

Lemma rs_Mvar v x : Mvar sl v x <-> Mvar sl' v x.
Proof. unfold Mvar. split; intros (o & Ho & Hi); exists o; (split; [now apply rs_nth|exact Hi]). Qed.
Lemma rs_Mocc x : Mocc sl x <-> Mocc sl' x.
Proof. unfold Mocc. split; intros (o & Ho); exists o; now apply rs_nth. Qed.

Lemma rs_nav_v d q v : nav_v d sl' q v = nav_v d sl q v.
Proof. apply nav_v_eq. eapply is_nb_equiv; [apply rs_Mvar|apply nav_v_spec]. Qed.
Lemma rs_end_v d v : end_v d sl' v = end_v d sl v.
Proof. apply end_v_eq. eapply is_end_equiv; [apply rs_Mvar|apply end_v_spec]. Qed.
Lemma rs_nav_p d q : nav_p d sl' q = nav_p d sl q.
Proof. apply nav_p_eq. eapply is_nb_equiv; [apply rs_Mocc|apply nav_p_spec]. Qed.
Lemma rs_end_p d : end_p d sl' = end_p d sl.
Proof. apply end_p_eq. eapply is_end_equiv; [apply rs_Mocc|apply end_p_spec]. Qed.

Lemma rs_build_node q x : build_node sl' q x = build_node sl q x.
Proof.
  unfold build_node. f_equal.
  - apply (rs_nav_p false q).
  - apply (rs_nav_p true q).
  - apply map_ext. intros v. apply (rs_nav_v false q v).
  - apply map_ext. intros v. apply (rs_nav_v true q v).
Qed.

Lemma nth_error_repeat {A} (c : A) n i : nth_error (repeat c n) i = if Nat.ltb i n then Some c else None.
Proof.
  revert i. induction n as [|n IH]; intros [|i]; cbn [repeat nth_error]; auto.
  rewrite IH. reflexivity.
Qed.

Lemma filter_repeat_none {A} (f : option A -> bool) n : f None = false -> filter f (repeat None n) = [].
Proof. intros H. induction n as [|n IH]; cbn; [reflexivity|]. now rewrite H. Qed.

Theorem build_grow :
  set_ops (build nv nb sl) (f_ops (build nv nb sl) ++ repeat None k) = build nv nb (sl ++ repeat None k).
Proof.
  fold sl'. apply fops_ext; unfold set_ops; cbn [f_ops f_n f_ends f_var_ends f_counters].
  - apply list_ext. intros q. rewrite build_nth. unfold sl' at 2.
    destruct (Nat.lt_ge_cases q (length sl)) as [H|H].
    + rewrite !nth_error_app1 by (try rewrite build_length; exact H). rewrite build_nth.
      destruct (nth_error sl q) as [[x|]|]; cbn; auto. now rewrite rs_build_node.
    + rewrite !nth_error_app2 by (try rewrite build_length; exact H). rewrite build_length.
      rewrite !nth_error_repeat. destruct (Nat.ltb (q - length sl) k); reflexivity.
  - unfold build, count_ops. cbn [f_n]. unfold sl'. rewrite filter_app, app_length.
    rewrite filter_repeat_none by reflexivity. cbn. lia.
  - unfold build. cbn [f_ends]. change (first_p sl) with (end_p true sl). change (last_p sl) with (end_p false sl).
    change (first_p sl') with (end_p true sl'). change (last_p sl') with (end_p false sl'). now rewrite !rs_end_p.
  - unfold build. cbn [f_var_ends]. apply map_ext. intros v.
    change (first_for_var sl v) with (end_v true sl v). change (last_for_var sl v) with (end_v false sl v).
    change (first_for_var sl' v) with (end_v true sl' v). change (last_for_var sl' v) with (end_v false sl' v).
    now rewrite !rs_end_v.
  - unfold build. cbn [f_counters]. destruct nb as [n|]; [|reflexivity]. cbn [option_map]. f_equal.
    apply map_ext. intros b. unfold count_bond, sl'. rewrite filter_app, app_length.
    rewrite filter_repeat_none by reflexivity. cbn. lia.
Qed.

Theorem scan_cursor_grow p : scan_cursor nv (sl ++ repeat None k) p = scan_cursor nv sl p.
Proof.
  fold sl'. unfold scan_cursor. f_equal; [apply (rs_nav_p false p)|].
  apply map_ext. intros v. apply (rs_nav_v false p v).
Qed.
End Resize.

Theorem resize_refines nv nb sl pend :
  resize_ops (build nv nb sl) pend = build nv nb (sl ++ repeat None (pend - length sl)).
Proof.
  unfold resize_ops. rewrite build_length. destruct (Nat.ltb_spec (length sl) pend) as [H|H].
  - apply build_grow.
  - replace (pend - length sl) with 0 by lia. cbn [repeat]. now rewrite app_nil_r.
Qed.

(* ------------------------------------------------------------------ *)
(* the cursor/node agreement that mutate_p checks with debug_assert_eq! before unlinking:
   args.last_p == node.previous_p and (last_vars[v], last_rels[v]) == node.previous_for_vars[relv] *)
Theorem cursor_matches_node nv nb sl p old :
  wf_slots nv nb sl -> nth_error sl p = Some (Some old) ->
  let a := scan_cursor nv sl p in
  let nd := build_node sl p old in
  a_last_p a = n_prev nd
  /\ forall relv v, nth_error (o_vars old) relv = Some v ->
       nth v (a_last a) None = nth relv (n_prev_v nd) None.
Proof.
  intros Hwf Hp. cbn zeta. split; [reflexivity|]. intros relv v Hv.
  destruct (Hwf p old Hp) as (_ & Hlt & _).
  rewrite cursor_last by (apply Hlt; eapply nth_error_In; eauto).
  unfold build_node. cbn [n_prev_v]. symmetry.
  exact (nth_map_some (prev_for_var sl p) (o_vars old) relv v Hv).
Qed.
