(* Facts about the scan-based navigation specification (C11): what "scanning the slots
   directly" yields is a coherent interface. *)
From Coq Require Import List Bool Arith Lia Sorted.
From QmcV Require Import Model.Sse Model.Nav.
Import ListNotations.

(* ---------------- occupied positions ---------------- *)
Lemma occupied_from_spec {A} (sl : list (option A)) : forall k p,
  In p (g_occupied_from k sl) <-> (k <= p /\ exists o, nth_error sl (p - k) = Some (Some o)).
Proof.
  induction sl as [|s sl IH]; intros k p; cbn [g_occupied_from].
  - split; [intros []|]. intros [_ [o H]]. destruct (p - k); discriminate.
  - destruct s as [a|].
    + cbn [In]. rewrite IH. split.
      * intros [<-|[Hk [o Ho]]].
        -- split; [lia|]. exists a. now rewrite Nat.sub_diag.
        -- split; [lia|]. exists o. replace (p - k) with (S (p - S k)) by lia. exact Ho.
      * intros [Hk [o Ho]]. destruct (Nat.eq_dec k p) as [->|Hne]; [now left|right].
        split; [lia|]. exists o. replace (p - k) with (S (p - S k)) in Ho by lia. exact Ho.
    + rewrite IH. split.
      * intros [Hk [o Ho]]. split; [lia|]. exists o. replace (p - k) with (S (p - S k)) by lia. exact Ho.
      * intros [Hk [o Ho]]. destruct (Nat.eq_dec k p) as [->|Hne].
        -- rewrite Nat.sub_diag in Ho. discriminate.
        -- split; [lia|]. exists o. replace (p - k) with (S (p - S k)) in Ho by lia. exact Ho.
Qed.

(* a position is listed iff its slot holds an operator *)
Theorem occupied_spec (sl : slots) p : In p (occupied sl) <-> exists o, get_op sl p = Some o.
Proof.
  unfold occupied, g_occupied, get_op, g_get. rewrite occupied_from_spec. rewrite Nat.sub_0_r. split.
  - intros [_ [o Ho]]. exists o. now rewrite Ho.
  - intros [o Ho]. split; [lia|]. destruct (nth_error sl p) as [[x|]|]; try discriminate. now exists x.
Qed.

Lemma occupied_from_sorted {A} (sl : list (option A)) : forall k,
  StronglySorted lt (g_occupied_from k sl).
Proof.
  induction sl as [|s sl IH]; intros k; cbn [g_occupied_from]; [constructor|].
  destruct s; [|apply IH]. constructor; [apply IH|].
  apply Forall_forall. intros q Hq. apply occupied_from_spec in Hq. lia.
Qed.

(* positions are listed in strictly increasing imaginary-time order *)
Theorem occupied_sorted (sl : slots) : StronglySorted lt (occupied sl).
Proof. apply occupied_from_sorted. Qed.

Lemma occupied_from_length {A} (sl : list (option A)) : forall k,
  length (g_occupied_from k sl)
  = length (filter (fun s => match s with Some _ => true | None => false end) sl).
Proof.
  induction sl as [|s sl IH]; intros k; cbn [g_occupied_from filter]; [reflexivity|].
  destruct s; cbn [length]; now rewrite IH.
Qed.

(* the operator count is the number of occupied positions *)
Theorem count_is_occupied (sl : slots) : count_ops sl = length (occupied sl).
Proof. unfold count_ops, occupied, g_occupied. now rewrite occupied_from_length. Qed.

(* first / last occupied positions are the extremes *)
Theorem first_p_min (sl : slots) p : first_p sl = Some p -> In p (occupied sl) /\ forall q, In q (occupied sl) -> p <= q.
Proof.
  unfold first_p, g_first_p. fold (occupied sl). pose proof (occupied_sorted sl) as Hs.
  destruct (occupied sl) as [|x l]; cbn [hd_error]; intros H; inversion H; subst.
  split; [now left|]. intros q [<-|Hq]; [lia|].
  inversion Hs as [|? ? _ Hall]; subst. rewrite Forall_forall in Hall. specialize (Hall q Hq). lia.
Qed.

Lemma sorted_last_max l : StronglySorted lt l -> forall p, hd_error (rev l) = Some p ->
  In p l /\ forall q, In q l -> q <= p.
Proof.
  induction 1 as [|x l Hs IH Hall]; intros p Hp; [discriminate|].
  cbn [rev] in Hp. destruct (rev l) as [|y r] eqn:Er.
  - cbn in Hp. inversion Hp; subst. assert (l = []) by (apply (f_equal (@rev nat)) in Er; rewrite rev_involutive in Er; exact Er).
    subst. split; [now left|]. intros q [<-|[]]. lia.
  - cbn [app hd_error] in Hp. inversion Hp; subst.
    destruct (IH p) as [Hin Hmax]; [reflexivity|]. split; [now right|].
    intros q [<-|Hq]; [|now apply Hmax]. rewrite Forall_forall in Hall. specialize (Hall p Hin). lia.
Qed.

Theorem last_p_max (sl : slots) p : last_p sl = Some p -> In p (occupied sl) /\ forall q, In q (occupied sl) -> q <= p.
Proof. unfold last_p, g_last_p. apply sorted_last_max. apply occupied_sorted. Qed.

(* ---------------- per-bond counts ---------------- *)
Lemma count_bond_cons b s sl :
  count_bond b (s :: sl) = (match s with Some o => if Nat.eqb (o_bond o) b then 1 else 0 | None => 0 end) + count_bond b sl.
Proof. unfold count_bond. cbn [filter]. destruct s as [o|]; [destruct (Nat.eqb (o_bond o) b)|]; reflexivity. Qed.

Fixpoint sum_counts (nb : nat) (sl : slots) : nat :=
  match nb with O => 0 | S k => sum_counts k sl + count_bond k sl end.

Lemma sum_counts_cons nb s sl :
  sum_counts nb (s :: sl)
  = (match s with Some o => if Nat.ltb (o_bond o) nb then 1 else 0 | None => 0 end) + sum_counts nb sl.
Proof.
  induction nb as [|k IH]; cbn [sum_counts].
  - destruct s as [o|]; [replace (Nat.ltb (o_bond o) 0) with false by (symmetry; apply Nat.ltb_ge; lia)|]; reflexivity.
  - rewrite IH, count_bond_cons. destruct s as [o|]; [|lia].
    destruct (Nat.eqb_spec (o_bond o) k) as [E|E].
    + replace (Nat.ltb (o_bond o) k) with false by (symmetry; apply Nat.ltb_ge; lia).
      replace (Nat.ltb (o_bond o) (S k)) with true by (symmetry; apply Nat.ltb_lt; lia). lia.
    + destruct (Nat.ltb (o_bond o) k) eqn:E1.
      * apply Nat.ltb_lt in E1. replace (Nat.ltb (o_bond o) (S k)) with true by (symmetry; apply Nat.ltb_lt; lia). lia.
      * apply Nat.ltb_ge in E1. replace (Nat.ltb (o_bond o) (S k)) with false by (symmetry; apply Nat.ltb_ge; lia). lia.
Qed.

(* the per-bond counts add up to the operator count when every stored bond index is valid *)
Theorem bond_counts_total nb (sl : slots) :
  (forall o, In (Some o) sl -> o_bond o < nb) -> sum_counts nb sl = count_ops sl.
Proof.
  induction sl as [|s sl IH]; intros Hb.
  - clear Hb. induction nb as [|k IHk]; cbn [sum_counts]; [reflexivity|]. rewrite IHk. reflexivity.
  - rewrite sum_counts_cons, IH by (intros; apply Hb; now right).
    unfold count_ops. cbn [filter]. destruct s as [o|]; [|reflexivity].
    replace (Nat.ltb (o_bond o) nb) with true by (symmetry; apply Nat.ltb_lt; apply Hb; now left). reflexivity.
Qed.

(* ---------------- 'variable has operators' ---------------- *)
Lemma index_of_some_in v vs k : index_of v vs = Some k -> In v vs.
Proof.
  revert k. induction vs as [|x vs IH]; intros k H; cbn [index_of] in H; [discriminate|].
  destruct (Nat.eqb_spec x v) as [->|]; [now left|].
  destruct (index_of v vs) eqn:E; [|discriminate]. right. eapply IH. reflexivity.
Qed.

Lemma index_of_in_some v vs : In v vs -> exists k, index_of v vs = Some k.
Proof.
  induction vs as [|x vs IH]; intros H; [contradiction|]. cbn [index_of].
  destruct (Nat.eqb_spec x v) as [->|Hne]; [eauto|].
  destruct H as [->|H]; [congruence|]. destruct (IH H) as [k ->]. cbn [option_map]. eauto.
Qed.

Lemma ops_on_var_from_nonempty (sl : slots) v : forall k,
  g_ops_on_var_from o_vars k sl v <> [] <-> exists o, In (Some o) sl /\ In v (o_vars o).
Proof.
  induction sl as [|s sl IH]; intros k; cbn [g_ops_on_var_from].
  - split; [congruence|]. intros [o [[] _]].
  - destruct s as [a|].
    + destruct (index_of v (o_vars a)) eqn:E.
      * split; [intros _|discriminate]. exists a. split; [now left|]. eapply index_of_some_in; eauto.
      * rewrite IH. split.
        -- intros [o [Hin Hv]]. exists o. split; [now right|exact Hv].
        -- intros [o [[Hin|Hin] Hv]].
           ++ inversion Hin; subst. destruct (index_of_in_some v (o_vars o) Hv) as [k' Hk]. congruence.
           ++ exists o. split; assumption.
    + rewrite IH. split.
      * intros [o [Hin Hv]]. exists o. split; [now right|exact Hv].
      * intros [o [[Hin|Hin] Hv]]; [discriminate|]. exists o. split; assumption.
Qed.

(* the answer is true exactly when some stored operator acts on the variable *)
Theorem var_has_ops_spec (sl : slots) v :
  var_has_ops sl v = true <-> exists o, In (Some o) sl /\ In v (o_vars o).
Proof.
  unfold var_has_ops, g_var_has_ops, g_ops_on_var. rewrite <- (ops_on_var_from_nonempty sl v 0).
  destruct (g_ops_on_var_from o_vars 0 sl v); split; congruence.
Qed.
